----------------------------- MODULE DhcpTrace -----------------------------
(* Trace validation of executions of the real dhcp4_spoofer.Handler (driver harness/cmd/dhcpdrv)
   against Dhcp.tla.
   Mode "M" (mechanism): every logged step must be the step Dhcp.tla takes: the logged replies,
     lease table, cursors, session projection and lease file must equal the specification's.
   Mode "P" (property): the mechanism variables are adopted from the log; only the property level
     (acked, obs, verdict) is computed, from the logged arguments, the session's answers and the
     observed replies.
   In both modes the property guards are evaluated on every reply (CONSTRAINT Props): a failed guard
   whose key <guard>:<cause> is in Tolerate (the open known findings) is recorded in register KF and
   the validation goes on; any other failure is recorded in register VI and stops the validation.
   Many behaviours are concatenated; a "reset" line starts the next one. *)
EXTENDS Dhcp, Json

CONSTANTS TMode, TraceFile, Check, Tolerate
VARIABLE l
tvars == <<lease, next, file, replies, hosts, ment, acked, obs, verdict, l>>

Trace == ndJsonDeserialize(TraceFile)
HW == 1                                  \* TLC register: highest line consumed
VI == 2                                  \* TLC register: first untolerated property failure <<line, keys>>
KF == 3                                  \* TLC register: set of <<line, key>> of tolerated failures
E == Trace[l]

Has(L, P(_)) == \E i \in 1..Len(L) : P(L[i])
Pick(L, P(_)) == L[CHOOSE i \in 1..Len(L) : P(L[i])]

LLease(L) == [j \in CIDs |->
   IF \E i \in 1..Len(L) : L[i].k = j
   THEN LET e == L[CHOOSE i \in 1..Len(L) : L[i].k = j]
        IN [st |-> e.st, mac |-> e.mac, ip |-> e.ip, offer |-> e.offer, xid |-> e.xid, net |-> e.net, exp |-> e.exp]
   ELSE Nil]
LHosts(L) == [a \in Tracked |-> IF \E i \in 1..Len(L) : L[i].a = a THEN L[CHOOSE i \in 1..Len(L) : L[i].a = a].m ELSE NoMac]
LMent(L)  == [m \in AllMacs |->
   IF \E i \in 1..Len(L) : L[i].m = m
   THEN LET e == L[CHOOSE i \in 1..Len(L) : L[i].m = m] IN [cap |-> e.cap, offer |-> e.offer]
   ELSE Nil]
LFile(L)  == {[k |-> L[i].k, mac |-> L[i].mac, ip |-> L[i].ip, xid |-> L[i].xid, cur |-> L[i].cur] : i \in 1..Len(L)}
LReplies(L) == [i \in 1..Len(L) |-> [t |-> L[i].t, mac |-> L[i].mac, xid |-> L[i].xid, yi |-> L[i].yi, mask |-> L[i].mask,
                                     router |-> L[i].router, dns |-> L[i].dns, sid |-> L[i].sid, lt |-> L[i].lt, mbr |-> L[i].mbr]]

\* everything logged must be inside the universe and without duplicates (mechanism mode)
LogInUniverse ==
  /\ \A i \in 1..Len(E.leases) : E.leases[i].k \in CIDs /\ E.leases[i].mac \in MACs /\ E.leases[i].xid \in XIDs \cup {NoX}
  /\ \A i, j \in 1..Len(E.leases) : i # j => E.leases[i].k # E.leases[j].k
  /\ \A i \in 1..Len(E.hosts) : E.hosts[i].a \in Tracked /\ E.hosts[i].m \in AllMacs
  /\ \A i \in 1..Len(E.ment) : E.ment[i].m \in AllMacs
  /\ \A i, j \in 1..Len(E.file) : i # j => E.file[i].k # E.file[j].k
  /\ Len(E.file) = Cardinality(LFile(E.file))

Post == /\ lease' = LLease(E.leases) /\ next' = [n \in {1, 2} |-> E.next[n]] /\ file' = LFile(E.file)
        /\ replies' = LReplies(E.replies) /\ hosts' = LHosts(E.hosts) /\ ment' = LMent(E.ment)

IsEvent(a) == l <= Len(Trace) /\ E.a = a /\ l' = l + 1 /\ ~("panic" \in DOMAIN E)

\* Do(mm, rr): mechanism mode checks mm against the logged post-state; property mode adopts the log.
\* mm (or Post) comes first: the property part reads replies'.
Do(mm, rr) == IF TMode = "M" THEN mm /\ Post /\ LogInUniverse /\ E.err = "" /\ rr
              ELSE Post /\ rr

InitProp == /\ acked' = [j \in CIDs |-> Nil] /\ obs' = [j \in CIDs |-> NoObs] /\ verdict' = {}

TReset == /\ IsEvent("reset")
          /\ E.mode = Mode /\ E.shape.N1 = N1 /\ E.shape.Net2Lo = Net2Lo /\ E.shape.Net2Hi = Net2Hi
          /\ E.shape.HostA = HostA /\ E.shape.RouterA = RouterA
          /\ Post /\ InitProp
          /\ (TMode = "M" => /\ lease' = [j \in CIDs |-> Nil] /\ next' = [n \in {1, 2} |-> First(n)]
                             /\ file' = {} /\ replies' = <<>> /\ hosts' = InitHosts /\ ment' = InitMent)

TDiscover == IsEvent("discover") /\ Do(DiscoverM(E.k, E.m, E.req, E.xid, E.prl), DiscoverR(E.k, E.m, E.req, E.xid, E.prl))
TRequest  == IsEvent("request") /\ Do(RequestM(E.k, E.m, E.sid, E.ropt, E.ci, E.src, E.xid, E.prl),
                                      RequestR(E.k, E.m, E.sid, E.ropt, E.ci, E.src, E.xid, E.prl))
TDecline  == IsEvent("decline") /\ Do(DeclineM(E.k, E.m, E.ropt, E.sid), DeclineR(E.k, E.m, E.ropt, E.sid))
TRelease  == IsEvent("release") /\ Do(ReleaseMsgM(E.k, E.m, E.ci, E.sid), ReleaseMsgR(E.k, E.m, E.ci, E.sid))
TCapture  == IsEvent("capture") /\ Do(CaptureM(E.m), PropIdle)
TUncapture == IsEvent("uncapture") /\ Do(ReleaseCaptureM(E.m), PropIdle)
TTick     == IsEvent("tick") /\ Do(TickM(E.far), PropTick(E.far))
TForeign  == IsEvent("foreign") /\ Do(IF E.ip \in Net1 THEN ForeignTrafficM(E.m, E.ip)     \* a source outside the LAN is not tracked
                                       ELSE Quiet /\ UNCHANGED <<lease, next, file, hosts, ment>>, PropIdle)
TPurge    == IsEvent("purge") /\ Do(PurgeHostsM, PropIdle)
TRestart  == IsEvent("restart") /\ Do(RestartM, RestartR)
TReload   == IsEvent("reload") /\ Do(ReloadM, ReloadR)
TReconf   == IsEvent("reconf") /\ Do(ReconfM, ReconfR)
TAge      == IsEvent("age") /\ Do(AgeM, AgeR)
TSpawn    == IsEvent("spawn") /\ Do(SpawnM, SpawnR)
TCloseOld == IsEvent("closeold") /\ Do(CloseOldM, CloseOldR)

\* the library panicked inside this step (reported by the check itself); the driver abandons the
\* behaviour, the next line is a reset
TPanic == /\ l <= Len(Trace) /\ "panic" \in DOMAIN E /\ l' = l + 1
          /\ UNCHANGED <<lease, next, file, replies, hosts, ment, acked, obs>> /\ verdict' = {}

TraceInit == /\ l = 1 /\ TLCSet(HW, 0) /\ TLCSet(VI, <<>>) /\ TLCSet(KF, {})
             /\ lease = [j \in CIDs |-> Nil] /\ next = [n \in {1, 2} |-> First(n)] /\ file = {} /\ replies = <<>>
             /\ hosts = InitHosts /\ ment = InitMent
             /\ acked = [j \in CIDs |-> Nil] /\ obs = [j \in CIDs |-> NoObs] /\ verdict = {}

TraceNext == \/ TPanic \/ TReset \/ TDiscover \/ TRequest \/ TDecline \/ TRelease \/ TCapture \/ TUncapture
             \/ TTick \/ TForeign \/ TPurge \/ TRestart \/ TReload \/ TReconf \/ TAge \/ TSpawn \/ TCloseOld

TraceSpec == TraceInit /\ [][TraceNext]_tvars

Mark == TLCSet(HW, IF l - 1 > TLCGet(HW) THEN l - 1 ELSE TLCGet(HW))   \* CONSTRAINT, always TRUE

\* ---- property-level verdict of the line just consumed (CONSTRAINT)
Key(f) == f.g \o ":" \o f.c
Mine  == {f \in verdict : Family(f.g) \in Check}
Props == IF l = 1 \/ Mine = {} THEN TRUE
         ELSE IF \A f \in Mine : Key(f) \in Tolerate
         THEN TLCSet(KF, TLCGet(KF) \cup {<<l - 1, Key(f)>> : f \in Mine})
         ELSE TLCSet(VI, <<l - 1, {Key(f) : f \in {x \in Mine : Key(x) \notin Tolerate}}>>) /\ FALSE

TraceAccepted ==
  /\ PrintT(<<"KNOWN", ToJson(TLCGet(KF))>>)
  /\ IF TLCGet(VI) # <<>> THEN Print(<<"PROPERTY", "line", TLCGet(VI)[1], ToJson(TLCGet(VI)[2])>>, FALSE)
     ELSE IF TLCGet(HW) = Len(Trace) THEN Print(<<"ACCEPTED", Len(Trace)>>, TRUE)
     ELSE Print(<<"REJECTED", "line", TLCGet(HW) + 1>>, FALSE)
=============================================================================
