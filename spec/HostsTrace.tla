----------------------------- MODULE HostsTrace -----------------------------
(* Trace validation of executions of the real packet.Session against Hosts.tla.
   Mode "M" (mechanism): every logged step must be the step Hosts.tla takes, and the logged
     tables / notifications must equal the specification's; C04/C05/C06 invariants are
     evaluated on the way (they then speak about the real state).
   Mode "P" (property): the mechanism variables are adopted from the log; only the property
     level (ref, refNames, refLast, expect) is computed, from the logged arguments alone.
   Many behaviours are concatenated; a "reset" line starts the next one. *)
EXTENDS Hosts, Json

CONSTANTS Mode, TraceFile, Check
VARIABLE l
tvars == <<hosts, macs, frame, notes, now, ref, refNames, refLast, expect, l>>

Trace == ndJsonDeserialize(TraceFile)
HW == 1                                  \* TLC register: highest line consumed
VI == 2                                  \* TLC register: first property failure <<line, property>>
E == Trace[l]

SlotNames(r) == TLCEval([s \in Slots |-> IF s \in DOMAIN r THEN r[s] ELSE NoName])
LHosts(L) == [ip \in IPS |->
   IF \E i \in 1..Len(L) : L[i].ip = ip
   THEN LET e == L[CHOOSE i \in 1..Len(L) : L[i].ip = ip]
        IN [mac |-> e.mac, online |-> e.on, dirty |-> e.dirty, seen |-> e.seen, names |-> SlotNames(e.names)]
   ELSE Nil]
LMacs(L) == [mc \in MACS |->
   IF \E i \in 1..Len(L) : L[i].mac = mc
   THEN LET e == L[CHOOSE i \in 1..Len(L) : L[i].mac = mc]
        IN [ip4 |-> e.ip4, online |-> e.on, captured |-> e.cap, router |-> e.rt, offer |-> e.offer,
            names |-> SlotNames(e.names), list |-> e.list]
   ELSE Nil]
LNotes(L) == [i \in 1..Len(L) |-> [ip |-> L[i].ip, mac |-> L[i].mac, online |-> L[i].on, router |-> L[i].rt,
                                   names |-> SlotNames(L[i].names)]]
\* everything logged must be inside the universe (a host under an unknown address is a mismatch)
LogInUniverse == /\ \A i \in 1..Len(E.hosts) : E.hosts[i].ip \in IPS /\ E.hosts[i].mac \in MACS
                 /\ \A i \in 1..Len(E.macs) : E.macs[i].mac \in MACS
LApi == {[mac |-> E.api[i].mac, ip |-> E.api[i].ip, online |-> E.api[i].on] : i \in 1..Len(E.api)}

\* ---- binding of the logged post-state
\* "nd" on a line: the caller does not read Session.C in this behaviour (Notify and C are optional);
\* the notifications are then not observable and not compared
NoDrain == "nd" \in DOMAIN E
PostSeq == /\ hosts' = LHosts(E.hosts) /\ macs' = LMacs(E.macs) /\ (NoDrain \/ notes' = LNotes(E.notes))
PostSet == /\ hosts' = LHosts(E.hosts) /\ macs' = LMacs(E.macs)
           /\ (NoDrain \/ (notes' = Range(LNotes(E.notes)) /\ Cardinality(notes') = Len(E.notes)))
Adopt(isSet) == /\ hosts' = LHosts(E.hosts) /\ macs' = LMacs(E.macs)
                /\ notes' = IF isSet THEN Range(LNotes(E.notes)) ELSE LNotes(E.notes)
                /\ frame' = Nil

IsEvent(a) == l <= Len(Trace) /\ E.a = a /\ l' = l + 1 /\ ~("panic" \in DOMAIN E)
Tracked == Tracks(E.src, E.ip) /\ (E.ip \in IP6 => E.key = E.src)

\* Do(mm, rr, isSet): mechanism mode checks mech and the logged post state; property mode adopts
Do(mm, rr, isSet) ==
  IF Mode = "M" THEN mm /\ rr /\ (IF isSet THEN PostSet ELSE PostSeq) /\ now' = E.now
  ELSE rr /\ Adopt(isSet)

TReset == /\ IsEvent("reset")
          /\ hosts' = LHosts(E.hosts) /\ macs' = LMacs(E.macs)      \* checked against Init below
          /\ frame' = Nil /\ notes' = <<>> /\ now' = 0
          /\ ref' = {[mac |-> Own, ip |-> HostIP, online |-> TRUE, seen |-> Never],
                     [mac |-> Router, ip |-> RouterIP, online |-> TRUE, seen |-> 0]}
          /\ refNames' = [ip \in IPS |-> NoNames] /\ refLast' = [ip \in IPS |-> Nil]
          /\ expect' = [kind |-> "none"]
          /\ (Mode = "M" => /\ hosts' = [ip \in IPS |->
                                 IF ip = HostIP THEN [mac |-> Own, online |-> TRUE, dirty |-> TRUE, seen |-> Never, names |-> NoNames]
                                 ELSE IF ip = RouterIP THEN [mac |-> Router, online |-> TRUE, dirty |-> TRUE, seen |-> 0, names |-> NoNames]
                                 ELSE Nil]
                            /\ macs' = [mc \in MACS |->
                                 IF mc = Own THEN [NewMac EXCEPT !.ip4 = HostIP, !.online = TRUE, !.list = <<HostIP>>]
                                 ELSE IF mc = Router THEN [NewMac EXCEPT !.ip4 = RouterIP, !.online = TRUE, !.router = TRUE, !.list = <<RouterIP>>]
                                 ELSE Nil])

TParse == /\ (IsEvent("ip") \/ IsEvent("arp")) /\ E.err = ""
          /\ IF Tracked THEN Do(ParseM(E.key, E.ip), ParseR(E.key, E.ip), FALSE)
             ELSE Do(UntrackedM, IdleR, FALSE)
TUntracked == /\ IsEvent("untracked") /\ ~("tracked" \in DOMAIN E)
              /\ Do(UntrackedM, IdleR, FALSE)
TDhcpFrame == IsEvent("dhcpframe") /\ E.err = "" /\ Do(ParseDHCPM(E.mac), IdleR, FALSE)
TNotify == IsEvent("notify") /\ Do(NotifyM, IdleR, FALSE)
TDhcpUpd == /\ IsEvent("dhcpupd") /\ E.err = "" /\ (Mode = "M" => NoHostFrame)
            /\ Do(DHCPv4UpdateM(E.mac, E.ip, E.name), DHCPv4UpdateR(E.mac, E.ip, E.name), FALSE)
TOffer == IsEvent("offer") /\ Do(SetOfferM(E.mac, E.ip, E.name), IdleR, FALSE)
TCapture == IsEvent("capture") /\ Do(CaptureM(E.mac), IdleR, FALSE)
TRelease == IsEvent("release") /\ Do(ReleaseM(E.mac), IdleR, FALSE)
TName == /\ IsEvent("name")
         /\ IF "nohost" \in DOMAIN E
            THEN Do(~IsHost(hosts, E.ip) /\ UNCHANGED <<hosts, macs, frame>> /\ notes' = <<>>, IdleR, FALSE)
            ELSE Do(IsHost(hosts, E.ip) /\ NameUpdateM(E.ip, E.slot, E.name), NameUpdateR(E.ip, E.slot, E.name), FALSE)
TAdv == IsEvent("adv") /\ Do(AdvanceM, AdvanceR(E.d), FALSE)
TPurge == IsEvent("purge") /\ Do(PurgeM, PurgeR, TRUE)
TFrameStep == /\ (IsEvent("fip") \/ IsEvent("farp")) /\ E.err = ""
              /\ IF Tracked THEN Do(FrameStepM(E.key, E.ip, E.slot, E.name), SeenStepR(E.key, E.ip, E.slot, E.name), FALSE)
                 ELSE Do(UntrackedM, IdleR, FALSE)
TDhcpAck == /\ IsEvent("dhcpack") /\ E.err = ""
            /\ Do(DhcpAckStepM(E.mac, E.ip, E.name), SeenStepR(E.mac, E.ip, Dhcp, E.name), FALSE)

TraceInit == /\ l = 1 /\ TLCSet(HW, 0) /\ TLCSet(VI, <<>>)
             /\ hosts = [ip \in IPS |-> Nil] /\ macs = [mc \in MACS |-> Nil]
             /\ frame = Nil /\ notes = <<>> /\ now = 0
             /\ ref = {} /\ refNames = [ip \in IPS |-> NoNames] /\ refLast = [ip \in IPS |-> Nil]
             /\ expect = [kind |-> "none"]

\* the library panicked inside this step (reported by the check itself); the driver abandons the
\* behaviour, the next line is a reset
TPanic == /\ l <= Len(Trace) /\ "panic" \in DOMAIN E /\ l' = l + 1
          /\ UNCHANGED <<hosts, macs, frame, notes, now, ref, refNames, refLast, expect>>

TraceNext == \/ TPanic \/ TReset \/ TParse \/ TUntracked \/ TDhcpFrame \/ TNotify \/ TDhcpUpd \/ TOffer
             \/ TCapture \/ TRelease \/ TName \/ TAdv \/ TPurge \/ TFrameStep \/ TDhcpAck

TraceSpec == TraceInit /\ [][TraceNext]_tvars

Mark == TLCSet(HW, IF l - 1 > TLCGet(HW) THEN l - 1 ELSE TLCGet(HW))   \* CONSTRAINT, always TRUE

\* ---- property-level predicates on the state reached after consuming line l-1.
\* They are evaluated from a CONSTRAINT: a failing state is recorded in register VI and pruned, so
\* that TLC stops there without printing a 10^4-state counterexample; the POSTCONDITION reports it.
Started == l > 1
LE == Trace[l - 1]                         \* the line just consumed
LEApi == {[mac |-> LE.api[i].mac, ip |-> LE.api[i].ip, online |-> LE.api[i].on] : i \in 1..Len(LE.api)}
T_C04 == /\ Proj(Visible(hosts)) = Proj(ref)          \* raw tables
         /\ LEApi = Proj(ref)                          \* FindIP / GetHosts / IPAddrs / FindByMAC
         /\ Cardinality(LEApi) = Len(LE.api)
         /\ Visible(hosts) = ref                       \* including the last-seen stamps
T_C05 == /\ \A i \in 1..Len(LE.hosts) : LE.hosts[i].ip \in IPS /\ LE.hosts[i].mac \in MACS
         /\ \A i \in 1..Len(LE.hosts) : LE.hosts[i].amac = LE.hosts[i].mac   \* the host's own MAC equals its entry's address
         /\ \A i \in 1..Len(LE.macs) : LE.macs[i].mac \in MACS
         /\ \A i, j \in 1..Len(LE.macs) : i # j => LE.macs[i].mac # LE.macs[j].mac   \* unique per address
         /\ \A i \in 1..Len(LE.macs) : \A j \in 1..Len(LE.macs[i].list) : LE.macs[i].list[j] \in IPS
         /\ C05_All
T_C06 == "nd" \in DOMAIN LE \/ C06_Exact
Failed == IF "C04" \in Check /\ ~T_C04 THEN "C04"
          ELSE IF "C05" \in Check /\ ~T_C05 THEN "C05"
          ELSE IF "C06" \in Check /\ ~T_C06 THEN "C06"
          ELSE "none"
Props == IF ~Started \/ LE.a = "reset" \/ "panic" \in DOMAIN LE \/ Failed = "none" THEN TRUE
         ELSE TLCSet(VI, <<l - 1, Failed>>) /\ FALSE

TraceAccepted ==
  IF TLCGet(VI) # <<>> THEN Print(<<"PROPERTY", TLCGet(VI)[2], "line", TLCGet(VI)[1]>>, FALSE)
  ELSE IF TLCGet(HW) = Len(Trace) THEN Print(<<"ACCEPTED", Len(Trace)>>, TRUE)
  ELSE Print(<<"REJECTED", "line", TLCGet(HW) + 1>>, FALSE)
=============================================================================
