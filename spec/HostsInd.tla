---------------------------- MODULE HostsInd ----------------------------
(* Inductive-invariant formulation of the table structure of spec/Hosts.tla (C05), for Apalache.
   Abstraction of Hosts.tla: MAC host lists are sets (their order never matters for C05), names /
   dirty flags / stamps are dropped, ageing is an arbitrary choice of hosts (any subset may be stale).
   IndInv is inductive: Init => IndInv and IndInv /\ Next => IndInv', hence C05 holds after
   histories of ANY length over this universe (TLC bounds the depth, Apalache does not). *)
EXTENDS Integers, FiniteSets

CONSTANTS
  \* @type: Set(Str);
  MACS,
  \* @type: Set(Str);
  IP4S,
  \* @type: Set(Str);
  IP6S

VARIABLES
  \* @type: Str -> { present: Bool, mac: Str, online: Bool };
  hosts,
  \* @type: Str -> { present: Bool, online: Bool, ip4: Str, list: Set(Str) };
  macs

IPS == IP4S \union IP6S
NoIP == "noip"

CInit == /\ MACS = {"own", "router", "m1", "m2"}
         /\ IP4S = {"hostip", "routerip", "a1", "a2"}
         /\ IP6S = {"l1", "g1"}

TypeOK ==
  /\ hosts \in [IPS -> [present: BOOLEAN, mac: MACS, online: BOOLEAN]]
  /\ macs \in [MACS -> [present: BOOLEAN, online: BOOLEAN, ip4: IP4S \union {NoIP}, list: SUBSET IPS]]

\* C05: every host is listed under exactly its own MAC entry, every listed address is a host of that MAC,
\* absent entries list nothing, an online host implies an online MAC entry
C05 ==
  /\ \A ip \in IPS : hosts[ip].present =>
        /\ macs[hosts[ip].mac].present
        /\ ip \in macs[hosts[ip].mac].list
  /\ \A m \in MACS : \A ip \in macs[m].list : hosts[ip].present /\ hosts[ip].mac = m
  /\ \A m \in MACS : ~macs[m].present => macs[m].list = {}
  /\ \A ip \in IPS : hosts[ip].present /\ hosts[ip].online => macs[hosts[ip].mac].online

IndInv == TypeOK /\ C05

Init ==
  /\ hosts = [ip \in IPS |->
       IF ip = "hostip" THEN [present |-> TRUE, mac |-> "own", online |-> TRUE]
       ELSE IF ip = "routerip" THEN [present |-> TRUE, mac |-> "router", online |-> TRUE]
       ELSE [present |-> FALSE, mac |-> "own", online |-> FALSE]]
  /\ macs = [m \in MACS |->
       IF m = "own" THEN [present |-> TRUE, online |-> TRUE, ip4 |-> "hostip", list |-> {"hostip"}]
       ELSE IF m = "router" THEN [present |-> TRUE, online |-> TRUE, ip4 |-> "routerip", list |-> {"routerip"}]
       ELSE [present |-> FALSE, online |-> FALSE, ip4 |-> NoIP, list |-> {}]]

\* arbitrary state satisfying the invariant (start of the inductive step)
IndInit == IndInv

\* deleteHost: unlink, drop from the index, delete the MAC entry if that was its last host
\* @type: (Str -> { present: Bool, mac: Str, online: Bool }, Str -> { present: Bool, online: Bool, ip4: Str, list: Set(Str) }, Str) => <<Str -> { present: Bool, mac: Str, online: Bool }, Str -> { present: Bool, online: Bool, ip4: Str, list: Set(Str) }>>;
Del(h, m, ip) ==
  IF ~h[ip].present THEN <<h, m>>
  ELSE LET mc == h[ip].mac
           l2 == m[mc].list \ {ip}
       IN << [h EXCEPT ![ip].present = FALSE, ![ip].online = FALSE],
             IF l2 = {} THEN [m EXCEPT ![mc] = [present |-> FALSE, online |-> FALSE, ip4 |-> NoIP, list |-> {}]]
             ELSE [m EXCEPT ![mc].list = l2] >>

\* findOrCreateHostWithLock followed by onlineTransition (Parse / DHCPv4Update of mac on ip)
See(mac, ip) ==
  IF hosts[ip].present /\ hosts[ip].mac = mac /\ hosts[ip].online
  THEN UNCHANGED <<hosts, macs>>
  ELSE LET d  == IF hosts[ip].present /\ hosts[ip].mac # mac THEN Del(hosts, macs, ip) ELSE <<hosts, macs>>
           h1 == d[1]
           m1 == d[2]
           chg == ip \in IP4S /\ ip # (IF m1[mac].present THEN m1[mac].ip4 ELSE NoIP)
           sib == IF chg THEN {v \in (IF m1[mac].present THEN m1[mac].list ELSE {}) : v \in IP4S /\ v # ip} ELSE {}
       IN /\ hosts' = [x \in IPS |->
                         IF x = ip THEN [present |-> TRUE, mac |-> mac, online |-> TRUE]
                         ELSE IF x \in sib THEN [h1[x] EXCEPT !.online = FALSE]
                         ELSE h1[x]]
          /\ macs' = [m1 EXCEPT ![mac] = [present |-> TRUE, online |-> TRUE,
                                           ip4 |-> IF chg THEN ip ELSE (IF m1[mac].present THEN m1[mac].ip4 ELSE NoIP),
                                           list |-> (IF m1[mac].present THEN m1[mac].list ELSE {}) \union {ip}]]

\* makeOffline of one host (purge ageing or Notify): MAC online flag recomputed from its list
Offline(ip) ==
  /\ hosts[ip].present
  /\ LET mc == hosts[ip].mac
         h1 == [hosts EXCEPT ![ip].online = FALSE]
     IN /\ hosts' = h1
        /\ macs' = [macs EXCEPT ![mc].online = \E v \in macs[mc].list : h1[v].online]

\* purge deleting one offline host
Purge(ip) ==
  /\ hosts[ip].present /\ ~hosts[ip].online
  /\ LET d == Del(hosts, macs, ip) IN hosts' = d[1] /\ macs' = d[2]

\* Capture / SetDHCPv4IPOffer: a MAC entry may be created without hosts
Ensure(mac) ==
  /\ macs' = IF macs[mac].present THEN macs
             ELSE [macs EXCEPT ![mac] = [present |-> TRUE, online |-> FALSE, ip4 |-> NoIP, list |-> {}]]
  /\ UNCHANGED hosts

Next ==
  \/ \E mac \in MACS, ip \in IPS : See(mac, ip)
  \/ \E ip \in IPS : Offline(ip)
  \/ \E ip \in IPS : Purge(ip)
  \/ \E mac \in MACS : Ensure(mac)
==========================================================================
