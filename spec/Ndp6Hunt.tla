------------------------------ MODULE Ndp6Hunt ------------------------------
(***************************************************************************)
(* ICMPv6 hunt list, spoof loops and router learning of irai/packet          *)
(* (handlers/icmp_spoofer/icmp6spoof.go, icmp6.go:172-227, icmp6radv.go,      *)
(* addr.go:41-89).                                                            *)
(*                                                                         *)
(* Mechanism level: hunt (AddrList: a sequence with set semantics keyed by   *)
(* MAC), loops (one goroutine per effective StartHunt; pc, destination,      *)
(* the router list captured under the mutex, whether the channel it sleeps   *)
(* on has been closed), routers (LANRouters: address -> MAC; Handler6.Router *)
(* is non-nil iff this is non-empty), raCount (the process-global `repeat`   *)
(* counter: only every 4th RA is processed; it survives the trace `reset`    *)
(* and its initial value is inferred by TLC), closed, panicked, out, ev.      *)
(* The wake channel generation of DESIGN section 6 is represented by the per  *)
(* loop flag `woken`: an RA (with a non-empty hunt list) swaps and closes the *)
(* channel, which wakes exactly the loops that entered their select before.   *)
(*                                                                         *)
(* Property level: refHunt, refClosed, refRouters, rl, pre -- updated only    *)
(* from the call log, the observed router table and the observable loop       *)
(* events, by the rules in the statement of C14.                              *)
(***************************************************************************)
EXTENDS Naturals, Sequences, FiniteSets, TLC

CONSTANTS Own, Targets, RouterNIC,        \* our MAC, client MACs, the MAC of NICInfo.RouterAddr4
          RouterMACs,                     \* MACs of IPv6 routers on the LAN
          HostLLA, AllNodes,              \* our link-local address, ff02::1
          LLAs, GUAs, V4s, NoIP,          \* target address classes: link-local unicast; every OTHER kind of IPv6 address (global,
                                          \*   unique local, unspecified ::, loopback, multicast, IPv4-mapped); IPv4; invalid (address-less)
          RouterIPs,                      \* link-local addresses of routers
          ZLLA, ZBase,                    \* a link-local address carrying a zone (an API argument; member of LLAs) and the same
                                          \*   address as it appears on the wire (zones do not travel)
          NilMAC,
          SafeWake                        \* TRUE: the RA branch does not close an already closed channel (the repaired mechanism)

TargetIPs == LLAs \cup GUAs \cup V4s \cup {NoIP}
Effective(ip) == ip \in LLAs \cup {NoIP}          \* the targets StartHunt / StopHunt act on (ALL of fe80::/10, with or without zone)
Wire(ip) == IF ip = NoIP THEN AllNodes ELSE IF ip = ZLLA THEN ZBase ELSE ip      \* destination address of the forged NA

VARIABLES hunt,      \* sequence of [mac, ip]                  Handler6.huntList
          loops,     \* sequence of [mac, dst, pc, list, woken] spoofLoop goroutines, index = loop id
          routers,   \* RouterIPs -> RouterMACs \cup {NilMAC}    Handler6.LANRouters (NilMAC: not learned)
          raCount,   \* 0..3: RAs seen since the last processed one (process global `repeat`)
          closed, panicked,
          captured,  \* environment: MACs flagged with Session.Capture (must not matter to the handler)
          out,       \* frames emitted by the last step
          ev,        \* observable record of the last step
          refHunt,   \* property level: MACs hunted according to the call log and the filter rules
          refClosed,
          refRouters,\* property level: router addresses observed in the handler's router table
          rl,        \* property level: per loop id [mac, alive, snap, snapClosed, fresh]
          pre        \* property level: facts about the state before the last step

mech == <<hunt, loops, routers, raCount, closed, panicked, captured, out, ev>>
prop == <<refHunt, refClosed, refRouters, rl, pre>>
vars == <<hunt, loops, routers, raCount, closed, panicked, captured, out, ev, refHunt, refClosed, refRouters, rl, pre>>

Range(s) == {s[i] : i \in 1..Len(s)}
HuntMacs == {hunt[i].mac : i \in 1..Len(hunt)}
Learned == {r \in RouterIPs : routers[r] # NilMAC}

\* the neighbour advertisement of icmp6spoof.go:90-95 / layer_icmp6_ndp.go:291, layer_icmp.go:464-503
NA(mac, dst, r) == [type |-> 136, ed |-> mac, src |-> r, dst |-> dst, hop |-> 255,
                    tgt |-> r, tlla |-> Own, over |-> TRUE, sol |-> FALSE, rtr |-> FALSE]
Other(t) == [type |-> t]

RECURSIVE SetToSeqs(_)
SetToSeqs(S) == IF S = {} THEN {<<>>} ELSE UNION {{<<x>> \o s : s \in SetToSeqs(S \ {x})} : x \in S}

-----------------------------------------------------------------------------
(* mechanism *)

StartHuntM(m, ip) ==
  /\ UNCHANGED <<routers, raCount, closed, panicked, captured>> /\ out' = <<>>
  /\ IF ip \in V4s
     THEN /\ UNCHANGED <<hunt, loops>>
          /\ ev' = [kind |-> "start", mac |-> m, ip |-> ip, err |-> TRUE, spawned |-> 0]
     ELSE IF ip \in GUAs \/ m \in HuntMacs
     THEN /\ UNCHANGED <<hunt, loops>>
          /\ ev' = [kind |-> "start", mac |-> m, ip |-> ip, err |-> FALSE, spawned |-> 0]
     ELSE /\ hunt' = Append(hunt, [mac |-> m, ip |-> ip])
          /\ loops' = Append(loops, [mac |-> m, dst |-> Wire(ip),
                                     pc |-> "check", list |-> {}, woken |-> FALSE])
          /\ ev' = [kind |-> "start", mac |-> m, ip |-> ip, err |-> FALSE, spawned |-> 1]

\* n overlapping StartHunt(m, ip) calls observed together: the mutex serialises them
ConcStartM(m, ip, n) ==
  /\ UNCHANGED <<routers, raCount, closed, panicked, captured>> /\ out' = <<>>
  /\ IF ip \in V4s
     THEN /\ UNCHANGED <<hunt, loops>>
          /\ ev' = [kind |-> "cstart", mac |-> m, ip |-> ip, n |-> n, errs |-> n, spawned |-> 0]
     ELSE IF ip \in GUAs \/ m \in HuntMacs
     THEN /\ UNCHANGED <<hunt, loops>>
          /\ ev' = [kind |-> "cstart", mac |-> m, ip |-> ip, n |-> n, errs |-> 0, spawned |-> 0]
     ELSE /\ hunt' = Append(hunt, [mac |-> m, ip |-> ip])
          /\ loops' = Append(loops, [mac |-> m, dst |-> Wire(ip),
                                     pc |-> "check", list |-> {}, woken |-> FALSE])
          /\ ev' = [kind |-> "cstart", mac |-> m, ip |-> ip, n |-> n, errs |-> 0, spawned |-> 1]

\* AddrList.Del: by MAC, order of the others preserved
StopHuntM(m, ip) ==
  /\ UNCHANGED <<loops, routers, raCount, closed, panicked, captured>> /\ out' = <<>>
  /\ hunt' = IF Effective(ip) THEN SelectSeq(hunt, LAMBDA e : e.mac # m) ELSE hunt
  /\ ev' = [kind |-> "stop", mac |-> m, ip |-> ip]

\* Close closes the current channel: every sleeping loop wakes up
CloseM ==
  /\ UNCHANGED <<hunt, loops, routers, raCount, panicked, captured>> /\ out' = <<>>
  /\ closed' = TRUE
  /\ ev' = [kind |-> "close", stuck |-> {}]
\* Since 96b01bc a loop reads the wake channel under the mutex at its check: every loop past its check (sending
\* or sleeping) holds a channel that the next RA wake-up / Close closes
Awake(ls) == [i \in 1..Len(ls) |-> IF ls[i].pc = "sleep" THEN [ls[i] EXCEPT !.pc = "check", !.woken = FALSE]
                                    ELSE IF ls[i].pc = "send" THEN [ls[i] EXCEPT !.woken = TRUE] ELSE ls[i]]
CloseAndWakeM ==
  /\ UNCHANGED <<hunt, routers, raCount, panicked, captured>> /\ out' = <<>>
  /\ closed' = TRUE /\ loops' = Awake(loops)
  /\ ev' = [kind |-> "close", stuck |-> {}]

\* icmp6spoof.go:70-125: membership and `closed` under the mutex; the router list is captured there
LoopCheckM(l) ==
  /\ loops[l].pc = "check"
  /\ UNCHANGED <<hunt, routers, raCount, closed, panicked, captured>> /\ out' = <<>>
  /\ LET inlist == loops[l].mac \in HuntMacs IN
     /\ ev' = [kind |-> "check", l |-> l, hunting |-> inlist, closed |-> closed, router |-> Learned # {},
                done |-> ~inlist \/ closed]
     /\ loops' = IF ~inlist \/ closed THEN [loops EXCEPT ![l].pc = "done"]
                 ELSE IF Learned # {} THEN [loops EXCEPT ![l].pc = "send", ![l].list = Learned, ![l].woken = FALSE]
                 ELSE [loops EXCEPT ![l].pc = "sleep", ![l].woken = FALSE]        \* no router: straight into the select

\* one NA per captured router (Go map order), then into the select.  auto: the harness observes a loop
\* that finds its channel already closed (after Close) back at its check together with the round.
LoopSendRoundM(l, order, auto) ==
  /\ loops[l].pc = "send"
  /\ order \in SetToSeqs(loops[l].list)
  /\ UNCHANGED <<hunt, routers, raCount, closed, panicked, captured>>
  /\ out' = [i \in 1..Len(order) |-> NA(loops[l].mac, loops[l].dst, order[i])]
  /\ loops' = IF auto /\ (loops[l].woken \/ closed) THEN [loops EXCEPT ![l].pc = "check", ![l].woken = FALSE, ![l].list = {}]
              ELSE [loops EXCEPT ![l].pc = "sleep", ![l].woken = loops[l].woken \/ closed, ![l].list = {}]
  /\ ev' = [kind |-> "act", l |-> l]

\* the 2.0-2.8 s timer / the channel the loop sleeps on is closed
TimeoutM(l) ==
  /\ loops[l].pc = "sleep"
  /\ UNCHANGED <<hunt, routers, raCount, closed, panicked, captured>> /\ out' = <<>>
  /\ loops' = [loops EXCEPT ![l].pc = "check", ![l].woken = FALSE]
  /\ ev' = [kind |-> "timeout", l |-> l]
WakeByRAM(l) == (loops[l].woken \/ closed) /\ TimeoutM(l)

\* icmp6.go:172-227.  kind: "ok" | "badopts" (option list the parser rejects) | "nohost" (Session.Parse
\* created no host for the source).  wakeAll: the harness observes the woken loops together with the RA.
RecvRAM(src, mac, kind, wakeAll) ==
  /\ UNCHANGED <<hunt, captured>> /\ out' = <<>>
  /\ IF Len(hunt) > 0 /\ closed /\ ~SafeWake
     THEN \* close(ch) of the channel Close() already closed
          /\ panicked' = TRUE /\ UNCHANGED <<loops, routers, raCount, closed>>
          /\ ev' = [kind |-> "ra", src |-> src, err |-> FALSE, panic |-> TRUE]
     ELSE LET woke == Len(hunt) > 0 /\ ~closed
              ls   == IF ~woke THEN loops
                      ELSE IF wakeAll THEN Awake(loops)
                      ELSE [i \in 1..Len(loops) |-> IF loops[i].pc \in {"sleep", "send"} THEN [loops[i] EXCEPT !.woken = TRUE] ELSE loops[i]]
              proc == raCount = 0
              fail == proc /\ kind # "ok"
          IN /\ loops' = ls /\ UNCHANGED <<closed, panicked>>
             /\ raCount' = (raCount + 1) % 4
             /\ routers' = IF proc /\ kind = "ok" /\ routers[src] = NilMAC THEN [routers EXCEPT ![src] = mac] ELSE routers
             /\ ev' = [kind |-> "ra", src |-> src, err |-> fail, panic |-> FALSE]

\* Session.Capture / Session.Release: environment calls; no effect on the handler
CaptureM(m, on) ==
  /\ UNCHANGED <<hunt, loops, routers, raCount, closed, panicked>> /\ out' = <<>>
  /\ captured' = IF on THEN captured \cup {m} ELSE captured \ {m}
  /\ ev' = [kind |-> "capture", mac |-> m, on |-> on]

\* every other ICMPv6 type leaves the state alone; an NS for a global address makes us ask too
RecvOtherM(kind) ==
  /\ UNCHANGED <<hunt, loops, routers, raCount, closed, panicked, captured>>
  /\ out' = IF kind = "ns-gua" THEN <<Other(135)>> ELSE <<>>
  /\ ev' = [kind |-> "other", what |-> kind]

-----------------------------------------------------------------------------
(* property level *)

NoPre == [hunted |-> FALSE, effective |-> FALSE, v4 |-> FALSE, snap |-> {}, snapClosed |-> TRUE, mac |-> NilMAC, zombie |-> FALSE]

StartHuntR(m, ip, n) ==
  /\ pre' = [NoPre EXCEPT !.hunted = m \in refHunt, !.effective = Effective(ip), !.v4 = ip \in V4s, !.mac = m]
  /\ refHunt' = IF Effective(ip) THEN refHunt \cup {m} ELSE refHunt
  /\ rl' = rl \o [i \in 1..n |-> [mac |-> m, alive |-> TRUE, snap |-> {}, snapClosed |-> TRUE, fresh |-> FALSE, cur |-> TRUE]]
  /\ UNCHANGED <<refClosed>>

StopHuntR(m, ip) ==
  /\ pre' = [NoPre EXCEPT !.hunted = m \in refHunt, !.effective = Effective(ip), !.mac = m]
  /\ refHunt' = IF Effective(ip) THEN refHunt \ {m} ELSE refHunt
  \* the loops spawned for the hunt that ends here no longer count as loops of the current hunt of m
  /\ rl' = [l \in 1..Len(rl) |-> IF Effective(ip) /\ rl[l].mac = m THEN [rl[l] EXCEPT !.cur = FALSE] ELSE rl[l]]
  /\ UNCHANGED <<refClosed>>

CloseR == refClosed' = TRUE /\ pre' = NoPre /\ UNCHANGED <<refHunt, rl>>

\* a membership check of loop l: one send round to a MAC hunted at this instant is allowed from now on
LoopCheckR(l) ==
  /\ rl' = [rl EXCEPT ![l].snap = refHunt, ![l].snapClosed = refClosed, ![l].fresh = TRUE, ![l].alive = ~ev'.done]
  /\ pre' = [NoPre EXCEPT !.zombie = ~rl[l].alive, !.mac = rl[l].mac]
  /\ UNCHANGED <<refHunt, refClosed>>

LoopSendRoundR(l) ==
  /\ pre' = [NoPre EXCEPT !.snap = IF rl[l].fresh THEN rl[l].snap ELSE {}, !.snapClosed = ~rl[l].fresh \/ rl[l].snapClosed, !.mac = rl[l].mac]
  /\ rl' = [rl EXCEPT ![l].fresh = FALSE]
  /\ UNCHANGED <<refHunt, refClosed>>

IdleR == pre' = NoPre /\ UNCHANGED <<refHunt, refClosed, rl>>

\* refRouters follows the observed router table (it is what FindRouter / LANRouters report)
ObserveRouters == refRouters' = {r \in RouterIPs : routers'[r] # NilMAC}

-----------------------------------------------------------------------------
(* actions *)

StartHunt(m, ip)   == StartHuntM(m, ip) /\ StartHuntR(m, ip, ev'.spawned) /\ ObserveRouters
ConcStart(m, ip, n) == ConcStartM(m, ip, n) /\ StartHuntR(m, ip, ev'.spawned) /\ ObserveRouters
StopHunt(m, ip)    == StopHuntM(m, ip) /\ StopHuntR(m, ip) /\ ObserveRouters
Close              == CloseM /\ CloseR /\ ObserveRouters
LoopCheck(l)       == LoopCheckM(l) /\ LoopCheckR(l) /\ ObserveRouters
LoopSendRound(l, o) == LoopSendRoundM(l, o, FALSE) /\ LoopSendRoundR(l) /\ ObserveRouters
Timeout(l)         == TimeoutM(l) /\ IdleR /\ ObserveRouters
WakeByRA(l)        == WakeByRAM(l) /\ IdleR /\ ObserveRouters
RecvRA(src, mac, kind) == RecvRAM(src, mac, kind, FALSE) /\ IdleR /\ ObserveRouters
RecvOther(kind)    == RecvOtherM(kind) /\ IdleR /\ ObserveRouters
Capture(m, on)     == CaptureM(m, on) /\ IdleR /\ ObserveRouters

InitButCounter ==
  /\ hunt = <<>> /\ loops = <<>> /\ routers = [r \in RouterIPs |-> NilMAC]
  /\ closed = FALSE /\ panicked = FALSE /\ captured = {} /\ out = <<>> /\ ev = [kind |-> "init"]
  /\ refHunt = {} /\ refClosed = FALSE /\ refRouters = {} /\ rl = <<>> /\ pre = NoPre
Init == InitButCounter /\ raCount = 0

-----------------------------------------------------------------------------
(* property-level predicates: direct transcriptions of the statement of C14 (hunting part) *)

Frames == {out[i] : i \in 1..Len(out)}
Forged == {f \in Frames : f.type = 136}        \* the handler has no legitimate neighbour advertisement of its own

\* "forged neighbour advertisements ... only to MACs in its hunt list": a send round must follow a
\* membership check of that loop at which the receiver was hunted (one round per check)
P_ForgedOnlyToHunted == \A f \in Forged : ev.kind = "act" /\ f.ed \in pre.snap
\* "... and only after a router has been learned"
P_OnlyAfterRouter == \A f \in Forged : refRouters # {}
\* "(a learned router's address bound to our MAC, override flag set, hop limit 255)"
P_NAFields == \A f \in Forged : /\ f.tgt \in refRouters /\ f.tlla = Own /\ f.over /\ f.hop = 255
\* "StartHunt rejects IPv4 and ignores non-link-local targets"
\* (every IPv6 address that is not link-local unicast -- global, unique local, ::, ::1, multicast, IPv4-mapped -- is ignored)
P_StartFilters == /\ ev.kind = "start" => /\ ev.err = pre.v4
                                           /\ (~pre.effective => ev.spawned = 0)
                  /\ ev.kind = "cstart" => /\ ev.errs = (IF pre.v4 THEN ev.n ELSE 0)
                                            /\ (~pre.effective => ev.spawned = 0)
\* "is idempotent per MAC"
\* (also for overlapping calls: one hunt has one loop)
P_Idempotent == /\ ev.kind \in {"start", "cstart"} /\ pre.effective /\ ~refClosed => ev.spawned = (IF pre.hunted THEN 0 ELSE 1)
                /\ ~refClosed => \A m \in Targets : Cardinality({l \in 1..Len(rl) : rl[l].mac = m /\ rl[l].cur}) <= 1
P_ListMatches == refClosed \/ (HuntMacs = refHunt /\ Cardinality(HuntMacs) = Len(hunt))   \* (the statement is silent about the list after Close)
\* "after StopHunt or Close no further forged advertisement reaches that host"; reading: at most the
\* send round already past its check
P_QuietAfterStop == /\ \A f \in Forged : ev.kind = "act" /\ ~pre.snapClosed /\ f.ed \in pre.snap
                    /\ ev.kind = "check" => ~pre.zombie
                    /\ ev.kind = "close" => ev.stuck = {}
P_NoPanic == ev.kind = "ra" => ~ev.panic

Verdict ==
  IF ~P_NoPanic THEN "C14_NoPanic"
  ELSE IF ~P_ForgedOnlyToHunted THEN "C14_ForgedOnlyToHunted"
  ELSE IF ~P_QuietAfterStop THEN "C14_QuietAfterStop"
  ELSE IF ~P_OnlyAfterRouter THEN "C14_OnlyAfterRouter"
  ELSE IF ~P_NAFields THEN "C14_NAFields"
  ELSE IF ~P_StartFilters THEN "C14_StartFilters"
  ELSE IF ~P_Idempotent THEN "C14_Idempotent"
  ELSE IF ~P_ListMatches THEN "C14_Idempotent_list"
  ELSE "none"
=============================================================================
