SPECIFICATION Spec
CONSTANTS
  MsgLens = {0, 5}
  Deltas = {0, 1, 2, 3, 4, 5, 6, 7, 8, 9, 10, 11, 12, 13, 14, 15, 16, 17, 18, 19, 20, 21, 22, 23, 24, 25, 26, 27, 28, 29, 30, 31, 32, 33, 34, 35, 36, 37, 38, 39, 40, 41, 42, 43, 44, 45, 46, 47, 48, 49, 50, 51, 52, 53, 54, 55, 56, 57, 58, 59, 60, 61, 62, 63, 64, 65, 100, 700}
  NameLens = {1, 7}
  BAVals = {0, 1, 2, 3, 4, 10, 300, 679, 680, 681, 2500}
  SAShapes <- SAShapesStd
  IAShapes <- IAShapesStd
  Unguarded = TRUE
  MaxDepth = 3
  SecondGuardedOnly = TRUE
  Guard = 41
  Ret4 = FALSE
  BAFix = TRUE
  ExportEvery = 0
INVARIANTS TypeOK C20_Strict KFShape
CHECK_DEADLOCK FALSE
