----------------------------- MODULE WalkConc -----------------------------
(* C08, concurrent stage: the DNS table of dns_naming.DNSHandler under its documented usage - one packet
   loop goroutine calling ProcessDNS, any number of other goroutines calling the goroutine-safe read API
   (DNSFind / DNSExist / PrintDNSTable).

   DNSTable is map[string]DNSEntry and a DNSEntry is a struct of maps: the entry looked up by ProcessDNS
   shares its maps with the table, so DecodeAnswers (which inserts into them) is a write to table state.
   The Go runtime aborts the process ("fatal error: concurrent map iteration and map write", not
   recoverable) when a map is written while another goroutine reads it.

   Mechanism: handlers/dns_naming/dns.go ProcessDNS = Lock; lookup; DecodeAnswers; publish; Unlock and
   dnstable.go readers = RLock; iterate / copy; RUnlock.  With DecodeUnlocked = TRUE the model is the
   "decode outside the lock" variant (look up under RLock, decode unlocked, Lock only to publish).
   Property level: no step in which the writer is inside the entry's maps while a reader is.        *)
EXTENDS Naturals, FiniteSets, TLC

CONSTANTS Readers,          \* set of reader goroutines
          Rounds,           \* responses processed by the packet loop
          DecodeUnlocked    \* FALSE: the code as it is; TRUE: decode outside the write lock

VARIABLES wpc, rpc, wlock, rlocks, done
vars == <<wpc, rpc, wlock, rlocks, done>>

Init == wpc = "idle" /\ rpc = [r \in Readers |-> "idle"] /\ wlock = FALSE /\ rlocks = {} /\ done = 0

\* ---- packet loop: ProcessDNS
WLockAcquire == wpc = "idle" /\ done < Rounds /\ ~DecodeUnlocked /\ ~wlock /\ rlocks = {}
                /\ wlock' = TRUE /\ wpc' = "decode" /\ UNCHANGED <<rpc, rlocks, done>>
WLookupUnlocked == wpc = "idle" /\ done < Rounds /\ DecodeUnlocked /\ ~wlock      \* RLock; lookup; RUnlock in one step
                   /\ wpc' = "decode" /\ UNCHANGED <<rpc, wlock, rlocks, done>>
WDecode == wpc = "decode" /\ wpc' = "publish" /\ UNCHANGED <<rpc, wlock, rlocks, done>>   \* DecodeAnswers writes the entry's maps
WPublishLock == wpc = "publish" /\ DecodeUnlocked /\ ~wlock /\ rlocks = {}
                /\ wlock' = TRUE /\ wpc' = "unlock" /\ UNCHANGED <<rpc, rlocks, done>>
WPublish == wpc = "publish" /\ ~DecodeUnlocked /\ wpc' = "unlock" /\ UNCHANGED <<rpc, wlock, rlocks, done>>
WUnlock == wpc = "unlock" /\ wlock' = FALSE /\ wpc' = "idle" /\ done' = done + 1 /\ UNCHANGED <<rpc, rlocks>>

\* ---- readers: DNSFind / DNSExist / PrintDNSTable
RLock(r) == rpc[r] = "idle" /\ ~wlock /\ rlocks' = rlocks \cup {r} /\ rpc' = [rpc EXCEPT ![r] = "read"]
            /\ UNCHANGED <<wpc, wlock, done>>
RUnlock(r) == rpc[r] = "read" /\ rlocks' = rlocks \ {r} /\ rpc' = [rpc EXCEPT ![r] = "idle"]
              /\ UNCHANGED <<wpc, wlock, done>>

Next == WLockAcquire \/ WLookupUnlocked \/ WDecode \/ WPublishLock \/ WPublish \/ WUnlock
        \/ \E r \in Readers : RLock(r) \/ RUnlock(r)
Spec == Init /\ [][Next]_vars

TypeOK == wpc \in {"idle", "decode", "publish", "unlock"} /\ done \in 0..Rounds /\ rlocks \subseteq Readers
\* the writer is inside the maps while it decodes (state "publish" is reached by the decode step) or publishes
WriterInMaps == wpc \in {"decode", "publish"} \/ (wpc = "unlock" /\ wlock)
\* C08: the read API never overlaps a write of the same maps (otherwise the runtime kills the process)
C08_NoConcurrentMapAccess == ~(wpc = "decode" /\ \E r \in Readers : rpc[r] = "read")
LockDiscipline == wlock => rlocks = {}
=============================================================================
