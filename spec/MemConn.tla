------------------------------ MODULE MemConn ------------------------------
(* X01 -- /repo/memconn.go: TestNewBufferedConn() and TestReadAndDiscardLoop().

   The pair of in-memory net.PacketConn endpoints every test of the repository (and several of our own
   harnesses) uses as "the wire".  Each endpoint e owns one buffered Go channel (e.clientChan, capacity
   maxBufSize = 512) that it writes to and that Peer(e) reads from.

   Mechanism level (shaped like the code)
     q[e]       datagrams written by e and not yet read by Peer(e)        (contents of e.clientChan)
     closed[e]  e.Close() was called: e.clientChan is closed
     rd[e]      Nil, or the buffer [len, cap] of e's ReadFrom that is blocked in `<-p.serverChan`
     dl[e]      state of a TestReadAndDiscardLoop(e) goroutine: "off" | "run" (blocked in ReadFrom) | "ret" | "panic"
     nid        content identity of the next WriteTo (every WriteTo carries fresh bytes; the driver overwrites the
                writer's buffer after the call, so a reader that saw the writer's buffer would see another identity)
     out        the observable outcome of the last step

   WriteTo(b)   1. len(clientChan) > 511  -> prints a line, returns (0, nil): the datagram is DROPPED (also when closed)
                2. t := copy of b; clientChan <- t   (panics "send on closed channel" after e.Close())
                   a receiver blocked on the channel gets t directly (hand-off), otherwise t is queued
                3. returns (len(b), nil)
   ReadFrom(b)  buf := <-serverChan (blocks while empty and the peer has not closed; a closed and drained channel
                yields nil at once); n := copy(b[:cap(b)], buf); returns (n, nil, nil).  NEVER returns an error.
                The copy goes into b[:cap(b)], not b[:len(b)]: with len(b) < cap(b) bytes are stored beyond len(b)
                and n may exceed len(b).
   Close()      close(clientChan); nil.  A second Close panics ("close of closed channel").  The endpoint's own
                serverChan is untouched: its own blocked ReadFrom stays blocked and later ReadFrom calls still deliver.
   TestReadAndDiscardLoop(c)  reads into a 2000 byte buffer until ReadFrom returns n = 0 (a zero-length datagram or
                the peer's Close after draining); panics on a datagram that is not a valid Ethernet frame (< 14 bytes).

   Property level (what a user of the pipe relies on; X01 statement)
     (a) copy semantics: a delivered datagram has the bytes the writer's buffer held at the time of WriteTo
     (b) per direction, exactly the datagrams whose WriteTo returned len(b) are delivered, once, in order (ghost acc, dlv)
     (c) WriteTo never blocks; it accepts iff fewer than Cap datagrams are in flight in its direction, else drops (0, nil)
     (d) ReadFrom blocks iff its direction is empty and the peer has not closed; it completes when the peer writes
         or closes; on a closed and drained direction it returns (0, nil, nil)
     (e) net.PacketConn contract: ReadFrom stores into b[:len(b)] only and returns n <= len(b); Close unblocks the
         endpoint's own blocked ReadFrom and later ReadFrom / WriteTo on the closed endpoint return an error.
         The code gives less: see the Kf operators below (known findings with keys X01:...).
   A double Close is undefined by io.Closer: the panic is recorded as observed behaviour, not as a finding. *)
EXTENDS Naturals, Integers, Sequences, FiniteSets, TLC

CONSTANTS EA, EB,     \* the two endpoints
          Cap,        \* capacity of one direction (512 in the code; small in the bounded model, see MemConnMC)
          Nil,
          ClipToLen   \* FALSE: ReadFrom copies into b[:cap(b)] as the code does today (known finding X01:ReadBeyondLen);
                      \* TRUE: into b[:len(b)] (the code with findings/X01-readfrom-len.fix.patch applied)

VARIABLES q, closed, rd, dl, nid, out,     \* mechanism
          acc, dlv                          \* property level (ghost): accepted / delivered identities per direction
vars == <<q, closed, rd, dl, nid, out, acc, dlv>>

Ends == {EA, EB}
Peer(e) == IF e = EA THEN EB ELSE EA
Min(a, b) == IF a < b THEN a ELSE b
NoId == -1
EthMin == 14                                \* Ether.IsValid: at least dst, src, ethertype

Buf(l, c) == [len |-> l, cap |-> c]
Dg(id, n) == [id |-> id, n |-> n]

\* ---- observable outcomes
\* res: "ok" | "blocked" | "panic";  n: returned count;  id: identity of the bytes returned (NoId when n = 0)
\* over: bytes were stored beyond len(b);  wake: <<>> or <<[e, n, id, over]>> = the blocked ReadFrom of e completed
\* loop: <<>> or <<[e, st]>> = TestReadAndDiscardLoop(e) terminated with st ("ret" | "panic")
Outcome(res, n, id, over, wake, loop) == [res |-> res, n |-> n, id |-> id, over |-> over, wake |-> wake, loop |-> loop]
Plain(res, n) == Outcome(res, n, NoId, FALSE, <<>>, <<>>)

\* what ReadFrom stores and returns for datagram d and buffer b: code (cap) and contract (len)
RdN(d, b)  == Min(d.n, IF ClipToLen THEN b.len ELSE b.cap)
RdNC(d, b) == Min(d.n, b.len)
RdOut(d, b) == [n |-> RdN(d, b), id |-> IF RdN(d, b) = 0 THEN NoId ELSE d.id, over |-> RdN(d, b) > b.len]

\* ---- TestReadAndDiscardLoop: consume s from the head; result state and number of datagrams eaten
RECURSIVE Eat(_)
Eat(s) == IF s = <<>> THEN [st |-> "run", k |-> 0]
          ELSE IF Head(s).n = 0 THEN [st |-> "ret", k |-> 1]
          ELSE IF Head(s).n < EthMin THEN [st |-> "panic", k |-> 1]
          ELSE LET r == Eat(Tail(s)) IN [st |-> r.st, k |-> r.k + 1]
Ids(s) == [i \in 1..Len(s) |-> s[i].id]
LoopEnd(e, st) == IF st \in {"ret", "panic"} THEN <<[e |-> e, st |-> st]>> ELSE <<>>

Init == /\ q = [e \in Ends |-> <<>>] /\ closed = [e \in Ends |-> FALSE] /\ rd = [e \in Ends |-> Nil]
        /\ dl = [e \in Ends |-> "off"] /\ nid = 0 /\ out = Plain("ok", 0)
        /\ acc = [e \in Ends |-> <<>>] /\ dlv = [e \in Ends |-> <<>>]

\* ---------------------------------------------------------------- WriteTo
Write(e, n) ==
  LET d == Dg(nid, n)  p == Peer(e) IN
  /\ nid' = nid + 1
  /\ IF Len(q[e]) >= Cap THEN                           \* full: dropped, (0, nil), even on a closed endpoint
        /\ out' = Plain("ok", 0) /\ UNCHANGED <<q, closed, rd, dl, acc, dlv>>
     ELSE IF closed[e] THEN                             \* send on closed channel
        /\ out' = Plain("panic", 0) /\ UNCHANGED <<q, closed, rd, dl, acc, dlv>>
     ELSE IF rd[p] # Nil THEN                           \* hand-off to the blocked reader (q[e] is empty)
        /\ out' = Outcome("ok", n, NoId, FALSE, <<[e |-> p] @@ RdOut(d, rd[p])>>, <<>>)
        /\ rd' = [rd EXCEPT ![p] = Nil]
        /\ acc' = [acc EXCEPT ![e] = Append(@, d)] /\ dlv' = [dlv EXCEPT ![e] = Append(@, d.id)]
        /\ UNCHANGED <<q, closed, dl>>
     ELSE IF dl[p] = "run" THEN                         \* hand-off to the discard loop blocked in ReadFrom
        LET r == Eat(<<d>>) IN
        /\ out' = Outcome("ok", n, NoId, FALSE, <<>>, LoopEnd(p, r.st))
        /\ dl' = [dl EXCEPT ![p] = r.st]
        /\ acc' = [acc EXCEPT ![e] = Append(@, d)] /\ dlv' = [dlv EXCEPT ![e] = Append(@, d.id)]
        /\ UNCHANGED <<q, closed, rd>>
     ELSE
        /\ out' = Plain("ok", n)
        /\ q' = [q EXCEPT ![e] = Append(@, d)]
        /\ acc' = [acc EXCEPT ![e] = Append(@, d)]
        /\ UNCHANGED <<closed, rd, dl, dlv>>

\* ---------------------------------------------------------------- ReadFrom (one reader per endpoint at a time)
CanRead(e) == rd[e] = Nil /\ dl[e] # "run"
Read(e, b) ==
  LET p == Peer(e) IN
  /\ CanRead(e)
  /\ IF q[p] # <<>> THEN
        LET d == Head(q[p]) IN
        /\ out' = Outcome("ok", RdOut(d, b).n, RdOut(d, b).id, RdOut(d, b).over, <<>>, <<>>)
        /\ q' = [q EXCEPT ![p] = Tail(@)]
        /\ dlv' = [dlv EXCEPT ![p] = Append(@, d.id)]
        /\ UNCHANGED <<closed, rd, dl, nid, acc>>
     ELSE IF closed[p] THEN                             \* closed and drained: (0, nil, nil), no error
        /\ out' = Plain("ok", 0) /\ UNCHANGED <<q, closed, rd, dl, nid, acc, dlv>>
     ELSE
        /\ out' = Plain("blocked", 0)
        /\ rd' = [rd EXCEPT ![e] = b]
        /\ UNCHANGED <<q, closed, dl, nid, acc, dlv>>

\* ---------------------------------------------------------------- Close
Close(e) ==
  LET p == Peer(e) IN
  IF closed[e] THEN out' = Plain("panic", 0) /\ UNCHANGED <<q, closed, rd, dl, nid, acc, dlv>>
  ELSE /\ closed' = [closed EXCEPT ![e] = TRUE]
       /\ IF rd[p] # Nil THEN                           \* the peer's blocked reader sees the closed channel: (0, nil, nil)
             /\ out' = Outcome("ok", 0, NoId, FALSE, <<[e |-> p, n |-> 0, id |-> NoId, over |-> FALSE]>>, <<>>)
             /\ rd' = [rd EXCEPT ![p] = Nil] /\ UNCHANGED dl
          ELSE IF dl[p] = "run" THEN                    \* the peer's discard loop reads n = 0 and returns
             /\ out' = Outcome("ok", 0, NoId, FALSE, <<>>, LoopEnd(p, "ret"))
             /\ dl' = [dl EXCEPT ![p] = "ret"] /\ UNCHANGED rd
          ELSE out' = Plain("ok", 0) /\ UNCHANGED <<rd, dl>>
       /\ UNCHANGED <<q, nid, acc, dlv>>                \* rd[e], dl[e]: the endpoint's own reader is NOT released

\* ---------------------------------------------------------------- go TestReadAndDiscardLoop(e)
StartLoop(e) ==
  LET p == Peer(e)  r == Eat(q[p])
      st == IF r.st = "run" /\ closed[p] THEN "ret" ELSE r.st IN
  /\ CanRead(e) /\ dl[e] = "off"
  /\ dl' = [dl EXCEPT ![e] = st]
  /\ q' = [q EXCEPT ![p] = SubSeq(@, r.k + 1, Len(@))]
  /\ dlv' = [dlv EXCEPT ![p] = @ \o Ids(SubSeq(q[p], 1, r.k))]
  /\ out' = Outcome("ok", 0, NoId, FALSE, <<>>, LoopEnd(e, st))
  /\ UNCHANGED <<closed, rd, nid, acc>>

\* ---------------------------------------------------------------- invariants
TypeOK == /\ \A e \in Ends : Len(q[e]) <= Cap /\ closed[e] \in BOOLEAN /\ dl[e] \in {"off", "run", "ret", "panic"}
          /\ nid \in Nat
\* (b) in flight = accepted minus delivered, in order; delivered = a prefix of accepted: exactly once, FIFO, no invention
ExactlyOnceFifo == \A e \in Ends :
   /\ Len(dlv[e]) <= Len(acc[e])
   /\ \A i \in 1..Len(dlv[e]) : dlv[e][i] = acc[e][i].id
   /\ q[e] = SubSeq(acc[e], Len(dlv[e]) + 1, Len(acc[e]))
\* (c) bounded
Bounded == \A e \in Ends : Len(acc[e]) - Len(dlv[e]) <= Cap
\* (d) a reader is blocked only on an empty direction whose writer is open: every blocked read is released by the
\*     peer's next WriteTo or Close and by nothing else
BlockedOnlyIfEmpty == \A e \in Ends : (rd[e] # Nil \/ dl[e] = "run") => (q[Peer(e)] = <<>> /\ ~closed[Peer(e)])
OneReader == \A e \in Ends : ~(rd[e] # Nil /\ dl[e] = "run")
\* nothing is accepted from an endpoint after its Close (action property)
NoAcceptAfterClose == [][\A e \in Ends : closed[e] => acc'[e] = acc[e]]_vars

\* ---------------------------------------------------------------- known-finding sites (contract (e) vs code)
\* keys of known_findings.d/X01.json, evaluated in the state BEFORE the step
KfWrite(e) == IF closed[e] /\ Len(q[e]) < Cap THEN <<"WriteAfterClosePanics">> ELSE <<>>
KfOver(o)  == IF o.over \/ (o.wake # <<>> /\ o.wake[1].over) THEN <<"ReadBeyondLen">> ELSE <<>>
KfRead(e)  == IF closed[e] THEN <<"ReadAfterOwnClose">> ELSE <<>>
KfClose(e) == IF ~closed[e] /\ (rd[e] # Nil \/ dl[e] = "run") THEN <<"CloseLeavesOwnReadBlocked">> ELSE <<>>
=============================================================================
