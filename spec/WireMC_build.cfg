SPECIFICATION Spec
CONSTANTS
  Caps = {41, 42, 62, 342, 1522}
  NSmall = {0, 1, 17, 18}
  PortClasses = {"dhcp", "mdns", "plain"}
  DhcpCodes = {1, 3, 6, 51}
  MaxOpts = 4
  ReqCodes = {1, 3}
  MaxReq = 1
  DhcpCaps = {300}
  BigCode = 43
  BigLens = {0}
  IdClasses = {"rand"}
  WriteFailures = {"none"}
  NICs = {"nicA"}
  Parts = {"build"}
INVARIANTS Export ModelOK
CHECK_DEADLOCK FALSE
