------------------------------ MODULE WireMC ------------------------------
(* Bounded configurations of Wire.tla and the export of behaviours / vectors.
   Every terminal state (a finished or refused build, a DHCP layout vector, a send vector) is
   printed once as JSON by the invariant Export and executed on the real code by
   harness/cmd/wiredrv. *)
EXTENDS Wire, Json

Terminal == phase \in {"done", "rewritten", "stop"} \/ (phase = "vec" /\ vec.part # "first")

ExportRec ==
    IF phase = "vec" THEN vec
    ELSE [part |-> "build", cap |-> cap, hist |-> hist, res |-> res, final |-> phase,
          layers |-> st, classify |-> Classify]

\* evaluated once per distinct state; always TRUE
Export == Terminal => PrintT(ToJson(ExportRec))

\* the model-level checks TLC decides (a failure here is a specification defect, not a verdict on the code)
ModelOK == /\ TypeOK
           /\ C03_LengthsConsistent /\ C03_TooBigExact /\ C03_NeverPastCap
           /\ C03_RewriteConsistentUnlessKF /\ C03_AliasRequiredSupported
           /\ C03_Dhcp
           /\ C07_MechWellFormedUnlessKF /\ C07_KFExact /\ C07_ExpSelfConsistent /\ C07_PoolNotRead
=============================================================================
