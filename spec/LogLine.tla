------------------------------ MODULE LogLine ------------------------------
(* C20 -- fastlog field renderers as TLA+ functions (part 1) and the fixed line buffer as a state machine
   (part 2).  Enumerated / model-checked by LogLineVec.tla and LogLineMC.tla.

   Part 1, property level: the text the statement demands -- RFC 5952 for IPv6 (what netip.Addr.String and
   net.IP.String print), dotted decimal, colon separated lower-case hex MAC, decimal integers, fixed width 0x hex,
   true/false.  Texts are sequences of one-character strings (tokens); `Join` turns them into a TLC string.
   Part 1, mechanism level: `MechIP6` is appendIP6 of fastlog/logging.go:483-530 transcribed with its loop
   bounds as written (parameter MinRun = the shortest zero run the code compresses: `zeros > 1` means 3).

   Part 2: the line is (idx, panicked).  Every appender is transcribed at the level of its buffer operations
   (appendByte, copy, index arithmetic, guards) -- mechanism level -- next to its reference length -- property
   level.  The guarded appenders (ByteArray, StringArray, IPArray) are enabled at every cursor position and with
   every argument size; all others only when their rendering fits (that is their documented precondition). *)
EXTENDS Integers, Sequences, SequencesExt, TLC

\* ============================================================================================
\* Part 1 -- renderers
\* ============================================================================================
Digits == <<"0", "1", "2", "3", "4", "5", "6", "7", "8", "9", "a", "b", "c", "d", "e", "f">>
Dg(n) == Digits[n + 1]

Join(toks) == FoldLeft(LAMBDA a, c : a \o c, "", toks)

\* sequences joined with a separator token
RECURSIVE JoinSep(_, _)
JoinSep(ss, sep) == IF ss = <<>> THEN <<>>
                    ELSE IF Len(ss) = 1 THEN ss[1] ELSE ss[1] \o <<sep>> \o JoinSep(Tail(ss), sep)

\* ---- decimal ------------------------------------------------------------------------------
RECURSIVE Dec(_)
Dec(n) == IF n < 10 THEN <<Dg(n)>> ELSE Dec(n \div 10) \o <<Dg(n % 10)>>

\* signed decimal as strconv.AppendInt prints it (TLC integers: -2^31 .. 2^31-1)
DecInt(n) == IF n < 0 THEN <<"-">> \o Dec(0 - n) ELSE Dec(n)

\* a uint32 given as two 16-bit halves (it does not fit a TLC integer): schoolbook division by ten
\*   hi = 10*qh + rh ;  rh*65536 + lo < 655360 ;  value div 10 = qh*65536 + (rh*65536+lo) div 10
RECURSIVE DecU32(_, _)
DecU32(hi, lo) ==
  IF hi = 0 THEN Dec(lo)
  ELSE LET rh == hi % 10
           t  == rh * 65536 + lo
       IN  DecU32(hi \div 10, t \div 10) \o <<Dg(t % 10)>>

\* ---- hexadecimal --------------------------------------------------------------------------
Hex2(b) == <<Dg(b \div 16), Dg(b % 16)>>
Hex4(v) == Hex2(v \div 256) \o Hex2(v % 256)
\* lower-case hex without leading zeros (one IPv6 group)
RECURSIVE HexNZ(_)
HexNZ(v) == IF v < 16 THEN <<Dg(v)>> ELSE HexNZ(v \div 16) \o <<Dg(v % 16)>>

Uint8HexText(b)  == <<"0", "x">> \o Hex2(b)
Uint16HexText(v) == <<"0", "x">> \o Hex4(v)
BoolText(t)      == IF t THEN <<"t", "r", "u", "e">> ELSE <<"f", "a", "l", "s", "e">>
NilText          == <<"n", "i", "l">>

\* ---- MAC: six two-digit lower-case hex bytes separated by colons; anything else prints nil --
MACText(m) == IF Len(m) = 6 THEN JoinSep([i \in 1..6 |-> Hex2(m[i])], ":") ELSE NilText

\* ---- IPv4 dotted decimal --------------------------------------------------------------------
IP4Text(a) == JoinSep([i \in 1..4 |-> Dec(a[i])], ".")

\* ---- IPv6, RFC 5952 section 4 -----------------------------------------------------------------
\* g is a sequence of eight 16-bit groups
Groups(bytes) == [i \in 1..8 |-> bytes[2*i-1] * 256 + bytes[2*i]]

ZeroRun(g, i, j) == \A k \in i..j : g[k] = 0
\* maximal runs of zero groups of length >= minrun, as <<first, last>>
Runs(g, minrun) ==
  {r \in (1..8) \X (1..8) :
     /\ r[2] - r[1] + 1 >= minrun
     /\ ZeroRun(g, r[1], r[2])
     /\ (r[1] = 1 \/ g[r[1]-1] # 0)
     /\ (r[2] = 8 \/ g[r[2]+1] # 0)}
RunLen(r) == r[2] - r[1] + 1
\* 4.2.3: the longest run is shortened, the first one when several have that length
\* 4.2.2: a single zero group is not shortened  -> minrun = 2
BestRun(g, minrun) ==
  LET rs == Runs(g, minrun)
  IN  IF rs = {} THEN <<0, 0>>
      ELSE CHOOSE r \in rs : \A q \in rs : RunLen(r) > RunLen(q) \/ (RunLen(r) = RunLen(q) /\ r[1] <= q[1])

GroupsText(g, i, j) == JoinSep([k \in 1..(j - i + 1) |-> HexNZ(g[i + k - 1])], ":")

IP6TextWith(g, r) ==
  IF r = <<0, 0>> THEN GroupsText(g, 1, 8)
  ELSE GroupsText(g, 1, r[1] - 1) \o <<":", ":">> \o GroupsText(g, r[2] + 1, 8)

\* property level: RFC 5952 (4.2.1 shorten as much as possible, 4.2.2, 4.2.3; 4.1 no leading zeros; 4.3 lower case)
IP6Text(g) == IP6TextWith(g, BestRun(g, 2))

\* net.IP as IPSlice/IPArray print it: To4() (4 bytes, or 16 bytes ::ffff:a.b.c.d) dotted, 16 bytes RFC 5952,
\* nil / other lengths "nil"   (= net.IP.String for the valid lengths)
Is4In6(b) == Len(b) = 16 /\ (\A i \in 1..10 : b[i] = 0) /\ b[11] = 255 /\ b[12] = 255
IPSliceText(b) ==
  IF Len(b) = 4 THEN IP4Text(b)
  ELSE IF Is4In6(b) THEN IP4Text(SubSeq(b, 13, 16))
  ELSE IF Len(b) = 16 THEN IP6Text(Groups(b))
  ELSE NilText

\* netip.Addr as IP prints it (netip.Addr.String): an IPv4-mapped IPv6 address keeps its ::ffff: prefix
AddrText(b) ==
  IF Len(b) = 4 THEN IP4Text(b)
  ELSE IF Is4In6(b) THEN <<":", ":", "f", "f", "f", "f", ":">> \o IP4Text(SubSeq(b, 13, 16))
  ELSE IF Len(b) = 16 THEN IP6Text(Groups(b))
  ELSE NilText

\* a zone-qualified address (netip.Addr.WithZone): the text, '%', the zone characters
ZonedAddrText(b, zone) == IF zone = <<>> THEN AddrText(b) ELSE AddrText(b) \o <<"%">> \o zone

\* ---- time.StampMilli ("Jan _2 15:04:05.000") of an instant *in its own location* ---------------------
\* A time value is (unix seconds, milliseconds, offset of its location in minutes east of UTC): the same instant
\* has a different text in every location.  Civil date from the day number (proleptic Gregorian calendar).
Months == <<"Jan", "Feb", "Mar", "Apr", "May", "Jun", "Jul", "Aug", "Sep", "Oct", "Nov", "Dec">>
Civil(days) ==
  LET z   == days + 719468
      era == z \div 146097
      doe == z - era * 146097
      yoe == (doe - doe \div 1460 + doe \div 36524 - doe \div 146096) \div 365
      doy == doe - (365 * yoe + yoe \div 4 - yoe \div 100)
      mp  == (5 * doy + 2) \div 153
  IN  [d |-> doy - (153 * mp + 2) \div 5 + 1, m |-> IF mp < 10 THEN mp + 3 ELSE mp - 9]
Dec2(n) == <<Dg(n \div 10), Dg(n % 10)>>
Dec3(n) == <<Dg(n \div 100), Dg((n \div 10) % 10), Dg(n % 10)>>
StampMilliText(unix, ms, offMin) ==
  LET loc == unix + offMin * 60                      \* wall clock of the location, as seconds since the epoch
      c   == Civil(loc \div 86400)
      sod == loc % 86400
  IN  <<Months[c.m], " ">> \o (IF c.d < 10 THEN <<" ", Dg(c.d)>> ELSE Dec2(c.d)) \o <<" ">>
      \o Dec2(sod \div 3600) \o <<":">> \o Dec2((sod % 3600) \div 60) \o <<":">> \o Dec2(sod % 60) \o <<".">> \o Dec3(ms)

\* ---- mechanism level: appendIP6 (logging.go:483-530) -----------------------------------------
\* for i in 0..7 { for j in i..7 { if group j # 0 break; if zeros := j-i; zeros > 1 && zeros > endZ-startZ {startZ,endZ = i,j} } }
\* run <<i, j>> (1-based, inclusive) has j-i+1 groups; `zeros > 1` admits runs of at least MinRun = 3 groups.
\* The strict comparison keeps the first of several longest candidates; candidates are all zero sub-runs
\* starting at i, so the winner is the leftmost maximal run of greatest length >= MinRun.
MechBest(g, minrun) ==
  LET cands == {r \in (1..8) \X (1..8) : r[1] <= r[2] /\ ZeroRun(g, r[1], r[2]) /\ RunLen(r) >= minrun}
  IN  IF cands = {} THEN <<0, 0>>
      ELSE CHOOSE r \in cands : \A q \in cands : RunLen(r) > RunLen(q) \/ (RunLen(r) = RunLen(q) /\ r[1] <= q[1])

\* printing loop: "::" at startZ (one extra ':' when startZ = 0), groups outside the run followed by ':', the
\* trailing ':' dropped unless the run reaches group 7
MechGroup(v) == IF v \div 256 # 0 THEN HexNZ(v \div 256) \o Hex2(v % 256) ELSE HexNZ(v % 256)
MechIP6(g, minrun) ==
  LET r == MechBest(g, minrun)
      piece(i) == IF r # <<0, 0>> /\ i = r[1] THEN (IF i = 1 THEN <<":", ":">> ELSE <<":">>)
                  ELSE IF r # <<0, 0>> /\ i > r[1] /\ i <= r[2] THEN <<>>
                  ELSE MechGroup(g[i]) \o <<":">>
      all == piece(1) \o piece(2) \o piece(3) \o piece(4) \o piece(5) \o piece(6) \o piece(7) \o piece(8)
  IN  IF r # <<0, 0>> /\ r[2] = 8 THEN all ELSE SubSeq(all, 1, Len(all) - 1)

\* ---- field framing (the library's own format: space, name, '=', value) -----------------------
Field(name, text) == <<" ">> \o name \o <<"=">> \o text
Quoted(text) == <<"\"">> \o text \o <<"\"">>
\* ByteArray: [aa bb cc]
ByteArrayText(bs) == <<"[">> \o JoinSep([i \in 1..Len(bs) |-> Hex2(bs[i])], " ") \o <<"]">>

\* ============================================================================================
\* Part 2 -- the line buffer
\* ============================================================================================
Cap == 2048
Marker == 10                         \* len("TRUNCATED ")

Min2(a, b) == IF a < b THEN a ELSE b
\* Go integer division truncates toward zero
TruncDiv(a, b) == IF a >= 0 THEN a \div b ELSE 0 - ((0 - a) \div b)

\* a line state: cursor, whether the code has panicked (index out of range / slice bounds), named deviation
L0 == [i |-> 0, p |-> FALSE, kf |-> "none"]

Panic(s, why) == [s EXCEPT !.p = TRUE, !.kf = IF @ = "none" THEN why ELSE @]
\* appendByte: l.buffer[l.index] = v; l.index++
AB(s) == IF s.p THEN s ELSE IF s.i >= Cap THEN Panic(s, "none") ELSE [s EXCEPT !.i = @ + 1]
\* k appendBytes in a row
ABn(s, k, why) == IF s.p THEN s ELSE IF s.i + k > Cap THEN Panic([s EXCEPT !.i = Min2(Cap, @ + k)], why)
                  ELSE [s EXCEPT !.i = @ + k]
\* l.index += copy(l.buffer[l.index:], x) with len(x) = n: copies what fits, panics only if index > cap
CP(s, n) == IF s.p THEN s ELSE IF s.i > Cap THEN Panic(s, "none") ELSE [s EXCEPT !.i = @ + Min2(n, Cap - @)]
DEC(s) == IF s.p THEN s ELSE [s EXCEPT !.i = @ - 1]
SETI(s, v) == IF s.p THEN s ELSE [s EXCEPT !.i = v]

\* ---- unguarded appenders (mechanism) ---------------------------------------------------------
\* Msg (logging.go:169-180): module[7], then ' ' '"' msg '"' when msg # ""
MsgM(m) == LET s == [L0 EXCEPT !.i = 7] IN IF m = 0 THEN s ELSE AB(CP(AB(AB(s)), m))
\* String (233-244): ' ' name '=' '"' value, step back when the buffer is full, '"'
StringM(s, n, v) == LET a == CP(AB(AB(CP(AB(s), n))), v)
                        b == IF ~a.p /\ a.i = Cap THEN DEC(a) ELSE a
                    IN  AB(b)
\* Label (285-289), Bytes (276-282), Bool (300-310), Uint8Hex (421-430), Uint16Hex (453-464)
LabelM(s, n)    == CP(AB(s), n)
BytesM(s, n, v) == CP(AB(CP(AB(s), n)), v)
BoolM(s, n, t)  == CP(AB(CP(AB(s), n)), IF t THEN 4 ELSE 5)
HexM(s, n, w)   == ABn(AB(CP(AB(s), n)), 2 + w, "none")
\* Uint8/16/32 (411-450) -> printInt (387-408): v = 0 writes one byte; otherwise index += k and the digits are
\* written downwards from index-1: panics iff the last digit lies outside the buffer
UintM(s, n, k)  == ABn(AB(CP(AB(s), n)), k, "none")
\* Int (467-478): direct buffer writes and a copy of strconv's text
IntM(s, n, k)   == CP(AB(CP(AB(s), n)), k)
\* MAC (313-333): 6 x writeHex + 5 ':' = 17 appendBytes, or copy("nil")
MACM(s, n, ok)  == LET a == AB(CP(AB(s), n)) IN IF ok THEN ABn(a, 17, "none") ELSE CP(a, 3)
\* appendIP6 with text length t: when the text does not end in "::" a trailing ':' is written and taken back
IP6M(s, t, tail, why) == IF tail THEN ABn(s, t, why) ELSE DEC(ABn(s, t + 1, why))
\* IPSlice (533-553): dotted via copies and appendBytes (t chars in total), or appendIP6, or copy("nil")
IPSliceM(s, n, kind, t, tail) ==
  LET a == AB(CP(AB(s), n))
  IN  CASE kind = "v4" -> ABn(a, t, "none")     \* 4 copies of <= 3 chars + 3 appendBytes; modelled as t writes
        [] kind = "v6" -> IP6M(a, t, tail, "none")
        [] OTHER -> CP(a, 3)
\* IP (556-568): netip.AppendTo(l.buffer[idx:idx]); index += len -- nothing is checked
IPM(s, n, t) == LET a == AB(CP(AB(s), n)) IN IF a.p THEN a ELSE [a EXCEPT !.i = @ + t]
\* LF (205-208)
LFM(s) == AB(s)

\* ---- guarded appenders (mechanism) -----------------------------------------------------------
\* ByteArray (637-661).  BAFix = TRUE adds the proposed guard `if rem < len("TRUNCATED ") { return l }`.
ByteArrayM(s, n, m, BAFix) ==
  LET rem   == Cap - s.i - 1 - n - 2
      trunc == rem <= 3 * m
      k     == TruncDiv(rem - Marker, 3)
      mm    == IF trunc THEN k ELSE m
  IN  IF s.p THEN s
      ELSE IF trunc /\ BAFix /\ rem < Marker THEN s                       \* proposed fix: drop the field
      ELSE IF trunc /\ k < 0 THEN Panic(s, "KF_ByteArrayNoRoomForMarker")   \* value[:rem/3] with rem/3 < 0
      ELSE LET a == CP(CP(AB(s), n), 2)
               b == ABn(a, 3 * mm, "none")
               c == AB(IF mm > 0 THEN DEC(b) ELSE b)
           IN  IF trunc THEN SETI(c, Cap - 1) ELSE c

\* StringArray (247-273); es = sequence of element lengths
SAStep(acc, v) ==
  IF acc.stop \/ acc.s.p THEN acc
  ELSE IF acc.s.i + v + 4 > Cap THEN [acc EXCEPT !.stop = TRUE]
  ELSE [acc EXCEPT !.s = AB(AB(AB(CP(AB(acc.s), v))))]
StringArrayM(s, n, es) ==
  IF s.p THEN s
  ELSE IF s.i + n + 4 > Cap THEN s
  ELSE LET a == AB(AB(CP(AB(s), n)))
       IN  IF Len(es) = 0 THEN AB(a)
           ELSE LET r == FoldLeft(SAStep, [s |-> a, stop |-> FALSE], es) IN AB(DEC(r.s))

\* IPArray (571-607); es = sequence of [kind, t, tail]; Guard = 30 in the code (`l.index+28+2 > cap`),
\* Ret4 = TRUE: the code returns from the function after the first IPv4 element (line 597)
IAStep(acc, e, Guard, Ret4) ==
  IF acc.stop \/ acc.ret \/ acc.s.p THEN acc
  ELSE IF acc.s.i + Guard > Cap THEN [acc EXCEPT !.stop = TRUE]
  ELSE CASE e.kind = "nil" -> [acc EXCEPT !.s = AB(AB(acc.s))]
         [] e.kind = "v4"  -> IF Ret4 THEN [acc EXCEPT !.s = ABn(acc.s, e.t, "none"), !.ret = TRUE]
                              ELSE [acc EXCEPT !.s = AB(AB(ABn(acc.s, e.t, "none")))]
         [] e.kind = "v6"  -> [acc EXCEPT !.s = ABn(IP6M(acc.s, e.t, e.tail, "KF_IPArrayGuardTooSmall"), 2,
                                                    "KF_IPArrayGuardTooSmall")]
         [] OTHER          -> [acc EXCEPT !.s = AB(AB(CP(acc.s, 3)))]       \* wrong length: "nil"
IPArrayM(s, n, es, Guard, Ret4) ==
  IF s.p THEN s
  ELSE IF s.i + n + 4 > Cap THEN s
  ELSE LET a == AB(AB(CP(AB(s), n)))
       IN  IF Len(es) = 0 THEN AB(a)
           ELSE LET r == FoldLeft(LAMBDA x, e : IAStep(x, e, Guard, Ret4), [s |-> a, stop |-> FALSE, ret |-> FALSE], es)
                IN  IF r.ret THEN [r.s EXCEPT !.kf = IF @ = "none" THEN "KF_IPArrayReturnsAfterIP4" ELSE @]
                    ELSE AB(DEC(r.s))

\* ---- reference lengths (property level: the complete rendering of the field) ---------------
RefString(n, v)   == n + v + 4
RefLabel(n)       == n + 1
RefBytes(n, v)    == n + v + 2
RefBool(n, t)     == n + 2 + (IF t THEN 4 ELSE 5)
RefHex(n, w)      == n + 4 + w
RefNum(n, k)      == n + 2 + k
RefMAC(n, ok)     == n + 2 + (IF ok THEN 17 ELSE 3)
RefIP(n, t)       == n + 2 + t
RefByteArray(n, m) == n + 4 + (IF m = 0 THEN 0 ELSE 3 * m - 1)
SumSeq(es) == FoldLeft(LAMBDA a, x : a + x, 0, es)
\* arrays in the library's own framing:  name=[e1, e2,]   (the code leaves the last comma)
RefStringArray(n, es) == n + 3 + (IF Len(es) = 0 THEN 1 ELSE SumSeq([i \in 1..Len(es) |-> es[i] + 4]))
RefIPArray(n, es)     == n + 3 + (IF Len(es) = 0 THEN 1 ELSE SumSeq([i \in 1..Len(es) |-> es[i].t + 2]))
=============================================================================
