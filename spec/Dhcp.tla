------------------------------- MODULE Dhcp -------------------------------
(***************************************************************************)
(* DHCPv4 server of irai/packet (handlers/dhcp4_spoofer: lease.go,         *)
(* discover.go, request.go, declinerelease.go, dhcp4.go, subnet_lease.go)  *)
(* together with the part of packet.Session it talks to (FindIP,           *)
(* IsCaptured, DHCPv4Update, SetDHCPv4IPOffer, Capture, Release, purge).   *)
(*                                                                         *)
(* Two levels (DESIGN 1.1):                                                *)
(*  - mechanism : lease, next, file, replies (handler) and hosts, ment     *)
(*    (session) -- one operator per function of the code, including what   *)
(*    the code knowingly or unknowingly does (findByIP sees acknowledged    *)
(*    addresses only, handleRelease frees nothing, a select on a free      *)
(*    lease is acknowledged, ...);                                         *)
(*  - property  : acked, obs, verdict -- updated from the arguments of the *)
(*    step, the session's answers at that moment and the observed reply    *)
(*    only.  verdict is the set of property guards (C11, C12, C18) the     *)
(*    reply of the last step contradicts, each with an observational       *)
(*    "cause" tag used as known-finding key.                               *)
(*                                                                         *)
(* Addresses are integers: offsets inside the home LAN (0 = network,       *)
(* N1-1 = broadcast), ExtA = addresses outside the LAN, NoA = none/0.0.0.0,*)
(* BcastA = 255.255.255.255 (only as IP source of a REQUEST).              *)
(* Every handler operator is a pure function  state record -> [s, out],    *)
(* so that the trace specification can evaluate it on logged arguments.    *)
(***************************************************************************)
EXTENDS Integers, Sequences, FiniteSets, TLC

CONSTANTS N1,                  \* size of the home LAN (net1 = 0..N1-1)
          Net2Lo, Net2Hi,      \* netfilter subnet (net2 = Net2Lo..Net2Hi), a sub-block of net1
          HostA, RouterA,      \* our address (= net2 gateway, DHCP server id) and the LAN router
          ExtA,                \* set of addresses outside the LAN
          NoA, BcastA,
          Mode,                \* "primary" | "secondary" | "nice"
          CIDs, MACs,          \* client identifiers, client MACs
          Own, Router, Stranger, NoMac,
          XIDs, NoX,
          Fixed                \* names of proposed fixes the code under test already contains (see findings/C11.md):
                               \*   "reqrange"  requested address must lie inside the pool range
                               \*   "offers"    findByIP also matches the address under OFFER of a lease in discover state
                               \*   "selfree"   a select on a free lease is answered with NAK
                               \*   "stale"     a free lease forgets its stale offer
                               \*   "shadow"    findByIP skips free leases (they keep their last address)
                               \*   "reserved"  allocation refuses our own and the router's address whatever the session tracks
                               \*   "net2edge"  the loader does not attach net2's own network / broadcast address to net2

VARIABLES lease,     \* CIDs -> Nil | [st, mac, ip, offer, xid, net, exp]      Handler.table
          next,      \* {1,2} -> address                                       dhcpSubnet.nextIP
          file,      \* durable lease file (see "lease file" below)
          replies,   \* sequence (0 or 1) of replies sent by the last step
          hosts,     \* Tracked -> MAC | NoMac        Session.HostTable (what FindIP answers)
          ment,      \* AllMacs -> Nil | [cap, offer] Session.MACTable (Captured, IP4Offer)
          acked,     \* property: CIDs -> Nil | [ip, mac, cap]  address currently acknowledged (smallest reading)
          obs,       \* property: CIDs -> [offer, xid, req, dup, old]     last OFFER observed per client
          verdict    \* property: set of [g, c] guard failures of the last step

mech == <<lease, next, file, replies, hosts, ment>>
prop == <<acked, obs, verdict>>
vars == <<lease, next, file, replies, hosts, ment, acked, obs, verdict>>

Nil     == [nil |-> TRUE]
Net1    == 0..(N1 - 1)
Net2    == Net2Lo..Net2Hi
Tracked == Net1 \cup ExtA
AllMacs == MACs \cup {Own, Router, Stranger}
Min(S)  == CHOOSE x \in S : \A y \in S : x <= y

Lo(n)    == IF n = 1 THEN 0 ELSE Net2Lo
Hi(n)    == IF n = 1 THEN N1 - 1 ELSE Net2Hi
First(n) == Lo(n) + 1
Gw(n)    == IF n = 1 THEN RouterA ELSE HostA
Dns(n)   == IF n = 1 THEN "cfg" ELSE "fam"
InNet(n, a) == a >= Lo(n) /\ a <= Hi(n)
Attack(cap) == Mode = "secondary" \/ (Mode = "nice" /\ cap)

-----------------------------------------------------------------------------
(* session (mechanism shared with Hosts.tla, reduced to what the handler sees) *)

HostAt(h, a)  == IF a \in Tracked THEN h[a] ELSE NoMac
HostsOf(h, m) == {a \in Tracked : h[a] = m}
IsCap(me, m)  == me[m] # Nil /\ me[m].cap
Ensure(me, m) == IF me[m] = Nil THEN [me EXCEPT ![m] = [cap |-> FALSE, offer |-> NoA]] ELSE me

\* Session.deleteHost: the MAC entry goes with its last host (and with it the capture flag)
DelHost(h, me, a) ==
  IF h[a] = NoMac THEN [h |-> h, me |-> me]
  ELSE LET m  == h[a]
           h1 == [h EXCEPT ![a] = NoMac]
       IN [h |-> h1, me |-> IF HostsOf(h1, m) = {} THEN [me EXCEPT ![m] = Nil] ELSE me]

\* Session.findOrCreateHostWithLock
Bind(h, me, m, a) ==
  IF a \notin Tracked \/ h[a] = m THEN [h |-> h, me |-> me]
  ELSE LET d == DelHost(h, me, a)
       IN [h |-> [d.h EXCEPT ![a] = m], me |-> Ensure(d.me, m)]

\* Session.DHCPv4Update (ErrInvalidIP for the zero / invalid address)
Upd(s, m, a) ==
  IF a = NoA \/ a \notin Tracked THEN s
  ELSE LET b == Bind(s.hosts, s.ment, m, a)
       IN [s EXCEPT !.hosts = b.h, !.ment = [b.me EXCEPT ![m].offer = a]]

\* Session.SetDHCPv4IPOffer
SetOffer(me, m, a) == [Ensure(me, m) EXCEPT ![m].offer = a]

\* Session.purge twice with a late clock: every host but our own is deleted
PurgeOp(h, me) ==
  [h  |-> [a \in Tracked |-> IF h[a] = Own THEN Own ELSE NoMac],
   me |-> [m \in AllMacs |-> IF m # Own /\ HostsOf(h, m) # {} THEN Nil ELSE me[m]]]

InitHosts == [a \in Tracked |-> IF a = HostA THEN Own ELSE IF a = RouterA THEN Router ELSE NoMac]
InitMent  == [m \in AllMacs |-> IF m \in {Own, Router} THEN [cap |-> FALSE, offer |-> NoA] ELSE Nil]

-----------------------------------------------------------------------------
(* handler (mechanism) *)

NewLease(m, n) == [st |-> "free", mac |-> m, ip |-> NoA, offer |-> NoA, xid |-> NoX, net |-> n, exp |-> FALSE]

\* lease.go findOrCreate: subnet by capture state; re-created when subnet or MAC changed
FindOrCreate(s, k, m) ==
  LET n == IF IsCap(s.ment, m) THEN 2 ELSE 1
  IN IF s.lease[k] # Nil /\ s.lease[k].net = n /\ s.lease[k].mac = m THEN s
     ELSE [s EXCEPT !.lease[k] = NewLease(m, n)]

\* lease.go findByIP looks at Lease.Addr.IP only (never at IPOffer) and returns the first match in
\* map order; with several matches the model takes the order that lets the allocation through.
Matches(L, a)          == {j \in CIDs : L[j] # Nil /\ (\/ (L[j].ip = a /\ ("shadow" \in Fixed => L[j].st # "free"))
                                                           \/ ("offers" \in Fixed /\ L[j].st = "discover" /\ L[j].offer = a))}
NotBlockedReq(L, a, k) == LET M == Matches(L, a) IN M = {} \/ \E j \in M : L[j].st = "free" \/ j = k
NotBlockedScan(L, a)   == LET M == Matches(L, a) IN M = {} \/ \E j \in M : L[j].st = "free"
Reserved(a)            == "reserved" \in Fixed /\ a \in {HostA, RouterA}       \* never leased, whatever the session tracks
FreeAddr(s, a)         == NotBlockedScan(s.lease, a) /\ HostAt(s.hosts, a) = NoMac /\ ~Reserved(a)

\* lease.go allocIPOffer: requested address, cursor scan, wrap-around
Alloc(s, k, req) ==
  LET n == s.lease[k].net
  IN IF req # NoA /\ NotBlockedReq(s.lease, req, k) /\ HostAt(s.hosts, req) = NoMac /\ ~Reserved(req)
        /\ ("reqrange" \in Fixed => req >= First(n) /\ req < Hi(n))
     THEN [ok |-> TRUE, s |-> [s EXCEPT !.lease[k].offer = req]]
     ELSE LET c2 == {a \in s.next[n]..(Hi(n) - 1) : FreeAddr(s, a)}
              c3 == {a \in First(n)..(Hi(n) - 1) : FreeAddr(s, a)}
          IN IF c2 # {} THEN [ok |-> TRUE, s |-> [s EXCEPT !.lease[k].offer = Min(c2), !.next[n] = Min(c2) + 1]]
             ELSE IF c3 # {} THEN [ok |-> TRUE, s |-> [s EXCEPT !.lease[k].offer = Min(c3), !.next[n] = Min(c3) + 1]]
             ELSE [ok |-> FALSE, s |-> [s EXCEPT !.next[n] = Hi(n)]]

\* replies: options of the lease's subnet (subnet_lease.go CopyOptions), request's xid/chaddr kept;
\* mbr = subnet mask placed before the router option (layer_dhcp4.go AppendOptions follows the
\* client's parameter request list first: prl "rm" lists the router before the mask)
Reply(t, m, n, yi, xid, prl) ==
  [t |-> t, mac |-> m, xid |-> xid, yi |-> yi, mask |-> n, router |-> Gw(n), dns |-> Dns(n),
   sid |-> HostA, lt |-> TRUE, mbr |-> prl \notin {"rm", "r"}]    \* prl classes: none, mr, rm, m (mask only), r (router only), n (neither)
Nak(m, xid, sid) ==
  [t |-> "nak", mac |-> m, xid |-> xid, yi |-> NoA, mask |-> 0, router |-> NoA, dns |-> "none",
   sid |-> sid, lt |-> FALSE, mbr |-> TRUE]

\* subnet_lease.go saveConfig: allocated leases only
\* cur: the expiry written to the file is the expiry the server holds in memory for that lease
Saved(L) == {[k |-> j, mac |-> L[j].mac, ip |-> L[j].ip, xid |-> L[j].xid, cur |-> TRUE] : j \in {x \in CIDs : L[x] # Nil /\ L[x].st = "allocated"}}

\* discover.go handleDiscover
DiscoverOp(s0, k, m, req, xid, prl) ==
  LET s1 == FindOrCreate(s0, k, m)
      l  == s1.lease[k]
      o0 == IF l.st = "allocated" THEN l.ip
            ELSE IF l.st = "discover" /\ l.xid # xid THEN NoA
            ELSE IF l.st = "free" /\ "stale" \in Fixed THEN NoA
            ELSE l.offer                                         \* free lease: a stale offer is kept
      al == IF o0 = NoA THEN Alloc(s1, k, req) ELSE [ok |-> TRUE, s |-> [s1 EXCEPT !.lease[k].offer = o0]]
  IN IF ~al.ok THEN [s |-> [al.s EXCEPT !.lease[k] = Nil], out |-> <<>>]
     ELSE LET o == al.s.lease[k].offer
          IN [s   |-> [al.s EXCEPT !.lease[k].st = "discover", !.lease[k].xid = xid, !.ment = SetOffer(@, m, o)],
              out |-> <<Reply("offer", m, l.net, o, xid, prl)>>]

\* request.go handleRequest
AckOp(s, k, xid, prl) ==
  LET l  == s.lease[k]
      ip == IF l.st = "discover" THEN l.offer ELSE l.ip
      l2 == [l EXCEPT !.ip = ip, !.offer = IF l.st = "discover" THEN NoA ELSE @, !.st = "allocated", !.exp = TRUE]
      L2 == [s.lease EXCEPT ![k] = l2]
      s2 == [s EXCEPT !.lease = L2, !.file = Saved(L2)]
  IN [s |-> Upd(s2, l.mac, ip), out |-> <<Reply("ack", l.mac, l.net, ip, xid, prl)>>]

ReqOperation(sid, ropt, src) ==
  IF sid # "none" THEN "selecting"
  ELSE IF ropt = NoA /\ src # BcastA THEN "renewing"
  ELSE IF ropt = NoA THEN "rebinding"
  ELSE "rebooting"
ReqIP(sid, ropt, ci, src) == IF ReqOperation(sid, ropt, src) \in {"renewing", "rebinding"} THEN ci ELSE ropt

RequestOp(s0, k, m, sid, ropt, ci, src, xid, prl) ==
  LET op  == ReqOperation(sid, ropt, src)
      rip == ReqIP(sid, ropt, ci, src)
      cap == IsCap(s0.ment, m)
      n   == IF cap THEN 2 ELSE 1
      s1  == FindOrCreate(s0, k, m)
      l   == s1.lease[k]
  IN IF rip = NoA THEN [s |-> s0, out |-> <<>>]
     ELSE IF op = "selecting" /\ sid = "other" THEN
        LET s2 == IF l.st # "discover" THEN [s1 EXCEPT !.lease[k].st = "free", !.lease[k].ip = NoA] ELSE s1
        IN IF Attack(cap) THEN [s |-> s2, out |-> <<Nak(m, xid, HostA)>>]
           ELSE [s |-> Upd(s2, m, rip), out |-> <<>>]
     ELSE IF op = "selecting" THEN
        IF (l.st = "discover" /\ (l.xid # xid \/ l.offer # rip)) \/ (l.st = "allocated" /\ l.ip # rip)
           \/ (l.st = "free" /\ "selfree" \in Fixed)
        THEN [s |-> s1, out |-> <<Nak(m, xid, HostA)>>]
        ELSE AckOp(s1, k, xid, prl)                             \* includes st = "free" (KF_SelectOnFreeLease)
     ELSE IF op = "renewing" THEN
        IF l.st # "allocated" \/ l.ip # rip
        THEN [s |-> s1, out |-> <<Nak(m, xid, HostA)>>]
        ELSE AckOp(s1, k, xid, prl)
     ELSE \* rebooting, rebinding
        LET s2 == Upd(s1, m, rip)                                \* before any validation
        IN IF l.st = "free" /\ Attack(cap) THEN [s |-> s2, out |-> <<Nak(m, xid, RouterA)>>]
           ELSE IF l.st # "allocated" \/ l.ip # rip \/ ~InNet(n, l.ip)
           THEN [s |-> s2, out |-> <<Nak(m, xid, HostA)>>]
           ELSE AckOp(s2, k, xid, prl)

\* declinerelease.go
DeclineOp(s0, k, m, ropt, sid) ==
  LET s1 == FindOrCreate(s0, k, m)
  IN IF sid # "us" \/ s1.lease[k].ip # ropt THEN [s |-> s1, out |-> <<>>]
     ELSE [s |-> [s1 EXCEPT !.lease[k].st = "free", !.lease[k].ip = NoA, !.lease[k].offer = NoA], out |-> <<>>]
ReleaseOp(s0, k, m) == [s |-> FindOrCreate(s0, k, m), out |-> <<>>]       \* frees nothing

\* lease.go freeLeases through MinuteTicker(now): far = now after every expiry; near = now before
\* every expiry written by an ACK (a lease that was never acknowledged has the zero expiry)
TickOp(L, far) == [j \in CIDs |-> IF L[j] # Nil /\ L[j].st # "free" /\ (far \/ ~L[j].exp)
                                  THEN [L[j] EXCEPT !.st = "free"] ELSE L[j]]

\* dhcp4.go Config.New on a lease file whose content is the set of records F (loadByteArray keeps
\* allocated leases with a client id and an address inside the home LAN), fresh session
LoadOpS(F, me) == [j \in CIDs |->
   IF \E r \in F : r.k = j /\ InNet(1, r.ip)
   THEN LET r == CHOOSE x \in F : x.k = j /\ InNet(1, x.ip)
        IN [st |-> "allocated", mac |-> r.mac, ip |-> r.ip, offer |-> NoA, xid |-> r.xid,
            net |-> IF IsCap(me, r.mac) /\ InNet(2, r.ip) /\ ("net2edge" \in Fixed => r.ip \notin {Lo(2), Hi(2)}) THEN 2 ELSE 1,
            exp |-> TRUE]     \* net2 only for a captured MAC with a net2 address
   ELSE Nil]
LoadOp(F) == LoadOpS(F, InitMent)

St == [lease |-> lease, next |-> next, file |-> file, hosts |-> hosts, ment |-> ment]
\* the frame of a client message goes through Session.Parse first: a source address inside the LAN
\* binds (mac, src) like any other traffic
Parsed(m, src) == IF src \in Net1 THEN LET b == Bind(hosts, ment, m, src) IN [St EXCEPT !.hosts = b.h, !.ment = b.me] ELSE St

Commit(r) == /\ lease' = r.s.lease /\ next' = r.s.next /\ file' = r.s.file
             /\ hosts' = r.s.hosts /\ ment' = r.s.ment /\ replies' = r.out

-----------------------------------------------------------------------------
(* property level *)

\* obs[k]: what an observer of the wire knows about client k
\*   offer, xid : address and transaction of the last OFFER sent to k (NoA after it was acknowledged)
\*   omac, ocap : MAC and capture state the OFFER was made for (the OFFER is void once they changed)
\*   old        : a minute tick passed since that OFFER (its 5 s validity is over)
\*   void       : k declined / released to us since that OFFER
\*   last       : the address last acknowledged to k whose lease the server may still hold (the
\*                largest reading of "the client's current lease"; acked is the smallest)
\*   dur, dmac, dcap : the binding last acknowledged to k that the server has not visibly dropped since (k declined
\*                it, selected another server, or came back with another MAC / capture state): what a
\*                restart may legitimately find in the lease file (C18_CleanRestart, upper bound)
\*   lx         : k's lease object was acknowledged at least once since the server created it (it then carries an
\*                expiry in the future and a minute tick does not free it while it waits in discover state)
\*   ever       : every [mac, ip] ever acknowledged to k (cause tag of C18_CleanRestart)
\*   offd       : every address ever OFFERed to k (cause tag KF_StaleOfferKept)
\*   req, dup, stl : addresses that reached k through the requested-address shortcut / while an OFFER
\*                of the same address to another client was outstanding / by re-offering an expired
\*                offer (cause tags only)
NoObs == [offer |-> NoA, xid |-> NoX, old |-> FALSE, void |-> FALSE, omac |-> NoMac, ocap |-> FALSE, last |-> NoA, dur |-> NoA, dmac |-> NoMac, dcap |-> FALSE, lx |-> FALSE, ever |-> {}, offd |-> {},
          req |-> {}, dup |-> {}, stl |-> {}]

\* a binding ends (weakest reading) when a message of that client id arrives from another MAC or
\* after the capture state of its MAC changed
Ended(A, k, m, cap) == A[k] # Nil /\ (A[k].mac # m \/ A[k].cap # cap)
AIp(A, j) == IF A[j] = Nil THEN NoA ELSE A[j].ip

\* e: the event  [kind, k, m, sid, rdisc, reff, xid, prl]   kind in discover/request/decline/release
\*    rdisc = requested address of a DISCOVER, reff = address a REQUEST / DECLINE is about
\* r : the observed reply (OFFER or ACK);  A, O : acked / obs when the handler runs
\* h0, cap : what the session answers (FindIP, IsCaptured) when the handler runs
Holders(e, r, A) == {j \in CIDs \ {e.k} : r.yi # NoA /\ AIp(A, j) = r.yi}

Guards(e, r, A, O, h0, cap) ==
  LET k == e.k
      a == r.yi
      n == IF cap THEN 2 ELSE 1
      F(c, name) == IF c THEN {} ELSE {name}
  IN  F(~(r.t = "ack" /\ Holders(e, r, A) # {}), "C11_NoDoubleAck")
 \cup F(~(r.t = "offer" /\ Holders(e, r, A) # {}), "C11_NoOfferOfAcked")
 \cup F(a \notin {HostA, RouterA, Lo(n), Hi(n)}, "C11_NotReserved")
 \cup F(InNet(n, a), "C11_InSubnet")
 \cup F(HostAt(h0, a) \in {NoMac, e.m}, "C11_NotOthersTracked")
 \cup F(InNet(n, a), "C12_Subnet")
 \cup F(r.router = Gw(n), "C12_Router")
 \cup F(r.dns = Dns(n), "C12_DNS")
 \cup F(r.mask = n /\ r.mbr, "C12_Mask")
 \cup F(r.sid = HostA, "C12_ServerId")
 \cup F(r.lt, "C12_LeaseTime")
 \cup F(r.xid = e.xid /\ r.mac = e.m, "C12_Echo")
 \cup F(r.t # "ack" \/ (a # NoA /\ ((O[k].offer = a /\ O[k].xid = e.xid) \/ AIp(A, k) = a \/ O[k].last = a)), "C12_AckMatches")
 \cup F(r.t # "ack" \/ (e.sid # "other" /\ InNet(n, e.reff) /\ e.reff = a), "C12_NoAckWhen")

\* C18: a correct renewal of a binding that is still acknowledged is acknowledged (in particular after a restart)
RenewDue(e, A) == e.kind = "request" /\ e.op = "renewing" /\ e.reff # NoA /\ A[e.k] # Nil /\ A[e.k].ip = e.reff

\* observational cause of a failing reply: the named deviation (known-finding keys are <guard>:<cause>).
\* A deviation whose fix the code under test contains (constant Fixed) cannot be the cause any more.
Cause(g, e, r, A, O, h0) ==
  LET k    == e.k
      a    == r.yi
      had  == a # NoA /\ (O[k].offer = a \/ AIp(A, k) = a \/ O[k].last = a)
      lease0 == a # NoA /\ (AIp(A, k) = a \/ O[k].last = a)
      conflict == g \in {"C11_NoDoubleAck", "C11_NoOfferOfAcked", "C11_NotOthersTracked"}
  IN IF g \in {"C12_Router", "C12_DNS", "C12_Mask", "C12_ServerId", "C12_LeaseTime", "C12_Echo"}
     THEN (IF g = "C12_Mask" /\ r.mask \in {1, 2} /\ ~r.mbr /\ e.prl \in {"rm", "r"}
           THEN "KF_PRLRouterFirst"       \* the client's parameter request list itself puts the router first (3 before 1, or 3 without 1)
           ELSE "none")
     ELSE IF "shadow" \notin Fixed /\ g \in {"C11_NoDoubleAck", "C11_NoOfferOfAcked"} /\ a # NoA
             /\ \E j \in CIDs \ Holders(e, r, A) : \E b \in O[j].ever : b.ip = a
     THEN "KF_StaleLeaseShadows"      \* an ended lease keeps its address; findByIP returns the first match in map order,
                                      \* so the stale free lease can hide the lease that holds the address now
     ELSE IF "stale" \notin Fixed /\ conflict /\ a # NoA
             /\ (   (e.kind = "discover" /\ O[k].offer = a /\ O[k].old /\ AIp(A, k) # a /\ ~O[k].lx)   \* never acknowledged: the tick freed it
                  \/ (e.kind = "discover" /\ O[k].offer # a /\ a \in O[k].offd /\ AIp(A, k) # a /\ O[k].last # a)
                  \/ (a \in O[k].stl)
                  \/ (\E j1 \in Holders(e, r, A) : a \in O[j1].stl) )
     THEN "KF_StaleOfferKept"         \* a freed lease re-offers its expired offer without any check
     ELSE IF "offers" \notin Fixed /\ conflict /\ a # NoA
             /\ (   (a \in O[k].dup)
                  \/ (\E j2 \in Holders(e, r, A) : a \in O[j2].dup)
                  \/ (r.t = "offer" /\ (~had \/ (O[k].offer = a /\ O[k].old))
                         /\ (\E j3 \in CIDs \ {k} : O[j3].offer = a /\ O[j3].last # a /\ ~(O[j3].old /\ ~O[j3].lx))) )
     THEN "KF_OfferNotReserved"       \* handed out while a fresh OFFER of it to another client was outstanding
     ELSE IF g = "C11_NotOthersTracked" /\ had
     THEN "KF_SessionNotRechecked"    \* re-offer / re-acknowledgement of k's address does not consult the session again
     ELSE IF "net2edge" \notin Fixed /\ g = "C11_NotReserved" /\ a = Net2Lo /\ a # 0 /\ had
     THEN "KF_Net2NetworkAddrKept"    \* the netfilter subnet's network address is an ordinary host address of the home LAN: a client
                                      \* that holds it keeps it when it is captured and the lease is re-attached to net2 (reload)
     ELSE IF "reserved" \notin Fixed /\ g = "C11_NotReserved" /\ a \in {HostA, RouterA}
     THEN "KF_ReservedBySessionOnly"  \* our / the router's address is protected by the session's host entry only (and only
                                      \* at allocation time): it got out while the session did not track it for its owner
     ELSE IF "selfree" \notin Fixed /\ e.kind = "request" /\ e.sid = "us" /\ r.t = "ack" /\ ~lease0 /\ (O[k].offer = NoA \/ O[k].old \/ O[k].void)
     THEN "KF_SelectOnFreeLease"      \* a select is acknowledged although k holds neither a live offer nor a lease of that address
     ELSE IF "reqrange" \notin Fixed /\ a # NoA
             /\ (   (e.kind = "discover" /\ e.rdisc = a /\ ~had)
                  \/ (a \in O[k].req)
                  \/ (\E j4 \in Holders(e, r, A) : a \in O[j4].req) )
     THEN "KF_RequestedIPUnchecked"   \* the address came in through the requested-address shortcut of allocIPOffer
     ELSE "none"

PropMsg(e, out, h0, cap) ==
  LET k  == e.k
      tous == e.kind \in {"decline", "release"} /\ e.sid = "us"
      gone == Ended(acked, k, e.m, cap)
      \* ... or k went back to INIT (DISCOVER), declined / released to us, or selected another server
      A2 == IF gone \/ tous \/ e.kind = "discover" \/ (e.kind = "request" /\ e.sid = "other") THEN [acked EXCEPT ![k] = Nil]
            ELSE acked
      o0 == IF obs[k].offer # NoA /\ (obs[k].omac # e.m \/ obs[k].ocap # cap)
            THEN [obs[k] EXCEPT !.offer = NoA, !.xid = NoX, !.old = FALSE, !.void = FALSE] ELSE obs[k]
      \* a REQUEST that names no address is dropped by the server unseen: the largest readings stay as they are
      void0 == e.kind = "request" /\ e.reff = NoA
      o1 == IF void0 THEN obs[k]
            ELSE IF obs[k].dmac # NoMac /\ (obs[k].dmac # e.m \/ obs[k].dcap # cap)      \* the server re-creates the lease
            THEN [o0 EXCEPT !.last = NoA, !.dur = NoA, !.dmac = NoMac, !.lx = FALSE] ELSE o0
      \* (dmac / dcap stay: they also identify the lease behind `last`)
      o1b == IF e.kind = "request" /\ e.sid = "other" /\ ~void0 THEN [o1 EXCEPT !.dur = NoA] ELSE o1
      o2 == IF tous THEN [o1b EXCEPT !.void = TRUE, !.last = IF e.kind = "decline" /\ e.reff = @ THEN NoA ELSE @,
                                     !.dur = IF e.kind = "decline" /\ e.reff = @ THEN NoA ELSE @] ELSE o1b
      O2 == [obs EXCEPT ![k] = o2]
      renew == IF RenewDue(e, A2) THEN {[g |-> "C18_RenewAcked", c |-> "none"]} ELSE {}
  IN IF out = <<>> THEN /\ acked' = A2 /\ verdict' = renew
                        /\ obs' = IF e.kind = "discover" THEN [O2 EXCEPT ![k].void = TRUE, ![k].lx = FALSE] ELSE O2   \* no OFFER: pool exhausted, lease dropped
     ELSE LET r == out[1]
              a == r.yi
          IN IF r.t = "nak" THEN /\ acked' = [A2 EXCEPT ![k] = Nil] /\ obs' = O2 /\ verdict' = renew
             ELSE LET had == a # NoA /\ (o2.offer = a \/ AIp(A2, k) = a \/ o2.last = a)
                      req == IF e.kind = "discover" /\ e.rdisc = a /\ a # NoA /\ ~had THEN o2.req \cup {a} ELSE o2.req
                      dup == IF r.t = "offer" /\ a # NoA /\ (~had \/ (o2.offer = a /\ o2.old)) /\ (\E j \in CIDs \ {k} : O2[j].offer = a /\ O2[j].last # a /\ ~(O2[j].old /\ ~O2[j].lx))
                             \* an offer the server still holds -- but not the re-offer of j's own lease: that lease carries the
                             \* address in Addr.IP, which findByIP does see
                             THEN o2.dup \cup {a} ELSE o2.dup
                      \* an expired offer repeated although the address is meanwhile acknowledged to / tracked for another
                      stl == IF e.kind = "discover" /\ a # NoA /\ o2.offer = a /\ o2.old /\ AIp(A2, k) # a /\ ~o2.lx
                                /\ (Holders(e, r, A2) # {} \/ HostAt(h0, a) \notin {NoMac, e.m})
                             THEN o2.stl \cup {a}
                             ELSE IF e.kind = "discover" /\ a # NoA /\ o2.offer # a /\ a \in o2.offd /\ AIp(A2, k) # a /\ o2.last # a
                                /\ (Holders(e, r, A2) # {} \/ HostAt(h0, a) \notin {NoMac, e.m})
                             THEN o2.stl \cup {a} ELSE o2.stl
                  IN /\ verdict' = {[g |-> g, c |-> Cause(g, e, r, A2, O2, h0)] : g \in Guards(e, r, A2, O2, h0, cap)}
                                   \cup (IF r.t = "ack" /\ a = e.reff THEN {} ELSE renew)
                                   \* C18: every acknowledgement is durable: the lease file holds the binding with its current expiry
                                   \* (the file judged is the one on disk when the ACK was handed to the connection) -- and so does
                                   \* every other binding that is still acknowledged (smallest reading)
                                   \cup (IF r.t = "ack" /\ InNet(1, a)
                                            /\ (\/ ~(\E f \in file' : f.k = k /\ f.mac = e.m /\ f.ip = a /\ f.cur)
                                                \/ \E j \in CIDs \ {k} : A2[j] # Nil /\ InNet(1, A2[j].ip)
                                                       /\ ~(\E f \in file' : f.k = j /\ f.mac = A2[j].mac /\ f.ip = A2[j].ip))
                                         THEN {[g |-> "C18_AckDurable", c |-> "none"]} ELSE {})
                     /\ IF r.t = "offer"
                        THEN /\ obs' = [O2 EXCEPT ![k] = [o2 EXCEPT !.offer = a, !.xid = r.xid, !.old = FALSE, !.void = FALSE, !.omac = e.m, !.ocap = cap, !.req = req, !.dup = dup, !.stl = stl,
                                                                 !.offd = @ \cup {a}]]
                             /\ acked' = IF AIp(A2, k) # a THEN [A2 EXCEPT ![k] = Nil] ELSE A2
                        ELSE /\ obs' = [O2 EXCEPT ![k] = [o2 EXCEPT !.offer = NoA, !.xid = NoX, !.old = FALSE, !.void = FALSE, !.last = a, !.dur = a, !.dmac = e.m, !.dcap = cap, !.lx = TRUE,
                                                                 !.ever = @ \cup {[mac |-> e.m, ip |-> a]}, !.req = req, !.dup = dup]]
                             /\ acked' = [A2 EXCEPT ![k] = [ip |-> a, mac |-> e.m, cap |-> cap]]

PropIdle == acked' = acked /\ obs' = obs /\ verdict' = {}
PropTick(far) ==
  /\ acked' = IF far THEN [j \in CIDs |-> Nil] ELSE acked
  /\ obs' = [j \in CIDs |-> [obs[j] EXCEPT !.old = (obs[j].offer # NoA), !.last = IF far THEN NoA ELSE @]]
  /\ verdict' = {}

-----------------------------------------------------------------------------
(* actions:  <Name>M mechanism  /\  <Name>R property *)

Ev(kind, k, m, sid, rdisc, reff, xid, prl) ==
  [kind |-> kind, k |-> k, m |-> m, sid |-> sid, rdisc |-> rdisc, reff |-> reff, xid |-> xid, prl |-> prl, op |-> "none"]

DiscoverM(k, m, req, xid, prl) == Commit(DiscoverOp(Parsed(m, NoA), k, m, req, xid, prl))
DiscoverR(k, m, req, xid, prl) == PropMsg(Ev("discover", k, m, "none", req, NoA, xid, prl), replies', hosts, IsCap(ment, m))
Discover(k, m, req, xid, prl) == DiscoverM(k, m, req, xid, prl) /\ DiscoverR(k, m, req, xid, prl)

RequestM(k, m, sid, ropt, ci, src, xid, prl) == Commit(RequestOp(Parsed(m, src), k, m, sid, ropt, ci, src, xid, prl))
RequestR(k, m, sid, ropt, ci, src, xid, prl) ==
  LET p == Parsed(m, src)
  IN PropMsg([Ev("request", k, m, sid, NoA, ReqIP(sid, ropt, ci, src), xid, prl) EXCEPT !.op = ReqOperation(sid, ropt, src)],
             replies', p.hosts, IsCap(p.ment, m))
Request(k, m, sid, ropt, ci, src, xid, prl) ==
  RequestM(k, m, sid, ropt, ci, src, xid, prl) /\ RequestR(k, m, sid, ropt, ci, src, xid, prl)

DeclineM(k, m, ropt, sid) == Commit(DeclineOp(Parsed(m, NoA), k, m, ropt, sid))
DeclineR(k, m, ropt, sid) == PropMsg(Ev("decline", k, m, sid, NoA, ropt, NoX, "none"), replies', hosts, IsCap(ment, m))
Decline(k, m, ropt, sid) == DeclineM(k, m, ropt, sid) /\ DeclineR(k, m, ropt, sid)

ReleaseMsgM(k, m, ci, sid) == Commit(ReleaseOp(Parsed(m, ci), k, m))
ReleaseMsgR(k, m, ci, sid) ==
  LET p == Parsed(m, ci)
  IN PropMsg(Ev("release", k, m, sid, NoA, ci, NoX, "none"), replies', p.hosts, IsCap(p.ment, m))
ReleaseMsg(k, m, ci, sid) == ReleaseMsgM(k, m, ci, sid) /\ ReleaseMsgR(k, m, ci, sid)

Quiet == replies' = <<>>
CaptureM(m) == /\ ment' = [Ensure(ment, m) EXCEPT ![m].cap = TRUE]
               /\ Quiet /\ UNCHANGED <<lease, next, file, hosts>>
Capture(m) == CaptureM(m) /\ PropIdle
ReleaseCaptureM(m) == /\ ment' = IF ment[m] = Nil THEN ment ELSE [ment EXCEPT ![m].cap = FALSE]
                      /\ Quiet /\ UNCHANGED <<lease, next, file, hosts>>
ReleaseCapture(m) == ReleaseCaptureM(m) /\ PropIdle

TickM(far) == lease' = TickOp(lease, far) /\ Quiet /\ UNCHANGED <<next, file, hosts, ment>>
Tick(far) == TickM(far) /\ PropTick(far)

\* a quiet period of 6 s: every outstanding offer is past its validity (Lease.OfferExpiry; the server never reads it)
AgeM == Quiet /\ UNCHANGED <<lease, next, file, hosts, ment>>
AgeR == PropIdle          \* nothing ends: the server does not enforce the validity of its offers (only a minute tick frees a lease)
Age == AgeM /\ AgeR

\* another host (or a client outside DHCP) shows traffic from address a
ForeignTrafficM(m, a) == /\ LET b == Bind(hosts, ment, m, a) IN hosts' = b.h /\ ment' = b.me
                         /\ Quiet /\ UNCHANGED <<lease, next, file>>
ForeignTraffic(m, a) == a \in Net1 /\ ForeignTrafficM(m, a) /\ PropIdle

PurgeHostsM == /\ LET p == PurgeOp(hosts, ment) IN hosts' = p.h /\ ment' = p.me
               /\ Quiet /\ UNCHANGED <<lease, next, file>>
PurgeHosts == PurgeHostsM /\ PropIdle

\* process restart on the intact lease file: new session, new handler (C18_CleanRestart is the
\* invariant below; the C11 / C12 guards keep running across the restart because acked is kept)
RestartM == /\ lease' = LoadOp(file) /\ next' = [n \in {1, 2} |-> First(n)]
            /\ file' = Saved(LoadOp(file))
            /\ hosts' = InitHosts /\ ment' = InitMent /\ Quiet
\* C18_CleanRestart: the table loaded from the (intact) lease file is exactly the set of acknowledged bindings:
\*   lower bound  every binding still acknowledged (acked, smallest reading; addresses the loader must drop
\*                because they lie outside the home LAN excepted) is in the table;
\*   upper bound  every binding in the table is the durable binding of its client (obs.dur / dmac, largest reading).
\* A binding in the table that was acknowledged once but dropped by the server since is the named deviation
\* KF_FileNotRewritten (the file is rewritten by ACKs only).
RestartVerdict(L) ==
  LET tab   == {[k |-> j, mac |-> L[j].mac, ip |-> L[j].ip] : j \in {x \in CIDs : L[x] # Nil /\ L[x].st = "allocated"}}
      lost  == {j \in CIDs : acked[j] # Nil /\ InNet(1, acked[j].ip) /\ [k |-> j, mac |-> acked[j].mac, ip |-> acked[j].ip] \notin tab}
      extra == {b \in tab : ~(obs[b.k].dur = b.ip /\ obs[b.k].dmac = b.mac)}
      state == {j \in CIDs : L[j] # Nil /\ L[j].st # "allocated"}
  IN  (IF lost # {} \/ state # {} THEN {[g |-> "C18_CleanRestart", c |-> "none"]} ELSE {})
 \cup {[g |-> "C18_CleanRestart", c |-> IF [mac |-> b.mac, ip |-> b.ip] \in obs[b.k].ever THEN "KF_FileNotRewritten" ELSE "none"] : b \in extra}

RestartR == /\ acked' = [j \in CIDs |-> IF acked[j] # Nil /\ (acked[j].cap \/ ~InNet(1, acked[j].ip)) THEN Nil ELSE acked[j]]
                                   \* capture state is gone; a binding outside the home LAN must not be loaded (C18)
            \* "the client's current lease" (C12_AckMatches) is from now on what the server loaded from its file;
            \* whether that table is the right one is judged by C18_CleanRestart
            /\ obs' = [j \in CIDs |-> [obs[j] EXCEPT !.offer = NoA, !.xid = NoX, !.old = FALSE, !.void = FALSE,
                                                      !.last = IF lease'[j] # Nil THEN lease'[j].ip ELSE NoA,
                                                      !.dur = IF lease'[j] # Nil THEN lease'[j].ip ELSE NoA,
                                                      !.dmac = IF lease'[j] # Nil THEN lease'[j].mac ELSE NoMac, !.dcap = FALSE,
                                                      !.lx = (lease'[j] # Nil)]]
            /\ verdict' = RestartVerdict(lease')
Restart == RestartM /\ RestartR

\* a new handler on the same lease file and the SAME session (capture flags and tracked hosts survive)
ReloadM == /\ lease' = LoadOpS(file, ment) /\ next' = [n \in {1, 2} |-> First(n)]
           /\ file' = Saved(LoadOpS(file, ment)) /\ Quiet /\ UNCHANGED <<hosts, ment>>
ReloadR == /\ acked' = [j \in CIDs |-> IF acked[j] # Nil /\ (~InNet(1, acked[j].ip) \/ acked[j].cap # IsCap(ment, acked[j].mac))
                                   THEN Nil ELSE acked[j]]      \* the lease is re-attached under the present capture state
           /\ obs' = [j \in CIDs |-> [obs[j] EXCEPT !.offer = NoA, !.xid = NoX, !.old = FALSE, !.void = FALSE,
                                                     !.last = IF lease'[j] # Nil THEN lease'[j].ip ELSE NoA,
                                                     !.dur = IF lease'[j] # Nil THEN lease'[j].ip ELSE NoA,
                                                     !.dmac = IF lease'[j] # Nil THEN lease'[j].mac ELSE NoMac,
                                                     !.dcap = lease'[j] # Nil /\ lease'[j].net = 2,    \* the subnet the loader attached it to
                                                     !.lx = (lease'[j] # Nil)]]
           /\ verdict' = RestartVerdict(lease')
Reload == ReloadM /\ ReloadR

\* hot swap in two steps: Spawn builds the replacement handler on the same lease file and session while the old handler
\* is still open (mechanism = Reload); CloseOld closes the replaced handler later -- possibly after the replacement
\* acknowledged leases. Handler.Close() does not touch the lease file: after it the file still holds every
\* acknowledged binding (C18_AckDurable).
SpawnM == ReloadM
SpawnR == ReloadR
Spawn  == SpawnM /\ SpawnR
DurableAll(F, A) == \A j \in CIDs : (A[j] # Nil /\ InNet(1, A[j].ip)) => \E f \in F : f.k = j /\ f.mac = A[j].mac /\ f.ip = A[j].ip
CloseOldM == Quiet /\ UNCHANGED <<lease, next, file, hosts, ment>>
CloseOldR == /\ acked' = acked /\ obs' = obs
             /\ verdict' = IF DurableAll(file', acked) THEN {} ELSE {[g |-> "C18_AckDurable", c |-> "none"]}
CloseOld == CloseOldM /\ CloseOldR

\* process restart with a CHANGED configuration (another DNS server) on the surviving lease file: dhcp4.go New()
\* resets the lease table when the configuration changed; from then on replies carry the new configuration
\* (the abstract value "cfg" of the DNS option always means: the currently configured server)
ReconfM == /\ lease' = [j \in CIDs |-> Nil] /\ next' = [n \in {1, 2} |-> First(n)] /\ file' = {}
           /\ hosts' = InitHosts /\ ment' = InitMent /\ Quiet
ReconfR == acked' = [j \in CIDs |-> Nil] /\ obs' = [j \in CIDs |-> NoObs] /\ verdict' = {}
Reconf == ReconfM /\ ReconfR

Init ==
  /\ lease = [j \in CIDs |-> Nil] /\ next = [n \in {1, 2} |-> First(n)]
  /\ file = {} /\ replies = <<>>
  /\ hosts = InitHosts /\ ment = InitMent
  /\ acked = [j \in CIDs |-> Nil] /\ obs = [j \in CIDs |-> NoObs] /\ verdict = {}

-----------------------------------------------------------------------------
(* invariants *)

States == {"free", "discover", "allocated"}
TypeOK ==
  /\ \A j \in CIDs : lease[j] = Nil \/
        /\ lease[j].st \in States /\ lease[j].mac \in MACs /\ lease[j].net \in {1, 2}
        /\ lease[j].ip \in Tracked \cup {NoA, BcastA} /\ lease[j].offer \in Tracked \cup {NoA, BcastA}
        /\ lease[j].xid \in XIDs \cup {NoX}
  /\ \A n \in {1, 2} : next[n] >= First(n) /\ next[n] <= Hi(n)
  /\ Len(replies) <= 1
  /\ \A a \in Tracked : hosts[a] \in AllMacs \cup {NoMac}
  /\ \A m \in AllMacs : ment[m] = Nil => HostsOf(hosts, m) = {}

GuardsC11 == {"C11_NoDoubleAck", "C11_NoOfferOfAcked", "C11_NotReserved", "C11_InSubnet", "C11_NotOthersTracked"}
GuardsC12 == {"C12_Subnet", "C12_Router", "C12_DNS", "C12_Mask", "C12_ServerId", "C12_LeaseTime", "C12_Echo",
              "C12_AckMatches", "C12_NoAckWhen"}
GuardsC18 == {"C18_CleanRestart", "C18_RenewAcked", "C18_AckDurable"}
Family(g)  == IF g \in GuardsC11 THEN "C11" ELSE IF g \in GuardsC12 THEN "C12" ELSE "C18"
Failed(g)  == \E f \in verdict : f.g = g
\* strict forms: one per guard of the statements (expected to have counterexamples while findings are open)
C11_NoDoubleAck      == ~Failed("C11_NoDoubleAck")
C11_NoOfferOfAcked   == ~Failed("C11_NoOfferOfAcked")
C11_NotReserved      == ~Failed("C11_NotReserved")
C11_InSubnet         == ~Failed("C11_InSubnet")
C11_NotOthersTracked == ~Failed("C11_NotOthersTracked")
C12_Subnet     == ~Failed("C12_Subnet")
C12_Router     == ~Failed("C12_Router")
C12_DNS        == ~Failed("C12_DNS")
C12_Mask       == ~Failed("C12_Mask")
C12_ServerId   == ~Failed("C12_ServerId")
C12_LeaseTime  == ~Failed("C12_LeaseTime")
C12_Echo       == ~Failed("C12_Echo")
C12_AckMatches == ~Failed("C12_AckMatches")
C12_NoAckWhen  == ~Failed("C12_NoAckWhen")
C18_CleanRestart == ~Failed("C18_CleanRestart")
C18_RenewAcked   == ~Failed("C18_RenewAcked")
C18_AckDurable   == ~Failed("C18_AckDurable")
Strict == verdict = {}

=============================================================================
