------------------------------- MODULE Hosts -------------------------------
(***************************************************************************)
(* Session host / MAC tables of irai/packet (session.go, hosttable.go,     *)
(* mactable.go, layer_frame.go:152-259,415-465, notification.go).          *)
(*                                                                         *)
(* Two levels (DESIGN 1.1):                                                *)
(*  - mechanism: hosts, macs, frame, notes  -- shaped like the code, one   *)
(*    operator per function of the code, including the MACEntry.IP4 cache, *)
(*    the Host.dirty flag and the Frame online-transition flag;            *)
(*  - property:  ref, refNames, refLast     -- updated only by the rules   *)
(*    in the statements of C04 / C06.                                      *)
(* The invariants C04_* C05_* C06_* compare the two.                       *)
(***************************************************************************)
EXTENDS Naturals, Sequences, FiniteSets, TLC

CONSTANTS Own, Router, Clients,        \* MAC identifiers (Clients: set)
          HostIP, RouterIP, LanIPs,    \* IPv4 inside the home LAN (LanIPs: set, excludes the two)
          ExtIPs,                      \* IPv4 outside the home LAN (reachable through DHCPv4Update only)
          LLAs, GUAs,                  \* IPv6 link local / global unicast (sets)
          Slots, Dhcp, Llmnr,          \* naming sources (Slots: set; Dhcp, Llmnr distinguished)
          Names,                       \* set of non-empty names
          NoIP, NoName,                \* "0.0.0.0 / invalid" and ""
          ProbeD, OfflineD, PurgeD,    \* deadlines in time units
          Never                        \* stamp of our own entry (never expires)

MACS   == {Own, Router} \cup Clients
IP4LAN == {HostIP, RouterIP} \cup LanIPs
IP4    == IP4LAN \cup ExtIPs
IP6    == LLAs \cup GUAs
IPS    == IP4 \cup IP6
Nil    == [nil |-> TRUE]
NameVals == Names \cup {NoName}

VARIABLES hosts,     \* IPS -> Nil | [mac, online, dirty, seen, names]          HostTable.Table
          macs,      \* MACS -> Nil | [ip4, online, captured, router, offer, names, list]  MACTable.Table
          frame,     \* Nil | [ip, flag, dhcpmac]  result of the last Parse still available to Notify
          notes,     \* sequence of notifications put on Session.C by the last step
          now,       \* virtual clock
          ref,       \* property level: set of [mac, ip, online, seen]
          refNames,  \* property level: IPS -> [Slots -> NameVals] names learned per address
          refLast,   \* property level: IPS -> Nil | [mac, online, names]: what was last notified per address
          expect     \* property level: [must: sequence of notes, kind] expected for the last step

mech == <<hosts, macs, frame, notes, now>>
prop == <<ref, refNames, refLast, expect>>
vars == <<hosts, macs, frame, notes, now, ref, refNames, refLast, expect>>

Range(s) == {s[i] : i \in 1..Len(s)}
SeqRemove(s, x) == SelectSeq(s, LAMBDA e : e # x)
IsHost(h, ip) == h[ip] # Nil
NoNames == TLCEval([s \in Slots |-> NoName])

-----------------------------------------------------------------------------
(* mechanism operators *)

NewMac == [ip4 |-> NoIP, online |-> FALSE, captured |-> FALSE, router |-> FALSE,
           offer |-> NoIP, names |-> NoNames, list |-> <<>>]

\* MACTable.findOrCreate
MacEnsure(m, mac) == IF m[mac] = Nil THEN [m EXCEPT ![mac] = NewMac] ELSE m

\* Session.deleteHost: unlink, delete from index, delete MAC entry if it was its last host
DeleteHost(h, m, ip) ==
  IF ~IsHost(h, ip) THEN [h |-> h, m |-> m]
  ELSE LET mac == h[ip].mac
           l2  == SeqRemove(m[mac].list, ip)
       IN [h |-> [h EXCEPT ![ip] = Nil],
           m |-> IF l2 = <<>> THEN [m EXCEPT ![mac] = Nil] ELSE [m EXCEPT ![mac].list = l2]]

\* Session.findOrCreateHostWithLock
FindOrCreate(h, m, mac, ip, t) ==
  IF IsHost(h, ip) /\ h[ip].mac = mac
  THEN [h |-> [h EXCEPT ![ip].seen = t], m |-> m]
  ELSE LET d  == DeleteHost(h, m, ip)                 \* duplicate IP: re-bind
           m1 == MacEnsure(d.m, mac)
       IN [h |-> [d.h EXCEPT ![ip] = [mac |-> mac, online |-> FALSE, dirty |-> TRUE, seen |-> t, names |-> NoNames]],
           m |-> [m1 EXCEPT ![mac].list = Append(@, ip)]]

\* Session.onlineTransition
OnlineTransition(h, m, ip) ==
  IF h[ip].online THEN [h |-> h, m |-> m]
  ELSE LET mac == h[ip].mac
           chg == ip \in IP4 /\ ip # m[mac].ip4
           sib == IF chg THEN {v \in Range(m[mac].list) : v \in IP4 /\ v # ip /\ h[v].online} ELSE {}
       IN [h |-> TLCEval([x \in IPS |-> IF x = ip THEN [h[x] EXCEPT !.online = TRUE, !.dirty = TRUE]
                                ELSE IF x \in sib THEN [h[x] EXCEPT !.online = FALSE, !.dirty = TRUE]
                                ELSE h[x]]),
           m |-> [m EXCEPT ![mac].online = TRUE, ![mac].ip4 = IF chg THEN ip ELSE @]]

\* toNotification: names come from the MAC entry except LLMNR which comes from the host
NoteNames(h, m, ip) == TLCEval([s \in Slots |-> IF s = Llmnr THEN h[ip].names[s] ELSE m[h[ip].mac].names[s]])
Note(h, m, ip) == [ip |-> ip, mac |-> h[ip].mac, online |-> h[ip].online,
                   router |-> m[h[ip].mac].router, names |-> NoteNames(h, m, ip)]

\* Host.Update*Name: NameEntry.Merge restricted to the Name attribute
UpdateName(h, m, ip, s, v) ==
  IF v = NoName \/ v = h[ip].names[s] THEN [h |-> h, m |-> m]
  ELSE [h |-> [h EXCEPT ![ip].names[s] = v, ![ip].dirty = TRUE],
        m |-> [m EXCEPT ![h[ip].mac].names[s] = v]]

\* Session.makeOffline
MakeOffline(h, m, ip) ==
  LET mac == h[ip].mac
      h1  == [h EXCEPT ![ip].online = FALSE, ![ip].dirty = FALSE]
      m1  == [m EXCEPT ![mac].online = \E v \in Range(m[mac].list) : h1[v].online]
  IN [h |-> h1, m |-> m1, note |-> Note(h1, m, ip)]

RECURSIVE MakeOfflineSeq(_, _, _)
MakeOfflineSeq(h, m, s) ==
  IF s = <<>> THEN [h |-> h, m |-> m, notes |-> <<>>]
  ELSE LET r  == MakeOffline(h, m, Head(s))
           r2 == MakeOfflineSeq(r.h, r.m, Tail(s))
       IN [h |-> r2.h, m |-> r2.m, notes |-> <<r.note>> \o r2.notes]

\* Session.notify(frame)
NotifyOp(h, m, ip, flag) ==
  IF ~h[ip].dirty THEN [h |-> h, m |-> m, notes |-> <<>>]
  ELSE LET mac  == h[ip].mac
           offl == IF flag /\ ip \in IP4
                   THEN SelectSeq(m[mac].list, LAMBDA v : ~h[v].online /\ h[v].dirty)
                   ELSE <<>>
           r    == MakeOfflineSeq(h, m, offl)
       IN [h |-> [r.h EXCEPT ![ip].dirty = FALSE], m |-> r.m,
           notes |-> r.notes \o <<Note(r.h, r.m, ip)>>]

\* Session.purge(now): scan, makeOffline each stale online host, delete each stale offline host
RECURSIVE DelAll(_, _, _)
DelAll(h, m, s) == IF s = {} THEN [h |-> h, m |-> m]
                   ELSE LET x == CHOOSE y \in s : TRUE
                            d == DeleteHost(h, m, x)
                        IN DelAll(d.h, d.m, s \ {x})
RECURSIVE OffAll(_, _, _)
OffAll(h, m, s) == IF s = {} THEN [h |-> h, m |-> m, notes |-> {}]
                   ELSE LET x == CHOOSE y \in s : TRUE
                            r == MakeOffline(h, m, x)
                            q == OffAll(r.h, r.m, s \ {x})
                        IN [h |-> q.h, m |-> q.m, notes |-> {r.note} \cup q.notes]
PurgeOp(h, m, t) ==
  LET present == {ip \in IPS : IsHost(h, ip)}
      del  == {ip \in present : ~h[ip].online /\ h[ip].seen + PurgeD < t}
      offl == {ip \in present : h[ip].online /\ h[ip].seen + OfflineD < t}
      o    == OffAll(h, m, offl)
      d    == DelAll(o.h, o.m, del)
  IN [h |-> d.h, m |-> d.m, notes |-> o.notes, offl |-> offl, del |-> del,
      probe |-> {ip \in present : h[ip].online /\ h[ip].seen + ProbeD < t}]

-----------------------------------------------------------------------------
(* property level: the rules of C04 and C06, nothing else *)

RefOnline(r, mac, ip) == \E e \in r : e.ip = ip /\ e.mac = mac /\ e.online
RefHas(r, mac, ip)    == \E e \in r : e.ip = ip /\ e.mac = mac

\* a qualifying frame / DHCP update shows mac on ip at time t
RefSee(r, mac, ip, t) ==
  LET r1  == {e \in r : ~(e.ip = ip /\ e.mac # mac)}                       \* claimed by another MAC: re-bound
      was == RefOnline(r1, mac, ip)
      r2  == {e \in r1 : e.ip # ip} \cup {[mac |-> mac, ip |-> ip, online |-> TRUE, seen |-> t]}
  IN IF was \/ ip \notin IP4 THEN r2
     ELSE {IF e.mac = mac /\ e.ip \in IP4 /\ e.ip # ip THEN [e EXCEPT !.online = FALSE] ELSE e : e \in r2}

RefPurge(r, t) ==
  LET keep == {e \in r : ~(~e.online /\ e.seen + PurgeD < t)}
  IN {IF e.online /\ e.seen + OfflineD < t THEN [e EXCEPT !.online = FALSE] ELSE e : e \in keep}

Visible(h) == {[mac |-> h[ip].mac, ip |-> ip, online |-> h[ip].online, seen |-> h[ip].seen] :
                 ip \in {x \in IPS : IsHost(h, x)}}
Proj(S) == {[mac |-> e.mac, ip |-> e.ip, online |-> e.online] : e \in S}

\* names learned for an address; forgotten when the address is re-bound or removed
RefNamesAfterSee(rn, r, mac, ip) == IF RefHas(r, mac, ip) THEN rn ELSE [rn EXCEPT ![ip] = NoNames]
RefLearn(rn, ip, s, v) == IF v = NoName THEN rn ELSE [rn EXCEPT ![ip][s] = v]

RefEntry(r, ip) == CHOOSE e \in r : e.ip = ip
RefKey(r, rn, ip) == [mac |-> RefEntry(r, ip).mac, online |-> RefEntry(r, ip).online, names |-> rn[ip]]

\* C06 ledger: what a "Parse; (handler name update); Notify; drain" step for address ip must deliver.
\* rb/ra = reference before/after the step.  Offline notes of superseded IPv4 siblings first,
\* then one note for ip iff its (mac, online, learned names) differs from what was last notified.
ExpectFrame(rb, ra, rn, rl, ip) ==
  LET mac  == RefEntry(ra, ip).mac
      sibs == {e.ip : e \in {x \in ra : x.mac = mac /\ x.ip # ip /\ ~x.online /\ RefOnline(rb, mac, x.ip)}}
      main == rl[ip] = Nil \/ rl[ip] # RefKey(ra, rn, ip)
  IN [sibs |-> sibs, main |-> IF main THEN {ip} ELSE {}]

-----------------------------------------------------------------------------
Init ==
  /\ hosts = [ip \in IPS |->
               IF ip = HostIP THEN [mac |-> Own, online |-> TRUE, dirty |-> TRUE, seen |-> Never, names |-> NoNames]
               ELSE IF ip = RouterIP THEN [mac |-> Router, online |-> TRUE, dirty |-> TRUE, seen |-> 0, names |-> NoNames]
               ELSE Nil]
  /\ macs = [mc \in MACS |->
               IF mc = Own THEN [NewMac EXCEPT !.ip4 = HostIP, !.online = TRUE, !.list = <<HostIP>>]
               ELSE IF mc = Router THEN [NewMac EXCEPT !.ip4 = RouterIP, !.online = TRUE, !.router = TRUE, !.list = <<RouterIP>>]
               ELSE Nil]
  /\ frame = Nil /\ notes = <<>> /\ now = 0
  /\ ref = {[mac |-> Own, ip |-> HostIP, online |-> TRUE, seen |-> Never],
            [mac |-> Router, ip |-> RouterIP, online |-> TRUE, seen |-> 0]}
  /\ refNames = [ip \in IPS |-> NoNames]
  /\ refLast = [ip \in IPS |-> Nil]
  /\ expect = [kind |-> "none"]

\* the creation predicate of the statement of C04 (ethSrc is unicast by construction of MACS)
Tracks(ethSrc, ip) ==
  /\ ethSrc # Own
  /\ \/ ip \in IP4LAN
     \/ ip \in LLAs
     \/ ip \in GUAs /\ ethSrc # Router

\* Parse of an IPv4/IPv6 frame (key = ethSrc) or of an ARP frame (key = ARP sender MAC, ip = ARP sender IP)
ParseOp(h, m, key, ip, t) ==
  LET f  == FindOrCreate(h, m, key, ip, t)
      tr == ~f.h[ip].online
      o  == IF tr THEN OnlineTransition(f.h, f.m, ip) ELSE f
  IN [h |-> o.h, m |-> o.m, flag |-> tr]

NoExpect == expect' = [kind |-> "none"]

(* Every action is  <name>M (mechanism variables)  /\  <name>R (property variables and the clock).
   The R parts never read a mechanism variable: trace validation in property mode (HostsTraceP)
   drives them from the logged arguments alone and compares with the logged real state. *)

\* ---- free mode: Parse and Notify are separate steps ------------------------
ParseM(key, ip) ==
  /\ LET p == ParseOp(hosts, macs, key, ip, now)
     IN /\ hosts' = p.h /\ macs' = p.m
        /\ frame' = [ip |-> ip, flag |-> p.flag]
  /\ notes' = <<>>
ParseR(key, ip) ==
  /\ ref' = RefSee(ref, key, ip, now)
  /\ refNames' = RefNamesAfterSee(refNames, ref, key, ip)
  /\ refLast' = IF RefHas(ref, key, ip) THEN refLast ELSE [refLast EXCEPT ![ip] = Nil]
  /\ NoExpect /\ UNCHANGED now
Parse(ethSrc, key, ip) ==
  /\ Tracks(ethSrc, ip) /\ (ip \in IP6 => key = ethSrc)
  /\ ParseM(key, ip) /\ ParseR(key, ip)

\* a frame that must not be tracked: nothing changes, Notify has no host to work on.
\* The same step stands for environment events that no rule of C04-C06 mentions and that therefore must not
\* change what is tracked or notified: the network device refusing the next writes (liveness probes are best
\* effort; driver kind "wfail"), an expiry attached to a re-announced, unchanged name (driver field "exp").
UntrackedM == frame' = Nil /\ notes' = <<>> /\ UNCHANGED <<hosts, macs>>
IdleR == NoExpect /\ UNCHANGED <<now, ref, refNames, refLast>>
Untracked == UntrackedM /\ IdleR

\* a DHCP frame from a client with source 0.0.0.0: no host, Notify will look the offer up
ParseDHCPM(mac) == frame' = [dhcpmac |-> mac] /\ notes' = <<>> /\ UNCHANGED <<hosts, macs>>
ParseDHCP(mac) == mac \in Clients /\ ParseDHCPM(mac) /\ IdleR

FrameTarget ==      \* host address Notify(frame) works on, or NoIP
  IF frame = Nil THEN NoIP
  ELSE IF "ip" \in DOMAIN frame THEN (IF IsHost(hosts, frame.ip) THEN frame.ip ELSE NoIP)
  ELSE LET mc == frame.dhcpmac
       IN IF macs[mc] = Nil \/ macs[mc].offer = NoIP THEN NoIP
          ELSE IF macs[mc].offer \in IPS /\ IsHost(hosts, macs[mc].offer) THEN macs[mc].offer ELSE NoIP
FrameFlag == IF frame # Nil /\ "ip" \in DOMAIN frame THEN frame.flag ELSE TRUE

NotifyM ==
  /\ frame' = Nil
  /\ LET ip == FrameTarget
     IN IF ip = NoIP THEN UNCHANGED <<hosts, macs>> /\ notes' = <<>>
        ELSE LET r == NotifyOp(hosts, macs, ip, FrameFlag)
             IN hosts' = r.h /\ macs' = r.m /\ notes' = r.notes
Notify == NotifyM /\ IdleR

DHCPv4UpdateOp(h, m, mac, ip, nm, t) ==
  LET f  == FindOrCreate(h, m, mac, ip, t)
      u  == UpdateName(f.h, f.m, ip, Dhcp, nm)
      m1 == [u.m EXCEPT ![mac].offer = ip]
  IN IF ~u.h[ip].online THEN OnlineTransition(u.h, m1, ip) ELSE [h |-> u.h, m |-> m1]
DHCPv4UpdateM(mac, ip, nm) ==
  /\ LET o == DHCPv4UpdateOp(hosts, macs, mac, ip, nm, now) IN hosts' = o.h /\ macs' = o.m
  /\ notes' = <<>> /\ UNCHANGED frame
DHCPv4UpdateR(mac, ip, nm) ==
  /\ ref' = RefSee(ref, mac, ip, now)
  /\ refNames' = RefLearn(RefNamesAfterSee(refNames, ref, mac, ip), ip, Dhcp, nm)
  /\ refLast' = IF RefHas(ref, mac, ip) THEN refLast ELSE [refLast EXCEPT ![ip] = Nil]
  /\ NoExpect /\ UNCHANGED now
\* Not between the Parse of a frame that carries a host and its Notify: re-binding that very address
\* would leave Notify with a Host record that is no longer in the tables (not a supported pattern).
NoHostFrame == frame = Nil \/ "ip" \notin DOMAIN frame
DHCPv4Update(mac, ip, nm) ==
  /\ ip \in IP4 /\ NoHostFrame
  /\ DHCPv4UpdateM(mac, ip, nm) /\ DHCPv4UpdateR(mac, ip, nm)

SetOfferM(mac, ip, nm) ==
  /\ macs' = [MacEnsure(macs, mac) EXCEPT ![mac].offer = ip, ![mac].names[Dhcp] = nm]
  /\ notes' = <<>> /\ UNCHANGED <<hosts, frame>>
SetOffer(mac, ip, nm) == SetOfferM(mac, ip, nm) /\ IdleR

CaptureM(mac) ==
  /\ LET m1 == MacEnsure(macs, mac)
     IN macs' = IF m1[mac].captured \/ m1[mac].router THEN m1 ELSE [m1 EXCEPT ![mac].captured = TRUE]
  /\ notes' = <<>> /\ UNCHANGED <<hosts, frame>>
Capture(mac) == CaptureM(mac) /\ IdleR

ReleaseM(mac) ==
  /\ macs' = IF macs[mac] = Nil THEN macs ELSE [macs EXCEPT ![mac].captured = FALSE]
  /\ notes' = <<>> /\ UNCHANGED <<hosts, frame>>
Release(mac) == ReleaseM(mac) /\ IdleR

\* standalone name update on a tracked host (free mode)
NameUpdateM(ip, s, v) ==
  /\ LET u == UpdateName(hosts, macs, ip, s, v) IN hosts' = u.h /\ macs' = u.m
  /\ notes' = <<>> /\ UNCHANGED frame
NameUpdateR(ip, s, v) ==
  /\ refNames' = RefLearn(refNames, ip, s, v)
  /\ NoExpect /\ UNCHANGED <<now, ref, refLast>>
NameUpdate(ip, s, v) == IsHost(hosts, ip) /\ NameUpdateM(ip, s, v) /\ NameUpdateR(ip, s, v)

AdvanceM == frame' = Nil /\ notes' = <<>> /\ UNCHANGED <<hosts, macs>>
AdvanceR(d) == now' = now + d /\ NoExpect /\ UNCHANGED <<ref, refNames, refLast>>
Advance(d) == AdvanceM /\ AdvanceR(d)

PurgeM ==
  /\ frame' = Nil
  /\ LET r == PurgeOp(hosts, macs, now)
     IN hosts' = r.h /\ macs' = r.m /\ notes' = r.notes      \* a set: emission order is Go map order
PurgeR ==
  /\ LET ra == RefPurge(ref, now)
         gone == {e.ip : e \in ref} \ {e.ip : e \in ra}
         aged == {e.ip : e \in {x \in ref : x.online}} \ {e.ip : e \in {x \in ra : x.online}}
     IN /\ ref' = ra
        /\ refNames' = TLCEval([ip \in IPS |-> IF ip \in gone THEN NoNames ELSE refNames[ip]])
        /\ refLast' = TLCEval([ip \in IPS |-> IF ip \in gone THEN Nil
                                      ELSE IF ip \in aged THEN RefKey(ra, refNames, ip) ELSE refLast[ip]])
        /\ expect' = [kind |-> "purge", off |-> aged]
  /\ UNCHANGED now
Purge == PurgeM /\ PurgeR

\* ---- notify mode: the packet loop  Parse ; handler ; Notify ; drain  as one step ----------
\* nm = NoName: plain frame.  Otherwise the handler learned name nm from source s in between.
FrameStepM(key, ip, s, nm) ==
  /\ LET p == ParseOp(hosts, macs, key, ip, now)
         u == UpdateName(p.h, p.m, ip, s, nm)
         r == NotifyOp(u.h, u.m, ip, p.flag)
     IN hosts' = r.h /\ macs' = r.m /\ notes' = r.notes
  /\ frame' = Nil
SeenStepR(key, ip, s, nm) ==
  /\ LET ra == RefSee(ref, key, ip, now)
         rn == RefLearn(RefNamesAfterSee(refNames, ref, key, ip), ip, s, nm)
         rl == IF RefHas(ref, key, ip) THEN refLast ELSE [refLast EXCEPT ![ip] = Nil]
         ex == ExpectFrame(ref, ra, rn, rl, ip)
     IN /\ ref' = ra /\ refNames' = rn
        /\ refLast' = TLCEval([x \in IPS |-> IF x \in ex.sibs \cup ex.main THEN RefKey(ra, rn, x) ELSE rl[x]])
        /\ expect' = [kind |-> "frame", sibs |-> ex.sibs, main |-> ex.main]
  /\ UNCHANGED now
FrameStep(ethSrc, key, ip, s, nm) ==
  /\ Tracks(ethSrc, ip) /\ (ip \in IP6 => key = ethSrc)
  /\ FrameStepM(key, ip, s, nm) /\ SeenStepR(key, ip, s, nm)

\* DHCP server acknowledging ip to mac while processing a REQUEST that has source 0.0.0.0:
\* Parse (no host) ; DHCPv4Update ; Notify (finds the host through the recorded offer) ; drain
DhcpAckStepM(mac, ip, nm) ==
  /\ LET o == DHCPv4UpdateOp(hosts, macs, mac, ip, nm, now)
         r == NotifyOp(o.h, o.m, ip, TRUE)
     IN hosts' = r.h /\ macs' = r.m /\ notes' = r.notes
  /\ frame' = Nil
DhcpAckStep(mac, ip, nm) ==
  /\ mac \in Clients /\ ip \in IP4
  /\ DhcpAckStepM(mac, ip, nm) /\ SeenStepR(mac, ip, Dhcp, nm)

-----------------------------------------------------------------------------
(* invariants *)

\* ---- C04: visible triples equal the reference
C04_Equal        == Visible(hosts) = ref
C04_EqualNoStamp == Proj(Visible(hosts)) = Proj(ref)

\* ---- C05: the two tables are mutually consistent
C05_ListBack == \A mc \in MACS : macs[mc] # Nil =>
                  /\ \A i \in 1..Len(macs[mc].list) :
                        IsHost(hosts, macs[mc].list[i]) /\ hosts[macs[mc].list[i]].mac = mc
                  /\ \A i, j \in 1..Len(macs[mc].list) : i # j => macs[mc].list[i] # macs[mc].list[j]
C05_OneMac == \A ip \in IPS : IsHost(hosts, ip) =>
                  /\ macs[hosts[ip].mac] # Nil
                  /\ ip \in Range(macs[hosts[ip].mac].list)
C05_OnlineImpliesMacOnline ==
  \A ip \in IPS : IsHost(hosts, ip) /\ hosts[ip].online => macs[hosts[ip].mac].online
SumLens == LET RECURSIVE S(_)
               S(ms) == IF ms = {} THEN 0
                        ELSE LET x == CHOOSE y \in ms : TRUE
                             IN (IF macs[x] = Nil THEN 0 ELSE Len(macs[x].list)) + S(ms \ {x})
           IN S(MACS)
C05_Count == SumLens = Cardinality({ip \in IPS : IsHost(hosts, ip)})      \* what printHostTable panics on
C05_All == C05_ListBack /\ C05_OneMac /\ C05_OnlineImpliesMacOnline /\ C05_Count

\* ---- C06: the notes delivered by the last step are exactly the ones the ledger expects
NoteIPs(S) == {n.ip : n \in S}
NoteMatchesState(n) ==     \* every field equals the tracked state
  /\ IsHost(hosts, n.ip) =>
       /\ n.mac = hosts[n.ip].mac
       /\ n.online = hosts[n.ip].online
       /\ n.router = macs[n.mac].router
       /\ n.names = NoteNames(hosts, macs, n.ip)
C06_Exact ==
  CASE expect.kind = "none" -> TRUE
    [] expect.kind = "purge" ->
         /\ NoteIPs(notes) = expect.off
         /\ Cardinality(notes) = Cardinality(expect.off)
         /\ \A n \in notes : ~n.online
    [] expect.kind = "frame" ->
         LET k == Cardinality(expect.sibs)
         IN /\ Len(notes) = k + Cardinality(expect.main)
            /\ {notes[i].ip : i \in 1..k} = expect.sibs
            /\ \A i \in 1..k : ~notes[i].online
            /\ expect.main # {} => /\ notes[Len(notes)].ip \in expect.main
                                   /\ notes[Len(notes)].online
            /\ \A i \in 1..Len(notes) : NoteMatchesState(notes[i])

C06_OneOnlineIP4PerMac ==
  \A mc \in Clients : macs[mc] # Nil =>
      Cardinality({v \in Range(macs[mc].list) : v \in IP4 /\ hosts[v].online}) <= 1
=============================================================================
