------------------------------ MODULE SmallVec ------------------------------
(* X09 -- reference functions for small pure helpers that no listed property covers, enumerated by TLC into vectors
   which `extradrv3 vec` executes on the real functions.

   family "hdr"    layer_dhcp4.go   DHCP4 header setters / getters (RFC 2131 figure 1: op 0, htype 1, hlen 2, hops 3, xid 4-7,
                   secs 8-9, flags 10-11, ciaddr 12-15, yiaddr 16-19, siaddr 20-23, giaddr 24-27, chaddr 28-43, sname 44-107,
                   file 108-235, cookie 236-239).  A setter is a list of writes (offset, bytes) into a 240 byte header that
                   was filled with one byte value before; the result must be that header with exactly those bytes changed and
                   the getter must read the field back.  The property level is the round trip for arguments that fit the
                   field; what the code does for arguments that do not fit (over-long names: truncated; hardware addresses
                   above 16 bytes: hlen is the length although 16 bytes are stored; IPv6 / mapped / invalid addresses: the
                   first four bytes of their 16 byte form / nothing) is recorded (operators Obs...).
   family "lease"  OptionsLeaseTime(d): the whole seconds of d as a big-endian 32 bit number; durations outside
                   [0, 2^32 s) wrap (recorded: -1 s is 0xffffffff, "infinity" in RFC 2131 3.3).
   family "mtu"    NewMTU(v): RFC 4861 4.6.4 option type 5 with value v.
   family "lla"    IPv6NewLLA(mac): fe80::/64 + modified EUI-64 of a 48 bit MAC (RFC 4291 appendix A: ff:fe inserted in the
                   middle, universal/local bit inverted); nil for any other length.
   family "ula"    IPv6NewULA(mac, subnet): RFC 4193 3.1: fd00::/8 (L = 1), 40 bit global id, 16 bit subnet id, /64; an
                   error for a MAC that is neither 6 bytes long nor nil.
   family "solnode" IPv6SolicitedNode(a): RFC 4291 2.7.1 ff02::1:ffXX:XXXX with the low 24 bits of a, on the multicast MAC
                   33:33 + low 32 bits of that group (RFC 2464 7); the zero Addr for an IPv4 address.
   family "ucast"  IsUnicastMAC(mac): the individual/group bit (lowest bit of the first octet) is 0.  An empty address has
                   no first octet: the code indexes it (KfUcastEmptyPanics).
   family "log"    fastlog level lattice error < info < debug: sequences of SetLevel / SetLevelString / Disable / EnableInfo /
                   EnableDebug with Level / IsInfo / IsDebug observed after every call, and Str2LogLevel (documented to
                   return LevelError for an unknown word; it returns LevelInvalid: KfStr2LogLevelDoc). *)
EXTENDS Naturals, Integers, Sequences, FiniteSets, TLC, Json

CONSTANTS Families,
          Deep,         \* BOOLEAN: the larger argument classes of the thorough tier
          UcastFixed    \* BOOLEAN: IsUnicastMAC tests the length first (known finding KF_IsUnicastMACEmptyPanics repaired)
VARIABLE d

Min(a, b) == IF a < b THEN a ELSE b
Pat(n, c) == [i \in 1..n |-> IF c = 0 THEN 0 ELSE IF c = 1 THEN 255 ELSE ((i * 37 + c * 11) % 255) + 1]   \* c >= 2: no zero byte
Take(s, n) == SubSeq(s, 1, Min(Len(s), n))
U16(v) == <<v \div 256, v % 256>>

\* ---------------------------------------------------------------- hdr
HdrLen == 240
Fills == IF Deep THEN {0, 165, 255} ELSE {0, 165}
\* a header as a function 0..239 -> byte: fill, then the writes in order
Apply(buf, w) == [i \in 0..(HdrLen - 1) |-> IF i >= w.off /\ i < w.off + Len(w.b) THEN w.b[i - w.off + 1] ELSE buf[i]]
RECURSIVE ApplyAll(_, _)
ApplyAll(buf, ws) == IF ws = <<>> THEN buf ELSE ApplyAll(Apply(buf, Head(ws)), Tail(ws))
Blank(fill) == [i \in 0..(HdrLen - 1) |-> fill]
Field(buf, off, n) == [i \in 1..n |-> buf[off + i - 1]]
RECURSIVE TrimNull(_)
TrimNull(s) == IF s = <<>> \/ Head(s) = 0 THEN <<>> ELSE <<Head(s)>> \o TrimNull(Tail(s))

ByteOff == [op |-> 0, htype |-> 1, hlen |-> 2, hops |-> 3]
AddrOff == [ciaddr |-> 12, yiaddr |-> 16, siaddr |-> 20, giaddr |-> 24]
\* 16 byte form of the address kinds
A4 == {<<192, 168, 7, 33>>, <<0, 0, 0, 0>>, <<255, 255, 255, 255>>, <<10, 0, 0, 1>>}
Mapped(a) == <<0, 0, 0, 0, 0, 0, 0, 0, 0, 0, 255, 255>> \o a
V6 == <<32, 1, 13, 184, 0, 0, 0, 0, 0, 0, 0, 0, 0, 0, 0, 9>>
NameLens(max) == {0, 1, max - 1, max, max + 1, max + 40} \cup (IF Deep THEN {2, 7, max - 2, max + 2, 255} ELSE {})

\* vectors: f = setter, arg = argument (bytes / number / bool), writes = what the setter must change, get = what the getters must read
HdrVec(f, fill, arg, argk, ws, obs) ==
  LET buf == ApplyAll(Blank(fill), ws)
  IN [k |-> "hdr", f |-> f, fill |-> fill, arg |-> arg, argk |-> argk, writes |-> ws, obs |-> obs,
      get |-> [op |-> buf[0], htype |-> buf[1], hlen |-> buf[2], hops |-> buf[3], xid |-> Field(buf, 4, 4),
               secs |-> Field(buf, 8, 2), flags |-> Field(buf, 10, 2), bcast |-> buf[10] >= 128,
               ciaddr |-> Field(buf, 12, 4), yiaddr |-> Field(buf, 16, 4), siaddr |-> Field(buf, 20, 4), giaddr |-> Field(buf, 24, 4),
               chaddr |-> Field(buf, 28, 6), sname |-> TrimNull(Field(buf, 44, 64)), file |-> TrimNull(Field(buf, 108, 128)),
               cookie |-> Field(buf, 236, 4)]]
W(off, b) == [off |-> off, b |-> b]
BoolByte(b) == IF b THEN 1 ELSE 0
\* SetBroadcast(b) on a header whose flags are pre: only the top bit of byte 10 may change
BcastHi(b, pre) == ((pre \div 256) % 128) + (IF b THEN 128 ELSE 0)
HdrSet ==
  UNION {
    {HdrVec("xid", fl, x, "bytes", <<W(4, Take(x, 4))>>, IF Len(x) = 4 THEN "" ELSE "ObsShortOrLongArg") : x \in {Pat(n, 3) : n \in {0, 3, 4, 5}}}
    \cup {HdrVec("secs", fl, U16(v), "u16", <<W(8, U16(v))>>, "") : v \in {0, 1, 255, 256, 4660, 65535}}
    \cup {HdrVec("flags", fl, U16(v), "u16", <<W(10, U16(v))>>, "") : v \in {0, 1, 32767, 32768, 65535}}
    \cup {HdrVec("bcast", fl, <<BoolByte(b)>> \o U16(pre), "bool+pre", <<W(10, U16(pre)), W(10, <<BcastHi(b, pre)>>)>>, "")
            : b \in BOOLEAN, pre \in {0, 1, 32767, 32768, 65535, 16384}}
    \cup {HdrVec(f, fl, a, "ip4", <<W(AddrOff[f], a)>>, "") : f \in DOMAIN AddrOff, a \in A4}
    \cup {HdrVec(f, fl, Mapped(a), "ip16", <<W(AddrOff[f], Take(Mapped(a), 4))>>, "ObsAddrNotIPv4") : f \in DOMAIN AddrOff, a \in {<<192, 168, 7, 33>>}}
    \cup {HdrVec(f, fl, V6, "ip16", <<W(AddrOff[f], Take(V6, 4))>>, "ObsAddrNotIPv4") : f \in DOMAIN AddrOff}
    \cup {HdrVec(f, fl, <<>>, "ipinvalid", <<>>, "ObsAddrNotIPv4") : f \in DOMAIN AddrOff}
    \cup {HdrVec("chaddr", fl, m, "bytes", <<W(28, Take(m, 16)), W(2, <<Len(m)>>)>>,
                 IF Len(m) > 16 THEN "ObsHLenAboveField" ELSE IF Len(m) # 6 THEN "ObsNotEthernet" ELSE "")
            : m \in {Pat(n, 4) : n \in {0, 5, 6, 8, 16, 20}}}
    \cup {HdrVec("sname", fl, s, "bytes", <<W(44, Take(s, 64))>> \o (IF Len(s) < 64 THEN <<W(44 + Len(s), <<0>>)>> ELSE <<>>),
                 IF Len(s) > 64 THEN "ObsTruncated" ELSE "") : s \in {Pat(n, 5) : n \in NameLens(64)}}
    \cup {HdrVec("file", fl, s, "bytes", <<W(108, Take(s, 128))>> \o (IF Len(s) < 128 THEN <<W(108 + Len(s), <<0>>)>> ELSE <<>>),
                 IF Len(s) > 128 THEN "ObsTruncated" ELSE "") : s \in {Pat(n, 6) : n \in NameLens(128)}}
    \cup {HdrVec("cookie", fl, c, "bytes", <<W(236, Take(c, 4))>>, IF Len(c) = 4 THEN "" ELSE "ObsShortOrLongArg")
            : c \in {<<99, 130, 83, 99>>, <<99, 130, 83>>, <<1, 2, 3, 4, 5>>, <<>>}}
    \cup {HdrVec(f, fl, <<v>>, "u8", <<W(ByteOff[f], <<v>>)>>, "")
            : f \in {"op", "htype", "hlen", "hops"}, v \in {0, 1, 2, 6, 255}}
    : fl \in Fills }

\* ---------------------------------------------------------------- lease / mtu: 32 bit values as two 16 bit limbs (TLC integers are 32 bit)
Limbs == {<<0, 0>>, <<0, 1>>, <<0, 59>>, <<0, 3600>>, <<0, 14400>>, <<1, 20864>>, <<32767, 65535>>, <<32768, 0>>, <<65535, 65535>>,
          <<65536, 0>>, <<65536, 5>>, <<65537, 4464>>}
Wrap(hi, lo) == <<hi % 65536, lo>>
Neg(hi, lo) == IF lo = 0 THEN <<(65536 - (hi % 65536)) % 65536, 0>> ELSE <<(65535 - (hi % 65536)) % 65536, 65536 - lo>>
Be32(p) == U16(p[1]) \o U16(p[2])
\* d = sign * ((hi * 65536 + lo) s + ns): Go's integer division truncates toward zero, so the fraction never matters
LeaseSet == {[k |-> "lease", neg |-> ng, hi |-> p[1], lo |-> p[2], ns |-> ns,
              exp |-> Be32(IF ng THEN Neg(p[1], p[2]) ELSE Wrap(p[1], p[2])),
              obs |-> IF ng /\ p # <<0, 0>> THEN "ObsNegativeWraps" ELSE IF p[1] >= 65536 THEN "ObsAbove32BitsWraps" ELSE ""]
             : ng \in BOOLEAN, p \in Limbs, ns \in {0, 500000000, 999999999}}
MtuSet == {[k |-> "mtu", hi |-> p[1], lo |-> p[2], exp |-> [code |-> 5, be |-> Be32(p)]] : p \in {q \in Limbs : q[1] < 65536}}

\* ---------------------------------------------------------------- lla / ula / solnode / ucast
FlipUL(b) == IF (b \div 2) % 2 = 1 THEN b - 2 ELSE b + 2
Eui64(m) == <<FlipUL(m[1]), m[2], m[3], 255, 254, m[4], m[5], m[6]>>
FirstOctets == IF Deep THEN 0..255 ELSE {0, 1, 2, 3, 82, 253, 254, 255}
Mac6(b) == <<b, 17, 34, 51, 68, 85>>
LlaRef(m) == IF Len(m) = 6 THEN <<254, 128, 0, 0, 0, 0, 0, 0>> \o Eui64(m) ELSE <<>>
MacsAnyLen == {Mac6(b) : b \in FirstOctets} \cup {<<>>, <<2, 17, 34, 51, 68>>, <<2, 17, 34, 51, 68, 85, 102>>, <<2, 17, 34, 255, 254, 51, 68, 85>>}
LlaSet == {[k |-> "lla", mac |-> m, exp |-> LlaRef(m)] : m \in MacsAnyLen}
UlaSet == {[k |-> "ula", mac |-> m, subnet |-> U16(sn),
            exp |-> [ok |-> Len(m) \in {0, 6}, first |-> 253, subnet |-> U16(sn), ones |-> 64]]
           : m \in {<<>>, Mac6(2), Mac6(255), <<2, 17, 34, 51, 68>>, <<2, 17, 34, 51, 68, 85, 102>>}, sn \in {0, 1, 255, 256, 65535}}
Tail3(a) == SubSeq(a, 14, 16)
SolSet == {[k |-> "solnode", ip |-> a,
            exp |-> IF Len(a) = 16 THEN [ip |-> <<255, 2, 0, 0, 0, 0, 0, 0, 0, 0, 0, 1, 255>> \o Tail3(a), mac |-> <<51, 51, 255>> \o Tail3(a)]
                    ELSE [ip |-> <<>>, mac |-> <<>>]]
           : a \in {LlaRef(Mac6(2)), LlaRef(Mac6(255)), V6, Pat(16, 1), Pat(16, 0), <<192, 168, 0, 1>>}}
UcastSet == {[k |-> "ucast", mac |-> m, exp |-> [panic |-> Len(m) = 0 /\ ~UcastFixed, unicast |-> IF Len(m) = 0 THEN FALSE ELSE m[1] % 2 = 0],
              obs |-> IF Len(m) = 0 /\ ~UcastFixed THEN "KfUcastEmptyPanics" ELSE ""]
             : m \in {Mac6(b) : b \in FirstOctets} \cup {<<>>, <<1>>, <<2>>, <<51, 51, 0, 0, 0, 1>>, <<2, 17, 34, 255, 254, 51, 68, 85>>}}

\* ---------------------------------------------------------------- log: the level lattice
LInvalid == 0
LError == 1
LInfo == 2
LDebug == 3
\* words and the level they name (case-insensitive, nothing is trimmed)
Words == {<<"error", LError>>, <<"info", LInfo>>, <<"debug", LDebug>>, <<"INFO", LInfo>>, <<"Debug", LDebug>>, <<"ERROR", LError>>,
          <<"warn", LInvalid>>, <<"", LInvalid>>, <<" info", LInvalid>>, <<"information", LInvalid>>, <<"invalid", LInvalid>>}
Ops == {[o |-> "set", v |-> v] : v \in 0..4} \cup {[o |-> "setstr", w |-> w[1], lv |-> w[2]] : w \in Words}
       \cup {[o |-> "disable"], [o |-> "einfo"], [o |-> "edebug"]}
\* SetLevel ignores LevelInvalid (0) and stores anything else, also a number that names no level
LogStep(l, op) == CASE op.o = "set" -> IF op.v = LInvalid THEN l ELSE op.v
                    [] op.o = "setstr" -> IF op.lv = LInvalid THEN l ELSE op.lv
                    [] op.o = "disable" -> LError
                    [] op.o = "einfo" -> LInfo
                    [] op.o = "edebug" -> LDebug
Obs(l) == [level |-> l, info |-> l >= LInfo, debug |-> l >= LDebug]
RECURSIVE LogRun(_, _)
LogRun(l, ops) == IF ops = <<>> THEN <<>> ELSE LET n == LogStep(l, Head(ops)) IN <<Obs(n)>> \o LogRun(n, Tail(ops))
LogSet == {[k |-> "log", init |-> l0, ops |-> ops, exp |-> LogRun(l0, ops)]
           : l0 \in 1..3, ops \in {<<a>> : a \in Ops} \cup {<<a, b>> : a \in Ops, b \in Ops}
                                   \cup (IF Deep THEN {<<a, b, c>> : a \in Ops, b \in Ops, c \in Ops} ELSE {})}
\* Str2LogLevel: documented "If the string is invalid, the function returns LevelError"; SetLevelString relies on LevelInvalid
StrSet == {[k |-> "str2level", w |-> w[1], exp |-> w[2], documented |-> IF w[2] = LInvalid THEN LError ELSE w[2],
            obs |-> IF w[2] = LInvalid THEN "KfStr2LogLevelDoc" ELSE ""] : w \in Words}

\* ---------------------------------------------------------------- enumeration
Fam(name, set) == IF name \in Families THEN set ELSE {}
VInit == d \in Fam("hdr", HdrSet) \cup Fam("lease", LeaseSet) \cup Fam("mtu", MtuSet) \cup Fam("lla", LlaSet) \cup Fam("ula", UlaSet)
               \cup Fam("solnode", SolSet) \cup Fam("ucast", UcastSet) \cup Fam("log", LogSet) \cup Fam("log", StrSet)
VNext == UNCHANGED d
VSpec == VInit /\ [][VNext]_d

\* lemmas decided on every vector (properties of the reference itself)
IsByte(b) == b \in 0..255
Lemmas ==
  /\ d.k = "hdr" => /\ \A i \in 1..Len(d.writes) : d.writes[i].off >= 0 /\ d.writes[i].off + Len(d.writes[i].b) <= HdrLen
                                                     /\ \A j \in 1..Len(d.writes[i].b) : IsByte(d.writes[i].b[j])
                    /\ d.obs = "" /\ d.f \in {"xid", "cookie", "ciaddr", "yiaddr", "siaddr", "giaddr"} => d.get[d.f] = d.arg  \* round trip
                    /\ d.obs = "" /\ d.f \in {"sname", "file"} => d.get[d.f] = d.arg
                    /\ d.f = "chaddr" /\ Len(d.arg) = 6 => d.get.chaddr = d.arg /\ d.get.hlen = 6
                    /\ d.f = "bcast" => d.get.bcast = (d.arg[1] = 1) /\ d.get.flags[2] = d.arg[3]
                                         /\ d.get.flags[1] % 128 = d.arg[2] % 128
  /\ d.k = "lease" => Len(d.exp) = 4 /\ (\A i \in 1..4 : IsByte(d.exp[i]))
                      /\ (~d.neg /\ d.hi < 65536 => d.exp = U16(d.hi) \o U16(d.lo))
  /\ d.k = "lla" => (Len(d.mac) = 6 => /\ Len(d.exp) = 16 /\ d.exp[12] = 255 /\ d.exp[13] = 254
                                         /\ (d.exp[9] \div 2) % 2 # (d.mac[1] \div 2) % 2        \* u/l bit inverted
                                         /\ d.exp[9] % 2 = d.mac[1] % 2 /\ d.exp[9] \div 4 = d.mac[1] \div 4)   \* nothing else
  /\ d.k = "log" => \A i \in 1..Len(d.exp) : (d.exp[i].debug => d.exp[i].info) /\ d.exp[i].level # LInvalid
VExport == PrintT(ToJson(d))
=============================================================================
