------------------------------- MODULE Cksum -------------------------------
(* C15 -- the Internet checksum (RFC 1071) as an executable TLA+ definition.

   Property level  : Words / OnesSum / Cksum / Stored -- RFC 1071 section 1 transcribed: the data is
                     a sequence of 16-bit big-endian words (an odd trailing byte is padded on the right
                     with zero), the words are added in one's-complement arithmetic (end-around carry,
                     written as a fold so that no accumulator width appears) and the result is
                     complemented.  `Stored(b)` are the two bytes, in memory order, that a sender writes
                     into the checksum field; byte order is therefore not a degree of freedom.
   Mechanism level : MechAcc / Fold1 / Fold2 / MechValue / MechStored -- what layer_ip4.go:133-145 does:
                     little-endian 16-bit words accumulated in a uint32, the odd tail added as a low
                     byte, two folding steps, complement truncated to 16 bits; the callers store the low
                     byte of the returned value first (layer_ip4.go:104-105,119-120, layer_icmp.go:40).

   TLC checks (CksumVec.tla) that the mechanism equals the property level on every enumerated vector
   and the lemmas SplitIndependent, VerifyZero, CarryFold, TwoFolds on the definition itself. *)
EXTENDS Integers, Sequences, SequencesExt

W16 == 65536
\* TLC integers are 32-bit: the uint32 wrap-around of the accumulator is not representable and not needed,
\* every enumerated length (<= 1522 bytes) keeps the accumulator below 2^27.

\* ------------------------------------------------------------------ property level (RFC 1071)
NWords(b) == (Len(b) + 1) \div 2

\* 16-bit big-endian words; an odd tail is padded with a zero byte
Words(b) == [i \in 1..NWords(b) |-> b[2*i-1] * 256 + (IF 2*i <= Len(b) THEN b[2*i] ELSE 0)]

\* one's-complement addition of two 16-bit values: the carry out of bit 15 is added back in
Add1c(x, y) == LET s == x + y IN (s % W16) + (s \div W16)

\* one's-complement sum of a sequence of words: a left fold of Add1c starting from 0
\* (FoldLeft of the CommunityModules: FoldLeft(op, base, <<a, b, c>>) = op(op(op(base, a), b), c))
OnesSum(w) == FoldLeft(Add1c, 0, w)

Sum(b)    == OnesSum(Words(b))
Cksum(b)  == 65535 - Sum(b)
Stored(b) == <<Cksum(b) \div 256, Cksum(b) % 256>>

\* the uint16 the library's Checksum returns: its callers write byte(v) first, byte(v>>8) second
LibValue(b) == Stored(b)[1] + 256 * Stored(b)[2]

\* a receiver accepts a buffer iff its one's-complement sum is 0xffff (checksum of the whole = 0)
Verifies(b) == Cksum(b) = 0

\* byte swap of a 16-bit value
Swap(x) == (x % 256) * 256 + (x \div 256)

\* value-level reduction of an arbitrary natural number modulo 0xffff with representative 1..0xffff
Reduce(s) == IF s = 0 THEN 0 ELSE ((s - 1) % 65535) + 1

\* ------------------------------------------------------------------ mechanism level (layer_ip4.go)
\* for i := 0; i < len(b)-1; i += 2 { s += uint32(b[i+1])<<8 | uint32(b[i]) }      (i is 0-based)
\* = one step per complete byte pair j = 1..len(b) div 2, low byte first
MechLoop(b) == FoldLeft(LAMBDA s, j : s + b[2*j] * 256 + b[2*j-1], 0, [j \in 1..(Len(b) \div 2) |-> j])

\* if csumcv&1 == 0 { s += uint32(b[csumcv]) }     csumcv = len(b)-1 is even iff len(b) is odd
MechAcc(b) == IF Len(b) % 2 = 1 THEN MechLoop(b) + b[Len(b)] ELSE MechLoop(b)

Fold1(s) == (s \div W16) + (s % W16)                  \* s = s>>16 + s&0xffff
Fold2(s) == s + (s \div W16)                          \* s = s + s>>16
MechValue(b) == 65535 - (Fold2(Fold1(MechAcc(b))) % W16)   \* ^uint16(s)
MechStored(b) == <<MechValue(b) % 256, MechValue(b) \div 256>>   \* p[10] = byte(v); p[11] = byte(v>>8)

\* ------------------------------------------------------------------ the uint32 accumulator with its wrap-around
\* TLC integers are 32-bit signed, so the accumulator is kept as two 16-bit halves; `wraps` counts how often the real
\* uint32 overflowed (each overflow silently drops 2^32 = 1 (mod 0xffff) from the one's-complement sum).
AccStep(a, w) ==
  LET lo2 == a.lo + w
      hi2 == a.hi + (lo2 \div W16)
  IN  [hi |-> hi2 % W16, lo |-> lo2 % W16, wraps |-> a.wraps + (hi2 \div W16)]
Acc32(b) ==
  LET a == FoldLeft(LAMBDA s, j : AccStep(s, b[2*j] * 256 + b[2*j-1]), [hi |-> 0, lo |-> 0, wraps |-> 0],
                    [j \in 1..(Len(b) \div 2) |-> j])
  IN  IF Len(b) % 2 = 1 THEN AccStep(a, b[Len(b)]) ELSE a
Mech32Of(a) == LET f1 == a.hi + a.lo                     \* s>>16 + s&0xffff
                   f2 == f1 + (f1 \div W16)              \* s + s>>16
               IN  65535 - (f2 % W16)
Mech32Value(b)  == Mech32Of(Acc32(b))
Mech32Stored(b) == <<Mech32Value(b) % 256, Mech32Value(b) \div 256>>
\* The library as written is RFC 1071 exactly on the inputs whose accumulation never overflows 32 bits; on the others
\* its little-endian sum is short by the number of overflows (named deviation KF_AccumulatorWrap: needs more than
\* 65537 words, i.e. more than 131074 bytes).
WrapLemma(b) ==
  LET a == Acc32(b)
      m == 65535 - Mech32Of(a)          \* the library's folded little-endian sum
      t == Swap(Sum(b))                 \* the true sum read little-endian (RFC 1071 byte order independence)
  IN  /\ (a.wraps = 0) <=> (Mech32Stored(b) = Stored(b))
      /\ (a.hi + a.lo > 0 /\ t > 0) => Add1c(m, a.wraps) = t

\* ------------------------------------------------------------------ how many folding steps a sum needs
\* the unfolded sum of the big-endian words: what a wide accumulator holds before any carry is folded back
USum(b) == FoldLeft(LAMBDA a, w : a + w, 0, Words(b))
\* number of steps s -> (s div 2^16) + (s mod 2^16) until the value fits 16 bits.  An implementation that folds
\* fewer times than its grouping of terms needs (one fold after adding three 16-bit terms, one fold of a long
\* accumulation) is wrong exactly on the inputs of class 2.
FoldsNeeded(s) == IF s < W16 THEN 0 ELSE IF Fold1(s) < W16 THEN 1 ELSE IF Fold1(Fold1(s)) < W16 THEN 2 ELSE 3

\* characterisation of the classes for small high halves (sums of a few 16-bit terms): two folds are needed exactly
\* when the low half is within `hi` of overflowing -- e.g. for three terms only the total 0x1ffff
FoldClasses ==
  \A hi \in 0..3 : \A lo \in 0..65535 :
     LET t == hi * W16 + lo
     IN  /\ FoldsNeeded(t) <= 2
         /\ (FoldsNeeded(t) = 2) <=> (hi >= 1 /\ lo >= W16 - hi)
         /\ (FoldsNeeded(t) = 0) <=> (hi = 0)
         /\ Reduce(t) = (IF FoldsNeeded(t) = 2 THEN Fold1(Fold1(t)) ELSE IF FoldsNeeded(t) = 1 THEN Fold1(t) ELSE t)
\* three 16-bit terms: the only total that needs a second fold is 0x1ffff
ThreeTermTotals == \A t \in 0..(3 * 65535) : (FoldsNeeded(t) = 2) <=> (t = 131071)

\* ---- wider folds.  An implementation may add 32-bit words into a 64-bit accumulator and fold 64 -> 32 -> 16; the
\* same carry question then arises one level up: does hi32 + lo32 overflow 32 bits?  TLC integers cannot hold such sums,
\* so the 64-bit accumulator is four 16-bit digits d0 (least significant) .. d3.  Length must be a multiple of 4.
\* order "le": word j = b[4j-3] + 2^8 b[4j-2] + 2^16 b[4j-1] + 2^24 b[4j];  "be": the bytes in the opposite order.
Acc64Step(a, L, H) ==
  LET s0 == a.d0 + L
      s1 == a.d1 + H + (s0 \div W16)
      s2 == a.d2 + (s1 \div W16)
  IN  [d0 |-> s0 % W16, d1 |-> s1 % W16, d2 |-> s2 % W16, d3 |-> a.d3 + (s2 \div W16)]
Acc64(b, order) ==
  FoldLeft(LAMBDA a, j : IF order = "le"
                         THEN Acc64Step(a, b[4*j-3] + 256 * b[4*j-2], b[4*j-1] + 256 * b[4*j])
                         ELSE Acc64Step(a, b[4*j-1] * 256 + b[4*j], b[4*j-3] * 256 + b[4*j-2]),
           [d0 |-> 0, d1 |-> 0, d2 |-> 0, d3 |-> 0], [j \in 1..(Len(b) \div 4) |-> j])
\* folding the 64-bit accumulator into 32 bits carries out of bit 31 (a second 32-bit fold is needed)
Fold32Carries(a) == a.d1 + a.d3 + ((a.d0 + a.d2) \div W16) >= W16

\* x such that x +' y = t in one's-complement arithmetic (used to construct vectors with a prescribed sum)
Sub1c(t, y) == Add1c(t, 65535 - y)

\* ------------------------------------------------------------------ lemmas (checked by TLC)
\* the mechanism computes the RFC 1071 bytes
MechConforms(b) == MechStored(b) = Stored(b) /\ MechValue(b) = LibValue(b)

\* RFC 1071 section 2 (A),(B): the sum of a concatenation is the end-around sum of the parts; a part that
\* starts at an odd offset contributes its byte-swapped sum
SplitAt(b, k) ==
  LET p == SubSeq(b, 1, k)
      q == SubSeq(b, k + 1, Len(b))
  IN  Sum(b) = Add1c(Sum(p), IF k % 2 = 0 THEN Sum(q) ELSE Swap(Sum(q)))
SplitIndependent(b, ks) == \A k \in ks : SplitAt(b, k)

\* storing the checksum of a buffer (field zeroed) at an even offset makes the buffer verify
PutAt(b, k, c) == [i \in 1..Len(b) |-> IF i = k + 1 THEN c[1] ELSE IF i = k + 2 THEN c[2] ELSE b[i]]
VerifyAt(b, k) == LET z == PutAt(b, k, <<0, 0>>) IN Verifies(PutAt(z, k, Stored(z)))
VerifyZero(b, ks) == \A k \in ks : (k % 2 = 0 /\ k + 2 <= Len(b)) => VerifyAt(b, k)

\* any number of 0xffff words folds to 0xffff (negative zero), and one more word w gives w back
CarryFold(maxn) ==
  \A n \in 0..maxn :
     LET f == [i \in 1..n |-> 65535]
     IN  /\ OnesSum(f) = IF n = 0 THEN 0 ELSE 65535
         /\ \A w \in {1, 255, 256, 32768, 65534} : n > 0 => OnesSum(Append(f, w)) = w

\* two folding steps reduce every 32-bit accumulator value s = hi*2^16 + lo completely.  s itself does not fit a
\* TLC integer; Fold1(s) = hi + lo does, and s = hi + lo (mod 0xffff), s = 0 iff hi + lo = 0.  Checked on the
\* boundary values of the low half for every high half.
TwoFolds ==
  \A hi \in 0..65535 :
    \A lo \in {0, 1, 65534, 65535} \cup ({65534 - hi, 65535 - hi, 65536 - hi, 65537 - hi} \cap 0..65535) :
       LET t == hi + lo IN Fold2(t) < 2 * W16 /\ Fold2(t) % W16 = Reduce(t)
=============================================================================
