SPECIFICATION Spec
CONSTANTS
  NLines = 3
  MaxFields = 1
  PutsOnWriteError = 1
  ExportEvery = 1
INVARIANTS C20_LinesIndependent PoolSound Export
CHECK_DEADLOCK FALSE
