------------------------------- MODULE Walk -------------------------------
(* Reference walkers over abstract element sequences (C08, C17).

   One module, one walker per value of the constant Walker.  A behaviour is
     build*  ->  Start(aux)  ->  Step*  ->  done
   build : an element sequence is assembled (closed under truncation: every prefix is itself a
           complete input, and the last element may be one of the "cut" elements of the alphabet);
           nothing is appended after a terminal (cut / fatal) element;
   Start : the per-input header parameters (aux) are chosen;
   Step  : the REFERENCE walker (property level: what the RFC / the statement demands) consumes the
           input one element at a time; `rem` is its termination measure and must strictly decrease
           (action property Progress) and stay a natural number (TypeOK);
   done  : the verdict Accept(value) / Reject(cls) is final and the vector is exported as JSON
           (invariant Export), together with the MECHANISM level prediction Mech(..): what the
           walker of the code under test does on that input (ok / panic / hang), including the
           deviations named in the constant KF (open known findings).                          *)
EXTENDS Naturals, Sequences, FiniteSets, TLC, Json

CONSTANTS Walker,   \* "ndp" "lldp" "hbh" "dhcp" "nbns" "icmp4" "ssdp" "name" "dnsmsg" "arp" "llc" "mcache" "ping"
          MaxLen,   \* maximal number of elements
          Alpha,    \* "wide" (full alphabet) or "deep" (reduced alphabet, longer sequences)
          KF        \* names of the deviations of the code that are currently open

VARIABLES phase, seq, aux, pos, rem, acc
vars == <<phase, seq, aux, pos, rem, acc>>

Last(s) == s[Len(s)]
RECURSIVE SumN(_, _)
SumN(q, n) == IF n = 0 THEN 0 ELSE q[n] + SumN(q, n - 1)            \* sum of q[1..n]
Min(a, b) == IF a < b THEN a ELSE b
Go(v)     == [verdict |-> "go", cls |-> "ok", strict |-> TRUE, val |-> v]
Acc(v)    == [verdict |-> "accept", cls |-> "ok", strict |-> TRUE, val |-> v]
AccL(v, c) == [verdict |-> "accept", cls |-> c, strict |-> FALSE, val |-> v]   \* acceptance not demanded
Rej(c, v) == [verdict |-> "reject", cls |-> c, strict |-> TRUE, val |-> v]
RejL(c, v) == [verdict |-> "reject", cls |-> c, strict |-> FALSE, val |-> v]   \* rejection not demanded

-----------------------------------------------------------------------------
(* NDP options (RFC 4861 4.6): type, length in units of 8 octets, present bytes. *)
NdpTypes == IF Alpha = "wide" THEN {1, 2, 3, 5, 24, 25, 31, 200} ELSE {1, 25, 31, 200}
NdpLens  == IF Alpha = "wide" THEN {0, 1, 2, 3, 4, 5, 32, 33, 255} ELSE {0, 1, 3}   \* 32, 33: 8*l wrapped in a uint8 before /repo c20b9e1
\* c: content class of the value. Only the DNS search list (31) carries text: plain LDH labels, punycode labels
\* (xn--) whose decoded form is longer / shorter than the wire form, and an xn-- label that is not valid punycode.
NdpContents(t) == IF t = 31 /\ Alpha = "wide" /\ MaxLen <= 2 THEN {"plain", "puny.long", "puny.short", "puny.bad"} ELSE {"plain"}
NdpElems == {e \in [t : NdpTypes, l : NdpLens, p : {"full", "hdr1", "body"}, c : {"plain", "puny.long", "puny.short", "puny.bad"}] :
               /\ e.c \in NdpContents(e.t)
               /\ (e.p # "full" \/ e.l < 3) => e.c = "plain"      \* the text needs room
               /\ e.p = "hdr1" => e.l = 0           \* only the type octet is present
               /\ e.p = "body" => e.l >= 1          \* header present, fewer than 8*l octets
               /\ e.p = "full" => e.l # 255}        \* 2040 octets never fit
NdpTerminal(e) == e.p # "full" \/ e.l = 0
NdpSize(e) == IF e.p = "hdr1" THEN 1 ELSE IF e.p = "body" \/ e.l = 0 THEN 2 ELSE 8 * e.l
NdpAdvance(e) == 8 * e.l                             \* what the length field says
NdpStep(e, a) ==
  IF e.p = "hdr1" THEN [adv |-> 0, acc |-> Rej("hdrcut", a.val)]
  ELSE IF e.p = "body" THEN [adv |-> 0, acc |-> Rej("bodycut", a.val)]
  ELSE IF e.l = 0 THEN [adv |-> 0, acc |-> Rej("len0.t" \o ToString(e.t), a.val)]   \* MUST discard
  ELSE [adv |-> NdpAdvance(e), acc |-> Go(Append(a.val, <<e.t, e.l>>))]
\* mechanism: newParseOptions (layer_icmp6_options.go:677)
RECURSIVE NdpMech(_, _)
NdpMech(s, i) ==
  IF i > Len(s) THEN "ok"
  ELSE LET e == s[i] IN
    IF e.p # "full" THEN "ok"                         \* io.ErrUnexpectedEOF
    ELSE IF e.l = 0 THEN
       IF "KF_NdpZeroLen" \notin KF THEN "ok"
       ELSE IF e.t \in {31, 200} THEN "hang"          \* error ignored / default, then i += 0
       ELSE "panic"                                   \* unmarshal(b[i:i]) indexes an empty slice
    ELSE IF (e.t \in {1, 2} /\ e.l # 1) \/ (e.t = 3 /\ e.l # 4) THEN "ok"   \* error returned
    ELSE NdpMech(s, i + 1)

-----------------------------------------------------------------------------
(* LLDP TLVs: 7 bit type, 9 bit length, value. *)
LldpTypes == IF Alpha = "wide" THEN {1, 2, 3, 5, 7, 127} ELSE {1, 5}
LldpLens  == IF Alpha = "wide" THEN {0, 1, 2, 4, 9} ELSE {0, 1, 4}
LldpElems == {[t |-> t, l |-> l, p |-> "full"] : t \in LldpTypes, l \in LldpLens}
        \cup {[t |-> 0, l |-> 0, p |-> "full"], [t |-> 0, l |-> 3, p |-> "full"]}
        \cup {[t |-> t, l |-> l, p |-> "body"] : t \in LldpTypes, l \in LldpLens \ {0}}
        \cup {[t |-> 1, l |-> 0, p |-> "hdr1"]}
LldpTerminal(e) == e.p # "full"
LldpSize(e) == IF e.p = "hdr1" THEN 1 ELSE IF e.p = "body" THEN 2 + (e.l - 1) ELSE 2 + e.l
LldpStep(e, a) ==
  IF e.p = "hdr1" THEN [adv |-> 0, acc |-> Rej("hdrcut", a.val)]
  ELSE IF e.p = "body" THEN [adv |-> 0, acc |-> Rej("bodycut", a.val)]
  ELSE IF e.t = 0 /\ e.l = 0 THEN [adv |-> 0, acc |-> Acc(a.val)]
  ELSE [adv |-> 2 + e.l, acc |-> Go(Append(a.val, <<e.t, e.l>>))]
\* mechanism, on the octets themselves (value octets are 0xFE 0xFF 0xFE ... in every encoding):
\* LLDP.getTLV, FastLog, ChassisID, PortID (layer_ethernet.go:262-306,375)
RECURSIVE Flat(_)
Flat(ss) == IF ss = <<>> THEN <<>> ELSE Head(ss) \o Flat(Tail(ss))
LldpOctets(e) == IF e.p = "hdr1" THEN <<e.t * 2>>
                 ELSE <<e.t * 2 + (e.l \div 256), e.l % 256>> \o
                      [i \in 1..(IF e.p = "body" THEN e.l - 1 ELSE e.l) |-> IF i % 2 = 1 THEN 254 ELSE 255]
LldpBuf(s, a) == Flat([i \in 1..Len(s) |-> LldpOctets(s[i])]) \o [i \in 1..a.trail |-> 0]
GetTLV(b, n) ==        \* p[n] is b[n+1]
  IF Len(b) <= n + 2 THEN [st |-> "err", t |-> 0, l |-> 0, vlen |-> 0]
  ELSE LET t == b[n + 1] \div 2
           l == (b[n + 1] % 2) * 256 + b[n + 2] IN
       IF t = 0 /\ l = 0 THEN [st |-> "end", t |-> 0, l |-> 0, vlen |-> 0]
       ELSE IF "KF_LldpShortTLV" \in KF
            THEN (IF Len(b) > n + 2 + l + 2             \* before commit ae95cb3: value = p[n+2 : n+l]
                  THEN (IF l < 2 THEN [st |-> "panic", t |-> t, l |-> l, vlen |-> 0]
                        ELSE [st |-> "ok", t |-> t, l |-> l, vlen |-> l - 2])
                  ELSE [st |-> "err", t |-> 0, l |-> 0, vlen |-> 0])
            ELSE (IF Len(b) >= n + 2 + l THEN [st |-> "ok", t |-> t, l |-> l, vlen |-> l]   \* value = p[n+2 : n+2+l]
                  ELSE [st |-> "err", t |-> 0, l |-> 0, vlen |-> 0])
RECURSIVE LldpFastLog(_, _)
LldpFastLog(b, n) == LET r == GetTLV(b, n) IN
  CASE r.st = "panic" -> "panic" [] r.st \in {"err", "end"} -> "ok"
    [] OTHER -> IF r.t = 0 THEN "ok" ELSE LldpFastLog(b, n + r.l + 2)
LldpMech(s, a) ==
  LET b == LldpBuf(s, a)
      c == GetTLV(b, 0)
      clen == IF c.st = "ok" THEN c.vlen ELSE 0                  \* len(ChassisID())
  IN IF Len(b) < 6 THEN "ok"                                   \* IsValid
     ELSE IF c.st = "panic" \/ GetTLV(b, clen + 2).st = "panic" \/ LldpFastLog(b, 0) = "panic" THEN "panic"
     ELSE "ok"

-----------------------------------------------------------------------------
(* IPv6 hop-by-hop options inside a header whose Len field covers them. *)
HbhElems == {[k |-> "pad1", n |-> 0], [k |-> "ralert", n |-> 2]}
       \cup {[k |-> "padn", n |-> n] : n \in IF Alpha = "wide" THEN {0, 1, 4} ELSE {0}}
       \cup {[k |-> "unk", n |-> n] : n \in IF Alpha = "wide" THEN {0, 4} ELSE {4}}
       \cup {[k |-> "lencut", n |-> 0], [k |-> "ralertcut", n |-> 2]}
       \cup {[k |-> "over", n |-> n] : n \in {1, 200}}
HbhTerminal(e) == e.k \in {"lencut", "ralertcut", "over"}
HbhSize(e) == CASE e.k = "pad1" -> 1 [] e.k = "lencut" -> 1 [] e.k = "ralertcut" -> 3
                [] e.k = "over" -> 2 [] OTHER -> 2 + e.n
HbhStep(e, a) ==
  IF HbhTerminal(e) THEN [adv |-> 0, acc |-> Rej(e.k, a.val)]
  ELSE [adv |-> HbhSize(e), acc |-> Go(Append(a.val, e.k))]

-----------------------------------------------------------------------------
(* DHCPv4 options. *)
DhcpOpts == IF Alpha = "wide"
  THEN {[k |-> "opt", c |-> 53, n |-> 1, v |-> v] : v \in {1, 2, 3, 4, 7, 9}}
       \cup {[k |-> "opt", c |-> 53, n |-> n, v |-> 0] : n \in {0, 4}}
       \cup {[k |-> "opt", c |-> c, n |-> n, v |-> 0] : c \in {50, 54}, n \in {0, 3, 4}}
       \cup {[k |-> "opt", c |-> c, n |-> n, v |-> 0] : c \in {12, 61, 55, 99}, n \in {0, 7}}
  ELSE {[k |-> "opt", c |-> 53, n |-> 1, v |-> v] : v \in {1, 3}}
       \cup {[k |-> "opt", c |-> c, n |-> 4, v |-> 0] : c \in {50, 54}}
       \cup {[k |-> "opt", c |-> 12, n |-> n, v |-> 0] : n \in {0, 7}}
DhcpElems == DhcpOpts \cup {[k |-> "pad", c |-> 0, n |-> 0, v |-> 0], [k |-> "end", c |-> 255, n |-> 0, v |-> 0]}
        \cup {[k |-> "lencut", c |-> c, n |-> 0, v |-> 0] : c \in {53, 12}}
        \cup {[k |-> "bodycut", c |-> c, n |-> n, v |-> 0] : c \in {53, 50, 12}, n \in {1, 200}}
DhcpTerminal(e) == e.k \in {"end", "lencut", "bodycut"}
DhcpSize(e) == CASE e.k \in {"pad", "end", "lencut"} -> 1 [] e.k = "bodycut" -> 2 [] OTHER -> 2 + e.n
DhcpStep(e, a) ==
  CASE e.k = "pad" -> [adv |-> 1, acc |-> Go(a.val)]
    [] e.k = "end" -> [adv |-> 0, acc |-> Acc(a.val)]
    [] e.k \in {"lencut", "bodycut"} -> [adv |-> 0, acc |-> Rej(e.k, a.val)]
    [] OTHER -> [adv |-> 2 + e.n, acc |-> Go(Append(a.val, <<e.c, e.n>>))]
\* wf: the connection refuses the next write (the reply to this packet) with a permanent / temporary error; the same
\* packet is then delivered once more with a working connection: the handler must have survived its failed send.
WriteFail == IF Alpha = "wide" /\ MaxLen <= 2 THEN {"none", "perm", "temp"} ELSE {"none"}
DhcpAux == {[op |-> o.op, port |-> o.port, wf |-> w] :
              o \in {[op |-> 1, port |-> 67], [op |-> 2, port |-> 68], [op |-> 2, port |-> 67]}, w \in WriteFail}

-----------------------------------------------------------------------------
(* NBNS node status response (RFC 1002 4.2.18): NUM_NAMES, then 18 octet entries. *)
NbnsElems == {[g |-> g] : g \in BOOLEAN}             \* one complete entry; g = group name flag
\* aux: n = NUM_NAMES claimed, pad = further complete (unique) entries after the enumerated ones,
\* x = octets of one more, incomplete entry, ans = kind of answer record carrying the array.
\* The second family crosses 8 bit arithmetic: 18 * n wraps at n = 15 (270 = 14 mod 256), 20 (104), 28 (248), 29 (10).
NbnsAux == {[n |-> n, pad |-> 0, x |-> x, ans |-> a] : n \in {0, 1, 2, 3, 255}, x \in {0, 1, 2, 16, 17},
                                                       a \in {"nbstat", "nb", "other", "query"}}
      \cup {[n |-> n, pad |-> pd, x |-> x, ans |-> "nbstat"] : n \in {14, 15, 20, 28, 29}, pd \in {0, 5, 13, 27}, x \in {0, 14}}
NbnsPresent(s, a) == Len(s) + a.pad
NbnsAvail(s, a) == 18 * NbnsPresent(s, a) + a.x      \* octets after NUM_NAMES
NbnsUnique(s, p) == IF p > Len(s) THEN TRUE ELSE ~s[p].g
\* the reference reads entry pos, or rejects when fewer than 18 octets are left for a claimed entry
NbnsStep(s, a, p, ac) ==
  IF p > a.n THEN [adv |-> 0, acc |-> Acc(ac.val)]
  ELSE IF p > NbnsPresent(s, a) THEN [adv |-> 0, acc |-> Rej("short", ac.val)]
  ELSE [adv |-> 18, acc |-> Go(IF ac.val = 0 /\ NbnsUnique(s, p) THEN p ELSE ac.val)]   \* first unique name
NbnsMechArray(s, a) ==       \* parseNodeNameArray (nbns.go:172): before 2a84c2c it checked 16n+2 and indexed 18n
  IF NbnsAvail(s, a) + 1 < 3 THEN "ok"
  ELSE IF "KF_NbnsArrayBounds" \in KF /\ NbnsAvail(s, a) >= 16 * a.n + 2 /\ NbnsAvail(s, a) < 18 * a.n THEN "panic"
  ELSE "ok"
NbnsMech(s, a) ==            \* ProcessNBNS answer loop (nbns.go:255)
  CASE a.ans = "query" -> "ok"
    [] a.ans \in {"nb", "other"} -> IF "KF_NbnsUnconsumed" \in KF THEN "hang" ELSE "ok"
    [] OTHER -> NbnsMechArray(s, a)
\* the name ProcessNBNS reports (0 = none): with KF_NbnsFirstName always entry 1
NbnsMechName(s, a) ==
  LET uniq == {i \in 1..Min(a.n, NbnsPresent(s, a)) : NbnsUnique(s, i)} IN
  IF uniq = {} THEN 0 ELSE IF "KF_NbnsFirstName" \in KF THEN 1 ELSE CHOOSE i \in uniq : \A j \in uniq : i <= j

-----------------------------------------------------------------------------
(* ICMPv4 message, for destination unreachable followed by the embedded datagram header. *)
Icmp4Outer == {[k |-> "icmp", ty |-> ty, code |-> c] : ty \in {0, 3, 5, 8, 11}, c \in {2, 3, 9}}
Icmp4Emb == {[k |-> "emb", ty |-> 0, code |-> 0, c |-> c] : c \in
   {"short", "ok.udp", "ok.tcp", "ok.other", "ihl0", "ihl>len", "tot<ihl.udp", "tot<ihl.tcp",
    "tot<ihl.other", "tot>len", "udp.short", "tcp.short"}}
Icmp4Elems == {[k |-> e.k, ty |-> e.ty, code |-> e.code, c |-> "-"] : e \in Icmp4Outer} \cup Icmp4Emb
Icmp4Can(s, e) == IF s = <<>> THEN e.k = "icmp" ELSE e.k = "emb" /\ Len(s) = 1
Icmp4Step(s, p, ac) ==
  LET e == s[p] IN
  IF e.k = "icmp" THEN [adv |-> 1, acc |-> Go(<<e.ty>>)]
  ELSE IF e.c \in {"ok.udp", "ok.tcp", "ok.other"} THEN [adv |-> 1, acc |-> Go(Append(ac.val, e.c))]
  ELSE [adv |-> 0, acc |-> Rej(e.c, ac.val)]
Icmp4Mech(s) ==
  IF Len(s) = 2 /\ s[1].ty = 3 /\ s[2].c \in {"tot<ihl.udp", "tot<ihl.tcp"} /\ "KF_Ip4TotalLenLtIhl" \in KF
  THEN "panic" ELSE "ok"                              \* IP4.Payload() = p[IHL:TotalLen]

-----------------------------------------------------------------------------
(* SSDP: start line, header lines, blank line. *)
SsdpStart == {[k |-> "start", v |-> v] : v \in {"notify", "msearch", "resp200", "resp404", "garbage"}}
SsdpHdrs == {[k |-> "hdr", v |-> v] : v \in
   IF Alpha = "wide" THEN {"nts.alive", "nts.byebye", "nts.other", "cc.maxage=N", "cc.maxage", "cc.x=maxage",
                           "cc.a=b=c", "cc.maxage = N", "man.ok", "man.bad", "ua.iphone", "ua.windows", "loc"}
   ELSE {"nts.alive", "cc.x=maxage", "cc.maxage=N", "man.ok", "ua.windows"}}
SsdpElems == SsdpStart \cup SsdpHdrs
SsdpCan(s, e) == IF s = <<>> THEN e.k = "start" ELSE e.k = "hdr"
SsdpAux == {[term |-> t] : t \in {"crlf2", "none"}}
SsdpStep(s, a, p, ac) ==
  IF p > Len(s) THEN [adv |-> 0, acc |-> IF a.term = "crlf2" THEN Acc(ac.val) ELSE Rej("noblank", ac.val)]
  ELSE IF s[p].k = "start" /\ s[p].v = "garbage" THEN [adv |-> 0, acc |-> Rej("startline", ac.val)]
  ELSE [adv |-> 1, acc |-> Go(Append(ac.val, s[p].v))]
SsdpFirstCC(s) == LET I == {i \in 1..Len(s) : s[i].k = "hdr" /\ s[i].v \in {"cc.maxage=N", "cc.maxage", "cc.x=maxage", "cc.a=b=c", "cc.maxage = N"}}
                  IN IF I = {} THEN "none" ELSE s[CHOOSE i \in I : \A j \in I : i <= j].v
SsdpFirstNTS(s) == LET I == {i \in 1..Len(s) : s[i].k = "hdr" /\ s[i].v \in {"nts.alive", "nts.byebye", "nts.other"}}
                   IN IF I = {} THEN "none" ELSE s[CHOOSE i \in I : \A j \in I : i <= j].v
SsdpMech(s, a) ==            \* processSSDPNotify (ssdp.go:68): options[i+1] after Split(.., "=")
  IF s # <<>> /\ s[1].v = "notify" /\ a.term = "crlf2" /\ SsdpFirstNTS(s) = "nts.alive"
     /\ SsdpFirstCC(s) = "cc.x=maxage" /\ "KF_SsdpMaxAge" \in KF THEN "panic" ELSE "ok"

-----------------------------------------------------------------------------
(* DNS name with compression (RFC 1035 4.1.4).  Elements are laid out contiguously from offset 12;
   aux.start is the element at which decoding begins, aux.tail the octets after the last element
   (the fixed QTYPE/QCLASS part when decoding a question). *)
NameIdx == 1..MaxLen
NameElems ==
  {[k |-> "L", n |-> n, to |-> 0] : n \in IF Alpha = "wide" THEN {1, 63} ELSE {1, 61, 62, 63}}
  \cup (IF Alpha = "wide" THEN {} ELSE {[k |-> "RUN", n |-> 126, to |-> 0]})     \* 126 one-octet labels
  \cup {[k |-> "T", n |-> 0, to |-> 0]}
  \cup {[k |-> "P", n |-> 0, to |-> j] : j \in NameIdx}
  \cup (IF Alpha = "wide" THEN {[k |-> "PMID", n |-> 0, to |-> j] : j \in 1..(MaxLen - 1)} ELSE {})
  \cup (IF Alpha = "wide" THEN {[k |-> "POOB", n |-> 0, to |-> 0], [k |-> "R40", n |-> 0, to |-> 0],
                                [k |-> "R80", n |-> 0, to |-> 0], [k |-> "LCUT", n |-> 5, to |-> 0],
                                [k |-> "PCUT", n |-> 0, to |-> 0]} ELSE {})
NameTerminal(e) == e.k \in {"LCUT", "PCUT"}
NameCan(s, e) == e.k = "PMID" => (e.to <= Len(s) /\ s[e.to].k = "L")
NameSize(e) == CASE e.k = "L" -> 1 + e.n [] e.k = "RUN" -> 2 * e.n [] e.k = "T" -> 1
                 [] e.k \in {"P", "PMID", "POOB"} -> 2 [] e.k \in {"R40", "R80", "PCUT"} -> 1
                 [] e.k = "LCUT" -> 1 + 2
NameOff(s, i) == 12 + SumN([j \in 1..Len(s) |-> NameSize(s[j])], i - 1)       \* offset of element i (i may be Len(s)+1)
NameTotal(s, a) == NameOff(s, Len(s) + 1) + a.tail
NameStarts(s) == {1} \cup {i \in 2..Len(s) : s[i - 1].k \in {"T", "P", "PMID", "POOB"}}
NameAux(s) == IF s = <<>> THEN {} ELSE
              {[start |-> i, tail |-> t] : i \in NameStarts(s), t \in IF NameTerminal(Last(s)) THEN {0} ELSE {0, 2, 4}}
NamePtrs(s) == {i \in 1..Len(s) : s[i].k = "P"}
NameAcc0(a) == [labels |-> <<>>, nlen |-> 0, visited |-> {}, run |-> a.start, fwd |-> FALSE, nend |-> 0, touched |-> {},
                runlen |-> 0, codelong |-> FALSE, avail |-> 0]
NameMeasure(s, p, v) == (Cardinality(NamePtrs(s)) - Cardinality(v.visited)) * (Len(s) + 2) + (Len(s) + 2 - p)
\* verdict for a name that ends with wire end offset nend; a question needs 4 more octets
NameFinish(s, a, v0, nend) ==
  LET v == [v0 EXCEPT !.avail = NameTotal(s, a) - nend] IN
  IF v.nlen + 1 > 255 THEN RejL("name.long", v)
  ELSE IF v.avail < 4 THEN Rej("question.cut", v)
  ELSE IF v.fwd THEN AccL(v, "ptr.forward") ELSE Acc(v)
NameStep(s, a, p, ac) ==
  LET v == [ac.val EXCEPT !.touched = IF p <= Len(s) THEN @ \cup {p} ELSE @] IN
  IF p > Len(s) THEN      \* ran off the elements: the first tail octet (0x00) terminates the name
     IF a.tail = 0 THEN [pos |-> p, acc |-> Rej("name.unterminated", v)]
     ELSE [pos |-> p, acc |-> NameFinish(s, a, v, IF v.nend = 0 THEN NameOff(s, p) + 1 ELSE v.nend)]
  ELSE LET e == s[p] IN
  CASE e.k \in {"L", "RUN"} ->
         [pos |-> p + 1, acc |-> Go([v EXCEPT !.labels = Append(@, p), !.nlen = @ + NameSize(e), !.runlen = @ + NameSize(e),
                                                !.codelong = @ \/ (v.runlen + NameSize(e) > 255)])]
    [] e.k = "T" -> [pos |-> p, acc |-> NameFinish(s, a, v, IF v.nend = 0 THEN NameOff(s, p) + 1 ELSE v.nend)]
    [] e.k = "P" ->
         IF p \in v.visited THEN [pos |-> p, acc |-> Rej("ptr.loop", v)]
         ELSE IF e.to > Len(s) THEN [pos |-> p, acc |-> Rej("ptr.oob", v)]    \* points at end of data
         ELSE [pos |-> e.to, acc |-> Go([v EXCEPT !.visited = @ \cup {p}, !.run = e.to, !.runlen = 0,
                                                  !.fwd = @ \/ (e.to >= v.run),
                                                  !.nend = IF @ = 0 THEN NameOff(s, p) + 2 ELSE @])]
    [] e.k = "PMID" -> [pos |-> p, acc |-> Rej("ptr.garbage", v)]     \* lands on a letter: 0x40 prefix
    [] e.k = "POOB" -> [pos |-> p, acc |-> Rej("ptr.oob", v)]
    [] e.k \in {"R40", "R80"} -> [pos |-> p, acc |-> Rej("label.reserved", v)]   \* incl. labels > 63
    [] e.k = "LCUT" -> [pos |-> p, acc |-> Rej("label.cut", v)]
    [] e.k = "PCUT" -> [pos |-> p, acc |-> Rej("ptr.cut", v)]
\* mechanism: DecodeQuestion (layer_dns.go:94): fixed part read at endq without a bounds check
\* (decodeName bounds every run of labels between two pointers by 255 octets, not the whole name)
NameMech(s, a, final) ==
  IF NameOff(s, a.start) + 6 > NameTotal(s, a) THEN "ok"
  ELSE IF (final.cls = "question.cut" \/ (final.cls = "name.long" /\ ~final.val.codelong /\ final.val.avail < 4))
          /\ "KF_DnsQuestionBounds" \in KF THEN "panic"
  ELSE "ok"

-----------------------------------------------------------------------------
(* DNS message: question section, then resource records in answer / authority / additional. *)
MsgTypes == IF Alpha = "wide" THEN {"A", "AAAA", "CNAME", "PTR", "PTRX", "TXT", "NSEC"} ELSE {"A", "CNAME", "NSEC"}
MsgOwn   == IF Alpha = "wide" THEN {"inl", "ptrq", "lblptrq", "ptrprev"} ELSE {"ptrq"}
MsgSecs  == {"an", "ns", "ar"}
MsgRd(t) == IF Alpha = "wide" THEN {"ok", "over", "bodycut", "hdrcut", "namecut"} \cup (IF t \in {"A", "AAAA"} THEN {"short"} ELSE {})
            ELSE {"ok", "bodycut", "hdrcut"}
MsgElems == {e \in [sec : MsgSecs, typ : MsgTypes, own : MsgOwn, rd : {"ok", "over", "bodycut", "hdrcut", "namecut", "short"}] :
               /\ e.rd \in MsgRd(e.typ)
               /\ e.typ \in {"PTR", "PTRX"} => e.own = "inl"       \* owner is the reverse / service name
               /\ e.typ \in {"TXT", "NSEC", "AAAA"} => e.own \in {"ptrq", "inl"}
               /\ (Alpha = "wide" /\ e.sec # "an") => e.own \in {"ptrq", "inl"}}
MsgTerminal(e) == e.rd \in {"over", "bodycut", "hdrcut", "namecut"}
SecNo(x) == CASE x = "an" -> 1 [] x = "ns" -> 2 [] x = "ar" -> 3
MsgCan(s, e) == /\ s # <<>> => SecNo(Last(s).sec) <= SecNo(e.sec)
                /\ e.own = "ptrprev" => s # <<>>
MsgAux(s) == {a \in [q : {"one", "none", "two"}, cnt : {"exact", "more", "less"}, resp : BOOLEAN] :
                /\ a.q = "none" => \A i \in 1..Len(s) : s[i].own \notin {"ptrq", "lblptrq"} /\ (i = 1 => s[i].own # "ptrprev")
                /\ a.cnt = "less" => s # <<>>
                /\ a.q = "two" => (Len(s) <= 1 /\ a.cnt = "exact")
                /\ (Alpha = "deep") => a.q # "two"
                /\ (a.cnt # "exact" /\ s # <<>>) => ~MsgTerminal(Last(s))
                /\ ~a.resp => (a.cnt = "exact" /\ s = <<>>)}
Present(s, x) == Cardinality({i \in 1..Len(s) : s[i].sec = x})
LastSec(s) == IF s = <<>> THEN "an" ELSE Last(s).sec
Claimed(s, a, x) == IF x # LastSec(s) THEN Present(s, x)
                    ELSE CASE a.cnt = "more" -> Present(s, x) + 1 [] a.cnt = "less" -> Present(s, x) - 1
                           [] OTHER -> Present(s, x)
ClaimedTotal(s, a) == Claimed(s, a, "an") + Claimed(s, a, "ns") + Claimed(s, a, "ar")
\* the reference examines the records the counts announce, in order; val = indices of records whose data is extracted
MsgStep(s, a, p, ac) ==
  IF p > ClaimedTotal(s, a) THEN [adv |-> 0, acc |-> Acc(ac.val)]
  ELSE IF p > Len(s) THEN [adv |-> 0, acc |-> Rej("count.more", ac.val)]
  ELSE LET e == s[p] IN
    CASE e.rd \in {"bodycut", "hdrcut", "namecut"} -> [adv |-> 0, acc |-> Rej("rr." \o e.rd, ac.val)]
      [] e.rd = "over" -> [adv |-> 0, acc |-> RejL("rr.over", ac.val)]
      [] e.rd = "short" -> [adv |-> 0, acc |-> RejL("rr.rdlen", ac.val)]
      [] OTHER -> [adv |-> 1, acc |-> Go(IF e.typ \in {"A", "AAAA", "CNAME", "PTR"} THEN Append(ac.val, p) ELSE ac.val)]
\* the reference restricted to what a unicast DNS resolver cache reads: question + answer section
RECURSIVE MsgDnsRef(_, _, _, _)
MsgDnsRef(s, a, i, val) ==
  IF i > Claimed(s, a, "an") THEN (IF a.q = "one" THEN Acc(val) ELSE AccL(val, "qdcount"))
  ELSE LET r == MsgStep(s, a, i, Go(val)) IN
       IF r.acc.verdict = "go" THEN MsgDnsRef(s, a, i + 1, r.acc.val) ELSE r.acc
\* mechanism: ProcessDNS = DecodeQuestion + decodeRRs over ANCOUNT (layer_dns.go:173)
RECURSIVE DnsMechRR(_, _, _)
DnsMechRR(s, i, n) ==
  IF i > n THEN "ok" ELSE IF i > Len(s) THEN "ok"
  ELSE LET e == s[i] IN
    IF e.rd = "hdrcut" THEN IF "KF_DnsRRBounds" \in KF THEN "panic" ELSE "ok"
    ELSE IF e.rd # "ok" THEN "ok"
    ELSE IF e.typ = "PTRX" THEN "ok"                  \* "invalid PTR IP" error for the whole message
    ELSE DnsMechRR(s, i + 1, n)
DnsMech(s, a) == IF a.q # "one" THEN "ok" ELSE DnsMechRR(s, 1, Claimed(s, a, "an"))
\* mechanism: ProcessMDNS section loop over dnsmessage.Parser (mdns.go:366)
RECURSIVE MdnsMechRR(_, _, _)
MdnsMechRR(s, a, i) ==
  IF i > ClaimedTotal(s, a) \/ i > Len(s) THEN "ok"
  ELSE LET e == s[i]
           skipfails == e.sec # "an" \/ e.rd \in {"over", "bodycut"}   \* SkipAnswer() error is dropped
           spin == IF skipfails /\ "KF_MdnsSkip" \in KF THEN "hang" ELSE IF skipfails THEN "ok" ELSE MdnsMechRR(s, a, i + 1)
       IN
    IF e.rd \in {"hdrcut", "namecut"} THEN "ok"
    ELSE IF e.typ \in {"A", "AAAA"} THEN IF e.rd = "bodycut" THEN "ok" ELSE MdnsMechRR(s, a, i + 1)
    ELSE IF e.typ \in {"PTR", "PTRX"} THEN IF e.rd = "bodycut" THEN spin ELSE MdnsMechRR(s, a, i + 1)
    ELSE IF e.typ = "TXT" THEN IF e.rd \in {"bodycut", "over"} THEN spin ELSE MdnsMechRR(s, a, i + 1)   \* TXT is read up to RDLENGTH
    ELSE spin                                           \* CNAME, NSEC: default branch, SkipAnswer()
MdnsMech(s, a) == IF ~a.resp THEN "ok" ELSE MdnsMechRR(s, a, 1)

-----------------------------------------------------------------------------
(* ARP packet and 802.3 / LLC frame: one element, a product of field classes. *)
ArpElems == [len : {8, 27, 28, 46}, hlen : {6, 5}, plen : {4, 6}, op : {1, 2, 3}, eth : BOOLEAN,
             kind : {"request", "probe", "announce", "lla", "offlan"}]
ArpStep(e, a) == IF e.len < 28 THEN [adv |-> 0, acc |-> Rej("short", a.val)]
                 ELSE IF e.hlen # 6 \/ e.plen # 4 \/ ~e.eth THEN [adv |-> 0, acc |-> Rej("fields", a.val)]
                 ELSE [adv |-> 1, acc |-> Go(<<e.kind, e.op>>)]
\* payload lengths up to the largest 802.3 frame: some paths (the rate limited STP log line) render the whole payload
LlcElems == [sap : {"stp", "snap", "ipx", "other"}, ctl : {3, 0, 1}, len : {0, 2, 3, 4, 8, 9, 20, 46, 600, 640, 1000, 1497, 1500}]
LlcStep(e, a) == IF e.len < 3 THEN [adv |-> 0, acc |-> Rej("short", a.val)]
                 ELSE IF e.sap = "snap" /\ e.ctl = 3 /\ e.len < 9 THEN [adv |-> 0, acc |-> Rej("snap.short", a.val)]
                 ELSE [adv |-> 1, acc |-> Go(<<e.sap>>)]

-----------------------------------------------------------------------------
(* Stateful family "mcache": one DNSHandler across frames.  mDNS responses are cached per (source MAC,
   transaction id) for five minutes; "age" lets more than five minutes pass; "dns" is a unicast DNS
   response that is stored in the DNS table, "find" a DNSFind of its name.  The reference keeps the
   cache and table contents; every call must return (C08) and the outcomes are listed in val.out. *)
McKeys == {<<m, i>> : m \in {1, 2}, i \in {1, 2}}
\* "bad" is a malformed response (truncated record) of the same station and transaction id: it must be rejected
\* and must leave no trace: the cache changes only when a response was processed successfully.
McElems == IF Alpha = "ids" THEN {[k |-> "mdns", m |-> 1, i |-> i] : i \in {1, 2}} \cup {[k |-> "bad", m |-> 1, i |-> 1]}
           ELSE {[k |-> x, m |-> key[1], i |-> key[2]] : x \in {"mdns", "bad"}, key \in IF Alpha = "wide" THEN McKeys ELSE {<<1, 1>>, <<2, 1>>}}
                \cup {[k |-> x, m |-> 0, i |-> 0] : x \in {"age", "dns", "find"}}
\* aux: the two transaction ids the histories use. The reference only needs them to be different; the alphabet "ids"
\* runs short histories over every ordered pair of ids around the boundaries of 7 / 8 / 11 / 16 bit and UTF-8 / UTF-16
\* encodings (an id rendered as text must stay injective): 0x7f/0x80, 0xff/0x100, 0x7ff/0x800, 0xd7ff..0xe000, 0xfffe/0xffff.
IdClasses == {0, 1, 127, 128, 255, 256, 2047, 2048, 55295, 55296, 56319, 56320, 57343, 57344, 65534, 65535}
McAux == IF Alpha = "ids" THEN {x \in [id1 : IdClasses, id2 : IdClasses] : x.id1 # x.id2}
         ELSE {[id1 |-> 0, id2 |-> 4097]}
McAcc0 == [cache |-> [key \in McKeys |-> "none"], table |-> FALSE, out |-> <<>>]
McStep(e, v) ==
  CASE e.k = "mdns" ->
         IF v.cache[<<e.m, e.i>>] = "fresh" THEN [v EXCEPT !.out = Append(@, "cached")]
         ELSE [v EXCEPT !.cache[<<e.m, e.i>>] = "fresh", !.out = Append(@, "names")]   \* expired entries are dropped and re-read
    [] e.k = "bad" -> [v EXCEPT !.out = Append(@, IF v.cache[<<e.m, e.i>>] = "fresh" THEN "cached" ELSE "error")]
    [] e.k = "age" -> [v EXCEPT !.cache = [key \in McKeys |-> IF @[key] = "fresh" THEN "expired" ELSE @[key]], !.out = Append(@, "-")]
    [] e.k = "dns" -> [v EXCEPT !.out = Append(@, IF v.table THEN "known" ELSE "stored"), !.table = TRUE]
    [] OTHER -> [v EXCEPT !.out = Append(@, IF v.table THEN "found" ELSE "empty")]

(* Stateful family "ping": the process-wide echo waiter table.  "ping" starts Session.Ping / Ping6 and waits until
   the request is on the wire; "reply" feeds the matching echo reply for the youngest pending ping through Parse
   n times back to back; "stale" is an echo reply nobody waits for; "wait" lets every pending ping finish. *)
PingElems == {[k |-> "ping", n |-> v] : v \in {4, 6}} \cup {[k |-> "reply", n |-> n] : n \in {1, 2}}
        \cup {[k |-> "stale", n |-> 0], [k |-> "wait", n |-> 0]}
PingAcc0 == [pending |-> <<>>, out |-> <<>>]
PingStep(e, v) ==
  CASE e.k = "ping" -> [v EXCEPT !.pending = Append(@, e.n)]
    [] e.k = "reply" -> IF v.pending = <<>> THEN v
                        ELSE [v EXCEPT !.pending = SubSeq(@, 1, Len(@) - 1), !.out = Append(@, "answered")]
    [] e.k = "stale" -> v
    [] OTHER -> [v EXCEPT !.pending = <<>>, !.out = @ \o [j \in 1..Len(v.pending) |-> "timeout"]]

-----------------------------------------------------------------------------
(* Dispatch. *)
Elems == CASE Walker = "ndp" -> NdpElems [] Walker = "lldp" -> LldpElems [] Walker = "hbh" -> HbhElems
           [] Walker = "dhcp" -> DhcpElems [] Walker = "nbns" -> NbnsElems [] Walker = "icmp4" -> Icmp4Elems
           [] Walker = "ssdp" -> SsdpElems [] Walker = "name" -> NameElems [] Walker = "dnsmsg" -> MsgElems
           [] Walker = "arp" -> ArpElems [] Walker = "llc" -> LlcElems
           [] Walker = "mcache" -> McElems [] Walker = "ping" -> PingElems
Terminal(e) == CASE Walker = "ndp" -> NdpTerminal(e) [] Walker = "lldp" -> LldpTerminal(e)
                 [] Walker = "hbh" -> HbhTerminal(e) [] Walker = "dhcp" -> DhcpTerminal(e)
                 [] Walker = "name" -> NameTerminal(e) [] Walker = "dnsmsg" -> MsgTerminal(e)
                 [] Walker = "icmp4" -> e.k = "emb" [] OTHER -> FALSE
CanFollow(s, e) == CASE Walker = "icmp4" -> Icmp4Can(s, e) [] Walker = "ssdp" -> SsdpCan(s, e)
                     [] Walker = "name" -> NameCan(s, e) [] Walker = "dnsmsg" -> MsgCan(s, e) [] OTHER -> TRUE
Size(e) == CASE Walker = "ndp" -> NdpSize(e) [] Walker = "lldp" -> LldpSize(e) [] Walker = "hbh" -> HbhSize(e)
             [] Walker = "dhcp" -> DhcpSize(e) [] Walker = "nbns" -> 18 [] OTHER -> 1
AuxSet(s) == CASE Walker = "dhcp" -> DhcpAux [] Walker = "nbns" -> NbnsAux [] Walker = "ssdp" -> SsdpAux
               [] Walker = "name" -> NameAux(s) [] Walker = "dnsmsg" -> MsgAux(s)
               [] Walker = "lldp" -> {[trail |-> t] : t \in {0, 1, 3}}
               [] Walker = "icmp4" -> IF s = <<>> THEN {} ELSE {[x |-> 0]}
               [] Walker \in {"ndp", "arp"} -> {[x |-> 0, wf |-> w] : w \in WriteFail}
               [] Walker = "mcache" -> McAux
               [] OTHER -> {[x |-> 0]}
Acc0(s, a) == CASE Walker = "name" -> Go(NameAcc0(a)) [] Walker = "nbns" -> Go(0)
                [] Walker = "mcache" -> Go(McAcc0) [] Walker = "ping" -> Go(PingAcc0) [] OTHER -> Go(<<>>)
Pos0(s, a) == IF Walker = "name" THEN a.start ELSE 1
Sizes(s) == [j \in 1..Len(s) |-> Size(s[j])]
TotalBytes(s) == SumN(Sizes(s), Len(s))
Measure(s, a, p, ac) ==
  CASE Walker = "name" -> NameMeasure(s, p, ac.val)
    [] Walker \in {"ndp", "lldp", "hbh", "dhcp"} -> TotalBytes(s) - SumN(Sizes(s), Min(p - 1, Len(s))) + 1
    [] Walker = "dnsmsg" -> ClaimedTotal(s, a) + 2 - p
    [] Walker = "nbns" -> (IF a.n > NbnsPresent(s, a) THEN NbnsPresent(s, a) + 1 ELSE a.n) + 2 - p
    [] OTHER -> Len(s) + 2 - p
\* one step of the reference walker: new position and accumulator
RefStep(s, a, p, ac) ==
  CASE Walker = "name" -> NameStep(s, a, p, ac)
    [] Walker = "dnsmsg" -> LET r == MsgStep(s, a, p, ac) IN [pos |-> p + 1, acc |-> r.acc]
    [] Walker = "nbns" -> LET r == NbnsStep(s, a, p, ac) IN [pos |-> p + 1, acc |-> r.acc]
    [] Walker = "ssdp" -> LET r == SsdpStep(s, a, p, ac) IN [pos |-> p + 1, acc |-> r.acc]
    [] Walker = "mcache" -> [pos |-> p + 1, acc |-> IF p > Len(s) THEN Acc(ac.val) ELSE Go(McStep(s[p], ac.val))]
    [] Walker = "ping" -> [pos |-> p + 1, acc |-> IF p > Len(s) THEN Acc(PingStep([k |-> "wait", n |-> 0], ac.val)) ELSE Go(PingStep(s[p], ac.val))]
    [] OTHER ->
       IF p > Len(s) THEN [pos |-> p + 1, acc |->
             CASE Walker = "lldp" -> RejL("noend", ac.val) [] Walker = "dhcp" -> RejL("noend", ac.val)
               [] Walker = "icmp4" -> IF Len(s) = 1 /\ s[1].ty = 3 THEN Rej("short", ac.val) ELSE Acc(ac.val)
               [] OTHER -> Acc(ac.val)]
       ELSE LET r == CASE Walker = "ndp" -> NdpStep(s[p], ac) [] Walker = "lldp" -> LldpStep(s[p], ac)
                       [] Walker = "hbh" -> HbhStep(s[p], ac) [] Walker = "dhcp" -> DhcpStep(s[p], ac)
                       [] Walker = "icmp4" -> Icmp4Step(s, p, ac)
                       [] Walker = "arp" -> ArpStep(s[p], ac) [] Walker = "llc" -> LlcStep(s[p], ac)
            IN [pos |-> p + 1, acc |-> r.acc]
Mech(s, a, final) ==
  CASE Walker = "ndp" -> [opts |-> NdpMech(s, 1)]
    [] Walker = "lldp" -> [tlv |-> LldpMech(s, a)]
    [] Walker = "nbns" -> [nbns |-> NbnsMech(s, a), array |-> NbnsMechArray(s, a)]
    [] Walker = "icmp4" -> [h4 |-> Icmp4Mech(s)]
    [] Walker \in {"mcache", "ping"} -> [state |-> "ok"]
    [] Walker = "ssdp" -> [ssdp |-> SsdpMech(s, a)]
    [] Walker = "name" -> [question |-> NameMech(s, a, final), question_frame |-> "ok"]   \* in the loop's buffer the read past the end stays inside the capacity
    [] Walker = "dnsmsg" -> [dns |-> DnsMech(s, a), dns_frame |-> "ok", mdns |-> MdnsMech(s, a)]
    [] OTHER -> [all |-> "ok"]
\* Value-level deviations of the code (C17) that apply to this input: [kf, g (entry group), what (comparison)].
Open(k) == k \in KF
NameDev(s, a, final) ==
  (IF final.verdict = "accept" /\ NameOff(s, a.start) + 6 > NameTotal(s, a) /\ Open("KF_DnsRootQuestion")
   THEN {[kf |-> "KF_DnsRootQuestion", g |-> g, what |-> "verdict.rejected"] : g \in {"question", "question_frame"}} ELSE {})
  \cup (IF final.cls = "question.cut" /\ NameOff(s, a.start) + 6 <= NameTotal(s, a) /\ Open("KF_DnsQuestionBounds")
        THEN {[kf |-> "KF_DnsQuestionBounds", g |-> "question_frame", what |-> "verdict.accepted"]} ELSE {})
MsgDev(s, a) ==
  LET ref == MsgDnsRef(s, a, 1, <<>>)
      n == Min(Claimed(s, a, "an"), Len(s))
      firstbad == {i \in 1..n : s[i].rd # "ok"}
      upto == IF firstbad = {} THEN n ELSE (CHOOSE i \in firstbad : \A j \in firstbad : i <= j) - 1
  IN (IF ref.verdict = "accept" /\ a.q = "one" /\ (\E i \in 1..upto : s[i].typ = "PTRX") /\ Open("KF_DnsPtrNonIPv4")
      THEN {[kf |-> "KF_DnsPtrNonIPv4", g |-> g, what |-> "verdict.rejected"] : g \in {"dns", "dns_frame"}} ELSE {})
     \cup (IF (\E i \in 1..Len(ref.val) : s[ref.val[i]].typ = "CNAME") /\ Open("KF_DnsCnameOwner")
           THEN {[kf |-> "KF_DnsCnameOwner", g |-> g, what |-> "CNAME"] : g \in {"dns", "dns_frame"}} ELSE {})
NbnsDev(s, a, final) ==
  IF a.ans = "nbstat" /\ final.verdict = "accept" /\ final.val # NbnsMechName(s, a) /\ Open("KF_NbnsFirstName")
  THEN {[kf |-> "KF_NbnsFirstName", g |-> "nbns", what |-> "nbname"]} ELSE {}
\* the deviation behind a predicted panic / hang of an entry group
MechKF(g, o) == CASE g = "opts" -> "KF_NdpZeroLen" [] g = "tlv" -> "KF_LldpShortTLV"
                  [] g = "nbns" /\ o = "hang" -> "KF_NbnsUnconsumed" [] g \in {"nbns", "array"} -> "KF_NbnsArrayBounds"
                  [] g = "h4" -> "KF_Ip4TotalLenLtIhl" [] g = "ssdp" -> "KF_SsdpMaxAge"
                  [] g = "question" -> "KF_DnsQuestionBounds" [] g = "dns" -> "KF_DnsRRBounds"
                  [] g = "mdns" -> "KF_MdnsSkip" [] OTHER -> "KF_unknown"
MechDev(m) == {[kf |-> MechKF(g, m[g]), g |-> g, what |-> m[g]] : g \in {x \in DOMAIN m : m[x] # "ok"}}
Dev(s, a, final) == MechDev(Mech(s, a, final)) \cup
                    (CASE Walker = "name" -> NameDev(s, a, final) [] Walker = "dnsmsg" -> MsgDev(s, a)
                       [] Walker = "nbns" -> NbnsDev(s, a, final) [] OTHER -> {})

Extra(s, a, final) ==
  CASE Walker = "nbns" -> [name |-> IF final.verdict = "accept" THEN final.val ELSE 0, mechname |-> NbnsMechName(s, a)]
    [] Walker = "dnsmsg" -> [dnsref |-> MsgDnsRef(s, a, 1, <<>>),
                             an |-> Claimed(s, a, "an"), ns |-> Claimed(s, a, "ns"), ar |-> Claimed(s, a, "ar")]
    [] Walker = "name" -> [off |-> [i \in 1..(Len(s) + 1) |-> NameOff(s, i)], total |-> NameTotal(s, a)]
    [] OTHER -> [x |-> 0]

-----------------------------------------------------------------------------
Init == phase = "build" /\ seq = <<>> /\ aux = [x |-> 0] /\ pos = 0 /\ rem = 0 /\ acc = Go(<<>>)

Build == /\ phase = "build" /\ Len(seq) < MaxLen
         /\ (IF seq = <<>> THEN TRUE ELSE ~Terminal(Last(seq)))
         /\ \E e \in Elems : CanFollow(seq, e) /\ seq' = Append(seq, e)
         /\ UNCHANGED <<phase, aux, pos, rem, acc>>

Start == /\ phase = "build"
         /\ \E a \in AuxSet(seq) :
              /\ aux' = a /\ pos' = Pos0(seq, a) /\ acc' = Acc0(seq, a)
              /\ rem' = Measure(seq, a, Pos0(seq, a), Acc0(seq, a))
         /\ phase' = "walk" /\ UNCHANGED seq

Step == /\ phase = "walk"
        /\ LET r == RefStep(seq, aux, pos, acc) IN
             /\ pos' = r.pos /\ acc' = r.acc
             /\ phase' = IF r.acc.verdict = "go" THEN "walk" ELSE "done"
             /\ rem' = IF r.acc.verdict = "go" THEN Measure(seq, aux, r.pos, r.acc) ELSE 0
        /\ UNCHANGED <<seq, aux>>

Next == Build \/ Start \/ Step
Spec == Init /\ [][Next]_vars

TypeOK == /\ phase \in {"build", "walk", "done"} /\ Len(seq) <= MaxLen /\ rem \in Nat
          /\ acc.verdict \in {"go", "accept", "reject"}
          /\ phase = "done" <=> acc.verdict # "go"
\* the reference walker's own termination measure: strictly decreasing on every continuing step
Progress == [][(phase = "walk" /\ phase' = "walk") => rem' < rem]_vars
\* a walker that never continues past a fatal element: the measure is positive while walking
MeasurePositive == phase = "walk" => rem > 0

Vector == [w |-> Walker, seq |-> seq, aux |-> aux, verdict |-> acc.verdict, cls |-> acc.cls, strict |-> acc.strict,
           val |-> CASE Walker = "name" -> acc.val.labels [] Walker \in {"mcache", "ping"} -> acc.val.out [] OTHER -> acc.val,
           mech |-> Mech(seq, aux, acc), dev |-> Dev(seq, aux, acc), extra |-> Extra(seq, aux, acc)]
\* name vectors are exported only when every element takes part in the decoding (others only shift offsets)
Relevant == Walker = "name" => acc.val.touched = 1..Len(seq)
Export == (phase = "done" /\ Relevant) => PrintT(ToJson(Vector))
=============================================================================
