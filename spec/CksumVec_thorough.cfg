SPECIFICATION Spec
CONSTANTS
  RawMax = 2
  RawStride = 1
  PatLens = {3, 4, 5, 6, 7, 8, 9, 10, 11, 12, 13, 14, 15, 16, 17, 18, 19, 20, 21, 22, 23, 24, 25, 26, 27, 28, 29, 30, 31, 32, 33, 34, 35, 36, 37, 38, 39, 40, 41, 42, 43, 44, 45, 46, 47, 48, 49, 50, 51, 52, 53, 54, 55, 56, 57, 58, 59, 60, 61, 62, 63, 64, 65, 66, 67, 68, 69, 70, 71, 72, 73, 74, 75, 76, 77, 78, 79, 80, 81, 82, 83, 84, 85, 86, 87, 88, 89, 90, 91, 92, 93, 94, 95, 96, 97, 98, 99, 100, 101, 102, 103, 104, 105, 106, 107, 108, 109, 110, 111, 112, 113, 114, 115, 116, 117, 118, 119, 120, 121, 122, 123, 124, 125, 126, 127, 128, 129, 130, 255, 256, 257, 511, 512, 513, 1023, 1024, 1025, 1499, 1500, 1501, 1521, 1522}
  AllPosUpTo = 64
  WideAcc = FALSE
  LongMode = "thorough"
  Families = {"raw", "pat", "hdr", "echo4", "echo6", "pair6", "fold", "fold32", "crit6", "long"}
INVARIANTS Lemmas Export
CHECK_DEADLOCK FALSE
