----------------------------- MODULE DhcpModes -----------------------------
(* X08 -- handlers/dhcp4_spoofer: operating modes and the traffic aimed at the LAN's other DHCP server
   (dhcp4.go Mode / SetMode / StartHunt / StopHunt / Close / MinuteTicker, client.go attackDHCPServer /
   forceDecline / forceRelease / processClientPacket, the mode tests of discover.go and request.go,
   declinerelease.go).  C11 / C12 / C18 (spec/Dhcp.tla) decide WHICH ADDRESS a reply carries; this module
   abstracts addresses away and decides WHO IS ANSWERED, WHO IS ATTACKED and WITH WHAT, as a function of
   the operating mode, the capture state of the client and the kind of message seen.

   Sources of the statement.
     dhcp4.go:37-42   ModePrimaryServer       "operate as the single DHCP on the LAN"
                      ModeSecondaryServer     "operate as a secondary DHCP on the LAN; will attack the primary"
                      ModeSecondaryServerNice "operate nice; i.e. will attack captured entries only"
     client.go:188    "only interested in offer packets" (messages of another server seen on the client port);
                      "Force dhcp server to release the IP" (forged DECLINE for the address it offered)
     request.go:128-148 a REQUEST selecting another server frees our lease unless an offer is outstanding;
                      it is NAKed when we attack, silently discarded otherwise
     request.go:184-215 INIT-REBOOT for an address we do not hold: NAK, plus a forged DECLINE when we attack
     dhcp4.go:228-233 StartHunt: "Fake a dhcp release so router will force the client to discover"
     declinerelease.go:16-23 form of DECLINE (broadcast, server id MUST, requested ip MUST, ciaddr zero) and
                      RELEASE (unicast, server id MUST, requested ip MUST NOT, ciaddr = address)
   Attack(s, c) below is the documented condition "secondary, or nice and c captured".

   Where the code gives something else than the documentation the model records what the code DOES and the
   site is marked by a Kf* operator (candidate finding); behaviour that no documentation constrains is
   recorded and marked Obs* (observed).

   State is one record s so that every handler entry point is a pure operator  s, arguments -> [s, out].
   Addresses are abstract: a lease knows only whether it holds an address (ip) / an outstanding offer (off);
   the argument rq of a message says whether the address it carries is the one the lease holds ("match") or
   any other ("other"); the conformance driver resolves "match" from the real lease table.  The pool never
   runs dry (home /24, two clients). *)
EXTENDS Naturals, Sequences, FiniteSets, TLC

CONSTANTS Clients,      \* client tokens (each names a MAC and a client identifier)
          Others        \* identities of the other DHCP servers on the LAN: "router" (the default gateway) and
                        \* possibly "srv2" (a DHCP server that is not the gateway)

Modes == {"primary", "secondary", "nice"}
Xids  == {"x1", "x2"}
Us    == "us"
Fake  == "fake"         \* chaddr ff:ee:dd:cc:bb:xx: one of the invented clients of the DISCOVER storm

NoLease  == [st |-> "none", net |-> 0, ip |-> FALSE, off |-> FALSE, xid |-> "nox", exp |-> FALSE]
Fresh(n) == [st |-> "free", net |-> n, ip |-> FALSE, off |-> FALSE, xid |-> "nox", exp |-> FALSE]
LeaseT   == [st : {"none", "free", "disc", "alloc"}, net : 0..2, ip : BOOLEAN, off : BOOLEAN,
             xid : Xids \cup {"nox"}, exp : BOOLEAN]

StateT == [mode : Modes, cap : [Clients -> BOOLEAN], ls : [Clients -> LeaseT], armed : BOOLEAN, closed : BOOLEAN]
Init0(m) == [mode |-> m, cap |-> [c \in Clients |-> FALSE], ls |-> [c \in Clients |-> NoLease],
             armed |-> TRUE, closed |-> FALSE]

Quiet == [reply |-> <<>>, forged |-> {}, storm |-> FALSE]

\* ---------------------------------------------------------------- documented attack condition
Attack(s, c) == s.mode = "secondary" \/ (s.mode = "nice" /\ s.cap[c])
CapNet(s, c) == IF s.cap[c] THEN 2 ELSE 1

\* lease.go findOrCreate: the lease of c if it belongs to the subnet c is in NOW, else a new free lease that
\* replaces it ("client changed subnet")
FindOrCreate(s, c) == IF s.ls[c].st # "none" /\ s.ls[c].net = CapNet(s, c) THEN s.ls[c] ELSE Fresh(CapNet(s, c))
With(s, c, l) == [s EXCEPT !.ls[c] = l]

\* ---------------------------------------------------------------- frames
Reply(k, c, sid, yi, net, xid) == [k |-> k, c |-> c, sid |-> sid, yi |-> yi, net |-> net, xid |-> xid]
Nak(c, sid, xid) == Reply("nak", c, sid, "zero", 0, xid)
\* client.go sendDeclineReleasePacket: always from our NIC to the MAC / IP of the default gateway (to = "router"),
\* whatever server the message names.  rq: "msg" = the address carried by the message that triggered the forgery.
Decline(c, sid, xid) == [k |-> "decline", c |-> c, sid |-> sid, ci |-> "zero", rq |-> "msg", xid |-> xid, to |-> "router"]
Release(c, sid)      == [k |-> "release", c |-> c, sid |-> sid, ci |-> "ip", rq |-> "none", xid |-> "rand", to |-> "router"]

\* ---------------------------------------------------------------- messages of clients (server port)
\* discover.go handleDiscover.  rq: "none" | "addr" (option 50 present and valid)
DiscoverOp(s, c, xid, rq) ==
  LET l0 == FindOrCreate(s, c)
      l1 == [l0 EXCEPT !.st = "disc", !.off = TRUE, !.xid = xid]      \* an address is always found (pool never dry)
      \* "Always attack: new mode 4 April 21": the storm no longer looks at the mode (KfStormIgnoresMode)
      storm == s.armed
      forge == IF (s.mode = "secondary" \/ (s.mode = "nice" /\ l0.net = 2)) /\ rq = "addr"
               THEN {Decline(c, "router", xid)} ELSE {}                \* "assuming the other server offered the requested IP - guess"
  IN [s |-> [With(s, c, l1) EXCEPT !.armed = IF storm THEN FALSE ELSE @],
      out |-> [reply |-> <<Reply("offer", c, Us, "offer", l1.net, xid)>>, forged |-> forge, storm |-> storm]]

Ack(s, c, l0, xid) ==
  LET l1 == [l0 EXCEPT !.st = "alloc", !.ip = TRUE, !.off = IF l0.st = "disc" THEN FALSE ELSE @, !.exp = TRUE]
  IN [s |-> With(s, c, l1), out |-> [Quiet EXCEPT !.reply = <<Reply("ack", c, Us, "ip", l1.net, xid)>>]]

\* request.go, operation selecting, server identifier = ours.  rq: "match" = option 50 is the outstanding offer
\* (lease in discover state) / the address held (allocated)
SelectUsOp(s, c, xid, rq) ==
  LET l0 == FindOrCreate(s, c)
      bad == \/ l0.st = "free"
             \/ l0.st = "disc" /\ (l0.xid # xid \/ rq # "match")
             \/ l0.st = "alloc" /\ rq # "match"
  IN IF bad THEN [s |-> With(s, c, l0), out |-> [Quiet EXCEPT !.reply = <<Nak(c, Us, xid)>>]]
     ELSE Ack(s, c, l0, xid)

\* request.go, operation selecting, server identifier = another server
SelectOtherOp(s, c, srv, xid) ==
  LET l0 == FindOrCreate(s, c)
      l1 == IF l0.st # "disc" THEN [l0 EXCEPT !.st = "free", !.ip = FALSE] ELSE l0
  IN [s |-> With(s, c, l1),
      out |-> [Quiet EXCEPT !.reply = IF Attack(s, c) THEN <<Nak(c, Us, xid)>> ELSE <<>>]]

\* request.go, operation renewing (no server id, no option 50, ciaddr = source address)
RenewOp(s, c, xid, rq) ==
  LET l0 == FindOrCreate(s, c)
  IN IF l0.st # "alloc" \/ rq # "match" THEN [s |-> With(s, c, l0), out |-> [Quiet EXCEPT !.reply = <<Nak(c, Us, xid)>>]]
     ELSE Ack(s, c, l0, xid)

\* request.go, operation rebooting (no server id, option 50 present)
RebootOp(s, c, xid, rq) ==
  LET l0 == FindOrCreate(s, c)
      forge == IF Attack(s, c) THEN {Decline(c, "router", xid)} ELSE {}
  IN IF l0.st = "free" /\ Attack(s, c)
       \* ObsNakAsRouter: this NAK names the default gateway as its server (request.go:196)
       THEN [s |-> With(s, c, l0), out |-> [reply |-> <<Nak(c, "router", xid)>>, forged |-> forge, storm |-> FALSE]]
     ELSE IF l0.st # "alloc" \/ rq # "match"
       THEN [s |-> With(s, c, l0), out |-> [reply |-> <<Nak(c, Us, xid)>>, forged |-> forge, storm |-> FALSE]]
     ELSE Ack(s, c, l0, xid)

\* declinerelease.go handleDecline.  sid: Us or another server; rq "match": option 50 is the address held
DeclineOp(s, c, sid, rq) ==
  LET l0 == FindOrCreate(s, c)
      l1 == IF sid = Us /\ rq = "match" /\ l0.ip THEN [l0 EXCEPT !.st = "free", !.ip = FALSE, !.off = FALSE] ELSE l0
  IN [s |-> With(s, c, l1), out |-> Quiet]

\* declinerelease.go handleRelease: logs and returns (ObsReleaseKeepsLease; spec/Dhcp.tla records the same)
ReleaseOp(s, c, sid, rq) == [s |-> With(s, c, FindOrCreate(s, c)), out |-> Quiet]

\* ---------------------------------------------------------------- messages of servers (client port): client.go processClientPacket
\* k: offer | ack | nak; from: Us (our own reply seen again) or another server; c: a client or Fake
ServerMsgOp(s, k, from, c, xid) ==
  [s |-> s,
   out |-> [Quiet EXCEPT !.forged = IF k = "offer" /\ from # Us /\ c # Fake /\ Attack(s, c)
                                      THEN {Decline(c, from, xid)} ELSE {}]]

\* ---------------------------------------------------------------- API
SetModeOp(s, m)   == [s |-> [s EXCEPT !.mode = m], out |-> Quiet]
CaptureOp(s, c)   == [s |-> [s EXCEPT !.cap[c] = TRUE], out |-> Quiet]     \* Session.Capture
UncaptureOp(s, c) == [s |-> [s EXCEPT !.cap[c] = FALSE], out |-> Quiet]    \* Session.Release
\* MinuteTicker(now): far = a clock beyond every expiry; near = the present (a lease that never had an expiry is "expired")
TickOp(s, far) ==
  [s |-> [s EXCEPT !.ls = [c \in Clients |-> IF @[c].st \in {"disc", "alloc"} /\ (far \/ ~@[c].exp)
                                               THEN [@[c] EXCEPT !.st = "free"] ELSE @[c]]],
   out |-> Quiet]
RearmOp(s) == [s |-> [s EXCEPT !.armed = TRUE], out |-> Quiet]             \* 20 s pass (hook VerifResetStorm)
\* StartHunt(addr): tgt "match" = addr.IP is the address the lease of c holds, "other" = an address no lease holds.
\* findByIP sees leases that are not free; the RELEASE is forged for a lease of the home subnet only.
StartHuntOp(s, c, tgt) ==
  LET l == s.ls[c]
      found == tgt = "match" /\ l.ip /\ l.st \in {"disc", "alloc"}
  IN [s |-> s,
      out |-> [Quiet EXCEPT !.forged = IF found /\ l.net # 2 /\ s.mode \in {"secondary", "nice"}
                                        THEN {Release(c, "router")} ELSE {}]]
StopHuntOp(s, c) == [s |-> s, out |-> Quiet]
CloseOp(s)       == [s |-> [s EXCEPT !.closed = TRUE], out |-> Quiet]      \* ObsClosedStillServes: nothing else changes

\* ---------------------------------------------------------------- dispatcher over action records
Do(s, a) ==
  CASE a.a = "discover"  -> DiscoverOp(s, a.c, a.xid, a.rq)
    [] a.a = "selus"     -> SelectUsOp(s, a.c, a.xid, a.rq)
    [] a.a = "selother"  -> SelectOtherOp(s, a.c, a.from, a.xid)
    [] a.a = "renew"     -> RenewOp(s, a.c, a.xid, a.rq)
    [] a.a = "reboot"    -> RebootOp(s, a.c, a.xid, a.rq)
    [] a.a = "decline"   -> DeclineOp(s, a.c, a.from, a.rq)
    [] a.a = "release"   -> ReleaseOp(s, a.c, a.from, a.rq)
    [] a.a = "srv"       -> ServerMsgOp(s, a.k, a.from, a.c, a.xid)
    [] a.a = "setmode"   -> SetModeOp(s, a.m)
    [] a.a = "capture"   -> CaptureOp(s, a.c)
    [] a.a = "uncapture" -> UncaptureOp(s, a.c)
    [] a.a = "tick"      -> TickOp(s, a.far)
    [] a.a = "rearm"     -> RearmOp(s)
    [] a.a = "starthunt" -> StartHuntOp(s, a.c, a.rq)
    [] a.a = "stophunt"  -> StopHuntOp(s, a.c)
    [] a.a = "close"     -> CloseOp(s)

ClientMsgs == {"discover", "selus", "selother", "renew", "reboot", "decline", "release"}

\* ---------------------------------------------------------------- invariants of the state
TypeOK(s) == s \in StateT
LeaseShape(s) == \A c \in Clients : LET l == s.ls[c] IN
  /\ (l.st = "none") = (l.net = 0)
  /\ l.st = "none" => l = NoLease
  /\ l.st = "disc" => l.off /\ l.xid # "nox"
  /\ l.st = "alloc" => l.ip /\ l.exp /\ ~l.off
  /\ l.ip => l.exp                        \* an address is only ever committed by an ACK

\* ---------------------------------------------------------------- property level: predicates on one step  s --a--> r = Do(s, a)
\* (every one is a transcription of a documented sentence; see the header)
Forged(r) == r.out.forged

\* Mode documentation: the single server of a LAN has nobody to attack
P_PrimaryNeverForges(s, a, r) == s.mode = "primary" => Forged(r) = {}
P_PrimaryNeverStorms(s, a, r) == s.mode = "primary" => ~r.out.storm
\* "will attack captured entries only" (StartHunt names its target itself)
P_NiceForgesCapturedOnly(s, a, r) == s.mode = "nice" => \A f \in Forged(r) : s.cap[f.c] \/ (a.a = "starthunt" /\ f.c = a.c)
P_NiceStormsCapturedOnly(s, a, r) == s.mode = "nice" /\ r.out.storm => s.cap[a.c]
\* "will attack the primary": a secondary server that sees another server's OFFER for a client declines it in the
\* client's name, naming that server and that transaction; nice: for captured clients
P_OfferOfOtherDeclined(s, a, r) ==
  a.a = "srv" /\ a.k = "offer" /\ a.from # Us /\ a.c # Fake =>
     (Attack(s, a.c) <=> \E f \in Forged(r) : f.k = "decline" /\ f.c = a.c /\ f.sid = a.from /\ f.xid = a.xid /\ f.rq = "msg")
\* "only interested in offer packets"; our own replies and the answers to our own storm are not acted upon
P_ServerTrafficReadOnly(s, a, r) == a.a = "srv" => r.s = s /\ r.out.reply = <<>> /\ ~r.out.storm
P_OnlyOffersTrigger(s, a, r) == a.a = "srv" /\ (a.k # "offer" \/ a.from = Us \/ a.c = Fake) => r.out = Quiet
\* form of the forged messages (declinerelease.go table = RFC 2131 table 5): a client-to-server message of a real
\* client, naming another server
P_ForgedForm(s, a, r) == \A f \in Forged(r) :
  /\ f.c \in Clients /\ f.sid \in Others
  /\ f.k = "decline" => f.ci = "zero" /\ f.rq = "msg"
  /\ f.k = "release" => f.ci = "ip" /\ f.rq = "none"
\* a forged message is put on the wire so that the server it names receives it (DECLINE is a broadcast in the
\* table of declinerelease.go; RELEASE a unicast to the server)
P_ForgedReachesServer(s, a, r) == \A f \in Forged(r) : f.to \in {"bcast", f.sid}
\* forging needs a cause: a client message, another server's OFFER, or StartHunt -- never the API or the clock
P_ForgeryHasCause(s, a, r) == Forged(r) # {} \/ r.out.storm => a.a \in ClientMsgs \cup {"srv", "starthunt"}
\* every client is answered in every mode: a DISCOVER gets an OFFER from the subnet of the client's capture state
P_DiscoverAnswered(s, a, r) == a.a = "discover" =>
  Len(r.out.reply) = 1 /\ r.out.reply[1].k = "offer" /\ r.out.reply[1].c = a.c /\ r.out.reply[1].net = CapNet(s, a.c)
\* a REQUEST that selects another server: NAK when we attack the client's handshake, silence otherwise; never an ACK
P_SelectOther(s, a, r) == a.a = "selother" =>
  /\ r.out.reply = IF Attack(s, a.c) THEN <<Nak(a.c, Us, a.xid)>> ELSE <<>>
  /\ r.s.ls[a.c].st \in {"free", "disc"}
\* replies go to the client that asked, one at most, and only client messages are answered
P_Replies(s, a, r) == /\ Len(r.out.reply) <= 1
                      /\ r.out.reply # <<>> => a.a \in ClientMsgs /\ r.out.reply[1].c = a.c /\ r.out.reply[1].xid = a.xid
\* the storm is rate limited: it needs the limiter armed and disarms it
P_StormLimited(s, a, r) == r.out.storm => a.a = "discover" /\ s.armed /\ ~r.s.armed
\* the mode and the capture state change only through SetMode / Capture / Release
P_ModeStable(s, a, r) == /\ a.a # "setmode" => r.s.mode = s.mode
                         /\ a.a \notin {"capture", "uncapture"} => r.s.cap = s.cap

\* ---------------------------------------------------------------- sites where the code is not what the documentation says
\* (the step predicates above hold EXCEPT at these sites; the model records the code)
KfStormIgnoresMode(s, a, r)    == r.out.storm /\ (s.mode = "primary" \/ (s.mode = "nice" /\ ~s.cap[a.c]))
KfForgedMissesServer(s, a, r)  == \E f \in Forged(r) : f.to \notin {"bcast", f.sid}
ObsNakAsRouter(s, a, r)        == r.out.reply # <<>> /\ r.out.reply[1].sid = "router"
ObsReleaseKeepsLease(s, a, r)  == a.a = "release" /\ a.from = Us /\ a.rq = "match" /\ r.s.ls[a.c].st = "alloc"
ObsClosedStillServes(s, a, r)  == s.closed /\ r.out # Quiet
ObsStormInEveryMode(s, a, r)   == r.out.storm

Sites(s, a, r) ==
  (IF KfStormIgnoresMode(s, a, r) THEN {"KF_StormIgnoresMode"} ELSE {}) \cup
  (IF KfForgedMissesServer(s, a, r) THEN {"KF_ForgedMissesServer"} ELSE {}) \cup
  (IF ObsNakAsRouter(s, a, r) THEN {"Obs_NakAsRouter"} ELSE {}) \cup
  (IF ObsReleaseKeepsLease(s, a, r) THEN {"Obs_ReleaseKeepsLease"} ELSE {}) \cup
  (IF ObsClosedStillServes(s, a, r) THEN {"Obs_ClosedStillServes"} ELSE {})

\* The conjunction decided by TLC on every transition of the bounded model: the documented predicates hold
\* everywhere except at the Kf sites, and at a Kf site exactly the predicate of that site fails.
StepProps(s, a, r) ==
  /\ P_PrimaryNeverForges(s, a, r)
  /\ P_PrimaryNeverStorms(s, a, r) \/ KfStormIgnoresMode(s, a, r)
  /\ P_NiceForgesCapturedOnly(s, a, r)
  /\ P_NiceStormsCapturedOnly(s, a, r) \/ KfStormIgnoresMode(s, a, r)
  /\ P_OfferOfOtherDeclined(s, a, r)
  /\ P_ServerTrafficReadOnly(s, a, r)
  /\ P_OnlyOffersTrigger(s, a, r)
  /\ P_ForgedForm(s, a, r)
  /\ P_ForgedReachesServer(s, a, r) \/ KfForgedMissesServer(s, a, r)
  /\ P_ForgeryHasCause(s, a, r)
  /\ P_DiscoverAnswered(s, a, r)
  /\ P_SelectOther(s, a, r)
  /\ P_Replies(s, a, r)
  /\ P_StormLimited(s, a, r)
  /\ P_ModeStable(s, a, r)
\* the sites are not vacuous: each Kf site contradicts its predicate
SitesAreDeviations(s, a, r) ==
  /\ KfStormIgnoresMode(s, a, r) => ~(P_PrimaryNeverStorms(s, a, r) /\ P_NiceStormsCapturedOnly(s, a, r))
  /\ KfForgedMissesServer(s, a, r) => ~P_ForgedReachesServer(s, a, r)
=============================================================================
