------------------------------ MODULE LogLineMC ------------------------------
(* C20 -- the fastlog line buffer as a state machine (part 2 of LogLine.tla), bounded for TLC.

   A behaviour is  Start(msg) ; Pad(delta) ; appender ; appender ...   Pad is a String field whose value length is
   chosen so that the cursor lands `delta` bytes before the end of the buffer: every appender is exercised at every
   distance in Deltas from the buffer end.  The guarded appenders (ByteArray, StringArray, IPArray) are enabled in
   every state with every argument size class; the others only when their complete rendering fits (cursor +
   reference length <= Cap - 1, one byte is left for the newline of Write()).

   Mechanism level : s = (cursor, panicked, named deviation) computed by the op-level transcriptions of LogLine.tla.
   Property level  : ref = 7 + sum of reference lengths, pure = every field so far fitted completely.
     C20_InBuffer  -- a guarded appender never panics and never moves the cursor beyond Cap ...
     C20_Concat    -- ... and while every field fitted, the cursor equals the reference length (the line is the
                      concatenation of its fields).
   Both are checked modulo the *named* deviations of the code (kf # "none"); with the repaired constants
   (Guard = 41, Ret4 = FALSE, BAFix = TRUE) they hold strictly (C20_Strict), which validates the proposed fixes at
   model level.  Export prints every complete behaviour for replay on real fastlog.Line values. *)
EXTENDS LogLine, Json

CONSTANTS MsgLens,      \* message lengths for Start
          Deltas,       \* distances from the buffer end reached by Pad (0 = no padding step)
          NameLens,     \* field name lengths
          BAVals,       \* ByteArray value lengths
          SAShapes,     \* StringArray shapes: set of <<count, element length>>
          IAShapes,     \* IPArray shapes: set of <<count, element class>>
          Unguarded,    \* BOOLEAN: include the unguarded appenders
          MaxDepth,     \* Start + Pad + (MaxDepth - 2) appenders
          SecondGuardedOnly,  \* BOOLEAN: from the second appender on only guarded appenders
          Guard,        \* IPArray loop guard: 30 as written, 41 repaired
          Ret4,         \* IPArray returns after the first IPv4 element: TRUE as written
          BAFix,        \* ByteArray marker-room guard present: FALSE as written
          ExportEvery   \* export every complete behaviour (1) or a random 1/ExportEvery sample; 0 = none

VARIABLES s, hist, depth, pure, ref

vars == <<s, hist, depth, pure, ref>>

\* element classes of IPArray: kind, text length, whether the text ends in "::" (no transient trailing ':')
EK == [nil   |-> [kind |-> "nil", t |-> 0,  tail |-> FALSE],
       bad   |-> [kind |-> "bad", t |-> 3,  tail |-> FALSE],
       v4s   |-> [kind |-> "v4",  t |-> 7,  tail |-> FALSE],
       v4l   |-> [kind |-> "v4",  t |-> 15, tail |-> FALSE],
       v6any |-> [kind |-> "v6",  t |-> 2,  tail |-> TRUE],       \* ::
       v6one |-> [kind |-> "v6",  t |-> 3,  tail |-> FALSE],      \* ::1
       v6t27 |-> [kind |-> "v6",  t |-> 27, tail |-> FALSE],
       v6t28 |-> [kind |-> "v6",  t |-> 28, tail |-> FALSE],
       v6t29 |-> [kind |-> "v6",  t |-> 29, tail |-> FALSE],
       v6t38 |-> [kind |-> "v6",  t |-> 38, tail |-> FALSE],
       v6t39 |-> [kind |-> "v6",  t |-> 39, tail |-> FALSE],
       v6e26 |-> [kind |-> "v6",  t |-> 26, tail |-> TRUE]]       \* 1111:2222:3333:4444:5555::

Rep(c, x) == [i \in 1..c |-> x]

\* standard shape sets (a .cfg file cannot contain tuples: SAShapes <- SAShapesStd)
SAShapesStd == {<<0, 0>>, <<1, 0>>, <<1, 3>>, <<2, 3>>, <<3, 36>>, <<1, 2100>>, <<150, 18>>, <<700, 0>>}
IAShapesStd == {<<0, "nil">>, <<1, "nil">>, <<3, "nil">>, <<1, "v4s">>, <<2, "v4l">>, <<1, "v6any">>, <<2, "v6one">>,
                <<1, "v6t27">>, <<1, "v6t28">>, <<1, "v6t29">>, <<1, "v6t38">>, <<1, "v6t39">>, <<2, "v6t39">>,
                <<3, "v6e26">>, <<60, "v6t39">>, <<80, "v6t28">>, <<1, "bad">>, <<1200, "v6any">>}

\* ---------------------------------------------------------------- one step
\* rec: the exported description; t: resulting line state; r: reference length; guarded: BOOLEAN
\* A field "fits" when cursor + reference length <= Cap - 1.  IPArray decides before each element whether one more
\* address of maximal length (39 characters + ", ") still fits, so for it the reading of "fits" used here leaves
\* that much room (IASlack): stopping early within this margin is truncation by design, not a deviation.
IASlack == 41
\* kf names the deviation of the *last* step: every step starts from the cursor alone
S == [s EXCEPT !.kf = "none"]
Step(rec, t, r, guarded) ==
  /\ depth < MaxDepth
  /\ ~s.p
  /\ guarded \/ s.i + r <= Cap - 1
  /\ s' = t
  /\ LET fit == s.i + r + (IF rec.a \in {"IPArray", "IPArrayMixed"} THEN IASlack ELSE 0) <= Cap - 1
     IN  /\ pure' = (pure /\ fit /\ t.kf = "none")
         /\ hist' = Append(hist, rec @@ [i |-> t.i, p |-> t.p, kf |-> t.kf, fit |-> fit, r |-> r])
  /\ ref' = ref + r
  /\ depth' = IF t.p THEN MaxDepth ELSE depth + 1

Start ==
  /\ depth = 0
  /\ \E m \in MsgLens :
       /\ s' = MsgM(m)
       /\ ref' = 7 + (IF m = 0 THEN 0 ELSE m + 3)
       /\ hist' = <<[a |-> "Msg", m |-> m, i |-> MsgM(m).i, p |-> FALSE, kf |-> "none", fit |-> TRUE,
                     r |-> 7 + (IF m = 0 THEN 0 ELSE m + 3)]>>
       /\ pure' = TRUE /\ depth' = 1

\* the padding field: String("p", value of length v) ends exactly delta bytes before the end of the buffer
Pad ==
  /\ depth = 1
  /\ \E dl \in Deltas :
       IF dl = 0 THEN /\ depth' = 2 /\ UNCHANGED <<s, hist, pure, ref>>
       ELSE LET v == Cap - dl - s.i - 5
            IN  /\ v >= 0
                /\ Step([a |-> "String", n |-> 1, v |-> v], StringM(S, 1, v), RefString(1, v), FALSE)

AllowUnguarded == Unguarded /\ (depth = 2 \/ ~SecondGuardedOnly)

Appender ==
  /\ depth >= 2
  /\ \/ \E n \in NameLens, m \in BAVals :
          Step([a |-> "ByteArray", n |-> n, m |-> m], ByteArrayM(S, n, m, BAFix), RefByteArray(n, m), TRUE)
     \/ \E n \in NameLens, sh \in SAShapes :
          LET es == Rep(sh[1], sh[2])
          IN  Step([a |-> "StringArray", n |-> n, c |-> sh[1], v |-> sh[2]], StringArrayM(S, n, es),
                   RefStringArray(n, es), TRUE)
     \/ \E n \in NameLens, sh \in IAShapes :
          LET es == Rep(sh[1], EK[sh[2]])
          IN  Step([a |-> "IPArray", n |-> n, c |-> sh[1], ek |-> sh[2]], IPArrayM(S, n, es, Guard, Ret4),
                   RefIPArray(n, es), TRUE)
     \/ \* a long element in the middle of a string array ends the loop: the rest is dropped
        \E n \in NameLens :
          LET es == <<3, 2100, 3>>
          IN  Step([a |-> "StringArrayMixed", n |-> n], StringArrayM(S, n, es), RefStringArray(n, es), TRUE)
     \/ \E n \in NameLens, mix \in {<<"v6t39", "v4l">>, <<"nil", "v6one">>, <<"v4s", "v6t39">>, <<"bad", "v6t39", "v6any">>} :
          LET es == [k \in 1..Len(mix) |-> EK[mix[k]]]
          IN  Step([a |-> "IPArrayMixed", n |-> n, eks |-> mix], IPArrayM(S, n, es, Guard, Ret4), RefIPArray(n, es), TRUE)
     \/ /\ AllowUnguarded
        /\ \E n \in NameLens :
             \/ \E v \in {0, 1, 5, 40} : Step([a |-> "String", n |-> n, v |-> v], StringM(S, n, v), RefString(n, v), FALSE)
             \/ \E k \in {1, 3} : Step([a |-> "Uint8", n |-> n, k |-> k], UintM(S, n, k), RefNum(n, k), FALSE)
             \/ \E k \in {1, 5} : Step([a |-> "Uint16", n |-> n, k |-> k], UintM(S, n, k), RefNum(n, k), FALSE)
             \/ \E k \in {1, 10} : Step([a |-> "Uint32", n |-> n, k |-> k], UintM(S, n, k), RefNum(n, k), FALSE)
             \/ \E k \in {1, 11} : Step([a |-> "Int", n |-> n, k |-> k], IntM(S, n, k), RefNum(n, k), FALSE)
             \/ Step([a |-> "Uint8Hex", n |-> n], HexM(S, n, 2), RefHex(n, 2), FALSE)
             \/ Step([a |-> "Uint16Hex", n |-> n], HexM(S, n, 4), RefHex(n, 4), FALSE)
             \/ \E t \in BOOLEAN : Step([a |-> "Bool", n |-> n, t |-> t], BoolM(S, n, t), RefBool(n, t), FALSE)
             \/ \E ok \in BOOLEAN : Step([a |-> "MAC", n |-> n, ok |-> ok], MACM(S, n, ok), RefMAC(n, ok), FALSE)
             \/ \E ek \in {"v4s", "v4l", "v6any", "v6one", "v6t39", "v6e26", "nil"} :
                  LET e == EK[ek]
                      kind == IF e.kind = "nil" THEN "nil" ELSE e.kind
                      t == IF e.kind = "nil" THEN 3 ELSE e.t
                  IN  Step([a |-> "IPSlice", n |-> n, ek |-> ek], IPSliceM(S, n, kind, t, e.tail), RefIP(n, t), FALSE)
             \/ \E ek \in {"v4s", "v4l", "v6any", "v6t39", "nil"} :
                  LET t == IF ek = "nil" THEN 3 ELSE EK[ek].t
                  IN  Step([a |-> "IP", n |-> n, ek |-> ek], IPM(S, n, t), RefIP(n, t), FALSE)
             \/ Step([a |-> "Label", n |-> n], LabelM(S, n), RefLabel(n), FALSE)
             \/ \E v \in {0, 9} : Step([a |-> "Bytes", n |-> n, v |-> v], BytesM(S, n, v), RefBytes(n, v), FALSE)
        \/ Step([a |-> "LF"], LFM(S), 1, FALSE)

Init == s = L0 /\ hist = <<>> /\ depth = 0 /\ pure = TRUE /\ ref = 0
Next == Start \/ Pad \/ Appender
Spec == Init /\ [][Next]_vars

\* ---------------------------------------------------------------- invariants
TypeOK == s.i \in 0..(Cap + 64) /\ s.p \in BOOLEAN /\ depth \in 0..MaxDepth

KnownKF == {"KF_ByteArrayNoRoomForMarker", "KF_IPArrayGuardTooSmall", "KF_IPArrayReturnsAfterIP4"}

\* property level, modulo the named deviations of the code as written (a step with a named deviation ends `pure`)
C20_InBuffer == /\ s.p => s.kf \in {"KF_ByteArrayNoRoomForMarker", "KF_IPArrayGuardTooSmall"}
                /\ s.i <= Cap
C20_Concat   == pure => (~s.p /\ s.i = ref)
\* property level, strict: holds for the repaired constants
C20_Strict   == ~s.p /\ s.i <= Cap /\ s.kf = "none" /\ (pure => s.i = ref)
\* the deviations are reachable only through the conditions they are named after
KFShape ==
  /\ s.kf = "KF_ByteArrayNoRoomForMarker" => (~BAFix /\ s.p)
  /\ s.kf = "KF_IPArrayGuardTooSmall" => (Guard < 41 /\ s.p)
  /\ s.kf = "KF_IPArrayReturnsAfterIP4" => Ret4

Export == (depth = MaxDepth /\ ExportEvery > 0 /\ (ExportEvery = 1 \/ RandomElement(1..ExportEvery) = 1))
            => PrintT(ToJson([h |-> hist, pure |-> pure, ref |-> ref]))
=============================================================================
