------------------------------ MODULE HostsMC ------------------------------
(* Bounded model of Hosts.tla: depth bound, action history for behaviour export,
   VIEW hiding the history, symmetry over client MACs / LAN addresses. *)
EXTENDS Hosts, Json

CONSTANTS MaxDepth, Steps, ExportEvery
VARIABLES depth, hist
mcvars == <<hosts, macs, frame, notes, now, ref, refNames, refLast, expect, depth, hist>>

Step(rec) == depth' = depth + 1 /\ hist' = Append(hist, rec)

MCInit == Init /\ depth = 0 /\ hist = <<>>

\* ---------------- free mode ----------------
NextFree == depth < MaxDepth /\
  \/ \E s \in MACS \ {Own}, ip \in IPS :
        Parse(s, s, ip) /\ Step([a |-> "ip", src |-> s, key |-> s, ip |-> ip])
  \/ \E s \in MACS \ {Own}, k \in MACS, ip \in IP4LAN :
        k # s /\ Parse(s, k, ip) /\ Step([a |-> "arp", src |-> s, key |-> k, ip |-> ip])
  \/ \E mc \in Clients : ParseDHCP(mc) /\ Step([a |-> "dhcpframe", mac |-> mc])
  \/ Notify /\ Step([a |-> "notify"])
  \/ \E mc \in Clients, ip \in LanIPs \cup ExtIPs, nm \in NameVals :
        DHCPv4Update(mc, ip, nm) /\ Step([a |-> "dhcpupd", mac |-> mc, ip |-> ip, name |-> nm])
  \/ \E mc \in Clients, ip \in LanIPs :
        SetOffer(mc, ip, NoName) /\ Step([a |-> "offer", mac |-> mc, ip |-> ip, name |-> NoName])
  \/ \E mc \in Clients \cup {Router} : Capture(mc) /\ Step([a |-> "capture", mac |-> mc])
  \/ \E mc \in Clients : Release(mc) /\ Step([a |-> "release", mac |-> mc])
  \/ \E ip \in IPS, s \in Slots, v \in Names :
        NameUpdate(ip, s, v) /\ Step([a |-> "name", ip |-> ip, slot |-> s, name |-> v])
  \/ \E d \in Steps : Advance(d) /\ Step([a |-> "adv", d |-> d])
  \/ Purge /\ Step([a |-> "purge"])

\* ---------------- notify mode ----------------
NextNotify == depth < MaxDepth /\
  \/ \E s \in MACS \ {Own}, ip \in IPS :
        \/ FrameStep(s, s, ip, Dhcp, NoName)
             /\ Step([a |-> "fip", src |-> s, key |-> s, ip |-> ip, slot |-> Dhcp, name |-> NoName])
        \/ \E sl \in Slots \ {Dhcp}, v \in Names :
             FrameStep(s, s, ip, sl, v)
             /\ Step([a |-> "fip", src |-> s, key |-> s, ip |-> ip, slot |-> sl, name |-> v])
  \/ \E s \in MACS \ {Own}, k \in MACS, ip \in IP4LAN :
        k # s /\ FrameStep(s, k, ip, Dhcp, NoName)
              /\ Step([a |-> "farp", src |-> s, key |-> k, ip |-> ip, slot |-> Dhcp, name |-> NoName])
  \/ \E mc \in Clients, ip \in LanIPs \cup ExtIPs, nm \in NameVals :
        DhcpAckStep(mc, ip, nm) /\ Step([a |-> "dhcpack", mac |-> mc, ip |-> ip, name |-> nm])
  \/ \E mc \in Clients : Capture(mc) /\ Step([a |-> "capture", mac |-> mc])
  \/ \E mc \in Clients, ip \in LanIPs, nm \in NameVals :      \* the DHCP server recording an offer (DISCOVER)
        SetOffer(mc, ip, nm) /\ Step([a |-> "offer", mac |-> mc, ip |-> ip, name |-> nm])
  \/ \E d \in Steps : Advance(d) /\ Step([a |-> "adv", d |-> d])
  \/ Purge /\ Step([a |-> "purge"])

SpecFree   == MCInit /\ [][NextFree]_mcvars
SpecNotify == MCInit /\ [][NextNotify]_mcvars

TypeOK == depth \in 0..MaxDepth

\* behaviour export: evaluated once per distinct (VIEW) state; always TRUE
Export == (depth = MaxDepth /\ (ExportEvery = 1 \/ RandomElement(1..ExportEvery) = 1)) => PrintT(ToJson(hist))

View == <<hosts, macs, frame, now, ref, refNames, refLast, depth>>
Sym  == Permutations(Clients) \cup Permutations(LanIPs)
=============================================================================
