---------------------------- MODULE LifecycleMC ----------------------------
(* Bounded model of Lifecycle.tla: every call sequence over the API alphabet up to MaxDepth, for one connection kind.
   VIEW ViewLast: state plus last call, so that every (call, successor state) pair is exported once with the outcome the
   real session must show.  A purge pass that meets the closed channel ends the behaviour (the process is gone, or the
   pass was interrupted half way through a map iteration). *)
EXTENDS Lifecycle, Json

CONSTANTS MaxDepth, ExportEvery,
          Gated        \* BOOLEAN: the two-halves purge pass (PurgeStart / PurgeEnd) is part of the alphabet
VARIABLES depth, hist, last, dead
mcvars == <<phase, st, dirty, capd, ment, ch, rdp, pp, out, depth, hist, last, dead>>

Step(rec, sites) == /\ depth' = depth + 1
                    /\ hist' = Append(hist, rec @@ [exp |-> out', kf |-> sites])
                    /\ last' = rec
                    /\ dead' = (out'.res = "crash" \/ (rec.a \in {"purge", "purgeend"} /\ out'.res = "panic"))
MCInit == Init /\ depth = 0 /\ hist = <<>> /\ last = [a |-> "new", x |-> ""] /\ dead = FALSE
MCNext == depth < MaxDepth /\ ~dead /\
  \/ Parse /\ Step([a |-> "parse", x |-> H1], <<>>)
  \/ ParseNotify /\ Step([a |-> "pnotify", x |-> H1], ObsNotify)
  \/ Drain /\ Step([a |-> "drain", x |-> ""], <<>>)
  \/ \E x \in Hosts : FindIP(x) /\ Step([a |-> "findip", x |-> x], <<>>)
  \/ IsCaptured /\ Step([a |-> "iscaptured", x |-> H1], <<>>)
  \/ \E x \in Hosts : Capture(x) /\ Step([a |-> "capture", x |-> x], <<>>)
  \/ Ping /\ Step([a |-> "ping", x |-> H1], ObsPing)
  \/ Purge /\ Step([a |-> "purge", x |-> ""], KfPurge)
  \/ Gated /\ PurgeStart /\ Step([a |-> "purgestart", x |-> ""], <<>>)
  \/ Gated /\ PurgeEnd /\ Step([a |-> "purgeend", x |-> ""], KfPurgeEnd)
  \/ ReadBlock /\ Step([a |-> "readblock", x |-> ""], <<>>)
  \/ Close /\ Step([a |-> "close", x |-> ""], ObsClose)
MCSpec == MCInit /\ [][MCNext]_mcvars

ViewLast == <<phase, st, dirty, capd, ment, ch, rdp, pp, dead, last>>
DepthOK == depth \in 0..MaxDepth
Export == (ExportEvery > 0 /\ depth > 0 /\ (ExportEvery = 1 \/ RandomElement(1..ExportEvery) = 1)) => PrintT(ToJson(hist))
ExportLeaf == (ExportEvery > 0 /\ (depth = MaxDepth \/ dead)) => PrintT(ToJson(hist))

\* (L1) configuration vectors: printed once (ASSUME-level evaluation through an invariant of the initial state only)
Vals == {-1, 0, 1, 2, 5, 30, 31, 60, 61, 1440, 1441}
CfgExport == depth > 0 \/ \A p \in Vals, o \in Vals, g \in Vals :
                PrintT(ToJson([cfg |-> <<p, o, g>>] @@ DeadlineOutcome(p, o, g)))
=============================================================================
