------------------------------ MODULE AddrList ------------------------------
(* X02 -- /repo/addr.go: AddrList (the hunt list of the ICMPv6 spoofer) and the Addr value type.

   Mechanism level (shaped like the code): `list` is the slice s.list of Addr values.
     index(mac)   first position i (0-based) with bytes.Equal(list[i].MAC, mac), else -1.  bytes.Equal makes the nil and
                  the empty MAC the same key, and compares nothing but the MAC.
     Add(addr)    index(addr.MAC) # -1 -> nothing (the stored IP and Port are NOT updated: the first Add of a MAC wins);
                  otherwise append(addr).  Always returns nil.
     Del(addr)    pos := index(addr.MAC); -1 -> nothing; last element -> list[:pos]; otherwise
                  copy(list[pos:], list[pos+1:]) and drop the last element.  addr.IP and addr.Port are ignored: Del of
                  <m, ip2> removes the entry <m, ip1>.  Always returns nil.
     Index / Len  index(mac) / len(list).
   Not in the model: the slice keeps the caller's MAC slice (no copy), and there is no lock although the type's comment
   calls it "goroutine safe" (its only user, icmp_spoofer.Handler6, serialises every call under its own mutex).

   Property level (X02 statement): the list is a SET keyed by MAC that remembers insertion order.
     ref        sequence of the MACs present, in order of their (latest effective) insertion
     refIP      the IP given with the insertion that took effect
     (a) no two entries have the same MAC; (b) after Add(a): a.MAC is present, a new MAC is appended at the end, a known
     MAC changes nothing; (c) Del(a) removes exactly the entry of a.MAC whatever a.IP is, the others keep their order,
     an unknown MAC changes nothing; (d) Index(mac) is the 0-based position in that order, -1 iff absent, Len the number
     of entries; (e) Add and Del always return nil.

   Addr.String / Network / FastLog are total: AddrVec!Text is the reference for the rendered text
     "packet:" ++ " mac=" ++ (6-byte MAC in colon hex | "nil") ++ " ip=" ++ (address text | "nil") ++ [" port=" ++ decimal if # 0]. *)
EXTENDS Naturals, Integers, Sequences, FiniteSets, TLC

CONSTANTS MACs,      \* MAC keys (one of them may be the nil / empty MAC: the driver maps NoMac to both spellings)
          IPs        \* addresses given with Add / Del
VARIABLES list,      \* mechanism: sequence of [mac, ip]
          ref, refIP,  \* property level
          res        \* observable result of the last step
vars == <<list, ref, refIP, res>>

\* ---- mechanism
IndexOf(l, m) == IF \E i \in 1..Len(l) : l[i].mac = m
                 THEN (CHOOSE i \in 1..Len(l) : l[i].mac = m /\ \A j \in 1..(i - 1) : l[j].mac # m) - 1
                 ELSE -1
AddM(l, m, ip) == IF IndexOf(l, m) # -1 THEN l ELSE Append(l, [mac |-> m, ip |-> ip])
DelM(l, m) == LET pos == IndexOf(l, m) + 1 IN              \* 1-based
              IF pos = 0 THEN l
              ELSE IF pos = Len(l) THEN SubSeq(l, 1, pos - 1)
              ELSE [i \in 1..(Len(l) - 1) |-> IF i < pos THEN l[i] ELSE l[i + 1]]     \* copy(list[pos:], list[pos+1:])

\* what the driver observes after every step: the list itself (VerifList), Index of every MAC of the universe, Len
Obs(l) == [list |-> l, len |-> Len(l), idx |-> [m \in MACs |-> IndexOf(l, m)]]

Init == list = <<>> /\ ref = <<>> /\ refIP = [m \in MACs |-> CHOOSE ip \in IPs : TRUE] /\ res = Obs(<<>>)

Add(m, ip) == /\ list' = AddM(list, m, ip)
              /\ ref' = IF \E i \in 1..Len(ref) : ref[i] = m THEN ref ELSE Append(ref, m)
              /\ refIP' = IF \E i \in 1..Len(ref) : ref[i] = m THEN refIP ELSE [refIP EXCEPT ![m] = ip]
              /\ res' = Obs(list')
Del(m, ip) == /\ list' = DelM(list, m)
              /\ ref' = SelectSeq(ref, LAMBDA x : x # m)
              /\ UNCHANGED refIP
              /\ res' = Obs(list')

\* ---- invariants: the mechanism implements the property level
NoDuplicateMAC == \A i, j \in 1..Len(list) : i # j => list[i].mac # list[j].mac
MatchesRef == /\ Len(list) = Len(ref)
              /\ \A i \in 1..Len(ref) : list[i].mac = ref[i] /\ list[i].ip = refIP[ref[i]]
IndexConsistent == \A m \in MACs :
    /\ (res.idx[m] = -1) <=> ~(\E i \in 1..Len(ref) : ref[i] = m)
    /\ res.idx[m] # -1 => (res.idx[m] \in 0..(Len(ref) - 1) /\ ref[res.idx[m] + 1] = m)
    /\ res.len = Len(ref)
\* action properties: Del removes exactly one entry (or none), Add appends exactly one (or none), order is preserved
Subseq(s, t) == \* s results from t by deleting at most one element
    \/ s = t
    \/ \E k \in 1..Len(t) : s = [i \in 1..(Len(t) - 1) |-> IF i < k THEN t[i] ELSE t[i + 1]]
StepShape == [][\/ (Len(list') = Len(list) + 1 /\ SubSeq(list', 1, Len(list)) = list)
                \/ (Len(list') <= Len(list) /\ Subseq(list', list))]_vars

=============================================================================
