---------------------------- MODULE LogLinePool ----------------------------
(* C20 -- several fastlog lines alive at once (fastlog/logging.go:41-42, 169-180, 210-230).

   The statement says a line equals the concatenation of *its* fields.  A Line is a pooled buffer: Msg() takes one
   from the pool (or allocates), every appender writes at the line's own cursor, ToString()/Write() hand the buffer
   back -- exactly once, also when the writer fails.  This module gives the line machine of LogLineMC.tla a small set
   of lines, each with its own cursor, built in any interleaving, and the pool.

   Mechanism level : buf (which buffer a line handle points to), content (what each buffer holds), pool (a stack of
                     free buffers: sync.Pool seen from one goroutine), nbuf.  Put count on a failed Write is the
                     constant PutsOnWriteError (1 as written).
   Property level  : ref[i] = the tokens line i appended; out[i] = the text obtained when line i is finished.
     C20_LinesIndependent -- out[i] = ref[i] for every finished line (no line ever shows another line's fields),
     PoolSound            -- a buffer is in the pool at most once and never while a line is still using it.
   Export prints every complete behaviour (all lines finished) for replay on real fastlog.Line values. *)
EXTENDS Integers, Sequences, FiniteSets, TLC, Json

CONSTANTS NLines,            \* lines 1..NLines, each built once
          MaxFields,         \* appenders per line after Msg
          PutsOnWriteError,  \* how often Write() returns the buffer to the pool when the writer fails: 1 as written
          ExportEvery

VARIABLES st, buf, content, pool, nbuf, ref, out, hist

vars == <<st, buf, content, pool, nbuf, ref, out, hist>>
Lines == 1..NLines
MaxBufs == NLines
Tok(i, k) == i * 10 + k          \* the k-th token of line i (k = 0: the message)
Freed == <<-1>>                  \* "invalid buffer freed via ..."

Init ==
  /\ st = [i \in Lines |-> "idle"] /\ buf = [i \in Lines |-> 0]
  /\ content = [b \in 1..MaxBufs |-> <<>>] /\ pool = <<>> /\ nbuf = 0
  /\ ref = [i \in Lines |-> <<>>] /\ out = [i \in Lines |-> <<>>] /\ hist = <<>>

\* Msg: lines.Get() -- the most recently returned buffer, else a new one; the buffer is overwritten from the start
Msg(i) ==
  /\ st[i] = "idle"
  /\ (IF i = 1 THEN TRUE ELSE st[i-1] # "idle")      \* lines are started in order (symmetry)
  /\ LET b == IF pool # <<>> THEN Head(pool) ELSE nbuf + 1
     IN  /\ b <= MaxBufs
         /\ pool' = IF pool # <<>> THEN Tail(pool) ELSE pool
         /\ nbuf' = IF pool # <<>> THEN nbuf ELSE nbuf + 1
         /\ buf' = [buf EXCEPT ![i] = b]
         /\ content' = [content EXCEPT ![b] = <<Tok(i, 0)>>]
  /\ st' = [st EXCEPT ![i] = "alive"]
  /\ ref' = [ref EXCEPT ![i] = <<Tok(i, 0)>>]
  /\ hist' = Append(hist, [a |-> "msg", l |-> i])
  /\ UNCHANGED out

\* an appender: writes at the cursor of the buffer the handle points to
Field(i) ==
  /\ st[i] = "alive" /\ Len(ref[i]) <= MaxFields
  /\ LET k == Len(ref[i])
     IN  /\ content' = [content EXCEPT ![buf[i]] = Append(@, Tok(i, k))]
         /\ ref' = [ref EXCEPT ![i] = Append(@, Tok(i, k))]
         /\ hist' = Append(hist, [a |-> "field", l |-> i, k |-> k])
  /\ UNCHANGED <<st, buf, pool, nbuf, out>>

\* ToString / Write (writer succeeds) / Write (writer fails): the text is taken, the buffer marked and returned
Finish(i, mode) ==
  /\ st[i] = "alive"
  /\ out' = [out EXCEPT ![i] = content[buf[i]]]
  /\ content' = [content EXCEPT ![buf[i]] = Freed]
  /\ LET puts == IF mode = "writefail" THEN PutsOnWriteError ELSE 1
     IN  pool' = [k \in 1..puts |-> buf[i]] \o pool
  /\ st' = [st EXCEPT ![i] = "done"]
  /\ hist' = Append(hist, [a |-> mode, l |-> i])
  /\ UNCHANGED <<buf, nbuf, ref>>

Next == \E i \in Lines : Msg(i) \/ Field(i) \/ \E m \in {"tostring", "write", "writefail"} : Finish(i, m)
Spec == Init /\ [][Next]_vars

Done == \A i \in Lines : st[i] = "done"

C20_LinesIndependent == \A i \in Lines : st[i] = "done" => out[i] = ref[i]
PoolSound ==
  /\ \A p, q \in 1..Len(pool) : p # q => pool[p] # pool[q]
  /\ \A i \in Lines : st[i] = "alive" => (\A p \in 1..Len(pool) : pool[p] # buf[i])
  /\ \A i, j \in Lines : (i # j /\ st[i] = "alive" /\ st[j] = "alive") => buf[i] # buf[j]

Export == (Done /\ ExportEvery > 0 /\ (ExportEvery = 1 \/ RandomElement(1..ExportEvery) = 1)) => PrintT(ToJson([h |-> hist]))
=============================================================================
