------------------------------ MODULE ArpQuery ------------------------------
(***************************************************************************)
(* X05 (b): the ARP query helpers of handlers/arp_spoofer (arp.go):         *)
(*   Handler.WhoIs(ip)   (arp.go:218-235)                                   *)
(*   Handler.Scan()      (arp.go:237-268; its comment calls it ScanNetwork) *)
(* There is no CheckAddr in this version of the package.                    *)
(*                                                                         *)
(* WhoIs, mechanism level: three rounds of  { FindIP(ip) in the session's   *)
(* host table: found -> return its address;  broadcast "who has ip, tell    *)
(* hostip";  sleep 50 ms * round }, a last look at the table (LastLook),    *)
(* and then ErrNotFound.  The table is filled by Session.Parse, never by    *)
(* WhoIs: an ARP packet of either operation or an IPv4 packet whose sender  *)
(* address lies in the home LAN (and whose MAC is not the NIC's) creates or *)
(* re-binds the entry; the latest MAC wins.  An entry answers whether the   *)
(* host is online or not.  A send error is returned at once.                *)
(*                                                                         *)
(* WhoIs, property level (what a caller relies on):                         *)
(*   (W1) (addr, nil)  =>  addr.IP = ip and addr.MAC is the MAC the table    *)
(*        bound to ip when it was consulted (the latest learned one);       *)
(*   (W2) ErrNotFound  =>  three requests were written, and nothing that    *)
(*        binds ip was parsed before WhoIs returned;                        *)
(*   (W3) every frame is a broadcast ARP request for ip from the NIC's own  *)
(*        addresses; at most three; none when ip is already known.          *)
(* Before commit 27a6daa the code contradicted the second half of (W2):     *)
(* what arrived after the third request was never looked at (site           *)
(* KfLastAnswerIgnored, constant LastLook = FALSE).  The repaired code      *)
(* looks once more after the third wait (LastLook = TRUE: W2b holds).       *)
(*                                                                         *)
(* Scan, mechanism level: walk host numbers 1 .. n-1 of the home LAN        *)
(* (n = host mask), skip the router's and the NIC's address, stop with nil  *)
(* when the handler was closed, request, on a temporary write error go on   *)
(* with the NEXT address (the address is skipped, not retried), on any      *)
(* other error return it, sleep 8 ms.                                       *)
(* Scan, property level: (S1) without Close and errors every address of the *)
(* LAN except network, broadcast, router and own receives exactly one       *)
(* request, in ascending order; (S2) no request is written after Close      *)
(* returned; (S3) nil unless a non-temporary write error, which is returned.*)
(***************************************************************************)
EXTENDS Integers, Sequences, FiniteSets, TLC, Json

CONSTANTS LastLook,    \* BOOLEAN: WhoIs looks at the table once more after its third wait (commit 27a6daa); FALSE = the code
                       \* before that commit (known finding X05:WhoIsLastAnswerIgnored open)
          Part,        \* "whois" | "scan"
          MaxEv,       \* whois: messages parsed per round
          Bits,        \* scan: set of prefix lengths
          MaxFaults    \* scan: environment deviations (write errors, Close) per run

VARIABLES pc, round, tbl, sent, evs, inl, res, learnt, init, plan,      \* whois
          cfg, pos, closed, faults                                      \* scan
vars == <<pc, round, tbl, sent, evs, inl, res, learnt, init, plan, cfg, pos, closed, faults>>

-----------------------------------------------------------------------------
\* WhoIs
Targets == {"lan", "own", "router", "ext", "v6"}
\* what Session.Parse does to the binding of the target address
Binds == {"reply", "reply2", "request", "ip"}      \* bind ip -> m1 (reply2: -> m2)
Others == {"other", "probe"}                        \* about another address / sender address 0.0.0.0
MacOf(kind) == IF kind = "reply2" THEN "m2" ELSE "m1"
Whens == {"inline", "after"}

WInit == /\ Part = "whois"
         /\ \E t \in Targets, st \in {"absent", "online", "offline"} :
               /\ (t # "lan") => st = "absent"
               /\ init = [target |-> t, state |-> st]
               /\ tbl = CASE t = "own" -> "own" [] t = "router" -> "router" [] st = "absent" -> "absent" [] OTHER -> "m1"
         /\ pc = "check" /\ round = 0 /\ sent = 0 /\ evs = <<>> /\ inl = TRUE /\ res = [r |-> "none", mac |-> "none"]
         /\ learnt = FALSE /\ plan = <<>>
         /\ cfg = <<>> /\ pos = 0 /\ closed = FALSE /\ faults = 0

\* the environment may parse something between the call and the first look at the table only through `init`
Check == /\ pc = "check"
         /\ IF tbl # "absent"
            THEN pc' = "done" /\ res' = [r |-> "nil", mac |-> tbl] /\ UNCHANGED <<round, sent, plan>>
            ELSE IF init.target = "v6"
            THEN pc' = "done" /\ res' = [r |-> "invalidip", mac |-> "none"] /\ UNCHANGED <<round, sent, plan>>
            ELSE \/ pc' = "wait" /\ sent' = sent + 1 /\ UNCHANGED <<res, round, plan>>           \* Request written
                 \/ /\ pc' = "done" /\ res' = [r |-> "err", mac |-> "none"]                      \* the connection refuses it
                    /\ plan' = Append(plan, [fail |-> TRUE, evs |-> <<>>]) /\ UNCHANGED <<round, sent>>
         /\ UNCHANGED <<tbl, evs, inl, learnt, init, cfg, pos, closed, faults>>

Learns(kind) == kind \in Binds /\ init.target = "lan"      \* an address outside the home LAN is never bound
Env(kind, when) ==
  /\ pc = "wait" /\ Len(evs) < MaxEv
  /\ when = "inline" => inl
  /\ tbl' = IF Learns(kind) THEN MacOf(kind) ELSE tbl
  /\ learnt' = (learnt \/ Learns(kind))
  /\ evs' = Append(evs, [kind |-> kind, when |-> when])
  /\ inl' = (inl /\ when = "inline")
  /\ UNCHANGED <<pc, round, sent, res, init, plan, cfg, pos, closed, faults>>

\* the sleep of this round is over
Slept == /\ pc = "wait"
         /\ plan' = Append(plan, [fail |-> FALSE, evs |-> evs])
         /\ evs' = <<>> /\ inl' = TRUE
         /\ IF round < 2 THEN pc' = "check" /\ round' = round + 1 /\ res' = res
            ELSE IF LastLook /\ tbl # "absent"                                       \* the last look: the answer to the third request counts
            THEN pc' = "done" /\ round' = round /\ res' = [r |-> "nil", mac |-> tbl]
            ELSE pc' = "done" /\ round' = round /\ res' = [r |-> "notfound", mac |-> "none"]
         /\ UNCHANGED <<tbl, sent, learnt, init, cfg, pos, closed, faults>>

WNext == Check \/ Slept \/ \E kind \in Binds \cup Others, when \in Whens : Env(kind, when)

\* property level
W1 == (pc = "done" /\ res.r = "nil") => res.mac = tbl /\ tbl # "absent"
W2a == (pc = "done" /\ res.r = "notfound") => sent = 3
W2b == (pc = "done" /\ res.r = "notfound") => ~learnt            \* an invariant iff LastLook (before 27a6daa: KfLastAnswerIgnored)
W2bIfLastLook == LastLook => W2b
W3 == sent <= 3 /\ ((pc = "done" /\ res.r = "nil" /\ init.state # "absent") => sent = 0)
KfLastAnswerIgnored == pc = "done" /\ res.r = "notfound" /\ learnt
\* the only way to contradict W2b is an answer during the last round
W2bOnlyLastRound == KfLastAnswerIgnored => (\E i \in 1..Len(plan[3].evs) : Learns(plan[3].evs[i].kind))
WExport == (Part = "whois" /\ pc = "done") =>
   PrintT(ToJson([init |-> init, plan |-> plan, res |-> res, sent |-> sent, kf |-> KfLastAnswerIgnored,
                  obs |-> (res.r = "nil" /\ init.state = "offline")]))

-----------------------------------------------------------------------------
\* Scan
RECURSIVE Pow2(_)
Pow2(e) == IF e = 0 THEN 1 ELSE 2 * Pow2(e - 1)
HostMask(b) == Pow2(32 - b) - 1                      \* the code's n
\* positions (host numbers) of the NIC and of the router inside the LAN that are worth telling apart
Places(b) == LET n == HostMask(b) IN {p \in {1, 2, n - 2, n - 1} : p >= 1 /\ p < n} \cup {1}
FaultKinds == {"temp", "perm", "close"}

SInit == /\ Part = "scan"
         /\ \E b \in Bits : \E h \in Places(b), r \in Places(b) \cup {0} :      \* r = 0: router outside the walk
               /\ h # r
               /\ cfg = [bits |-> b, host |-> h, router |-> r]
         /\ pc = "walk" /\ pos = 1 /\ sent = <<>> /\ closed = FALSE /\ faults = 0 /\ plan = <<>>
         /\ res = [r |-> "none", mac |-> "none"]
         /\ round = 0 /\ tbl = "absent" /\ evs = <<>> /\ inl = TRUE /\ learnt = FALSE /\ init = [target |-> "lan", state |-> "absent"]

Skip(p) == p = cfg.host \/ p = cfg.router
\* faults are enumerated only at the first three write attempts and at the last three host numbers (the loop body is uniform)
Attempt == Len(sent) + Len(SelectSeq(plan, LAMBDA f : f.kind # "close")) + 1
FaultOK == faults < MaxFaults /\ (Attempt <= 3 \/ pos >= HostMask(cfg.bits) - 3)
\* one iteration of the loop for host number pos
Walk ==
  /\ pc = "walk"
  /\ IF pos >= HostMask(cfg.bits)
     THEN pc' = "done" /\ res' = [r |-> "nil", mac |-> "none"] /\ UNCHANGED <<pos, sent, closed, faults, plan>>
     ELSE IF Skip(pos)
     THEN pos' = pos + 1 /\ UNCHANGED <<pc, res, sent, closed, faults, plan>>
     ELSE IF closed
     THEN pc' = "done" /\ res' = [r |-> "nil", mac |-> "none"] /\ UNCHANGED <<pos, sent, closed, faults, plan>>
     ELSE \/ /\ sent' = Append(sent, pos) /\ pos' = pos + 1                               \* written, sleep 8 ms
             /\ UNCHANGED <<pc, res, closed, faults, plan>>
          \/ /\ FaultOK                                                        \* written, Close during the write
             /\ sent' = Append(sent, pos) /\ pos' = pos + 1 /\ closed' = TRUE /\ faults' = faults + 1
             /\ plan' = Append(plan, [at |-> Attempt, kind |-> "close"])
             /\ UNCHANGED <<pc, res>>
          \/ /\ FaultOK                                                        \* temporary error: next address
             /\ pos' = pos + 1 /\ faults' = faults + 1
             /\ plan' = Append(plan, [at |-> Attempt, kind |-> "temp"])
             /\ UNCHANGED <<pc, res, sent, closed>>
          \/ /\ FaultOK                                                        \* other error: returned
             /\ pc' = "done" /\ res' = [r |-> "err", mac |-> "none"] /\ faults' = faults + 1
             /\ plan' = Append(plan, [at |-> Attempt, kind |-> "perm"])
             /\ UNCHANGED <<pos, sent, closed>>
  /\ UNCHANGED <<round, tbl, evs, inl, learnt, init, cfg>>

SNext == Walk

\* property level
All(b) == {p \in 1..(HostMask(b) - 1) : ~Skip(p)}
Ascending(s) == \A i \in 1..(Len(s) - 1) : s[i] < s[i + 1]
S1 == (pc = "done" /\ faults = 0) => ({sent[i] : i \in 1..Len(sent)} = All(cfg.bits) /\ Len(sent) = Cardinality(All(cfg.bits)))
S1b == pc = "done" => (Ascending(sent) /\ \A i \in 1..Len(sent) : sent[i] \in 1..(HostMask(cfg.bits) - 1) /\ ~Skip(sent[i]))
S3 == pc = "done" => ((res.r = "err") <=> (\E i \in 1..Len(plan) : plan[i].kind = "perm"))
SExport == (Part = "scan" /\ pc = "done") => PrintT(ToJson([cfg |-> cfg, faults |-> plan, sent |-> sent, res |-> res.r]))

-----------------------------------------------------------------------------
Init == WInit \/ SInit
Next == IF Part = "whois" THEN WNext ELSE SNext
Spec == Init /\ [][Next]_vars
=============================================================================
