SPECIFICATION Spec
CONSTANTS
  Variants = 4
  CodeMinRun = 3
  Types = {"ip6", "addr6", "ip4", "mac", "u8", "u16", "u32", "int", "bool", "bytes", "time", "addr6z"}
INVARIANTS Lemmas Export
CHECK_DEADLOCK FALSE
