SPECIFICATION SpecNotify
CONSTANTS
  Own = own
  Router = router
  Clients = {m1, m2}
  HostIP = hostip
  RouterIP = routerip
  LanIPs = {a1, a2}
  ExtIPs = {}
  LLAs = {l1}
  GUAs = {g1}
  Slots = {dhcp, mdns}
  Dhcp = dhcp
  Llmnr = llmnr
  Names = {n1}
  NoIP = noip
  NoName = noname
  ProbeD = 1
  OfflineD = 2
  PurgeD = 4
  Never = 100000
  MaxDepth = 4
  Steps = {1, 2, 3, 5}
  ExportEvery = 0
INVARIANTS TypeOK C04_Equal C05_All C06_Exact C06_OneOnlineIP4PerMac
VIEW View
SYMMETRY Sym
CHECK_DEADLOCK FALSE
