SPECIFICATION TraceSpec
CONSTANTS
  Mode = "M"
  TraceFile = "trace.ndjson"
  Own = "own"
  Targets = {"m1", "m2", "m3", "m4", "m5", "m6"}
  RouterNIC = "router"
  RouterMACs = {"rm1", "rm2", "rm3"}
  HostLLA = "hostlla"
  AllNodes = "allnodes"
  LLAs = {"l1", "l2", "l3", "l4", "lz1", "lx1", "lx2"}
  ZLLA = "lz1"
  ZBase = "l1"
  GUAs = {"g1", "g2", "ula1", "unspec6", "loop6", "mc5", "map4", "allnodes"}
  V4s = {"a1", "a2"}
  NoIP = "noip"
  RouterIPs = {"r1", "r2", "r3"}
  NilMAC = "nilmac"
  SafeWake = TRUE
CONSTRAINT Mark
CONSTRAINT Last
POSTCONDITION TraceAccepted
CHECK_DEADLOCK FALSE
