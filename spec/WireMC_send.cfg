SPECIFICATION Spec
CONSTANTS
  Caps = {42}
  NSmall = {0}
  PortClasses = {"plain"}
  DhcpCodes = {1}
  MaxOpts = 1
  ReqCodes = {1}
  MaxReq = 1
  DhcpCaps = {300}
  BigCode = 43
  BigLens = {0}
  IdClasses = {"rand", "carryLE", "carryBE", "carryHdr"}
  WriteFailures = {"none", "temp1", "perm1", "temp2"}
  NICs = {"nicA", "nicB", "nicC"}
  Parts = {"send"}
INVARIANTS Export ModelOK
CHECK_DEADLOCK FALSE
