------------------------------- MODULE ConcQ -------------------------------
(* Validation of the table projections recorded at quiescent points of real concurrent executions
   (harness/cmd/concdrv: stress snapshots and the quiescent points of replayed schedules) against the
   C05_* predicates, in the shape of spec/Hosts.tla / spec/Conc.tla but over the logged records
   themselves (no universe: whatever address appears in the log is a member).

   One line = [id, hosts: <<[ip, mac, on]>>, macs: <<[mac, on, list: <<ip>>]>>].  TLC walks the file and
   prints one <<"C05FAIL", id, predicate>> tuple for every predicate a line fails. *)
EXTENDS Naturals, Sequences, FiniteSets, TLC, Json

CONSTANT TraceFile
VARIABLE l

Trace == ndJsonDeserialize(TraceFile)
Range(s) == {s[i] : i \in 1..Len(s)}

\* every host listed under a MAC entry is present in the host index under the same identity, once
ListBack(e) == \A i \in 1..Len(e.macs) :
                 /\ \A j \in 1..Len(e.macs[i].list) :
                       \E k \in 1..Len(e.hosts) : e.hosts[k].ip = e.macs[i].list[j] /\ e.hosts[k].mac = e.macs[i].mac
                 /\ \A j, k \in 1..Len(e.macs[i].list) : j # k => e.macs[i].list[j] # e.macs[i].list[k]
\* every tracked host is indexed once and belongs to exactly one MAC entry whose address equals the host's MAC
OneMac(e) == \A k \in 1..Len(e.hosts) :
               /\ Cardinality({i \in 1..Len(e.macs) : e.hosts[k].ip \in Range(e.macs[i].list)}) = 1
               /\ \A i \in 1..Len(e.macs) : e.hosts[k].ip \in Range(e.macs[i].list) => e.macs[i].mac = e.hosts[k].mac
               /\ \A k2 \in 1..Len(e.hosts) : k2 # k => e.hosts[k2].ip # e.hosts[k].ip
\* MAC entries are unique per address
UniqueMac(e) == \A i, j \in 1..Len(e.macs) : i # j => e.macs[i].mac # e.macs[j].mac
\* an online host implies its MAC entry is marked online
OnlineImpliesMacOnline(e) == \A k \in 1..Len(e.hosts) : e.hosts[k].on =>
                               \E i \in 1..Len(e.macs) : e.macs[i].mac = e.hosts[k].mac /\ e.macs[i].on
RECURSIVE SumLen(_, _)
SumLen(ms, i) == IF i > Len(ms) THEN 0 ELSE Len(ms[i].list) + SumLen(ms, i + 1)
\* what printHostTable asserts
Count(e) == SumLen(e.macs, 1) = Len(e.hosts)

Fails(e) == (IF ListBack(e) THEN {} ELSE {"ListBack"}) \cup (IF OneMac(e) THEN {} ELSE {"OneMac"})
            \cup (IF UniqueMac(e) THEN {} ELSE {"UniqueMac"})
            \cup (IF OnlineImpliesMacOnline(e) THEN {} ELSE {"OnlineImpliesMacOnline"})
            \cup (IF Count(e) THEN {} ELSE {"Count"})

Init == l = 1
Next == /\ l <= Len(Trace)
        /\ \A f \in Fails(Trace[l]) : PrintT(<<"C05FAIL", Trace[l].id, f>>)
        /\ l' = l + 1
Spec == Init /\ [][Next]_l
Done == (l = Len(Trace) + 1) => PrintT(<<"C05CHECKED", Len(Trace)>>)
=============================================================================
