---------------------------- MODULE DhcpModesMC ----------------------------
(* Bounded model of DhcpModes.tla: every sequence over the action alphabet up to MaxDepth from each of the three
   initial modes.  VIEW ViewLast = state + last action + its outputs: every distinct (action, outputs, successor)
   is one exported behaviour (hist), which the conformance driver executes on a real Handler + Session.
   The documented step predicates are decided as an ACTION property on every transition TLC generates
   (StepOK), independent of the view. *)
EXTENDS DhcpModes, Json

CONSTANTS MaxDepth, ExportEvery,
          Alphabet      \* "core": client messages + other server's messages + SetMode + capture; "full": everything
VARIABLES s, last, out, hist, m0
mcvars == <<s, last, out, hist, m0>>

Full == Alphabet = "full"

\* state-dependent argument classes: "match" is offered only where it differs from "other"
Rqs(c) == IF s.ls[c].ip \/ s.ls[c].off THEN {"match", "other"} ELSE {"other"}

Actions ==
       {[a |-> "discover", c |-> c, xid |-> x, rq |-> q] : c \in Clients, x \in Xids, q \in {"none", "addr"}}
  \cup {[a |-> "selus", c |-> c, xid |-> x, rq |-> q] : c \in Clients, x \in Xids, q \in {"match", "other"}}
  \cup {[a |-> "selother", c |-> c, xid |-> "x1", from |-> o] : c \in Clients, o \in Others}
  \cup {[a |-> "reboot", c |-> c, xid |-> "x1", rq |-> q] : c \in Clients, q \in {"match", "other"}}
  \cup {[a |-> "srv", k |-> k, from |-> o, c |-> c, xid |-> "x1"] : k \in {"offer", "ack", "nak"}, o \in Others, c \in Clients}
  \cup {[a |-> "srv", k |-> "offer", from |-> Us, c |-> c, xid |-> "x1"] : c \in Clients}
  \cup {[a |-> "srv", k |-> "offer", from |-> "router", c |-> Fake, xid |-> "x1"]}
  \cup {[a |-> "setmode", m |-> m] : m \in Modes \ {s.mode}}
  \cup {[a |-> IF s.cap[c] THEN "uncapture" ELSE "capture", c |-> c] : c \in Clients}
  \cup (IF Full THEN
          {[a |-> "renew", c |-> c, xid |-> "x1", rq |-> q] : c \in Clients, q \in {"match", "other"}}
     \cup {[a |-> "decline", c |-> c, from |-> o, rq |-> q] : c \in Clients, o \in {Us, "router"}, q \in {"match", "other"}}
     \cup {[a |-> "release", c |-> c, from |-> Us, rq |-> q] : c \in Clients, q \in {"match", "other"}}
     \cup {[a |-> "tick", far |-> f] : f \in BOOLEAN}
     \cup (IF s.armed THEN {} ELSE {[a |-> "rearm"]})
     \cup {[a |-> "starthunt", c |-> c, rq |-> q] : c \in Clients, q \in {"match", "other"}}
     \cup {[a |-> "stophunt", c |-> c] : c \in Clients}
     \cup {[a |-> "close"]}                                   \* also on a closed handler (idempotent)
        ELSE {})

Sensible(a) == ("rq" \in DOMAIN a /\ a.rq = "match") => a.rq \in Rqs(a.c)

MCInit == /\ \E m \in Modes : s = Init0(m)
          /\ last = [a |-> "new", m |-> s.mode]
          /\ out = Quiet
          /\ hist = <<>>
          /\ m0 = s.mode
MCNext == Len(hist) < MaxDepth /\ \E a \in Actions : Sensible(a) /\
            LET r == Do(s, a) IN
              /\ s' = r.s
              /\ last' = a
              /\ out' = r.out
              /\ UNCHANGED m0
              /\ hist' = Append(hist, [act |-> a, exp |-> r.out, post |-> r.s, kf |-> Sites(s, a, r)])
MCSpec == MCInit /\ [][MCNext]_mcvars

ViewLast == <<s, last, out>>

StateOK == TypeOK(s) /\ LeaseShape(s)
\* decided on every generated transition
StepOK == [][LET r == [s |-> s', out |-> out'] IN StepProps(s, last', r) /\ SitesAreDeviations(s, last', r)]_mcvars

Export == (ExportEvery > 0 /\ hist # <<>> /\ (ExportEvery = 1 \/ RandomElement(1..ExportEvery) = 1))
             => PrintT(ToJson([init |-> m0, steps |-> hist]))
\* random walks (TLC -simulate): one export per walk, at its last state
ExportLeaf == Len(hist) = MaxDepth => PrintT(ToJson([init |-> m0, steps |-> hist]))
=============================================================================
