------------------------------ MODULE Lifecycle ------------------------------
(* X03 -- /repo/session.go: the life cycle of a packet.Session (Config.NewSession / Close) and what the API does
   around it, observed from the caller's side: value, error, panic, blocked call, process crash.

   A session is created over a caller-supplied net.PacketConn (Config.Conn) and a caller-supplied NICInfo:
     Conn = "mem"  the repository's own in-memory pipe (memconn.go, see MemConn.tla): WriteTo after Close panics, the
                   endpoint's own blocked ReadFrom is not released by Close
     Conn = "rec"  a well-behaved connection of the harness (vh.RecConn): writes succeed after Close, a blocked ReadFrom
                   returns an error on Close
   NewSession makes C (capacity 128) and closeChan, validates the three deadlines, starts the NIC monitor and the minute
   purge goroutine, and creates two host entries: the NIC's own address (online, never expires) and the router (online,
   IsRouter, ages like any host).

   Mechanism state (one client H1 besides the router; host table semantics proper are C04-C06)
     phase     "running" | "closed"
     st[x]     "absent" | "online" | "offline"  for x in {H1, RT}      (Host.Online of the entry, if any)
     dirty[x]  Host.dirty: a notification is pending for the entry
     capd      Session.IsCaptured(H1)  (the flag lives in the MAC entry, which is deleted with its last host)
     ment      H1 has a MAC entry (Capture creates one without any host)
     ch        notifications buffered in Session.C
     rdp       a Session.ReadFrom call is blocked in Conn.ReadFrom
     pp        NoPass, or the purge pass that has finished its scan of the host table and not yet acted on it:
               [off |-> entries it will set offline, del |-> entries it will delete]  (the pass holds no lock in between;
               the harness stops it there with the scheduling gate "purge.offline")

   Calls and what they do (code-shaped)
     Parse(frame of H1)   creates / refreshes the host, online transition sets dirty; ignores `closed`
     Notify(frame)        dirty -> clears dirty, then `h.C <- n`: after Close this is a send on a closed channel: panic
     <-C (drain)          buffered notifications; after Close the channel reports closed once drained
     FindIP, IsCaptured, Capture   plain table access under the session mutex; ignore `closed`
     Ping(H1, 5ms)        registers a waiter, writes an ICMP echo request on Conn, times out: ErrTimeout
                          after Close: "mem" panics inside Conn.WriteTo, "rec" still writes and times out
     purge(now + 2h)      (the minute goroutine's pass, through the VerifPurge hook; also in two halves, PurgeStart / PurgeEnd) every online entry but the NIC's own is
                          probed (ARP request written by a goroutine the library starts) and set offline with a notification;
                          entries already offline are deleted.
                          after Close, with an online entry: makeOffline sends on the closed C -> panic in the caller ("rec");
                          with "mem" the probe goroutine panics first in Conn.WriteTo: the PROCESS dies ("crash")
     ReadFrom             blocks in Conn.ReadFrom; Close releases it with ErrHandlerClosed on "rec", not at all on "mem"
     Close                first call: closed = true, close(closeChan), close(C), Conn.Close(), sleeps one second;
                          any later call returns at once (idempotent)

   Property level (X03 statement)
     (L1) Config.NewSession accepts a configuration iff the deadlines are all zero-defaulted or within their documented bounds
          (DeadlineOutcome) and then owns exactly the two host entries above;
     (L2) Close is idempotent, never panics, closes C (buffered notifications stay readable, then the channel reports closed)
          and ends the session's goroutines;
     (L3) read-only / table calls (FindIP, IsCaptured, Capture, Parse) behave after Close as before;
     (L4) no call sequence that is legal by the documentation crashes the process or panics inside the library.  The
          documentation makes every call after Close illegal ("The session is no longer valid after calling Close()"), so
          panics of Notify / Ping / ReadFrom-forever after Close are OBSERVED BEHAVIOUR recorded here, not findings; the purge
          pass is started by the library itself, and a pass that is in flight when Close is called (legal) runs into the
          same closed channel: finding X03:PurgeInFlightAtClose. *)
EXTENDS Naturals, Integers, Sequences, FiniteSets, TLC

CONSTANTS H1, RT,      \* the client and the router (names of the harness universe)
          Conn,        \* "mem" | "rec"
          NoPass
VARIABLES phase, st, dirty, capd, ment, ch, rdp, pp, out
vars == <<phase, st, dirty, capd, ment, ch, rdp, pp, out>>

Hosts == {H1, RT}
Note(x, on) == [h |-> x, on |-> on]

\* observable outcome of a step
\* res: "ok" | "panic" | "crash" | "blocked";  err: "" | "timeout" | "isrouter" | "closed"
\* host: "" | "absent" | "online" | "offline";  flag: result of IsCaptured / channel-closed indication
\* notes: notifications received (drain);  wire: frames the session wrote on Conn during the step
Out(res, err, host, flag, notes, wire) == [res |-> res, err |-> err, host |-> host, flag |-> flag, notes |-> notes, wire |-> wire]
Ok == Out("ok", "", "", FALSE, <<>>, <<>>)

Init == /\ phase = "running"
        /\ st = [x \in Hosts |-> IF x = RT THEN "online" ELSE "absent"]
        /\ dirty = [x \in Hosts |-> x = RT]          \* findOrCreateHost marks the new router entry dirty
        /\ capd = FALSE /\ ment = FALSE /\ ch = <<>> /\ rdp = FALSE /\ pp = NoPass /\ out = Ok

\* ---- Parse of an IPv4 frame sent by H1 (a LAN address)
ParseEff == /\ st' = [st EXCEPT ![H1] = "online"]
            /\ dirty' = [dirty EXCEPT ![H1] = IF st[H1] = "online" THEN @ ELSE TRUE]
            /\ ment' = TRUE
Parse == /\ ParseEff /\ out' = [Ok EXCEPT !.host = "online"]
         /\ UNCHANGED <<phase, capd, ch, rdp, pp>>

\* ---- Parse followed by Notify with the fresh frame
ParseNotify ==
  LET pending == (st[H1] # "online") \/ dirty[H1] IN
  /\ st' = [st EXCEPT ![H1] = "online"] /\ ment' = TRUE
  /\ dirty' = [dirty EXCEPT ![H1] = FALSE]                   \* cleared before the send (it was FALSE if nothing is pending)
  /\ IF ~pending THEN out' = [Ok EXCEPT !.host = "online"] /\ UNCHANGED ch
     ELSE IF phase = "closed" THEN out' = Out("panic", "", "", FALSE, <<>>, <<>>) /\ UNCHANGED ch
     ELSE out' = [Ok EXCEPT !.host = "online"] /\ ch' = Append(ch, Note(H1, TRUE))
  /\ UNCHANGED <<phase, capd, rdp, pp>>

Drain == /\ out' = [Ok EXCEPT !.notes = ch, !.flag = (phase = "closed")]
         /\ ch' = <<>> /\ UNCHANGED <<phase, st, dirty, capd, ment, rdp, pp>>

FindIP(x) == out' = [Ok EXCEPT !.host = st[x]] /\ UNCHANGED <<phase, st, dirty, capd, ment, ch, rdp, pp>>
IsCaptured == out' = [Ok EXCEPT !.flag = capd] /\ UNCHANGED <<phase, st, dirty, capd, ment, ch, rdp, pp>>
\* Capture(router MAC): ErrIsRouter while the router's MAC entry exists; once two purge passes have deleted the router
\* entry, Capture creates a fresh (non-router) MAC entry and succeeds
Capture(x) == IF x = RT THEN /\ out' = [Ok EXCEPT !.err = IF st[RT] # "absent" THEN "isrouter" ELSE ""]
                             /\ UNCHANGED <<phase, st, dirty, capd, ment, ch, rdp, pp>>
              ELSE out' = Ok /\ capd' = TRUE /\ ment' = TRUE /\ UNCHANGED <<phase, st, dirty, ch, rdp, pp>>

Ping == /\ IF phase = "closed" /\ Conn = "mem" THEN out' = Out("panic", "", "", FALSE, <<>>, <<>>)
           ELSE out' = [Ok EXCEPT !.err = "timeout", !.wire = <<"echo4:" \o H1>>]
        /\ UNCHANGED <<phase, st, dirty, capd, ment, ch, rdp, pp>>

\* ---- one purge pass with the clock two hours ahead
Online == {x \in Hosts : st[x] = "online"}
Offl   == {x \in Hosts : st[x] = "offline"}
Ordered(S) == IF S = {} THEN <<>> ELSE IF S = Hosts THEN <<H1, RT>> ELSE <<CHOOSE x \in S : TRUE>>
Purge ==
  pp = NoPass /\
  IF phase = "closed" /\ Online # {}
  THEN \* the probe goroutine writes on the closed connection ("mem": process dies); makeOffline sends on the closed C
       /\ out' = Out(IF Conn = "mem" THEN "crash" ELSE "panic", "", "", FALSE, <<>>, <<>>)
       /\ UNCHANGED <<phase, st, dirty, capd, ment, ch, rdp, pp>>      \* the behaviour ends here (see LifecycleMC)
  ELSE /\ st' = [x \in Hosts |-> IF x \in Online THEN "offline" ELSE IF x \in Offl THEN "absent" ELSE st[x]]
       /\ dirty' = [x \in Hosts |-> IF x \in Online \cup Offl THEN FALSE ELSE dirty[x]]
       /\ ch' = ch \o [i \in 1..Len(Ordered(Online)) |-> Note(Ordered(Online)[i], FALSE)]
       /\ capd' = IF H1 \in Offl THEN FALSE ELSE capd       \* the MAC entry goes with its last host
       /\ ment' = IF H1 \in Offl THEN FALSE ELSE ment
       /\ out' = [Ok EXCEPT !.wire = [i \in 1..Len(Ordered(Online)) |-> "arp:" \o Ordered(Online)[i]]]
       /\ UNCHANGED <<phase, rdp, pp>>

\* ---- the same pass in two halves: scan (probes are sent, the offline / delete lists are fixed), then the updates.
\* Anything may happen in between, in particular Close.
PurgeStart ==
  /\ pp = NoPass
  /\ ~(phase = "closed" /\ Conn = "mem" /\ Online # {})          \* the probe goroutine would die in WriteTo: see Purge
  /\ pp' = [off |-> Online, del |-> Offl]
  /\ out' = [Ok EXCEPT !.wire = [i \in 1..Len(Ordered(Online)) |-> "arp:" \o Ordered(Online)[i]]]
  /\ UNCHANGED <<phase, st, dirty, capd, ment, ch, rdp>>
PurgeEnd ==
  /\ pp # NoPass
  /\ pp' = NoPass
  /\ LET off == {x \in pp.off : st[x] # "absent"}  del == {x \in pp.del : st[x] # "absent"} IN
     IF phase = "closed" /\ off # {}
     THEN \* makeOffline of the first entry sends on the closed C: panic inside the pass (the minute goroutine: process dies)
          /\ out' = Out("panic", "", "", FALSE, <<>>, <<>>)
          /\ UNCHANGED <<phase, st, dirty, capd, ment, ch, rdp>>    \* the behaviour ends here (see LifecycleMC)
     ELSE /\ st' = [x \in Hosts |-> IF x \in off THEN "offline" ELSE IF x \in del THEN "absent" ELSE st[x]]
          /\ dirty' = [x \in Hosts |-> IF x \in off \cup del THEN FALSE ELSE dirty[x]]
          /\ ch' = ch \o [i \in 1..Len(Ordered(off)) |-> Note(Ordered(off)[i], FALSE)]
          /\ capd' = IF H1 \in del THEN FALSE ELSE capd
          /\ ment' = IF H1 \in del THEN FALSE ELSE ment
          /\ out' = Ok
          /\ UNCHANGED <<phase, rdp>>

ReadBlock == /\ ~rdp
             /\ IF phase = "closed" /\ Conn = "rec" THEN out' = [Ok EXCEPT !.err = "closed"] /\ UNCHANGED rdp
                ELSE out' = Out("blocked", "", "", FALSE, <<>>, <<>>) /\ rdp' = TRUE
             /\ UNCHANGED <<phase, st, dirty, capd, ment, ch, pp>>

\* Close: flag reports whether the blocked ReadFrom was released (with ErrHandlerClosed)
Close == /\ phase' = "closed"
         /\ IF phase = "running" /\ rdp /\ Conn = "rec" THEN rdp' = FALSE /\ out' = [Ok EXCEPT !.flag = TRUE, !.err = "closed"]
            ELSE out' = Ok /\ UNCHANGED rdp
         /\ UNCHANGED <<st, dirty, capd, ment, ch, pp>>

\* ---- invariants
TypeOK == /\ phase \in {"running", "closed"} /\ \A x \in Hosts : st[x] \in {"absent", "online", "offline"}
          /\ capd \in BOOLEAN /\ rdp \in BOOLEAN
\* a captured client has a MAC entry; a host entry implies a MAC entry
CapturedHasEntry == (capd => ment) /\ (st[H1] # "absent" => ment)
\* pending notifications only for entries that exist
DirtyExists == \A x \in Hosts : dirty[x] => st[x] # "absent"
\* (L2) nothing enters C after Close
NoNoteAfterClose == [][phase = "closed" => Len(ch') <= Len(ch)]_vars
\* (L2) Close is final
CloseFinal == [][phase = "closed" => phase' = "closed"]_vars
\* on the well-behaved connection no reader stays blocked after Close
RecReleased == (Conn = "rec" /\ phase = "closed") => ~rdp

\* ---- known-finding / observed-behaviour sites, evaluated BEFORE the step
KfPurge   == IF phase = "closed" /\ Online # {} THEN <<"PurgeInFlightAtClose">> ELSE <<>>
KfPurgeEnd == IF phase = "closed" /\ pp # NoPass /\ {x \in pp.off : st[x] # "absent"} # {} THEN <<"PurgeInFlightAtClose">> ELSE <<>>
ObsNotify == IF phase = "closed" /\ (st[H1] # "online" \/ dirty[H1]) THEN <<"NotifyAfterClosePanics">> ELSE <<>>
ObsPing   == IF phase = "closed" /\ Conn = "mem" THEN <<"PingAfterCloseOnMemConnPanics">> ELSE <<>>
ObsClose  == IF phase = "running" /\ rdp /\ Conn = "mem" THEN <<"CloseLeavesReadFromBlockedOnMemConn">> ELSE <<>>

\* ---- (L1) Config.NewSession: deadlines in minutes; result "ok" with the effective deadlines or "err"
Default == <<2, 5, 61>>
DeadlineOutcome(p, o, g) ==
  LET e == IF p = 0 \/ o = 0 \/ g = 0 THEN Default ELSE <<p, o, g>> IN
  IF e[1] <= 0 \/ e[1] > 30 THEN [res |-> "err", which |-> "probe", eff |-> e]
  ELSE IF e[2] <= 0 \/ e[2] > 60 \/ e[2] < e[1] THEN [res |-> "err", which |-> "offline", eff |-> e]
  ELSE IF e[3] <= 0 \/ e[3] > 1440 THEN [res |-> "err", which |-> "purge", eff |-> e]
  ELSE [res |-> "ok", which |-> "", eff |-> e]
=============================================================================
