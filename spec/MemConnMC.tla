----------------------------- MODULE MemConnMC -----------------------------
(* Bounded model of MemConn.tla.

   Two uses (see checks/x01.py):
     full   VIEW ViewMech hides the ghost variables, the content identities and the depth: the reachable
            mechanism state space for capacity Cap is finite and is explored COMPLETELY (no depth bound in effect);
            the last action is part of the view, so every (action, successor state) pair is reached and exported once.
     hist   no VIEW abstraction of the ghost: every behaviour up to MaxDepth is a distinct state; the ghost invariants
            (ExactlyOnceFifo, Bounded, NoAcceptAfterClose) are decided on all of them.
   Export: one action history per distinct (view) state, each step with the outcome the code must show (exp) and
   the known-finding sites (kf).  The driver executes a step on the real pair of endpoints at block scale
   512 / Cap: one model datagram stands for a block of that many real datagrams, so that the model's "full"
   coincides with the real channel's capacity of 512. *)
EXTENDS MemConn, Json

CONSTANTS MaxDepth,
          Lens,          \* datagram lengths
          BufIdx,        \* indices into BufTab: reader buffers
          WithLoop,      \* BOOLEAN: TestReadAndDiscardLoop actions enabled
          ExportEvery    \* 0: no export; k: export about one state in k
VARIABLES depth, hist, last
mcvars == <<q, closed, rd, dl, nid, out, acc, dlv, depth, hist, last>>

BufTab == << Buf(64, 64), Buf(2, 2), Buf(2, 8), Buf(0, 0), Buf(0, 3) >>

Step(rec) == /\ depth' = depth + 1
             /\ hist' = Append(hist, rec @@ [exp |-> out'])
             /\ last' = [a |-> rec.a, e |-> rec.e, x |-> rec.x]

MCInit == Init /\ depth = 0 /\ hist = <<>> /\ last = [a |-> "init", e |-> EA, x |-> 0]

MCNext == depth < MaxDepth /\
  \/ \E e \in Ends, n \in Lens :
        Write(e, n) /\ Step([a |-> "write", e |-> e, x |-> n, n |-> n, id |-> nid, kf |-> KfWrite(e) \o KfOver(out')])
  \/ \E e \in Ends, i \in BufIdx :
        Read(e, BufTab[i]) /\ Step([a |-> "read", e |-> e, x |-> i, len |-> BufTab[i].len, cap |-> BufTab[i].cap,
                                    kf |-> KfRead(e) \o KfOver(out')])
  \/ \E e \in Ends :
        Close(e) /\ Step([a |-> "close", e |-> e, x |-> 0, kf |-> KfClose(e)])
  \/ WithLoop /\ \E e \in Ends :
        StartLoop(e) /\ Step([a |-> "loop", e |-> e, x |-> 0, kf |-> KfRead(e)])

MCSpec == MCInit /\ [][MCNext]_mcvars

Lengths(s) == [i \in 1..Len(s) |-> s[i].n]
ViewMech == <<[e \in Ends |-> Lengths(q[e])], closed, rd, dl, last>>
ViewHist == <<q, closed, rd, dl, nid, acc, dlv, depth, last>>

DepthOK == depth \in 0..MaxDepth
Export == (ExportEvery > 0 /\ depth > 0 /\ (ExportEvery = 1 \/ RandomElement(1..ExportEvery) = 1)) => PrintT(ToJson(hist))
ExportLeaf == (ExportEvery > 0 /\ depth = MaxDepth /\ (ExportEvery = 1 \/ RandomElement(1..ExportEvery) = 1)) => PrintT(ToJson(hist))
=============================================================================
