---------------------------- MODULE RouterCheck ----------------------------
(***************************************************************************)
(* X05 (a): Session.ValidateDefaultRouter(addr)  (layer_icmp.go:620-648)    *)
(* and the echo waiter table it drives (ping, echoNotify).                  *)
(*                                                                         *)
(* Mechanism level (shaped like the code): the procedure is a sequence of   *)
(* at most three pings.  Ping 1 goes from the NIC's own address to the      *)
(* client; pings 2 and 3 carry the ROUTER's IPv4 address as source (and the *)
(* NIC's MAC), so the client answers them to "the router": the answer       *)
(* reaches us only when the client's route to the router points to us.      *)
(* A ping takes the next identifier of the process-wide waiter table,       *)
(* registers a waiter, sends, and waits until echoNotify(id) closes the     *)
(* waiter or its own two second timer fires (a nondeterministic step here); *)
(* it unregisters the waiter in every case.  The environment hands messages *)
(* to Session.Parse while a ping is outstanding: from inside the            *)
(* connection's WriteTo ("inline": the caller is still inside its send) or  *)
(* from another goroutine once the frame is on the wire ("after").          *)
(*                                                                         *)
(* Property level (what a caller relies on; `ans[j]` = an ICMP echo REPLY    *)
(* carrying the identifier of request j was handed to Parse while request j *)
(* was outstanding):                                                        *)
(*   nil              <=>  ans[1] /\ (ans[2] \/ ans[3])                     *)
(*   ErrTimeout       <=>  ~ans[1]                                          *)
(*   ErrNotRedirected <=>  ans[1] /\ ~ans[2] /\ ~ans[3]                     *)
(*   frames: one request from the own address, then at most two from the    *)
(*   router's address, a spoofed request only after an answered probe, the  *)
(*   third only after an unanswered second; identifiers pairwise distinct;  *)
(*   the waiter table holds none of the call's identifiers afterwards.      *)
(*                                                                         *)
(* Observed sites (behaviour of the code the statement does not forbid):    *)
(*   ObsAnySource   the waiter is matched by identifier only: a reply from  *)
(*                  another host wakes the ping                             *)
(*   ObsV6WakesV4   the table is shared by Ping and Ping6: an ICMPv6 echo   *)
(*                  reply with the identifier wakes an IPv4 ping            *)
(*   ObsSendErrorAsTimeout  a failed send of the probe is reported as       *)
(*                  ErrTimeout, a failed send of a spoofed request counts   *)
(*                  as an unanswered attempt                                *)
(***************************************************************************)
EXTENDS Naturals, Sequences, FiniteSets, TLC, Json

CONSTANTS MaxEv          \* environment messages per ping

VARIABLES pc,            \* "send" | "wait" | "post" | "done"
          k,             \* current ping: 1 probe, 2 / 3 spoofed attempts
          nid,           \* icmpTable.id relative to the start of the call (first identifier = 1)
          tab,           \* icmpTable.table: identifiers with a registered waiter
          rcv,           \* msgRecv of the current waiter
          sent,          \* frames written: <<[src, id]>>
          evs,           \* messages handed to Parse during the current ping
          inl,           \* the caller is still inside the connection's WriteTo
          res,           \* "none" | "nil" | "timeout" | "notredirected"
          ans,           \* property-level ghost, see above
          plan           \* what the driver needs to reproduce the behaviour
vars == <<pc, k, nid, tab, rcv, sent, evs, inl, res, ans, plan>>

WakeKinds == {"match", "othersrc", "v6"}     \* echo replies carrying the current identifier
Kinds == WakeKinds \cup {"foreign", "request", "late"}
   \* foreign: echo reply with an identifier nobody waits for;  request: echo REQUEST with the current identifier;
   \* late: echo reply with the identifier of the previous request of this call (its ping has ended)
Whens == {"inline", "after"}
Foreign == 1000

SrcOf(j) == IF j = 1 THEN "hostip" ELSE "routerip"
Cur == sent[Len(sent)].id

Init == /\ pc = "send" /\ k = 1 /\ nid = 1 /\ tab = {} /\ rcv = FALSE /\ sent = <<>> /\ evs = <<>>
        /\ inl = TRUE /\ res = "none" /\ ans = <<FALSE, FALSE, FALSE>> /\ plan = <<>>

\* ValidateDefaultRouter's control flow after ping k ended with `end` ("wake" | "timeout" | "fail")
Finish(end) ==
  /\ plan' = Append(plan, [k |-> k, fail |-> (end = "fail"), evs |-> evs, end |-> end])
  /\ evs' = <<>> /\ inl' = TRUE /\ rcv' = FALSE
  /\ CASE k = 1 /\ end = "wake"       -> pc' = "send" /\ k' = 2 /\ res' = "none"
       [] k = 1                        -> pc' = "post" /\ k' = 1 /\ res' = "timeout"        \* any error of the probe
       [] k \in {2, 3} /\ end = "wake" -> pc' = "post" /\ k' = k /\ res' = "nil"
       [] k = 2                        -> pc' = "send" /\ k' = 3 /\ res' = "none"
       [] OTHER                        -> pc' = "post" /\ k' = 3 /\ res' = "notredirected"

\* ping: id := table.id++, register, send
SendOk == /\ pc = "send"
          /\ nid' = nid + 1 /\ tab' = tab \cup {nid}
          /\ sent' = Append(sent, [src |-> SrcOf(k), id |-> nid])
          /\ pc' = "wait"
          /\ UNCHANGED <<k, rcv, evs, inl, res, ans, plan>>
\* the connection refuses the frame: the waiter is unregistered, the identifier is spent
SendFail == /\ pc = "send"
            /\ nid' = nid + 1
            /\ Finish("fail")
            /\ UNCHANGED <<tab, sent, ans>>

Target(kind) == CASE kind = "foreign" -> Cur + Foreign
                  [] kind = "late"    -> sent[Len(sent) - 1].id
                  [] OTHER            -> Cur
\* Session.Parse of one message; echoNotify(x) for echo replies of either family
Env(kind, when) ==
  /\ pc = "wait" /\ ~rcv /\ Len(evs) < MaxEv
  /\ when = "inline" => inl
  /\ kind = "late" => Len(sent) >= 2
  /\ LET x == Target(kind)
         notify == kind # "request"
         hit == notify /\ x \in tab
     IN /\ tab' = IF hit THEN tab \ {x} ELSE tab
        /\ rcv' = (hit /\ x = Cur)
        /\ ans' = IF notify /\ x = Cur THEN [ans EXCEPT ![k] = TRUE] ELSE ans
  /\ evs' = Append(evs, [kind |-> kind, when |-> when])
  /\ inl' = (inl /\ when = "inline")
  /\ UNCHANGED <<pc, k, nid, sent, res, plan>>

Wake == /\ pc = "wait" /\ rcv
        /\ Finish("wake")
        /\ UNCHANGED <<nid, tab, sent, ans>>
Timeout == /\ pc = "wait" /\ ~rcv
           /\ tab' = tab \ {Cur}
           /\ Finish("timeout")
           /\ UNCHANGED <<nid, sent, ans>>
\* after the call returned, replies for every identifier of the call arrive: nobody waits
Post == /\ pc = "post"
        /\ pc' = "done"
        /\ tab' = tab \ {sent[i].id : i \in 1..Len(sent)}
        /\ UNCHANGED <<k, nid, rcv, sent, evs, inl, res, ans, plan>>

Next == \/ SendOk \/ SendFail \/ Wake \/ Timeout \/ Post
        \/ \E kind \in Kinds, when \in Whens : Env(kind, when)
Spec == Init /\ [][Next]_vars

-----------------------------------------------------------------------------
TypeOK == /\ pc \in {"send", "wait", "post", "done"} /\ k \in 1..3 /\ nid \in 1..4
          /\ res \in {"none", "nil", "timeout", "notredirected"} /\ Len(sent) <= 3
\* mechanism: only the outstanding ping has a waiter, and none is left when the call has returned
TabOnlyCurrent == tab \subseteq (IF pc = "wait" /\ ~rcv THEN {Cur} ELSE {})
Returned == pc \in {"post", "done"}
TableEmptyAfterwards == Returned => tab = {}
\* property level
ResultRule == Returned =>
  /\ (res = "nil") <=> (ans[1] /\ (ans[2] \/ ans[3]))
  /\ (res = "timeout") <=> ~ans[1]
  /\ (res = "notredirected") <=> (ans[1] /\ ~ans[2] /\ ~ans[3])
FramesRule ==
  /\ \A i \in 1..Len(sent) : sent[i].src = (IF i = 1 THEN "hostip" ELSE "routerip")
  /\ \A i, j \in 1..Len(sent) : i # j => sent[i].id # sent[j].id
  /\ Len(sent) >= 2 => ans[1]                        \* a spoofed request only after an answered probe
  /\ (Returned /\ res = "nil") => Len(sent) \in {2, 3}
  /\ (Returned /\ res = "timeout") => Len(sent) <= 1
ThirdOnlyAfterUnansweredSecond == k = 3 => ~ans[2]

Export == pc = "done" => PrintT(ToJson([plan |-> plan, res |-> res, frames |-> sent, ans |-> ans]))
=============================================================================
