SPECIFICATION Spec
CONSTANTS
  RawMax = 2
  RawStride = 1
  PatLens = {3, 4, 5, 6, 7, 8, 9, 10, 11, 12, 13, 14, 15, 16, 17, 18, 19, 20, 21, 22, 23, 24, 25, 26, 27, 28, 29, 30,
             31, 32, 33, 39, 40, 41, 63, 64, 65, 1499, 1522}
  AllPosUpTo = 16
  WideAcc = FALSE
  LongMode = "quick"
  Families = {"raw", "pat", "hdr", "echo4", "echo6", "pair6", "fold", "fold32", "crit6", "long"}
INVARIANTS Lemmas Export
CHECK_DEADLOCK FALSE
