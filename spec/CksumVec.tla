------------------------------ MODULE CksumVec ------------------------------
(* C15 -- vector enumerator and lemma checker for Cksum.tla (direction C of DESIGN.md).

   One TLC state per vector descriptor (Init enumerates the descriptor space, there is no step).
   Invariants, evaluated once per state:
     Lemmas  -- MechConforms, SplitIndependent, VerifyZero on the vector's bytes
     Export  -- PrintT(ToJson([k, b, e])): kind, the bytes, and Stored(b) = the two checksum bytes in the
                order the library must store them.  Always TRUE.
   ASSUME-level (evaluated once): CarryFold, TwoFolds.

   Families
     raw   every byte string of length 0..RawMax (RawMax <= 2), length 2 thinned by RawStride
     pat   for every length in PatLens: carriers (zero, 0xff, alternating, counting, scrambled), and on each
           carrier one word set to each of WordVals at each of the first / last four word positions
     hdr   the 20-byte IPv4 header EncodeIP4 + SetPayload/AppendPayload must produce (checksum field zero)
           for ttl x protocol x payload length x address pair classes
     echo4 the ICMPv4 echo message of Session.ICMP4SendEchoRequest (checksum field zero), x the class of write failure
           (`flt`) the first transmission attempt meets (none, ENOBUFS, EAGAIN, wrapped, temporary, permanent)
     echo6 IPv6 pseudo-header ++ ICMPv6 echo message of Session.ICMP6SendEchoRequest (checksum field zero)
     fold  strings constructed so that the unfolded sum needs exactly 0, 1 or 2 folding steps (FoldsNeeded), in the
           big-endian reading of the definition and in the little-endian reading of the library's accumulator
     fold32 strings whose sum of 32-bit words (little- or big-endian) overflows 32 bits when the 64-bit accumulator is
           folded: the fold classes one level up, for implementations that add wider words
     crit6 pseudo-header ++ ICMPv6 echo message with data lengths that give ICMPv6 lengths 198, 199, 255, 256, 454, 511,
           1000, 1400, whose echo id is solved (Sub1c) so that the total one's-complement sum is a prescribed critical
           value (tiny, negative zero, byte swaps): the totals on which an implementation that adds the pseudo-header
           words separately and folds once too few goes wrong
     long  strings longer than a datagram (65 535 .. 200 001 bytes): the statement quantifies over every byte string.
           TLC decides with WrapLemma which of them the library as written can get right (no uint32 overflow) and
           exports the number of overflows `w` with the expected bytes
     pair6 the same message as echo6, to be sent directly after one other transmission (`pre`): Stored is a function of
           the bytes alone, so the expected bytes do not depend on what the session sent before (the transmit buffers
           are pooled; the echo message is the only ICMPv6 message of odd length) *)
EXTENDS Cksum, TLC, Json

CONSTANTS RawMax,      \* 0..2
          RawStride,   \* length-2 strings <<x, y>> are emitted when (x*256+y) % RawStride = 0 or x,y are boundary bytes
          PatLens,     \* set of lengths for the pattern family
          AllPosUpTo,  \* lengths <= AllPosUpTo perturb every word position, longer ones the first / last four
          WideAcc,     \* FALSE: the library accumulates in a uint32 as written (Acc32 / WrapLemma); TRUE: repaired (64 bit)
          LongMode,    \* "none" | "quick" | "thorough": which long strings (family long) are enumerated
          Families     \* subset of {"raw", "pat", "hdr", "echo4", "echo6", "pair6", "fold", "fold32", "crit6", "long"}

VARIABLE d

WordVals == {0, 1, 255, 256, 32767, 32768, 65534, 65535}
Carriers == 0..4
Edge     == {0, 1, 127, 128, 254, 255}

\* ------------------------------------------------------------------ descriptors
RawSet ==
  LET L0 == {[k |-> "raw", n |-> 0, car |-> 0, pos |-> 0, val |-> 0]}
      L1 == IF RawMax >= 1 THEN {[k |-> "raw", n |-> 1, car |-> 0, pos |-> x, val |-> 0] : x \in 0..255} ELSE {}
      L2 == IF RawMax >= 2
            THEN {[k |-> "raw", n |-> 2, car |-> 0, pos |-> x, val |-> y] :
                     <<x, y>> \in {p \in (0..255) \X (0..255) :
                                    (p[1] * 256 + p[2]) % RawStride = 0 \/ (p[1] \in Edge /\ p[2] \in Edge)}}
            ELSE {}
  IN  L0 \cup L1 \cup L2

WordPos(n) == LET nw == (n + 1) \div 2
              IN  IF n <= AllPosUpTo THEN 1..nw ELSE {p \in (1..4) \cup ((nw - 3)..nw) : p >= 1 /\ p <= nw}

PatSet ==
  UNION {
    {[k |-> "pat", n |-> n, car |-> c, pos |-> 0, val |-> 0] : c \in Carriers}
    \cup {[k |-> "pat", n |-> n, car |-> c, pos |-> p, val |-> v] : c \in {0, 1, 4}, p \in WordPos(n), v \in WordVals}
    : n \in PatLens }

\* concrete address classes (the harness uses the same bytes because it decodes them from the vector)
V4 == << <<192, 168, 0, 129>>, <<192, 168, 0, 1>>, <<10, 1, 2, 17>>, <<255, 255, 255, 255>>,
         <<0, 0, 0, 0>>, <<172, 20, 255, 254>>, <<127, 128, 255, 0>> >>
V4Pairs == {<<1, 2>>, <<2, 1>>, <<3, 4>>, <<5, 4>>, <<6, 3>>, <<7, 7>>, <<4, 4>>}

Zeros(n) == [i \in 1..n |-> 0]
V6 == << <<254, 128>> \o Zeros(12) \o <<255, 1>>,                                   \* fe80::ff:1 (vh.HostLLA)
         <<255, 2>> \o Zeros(13) \o <<1>>,                                          \* ff02::1
         <<32, 1, 13, 184>> \o Zeros(8) \o <<255, 255, 255, 255>>,                  \* 2001:db8::ffff:ffff
         <<254, 128>> \o Zeros(6) \o <<255, 255, 255, 255, 255, 255, 255, 255>>,    \* fe80::ffff:ffff:ffff:ffff
         <<32, 1, 13, 184, 0, 1, 0, 2, 0, 3, 0, 4, 0, 5, 0, 6>>,
         <<255, 2>> \o Zeros(13) \o <<2>> >>                                        \* ff02::2
V6Pairs == {<<1, 2>>, <<1, 4>>, <<3, 5>>, <<5, 3>>, <<4, 4>>, <<1, 6>>}

IdSeq == {0, 1, 255, 256, 4660, 32768, 65535}

HdrSet == {[k |-> "hdr", n |-> pl, car |-> ttl, pos |-> pr, val |-> ap[1] * 16 + ap[2]] :
             pl \in {0, 1, 7, 8, 23, 235, 236, 255, 256, 1479, 1480}, ttl \in {0, 1, 50, 64, 255},
             pr \in {0, 1, 6, 17, 58, 255}, ap \in V4Pairs}

\* Write failures: the first attempt to transmit fails with the given class of error; whatever the send function does
\* then (give up, try again), every frame that does reach the wire carries Stored(message) -- the expected bytes are a
\* function of the message alone, not of earlier attempts.  0 = no failure.
Faults == <<"", "ENOBUFS", "EAGAIN", "wrapped-ENOBUFS", "temporary", "permanent">>
Echo4Set == {[k |-> "echo4", n |-> id, car |-> sq, pos |-> f, val |-> 0] : id \in IdSeq, sq \in IdSeq, f \in 0..5}
Echo6Set == {[k |-> "echo6", n |-> id, car |-> sq, pos |-> f, val |-> ap[1] * 16 + ap[2]] :
               id \in IdSeq, sq \in {1, 256, 65535}, ap \in V6Pairs, f \in 0..5}

\* ---- fold classes.  nw = number of complete words, tail byte (odd n) = 0.
\*   class 0: one word v, rest zero                                  (sum v < 2^16)
\*   class 1: words 0x8000+v, 0x8001, rest zero                      (sum 2^16 + v + 1: one fold)
\*   class 2: nw-1 words 0xffff and one word w with 1 <= w <= nw-2   (sum (nw-1)*0xffff + w: hi + lo = 0xffff + w)
\* reading "be": the words are big-endian as in Words(b); reading "le": every word is byte-swapped, so that the
\* library's little-endian accumulator (MechAcc) sees the same numbers.
FoldLens == {6, 7, 8, 20, 21, 40, 64, 200, 208, 1500}
FoldVecSet == {[k |-> "fold", n |-> n, car |-> c, pos |-> rd, val |-> v] : n \in FoldLens, c \in 0..2, rd \in 0..1, v \in 1..2}
FoldWord(x, j) ==
  LET nw == x.n \div 2
      w  == CASE x.car = 0 -> IF j = 1 THEN x.val * 32767 ELSE 0
              [] x.car = 1 -> IF j = 1 THEN 32768 + x.val ELSE IF j = 2 THEN 32769 ELSE 0
              [] x.car = 2 -> IF j = nw THEN (IF x.val = 1 THEN 1 ELSE nw - 2) ELSE 65535
  IN  IF x.pos = 0 THEN w ELSE Swap(w)
FoldBytes(x) == [i \in 1..x.n |-> IF i > 2 * (x.n \div 2) THEN 0
                                 ELSE IF i % 2 = 1 THEN FoldWord(x, (i + 1) \div 2) \div 256
                                 ELSE FoldWord(x, i \div 2) % 256]

\* ---- long strings <<length, carrier>>: carrier 1 = all 0xff (largest sum), 4 = scrambled
LongQuick    == {<<65537, 4>>, <<131074, 1>>, <<131076, 1>>}
LongThorough == LongQuick \cup {<<65535, 4>>, <<65536, 4>>, <<65536, 1>>, <<131072, 4>>, <<131075, 1>>, <<200001, 1>>, <<200001, 4>>}
LongSet == {[k |-> "long", n |-> x[1], car |-> x[2], pos |-> 0, val |-> 0] :
              x \in (IF LongMode = "quick" THEN LongQuick ELSE IF LongMode = "thorough" THEN LongThorough ELSE {})}

\* ---- 32-bit-wide fold classes: k = n/4 - 1 words 0xffffffff and a last word w, 1 <= w <= k - 1 (k >= 2): the 64-bit sum is
\* (k-1) 2^32 + (2^32 - k + w), so hi32 + lo32 = 2^32 - 1 + w overflows 32 bits.  pos = 0: little-endian words, 1: big-endian.
Fold32Lens == {12, 16, 24, 64, 200, 1024, 1500}
Fold32Set == {[k |-> "fold32", n |-> n, car |-> 2, pos |-> rd, val |-> v] : n \in Fold32Lens, rd \in 0..1, v \in 1..2}
Fold32Bytes(x) ==
  LET k  == x.n \div 4 - 1
      w  == IF x.val = 1 THEN 1 ELSE k - 1
      lw == IF x.pos = 0 THEN <<w % 256, w \div 256, 0, 0>> ELSE <<0, 0, w \div 256, w % 256>>
  IN  [i \in 1..x.n |-> IF i <= 4 * k THEN 255 ELSE lw[i - 4 * k]]

\* ---- critical totals of the ICMPv6 pseudo-header sum
CritData == {190, 191, 247, 248, 446, 503, 992, 1392}
CritTotals == {1, 2, 255, 256, 512, 32768, 65023, 65279, 65534, 65535}
Crit6Set == {[k |-> "crit6", n |-> dl, car |-> t, pos |-> 0, val |-> ap[1] * 16 + ap[2]] :
               dl \in CritData, t \in CritTotals, ap \in {<<1, 2>>, <<3, 5>>}}
\* the transmission that precedes the echo request of a pair6 vector
PreFns == <<"ICMP6SendNeighbourSolicitation", "ICMP6SendNeighborAdvertisement", "ICMP6SendRouterAdvertisement",
            "ICMP6SendRouterSolicitation", "ICMP6SendEchoRequest", "ICMP4SendEchoRequest">>
Pair6Set == {[k |-> "pair6", n |-> id, car |-> 1, pos |-> pf, val |-> ap[1] * 16 + ap[2]] :
               id \in {1, 4660, 65535}, pf \in 1..Len(PreFns), ap \in V6Pairs}

Descriptors ==
  (IF "fold32" \in Families THEN Fold32Set ELSE {}) \cup
  (IF "long" \in Families THEN LongSet ELSE {}) \cup
  (IF "fold" \in Families THEN FoldVecSet ELSE {}) \cup (IF "crit6" \in Families THEN Crit6Set ELSE {}) \cup
  (IF "pair6" \in Families THEN Pair6Set ELSE {}) \cup
  (IF "raw" \in Families THEN RawSet ELSE {}) \cup (IF "pat" \in Families THEN PatSet ELSE {}) \cup
  (IF "hdr" \in Families THEN HdrSet ELSE {}) \cup (IF "echo4" \in Families THEN Echo4Set ELSE {}) \cup
  (IF "echo6" \in Families THEN Echo6Set ELSE {})

\* ------------------------------------------------------------------ descriptor -> bytes
CarByte(c, i) ==
  CASE c = 0 -> 0
    [] c = 1 -> 255
    [] c = 2 -> IF i % 2 = 1 THEN 0 ELSE 255
    [] c = 3 -> (i - 1) % 256
    [] c = 4 -> (i * 37 + 11 + (i \div 7) * 101) % 256

PatBytes(x) ==
  [i \in 1..x.n |->
     IF x.pos > 0 /\ i = 2 * x.pos - 1 THEN x.val \div 256
     ELSE IF x.pos > 0 /\ i = 2 * x.pos THEN x.val % 256
     ELSE CarByte(x.car, i)]

Be16(v) == <<v \div 256, v % 256>>

\* EncodeIP4 (layer_ip4.go:66-97) + SetPayload/AppendPayload (99-122): version/IHL 0x45, TOS 0xc0, total length,
\* id 0, flags/fragment 0, ttl, protocol, checksum 0, source, destination
HdrBytes(x) ==
  <<69, 192>> \o Be16(20 + x.n) \o <<0, 0, 0, 0, x.car, x.pos, 0, 0>> \o V4[x.val \div 16] \o V4[x.val % 16]

Hello == <<72, 69, 76, 76, 79, 45, 78, 69, 84, 70, 73, 76, 84, 69, 82>>       \* "HELLO-NETFILTER"
EchoMsg(typ, id, sq) == <<typ, 0, 0, 0>> \o Be16(id) \o Be16(sq) \o Hello

\* RFC 8200 section 8.1 pseudo-header: source, destination, 32-bit upper-layer length, 3 zero bytes, next header 58
Pseudo6(src, dst, len) == src \o dst \o <<0, 0>> \o Be16(len) \o <<0, 0, 0, 58>>

CritMsg(id, dl) == <<128, 0, 0, 0>> \o Be16(id) \o <<0, 1>> \o [i \in 1..dl |-> (i * 7 + 3) % 256]
CritBytes(x) ==
  LET ph   == Pseudo6(V6[x.val \div 16], V6[x.val % 16], 8 + x.n)
      base == Sum(ph \o CritMsg(0, x.n))
  IN  ph \o CritMsg(Sub1c(x.car, base), x.n)

Bytes(x) ==
  CASE x.k = "raw" -> IF x.n = 0 THEN <<>> ELSE IF x.n = 1 THEN <<x.pos>> ELSE <<x.pos, x.val>>
    [] x.k \in {"pat", "long"} -> PatBytes(x)
    [] x.k = "hdr" -> HdrBytes(x)
    [] x.k = "fold" -> FoldBytes(x)
    [] x.k = "fold32" -> Fold32Bytes(x)
    [] x.k = "crit6" -> CritBytes(x)
    [] x.k = "echo4" -> EchoMsg(8, x.n, x.car)
    [] x.k \in {"echo6", "pair6"} -> LET m == EchoMsg(128, x.n, x.car)
                        IN  Pseudo6(V6[x.val \div 16], V6[x.val % 16], Len(m)) \o m

\* ------------------------------------------------------------------ per-vector lemmas
SplitPoints(n) == IF n <= 24 THEN 0..n
                  ELSE IF n > 4096 THEN {1, 65535, n - 1}
                  ELSE {k \in {0, 1, 2, 3, n \div 2, n \div 2 + 1, n - 3, n - 2, n - 1, n} : k >= 0 /\ k <= n}
EvenOffsets(n) == IF n <= 24 THEN 0..n ELSE IF n > 4096 THEN {n - 3, n - 2} ELSE {0, 2, 10, 42, n - 3, n - 2}

Lemmas ==
  LET b == Bytes(d) \o <<>>
      n == Len(b)
  IN  /\ d.k # "long" => MechConforms(b)                 \* (the unbounded accumulator of MechAcc exceeds a TLC integer on long strings)
      /\ (~WideAcc /\ (d.k = "long" \/ n <= 64)) => WrapLemma(b)
      /\ SplitIndependent(b, SplitPoints(n))
      /\ VerifyZero(b, EvenOffsets(n))
      \* the constructions deliver what they promise
      /\ d.k = "fold" => (IF d.pos = 0 THEN FoldsNeeded(USum(b)) ELSE FoldsNeeded(MechAcc(b))) = d.car
      /\ d.k = "crit6" => Sum(b) = d.car
      /\ d.k = "fold32" => Fold32Carries(Acc64(b, IF d.pos = 0 THEN "le" ELSE "be"))

Export ==
  LET b == Bytes(d) \o <<>>
  IN  PrintT(ToJson([k |-> d.k, b |-> b, e |-> Stored(b), pre |-> IF d.k = "pair6" THEN PreFns[d.pos] ELSE "",
                         flt |-> IF d.k \in {"echo4", "echo6"} THEN Faults[d.pos + 1] ELSE "",
                         fb |-> IF d.k = "long" THEN -1 ELSE FoldsNeeded(USum(b)),
                         fm |-> IF d.k = "long" THEN -1 ELSE FoldsNeeded(MechAcc(b)),
                         w |-> IF d.k = "long" /\ ~WideAcc THEN Acc32(b).wraps ELSE 0]))

ASSUME CarryFold(800)
ASSUME TwoFolds
ASSUME FoldClasses
ASSUME ThreeTermTotals

Init == d \in Descriptors
Next == FALSE /\ UNCHANGED d
Spec == Init /\ [][Next]_d
=============================================================================
