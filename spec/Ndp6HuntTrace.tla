---------------------------- MODULE Ndp6HuntTrace ----------------------------
(* Trace validation of executions of the real icmp_spoofer.Handler6 against Ndp6Hunt.tla.
   Mode "M" (mechanism): every logged step must be the step Ndp6Hunt.tla takes: hunt list (in list
     order), router table, loop positions, the three facts each membership check reads, the error
     of each RA and the emitted frames must equal the specification's.  The process-global RA
     counter is NOT logged: its value at the start of the trace is inferred by TLC and it survives
     the reset lines.
   Mode "P" (property): the observables are adopted from the log, only the property level is computed.
   Two vocabularies - gated lines (start stop close check act timeout ra other) written by the
   harness-driven replays, and real-time lines (prefix rt.) written from the hook events of runs
   with the genuine 2.0-2.8 s timer, where timer expiry and RA wake-ups are not logged. *)
EXTENDS Ndp6Hunt, Json

CONSTANTS Mode, TraceFile
VARIABLES ln, skip
tvars == <<hunt, loops, routers, raCount, closed, panicked, captured, out, ev, refHunt, refClosed, refRouters, rl, pre, ln, skip>>

Trace == ndJsonDeserialize(TraceFile)
HW == 1
VI == 2
E == Trace[ln]

MacU == Targets \cup {NilMAC}
AllMacU == Targets \cup RouterMACs \cup {Own, RouterNIC, NilMAC}
IpU == TargetIPs \cup RouterIPs \cup {HostLLA, AllNodes}

\* ---- decoding of the logged observables
NAOK(f) == /\ f.ed \in AllMacU /\ f.tlla \in AllMacU /\ f.src \in IpU /\ f.dst \in IpU /\ f.tgt \in IpU
LFrame(f) == IF f.type = 136
             THEN [type |-> 136, ed |-> f.ed, src |-> f.src, dst |-> f.dst, hop |-> f.hop, tgt |-> f.tgt,
                   tlla |-> f.tlla, over |-> f.over, sol |-> f.sol, rtr |-> f.rtr]
             ELSE Other(f.type)
LFrames == [i \in 1..Len(E.frames) |-> LFrame(E.frames[i])]
\* a frame with an address outside the universe is still a frame: it fails the property predicates (or the
\* mechanism comparison) on its merits instead of making the line unreadable
FramesOK == \A i \in 1..Len(E.frames) : E.frames[i].type \in 0..255
HasState == "hunt" \in DOMAIN E
ListOK == \A i \in 1..Len(E.hunt) : E.hunt[i].mac \in Targets /\ E.hunt[i].ip \in TargetIPs
LHunt == [i \in 1..Len(E.hunt) |-> [mac |-> E.hunt[i].mac, ip |-> E.hunt[i].ip]]
RoutersOK == \A i \in 1..Len(E.routers) : E.routers[i].ip \in RouterIPs /\ E.routers[i].mac \in RouterMACs
LRouters == [r \in RouterIPs |-> IF \E i \in 1..Len(E.routers) : E.routers[i].ip = r
                                 THEN E.routers[CHOOSE i \in 1..Len(E.routers) : E.routers[i].ip = r].mac ELSE NilMAC]
PcObs(pc) == IF pc = "send" THEN "act" ELSE pc
PcsMatch == "pcs" \in DOMAIN E => [i \in 1..Len(loops') |-> PcObs(loops'[i].pc)] = E.pcs

Live == ~skip /\ Verdict = "none"
IsEvent(a) == Live /\ ln <= Len(Trace) /\ E.a = a /\ ln' = ln + 1 /\ FramesOK /\ skip' = FALSE

\* frames of a send round may leave in any order of the captured routers: compare as given by the log
Do(mm, rec, rr) ==
  /\ IF Mode = "M"
     THEN /\ mm /\ ev' = rec /\ out' = LFrames /\ PcsMatch
          /\ (HasState => ListOK /\ RoutersOK /\ hunt' = LHunt /\ routers' = LRouters)
     ELSE /\ ev' = rec /\ out' = LFrames
          /\ UNCHANGED <<loops, raCount, closed, panicked, captured>>
          /\ hunt' = IF HasState /\ ListOK THEN LHunt
                     ELSE IF HasState THEN <<>>
                     ELSE hunt
          /\ routers' = IF HasState /\ RoutersOK THEN LRouters ELSE routers
  /\ rr
  /\ ObserveRouters

Note == [kind |-> "note"]
RecordFailure == (~skip /\ Verdict # "none") => TLCSet(VI, Append(TLCGet(VI), <<ln - 1, Verdict>>))

\* reset: a new handler; the RA counter is a process global and keeps its value
TReset == /\ ln <= Len(Trace) /\ E.a = "reset" /\ ln' = ln + 1 /\ skip' = FALSE /\ RecordFailure
          /\ hunt' = <<>> /\ loops' = <<>> /\ routers' = [r \in RouterIPs |-> NilMAC]
          /\ closed' = FALSE /\ panicked' = FALSE /\ captured' = {} /\ out' = <<>> /\ ev' = [kind |-> "init"]
          /\ refHunt' = {} /\ refClosed' = FALSE /\ refRouters' = {} /\ rl' = <<>> /\ pre' = NoPre
          /\ UNCHANGED raCount

LoopKnown == E.l \in 1..Len(rl)
TStart == /\ (IsEvent("start") \/ IsEvent("rt.start")) /\ E.mac \in Targets /\ E.ip \in TargetIPs
          /\ Do(StartHuntM(E.mac, E.ip),
                [kind |-> "start", mac |-> E.mac, ip |-> E.ip, err |-> E.err, spawned |-> E.spawned],
                StartHuntR(E.mac, E.ip, E.spawned))
TCStart == /\ IsEvent("cstart") /\ E.mac \in Targets /\ E.ip \in TargetIPs
           /\ Do(ConcStartM(E.mac, E.ip, E.n),
                 [kind |-> "cstart", mac |-> E.mac, ip |-> E.ip, n |-> E.n, errs |-> E.errs, spawned |-> E.spawned],
                 StartHuntR(E.mac, E.ip, E.spawned))
TStop == /\ (IsEvent("stop") \/ IsEvent("rt.stop")) /\ E.mac \in Targets /\ E.ip \in TargetIPs
         /\ Do(StopHuntM(E.mac, E.ip), [kind |-> "stop", mac |-> E.mac, ip |-> E.ip], StopHuntR(E.mac, E.ip))
TClose == /\ (IsEvent("close") \/ IsEvent("rt.close"))
          /\ Do(CloseAndWakeM /\ E.stuck = <<>>, [kind |-> "close", stuck |-> Range(E.stuck)], CloseR)
CheckRec == [kind |-> "check", l |-> E.l, hunting |-> E.hunting, closed |-> E.closed, router |-> E.router, done |-> E.done]
TCheck == /\ IsEvent("check") /\ LoopKnown
          /\ Do(LoopCheckM(E.l), CheckRec, LoopCheckR(E.l))
TAct == /\ IsEvent("act") /\ LoopKnown
        /\ Do(\E o \in SetToSeqs(loops[E.l].list) : LoopSendRoundM(E.l, o, TRUE), [kind |-> "act", l |-> E.l], LoopSendRoundR(E.l))
TTimeout == /\ IsEvent("timeout") /\ LoopKnown
            /\ Do(TimeoutM(E.l), [kind |-> "timeout", l |-> E.l], IdleR)
TRa == /\ IsEvent("ra") /\ E.src \in RouterIPs /\ E.rmac \in RouterMACs
       /\ Do(RecvRAM(E.src, E.rmac, E.kind, TRUE),
             [kind |-> "ra", src |-> E.src, err |-> E.err, panic |-> "panic" \in DOMAIN E], IdleR)
TCapture == /\ (IsEvent("capture") \/ IsEvent("release")) /\ E.mac \in Targets
            /\ Do(CaptureM(E.mac, E.a = "capture"), [kind |-> "capture", mac |-> E.mac, on |-> E.a = "capture"], IdleR)
TOther == /\ IsEvent("other")
          /\ Do(RecvOtherM(E.kind), [kind |-> "other", what |-> E.kind], IdleR)

\* ---- real-time vocabulary
NoteStep(cond) == /\ (Mode = "M" => cond) /\ ev' = Note /\ out' = <<>> /\ IdleR
                  /\ UNCHANGED <<hunt, loops, routers, raCount, closed, panicked, captured>> /\ ObserveRouters
TRtLoop == /\ IsEvent("rt.loop") /\ LoopKnown
           /\ NoteStep(loops[E.l].mac = E.mac /\ rl[E.l].mac = E.mac)
\* a router entry was created or refreshed under the handler mutex (hook event); the RA counter is not tracked here
TRtLearn == /\ IsEvent("rt.learn") /\ E.ip \in RouterIPs /\ E.mac \in RouterMACs
            /\ ev' = Note /\ out' = <<>> /\ IdleR
            /\ routers' = IF routers[E.ip] = NilMAC THEN [routers EXCEPT ![E.ip] = E.mac] ELSE routers
            /\ UNCHANGED <<hunt, loops, raCount, closed, panicked, captured>> /\ ObserveRouters
\* the timer expiry / RA wake-up that precedes a check is not logged
TRtCheck == /\ IsEvent("rt.check") /\ LoopKnown
            /\ LET wake == [loops EXCEPT ![E.l].pc = "check", ![E.l].woken = FALSE] IN
               IF Mode = "M"
               THEN /\ loops[E.l].pc \in {"check", "sleep"}
                    /\ \E inlist \in {loops[E.l].mac \in HuntMacs} :
                         /\ ev' = CheckRec /\ ev'.hunting = inlist /\ ev'.closed = closed /\ ev'.router = (Learned # {})
                         /\ ev'.done = (~inlist \/ closed)
                         /\ loops' = IF ~inlist \/ closed THEN [wake EXCEPT ![E.l].pc = "done"]
                                     ELSE IF Learned # {} THEN [wake EXCEPT ![E.l].pc = "send", ![E.l].list = Learned]
                                     ELSE [wake EXCEPT ![E.l].pc = "sleep"]
                    /\ out' = <<>> /\ UNCHANGED <<hunt, routers, raCount, closed, panicked, captured>>
               ELSE /\ ev' = CheckRec /\ out' = <<>> /\ UNCHANGED <<hunt, loops, routers, raCount, closed, panicked, captured>>
            /\ LoopCheckR(E.l) /\ ObserveRouters
\* one NA written by a loop in its send round; a round of n routers is n lines: the loop stays in
\* "send" until its captured list is used up
TRtFrame == /\ IsEvent("rt.frame") /\ Len(E.frames) = 1 /\ E.l \in 1..Len(rl)
            /\ ev' = [kind |-> "act", l |-> E.l] /\ out' = LFrames
            /\ IF Mode = "M"
               THEN /\ loops[E.l].pc = "send" /\ LFrames[1].type = 136 /\ LFrames[1].tgt \in loops[E.l].list
                    /\ LFrames[1] = NA(loops[E.l].mac, loops[E.l].dst, LFrames[1].tgt)
                    /\ loops' = IF loops[E.l].list = {LFrames[1].tgt}
                                THEN [loops EXCEPT ![E.l].pc = "sleep", ![E.l].list = {}]
                                ELSE [loops EXCEPT ![E.l].list = @ \ {LFrames[1].tgt}]
               ELSE UNCHANGED loops
            /\ UNCHANGED <<hunt, routers, raCount, closed, panicked, captured>>
            \* property level: every frame of the round is covered by the same check
            /\ pre' = [NoPre EXCEPT !.snap = rl[E.l].snap, !.snapClosed = ~rl[E.l].fresh \/ rl[E.l].snapClosed, !.mac = rl[E.l].mac]
            /\ UNCHANGED <<refHunt, refClosed, rl>> /\ ObserveRouters
TRtDone == /\ IsEvent("rt.done") /\ LoopKnown
           /\ NoteStep(loops[E.l].pc = "done")

TraceInit == /\ ln = 1 /\ skip = FALSE /\ TLCSet(HW, 0) /\ TLCSet(VI, <<>>) /\ InitButCounter /\ raCount \in 0..3

TSkip == /\ ~Live /\ ln <= Len(Trace) /\ E.a # "reset" /\ ln' = ln + 1 /\ skip' = TRUE
         /\ RecordFailure
         /\ UNCHANGED vars

TraceNext == \/ TSkip \/ TReset \/ TStart \/ TCStart \/ TStop \/ TClose \/ TCheck \/ TAct \/ TTimeout \/ TRa \/ TOther \/ TCapture
             \/ TRtLoop \/ TRtLearn \/ TRtCheck \/ TRtFrame \/ TRtDone

TraceSpec == TraceInit /\ [][TraceNext]_tvars

Mark == TLCSet(HW, IF ln - 1 > TLCGet(HW) THEN ln - 1 ELSE TLCGet(HW))   \* CONSTRAINT, always TRUE
Last == (ln = Len(Trace) + 1 /\ ~skip /\ Verdict # "none") => TLCSet(VI, Append(TLCGet(VI), <<ln - 1, Verdict>>))

TraceAccepted ==
  /\ \A i \in 1..Len(TLCGet(VI)) : Print(<<"PROPERTY", TLCGet(VI)[i][2], "line", TLCGet(VI)[i][1]>>, TRUE)
  /\ IF TLCGet(HW) = Len(Trace) THEN Print(<<"ACCEPTED", Len(Trace), "failures", Len(TLCGet(VI))>>, TRUE)
     ELSE Print(<<"REJECTED", "line", TLCGet(HW) + 1>>, FALSE)
=============================================================================
