------------------------------ MODULE DhcpFile ------------------------------
(***************************************************************************)
(* The durable state of the DHCP server: the lease file as saveConfig      *)
(* writes it (handlers/dhcp4_spoofer/subnet_lease.go:240-271), damaged, and *)
(* read back by Config.New -> loadConfig / loadByteArray (144-238,          *)
(* dhcp4.go:129-160).  Serves C18 (fault enumeration).                      *)
(*                                                                          *)
(* A file is a sequence of LINES (tag, lease number, item number), exactly  *)
(* as the YAML encoder lays them out:                                       *)
(*   net1 / n1f*   the home subnet block          (tag "net1", "n1f")       *)
(*   net2 / n2f*   the netfilter subnet block     (tag "net2", "n2f")       *)
(*   leases        list header                                              *)
(*   per lease j:  cid cidb* state addr mac macb* ip port [ipoffer] oexp    *)
(*                 xid xidb* name dexp                                       *)
(* Write order matters: saveConfig truncates and rewrites the whole file,   *)
(* so a crash leaves a PREFIX; the prefix may end at a line boundary or     *)
(* inside a line (in the indentation / dash, inside the key, inside the     *)
(* value).                                                                  *)
(*                                                                          *)
(* Task "plan":  TLC enumerates, for every file structure reported by the   *)
(*   driver, every abstract fault case  cut(line, part) / subst(line, part) *)
(*   / del(line) / dup(line)  and prints it with the outcome the mechanism  *)
(*   model of the loader predicts (where the model commits to one).         *)
(*   The driver expands every abstract case into all concrete byte-level    *)
(*   faults of the class and restarts a real handler on each.               *)
(* Task "judge": TLC evaluates the property-level predicates C18_NoCrash,   *)
(*   C18_OnlyOriginal, C18_InHomeWithId, C18_Probe* on every real outcome and compares it     *)
(*   with the mechanism prediction (DRIFT when it differs).                 *)
(***************************************************************************)
EXTENDS Integers, Sequences, FiniteSets, TLC, Json

CONSTANTS Task, FilesFile, ResultsFile, N1      \* N1: size of the home LAN (addresses are offsets, see Dhcp.tla)
VARIABLE c                                      \* the case under evaluation

Files   == ndJsonDeserialize(FilesFile)       \* [id, lines: <<[tag, j, n]>>, leases: <<[k, mac, ip]>>]
Results == IF Task \in {"judge", "crash"} THEN ndJsonDeserialize(ResultsFile) ELSE <<>>

Parts  == {"bol", "key", "value", "eol"}       \* where inside a line a prefix ends / a byte is substituted
InHome(a) == a >= 0 /\ a < N1

-----------------------------------------------------------------------------
(* mechanism: what loadByteArray makes of a damaged file, at line granularity *)

LinesOf(f)    == Files[f].lines
NLease(f)     == Len(Files[f].leases)
LineIdx(f, tag, j) == {i \in 1..Len(LinesOf(f)) : LinesOf(f)[i].tag = tag /\ LinesOf(f)[i].j = j}
IpLine(f, j)  == CHOOSE i \in LineIdx(f, "ip", j) : TRUE
LastLine(f, j) == CHOOSE i \in 1..Len(LinesOf(f)) : LinesOf(f)[i].j = j /\ \A x \in 1..Len(LinesOf(f)) : LinesOf(f)[x].j = j => x <= i
All(f)        == 1..NLease(f)

\* the fields loadByteArray insists on: client id, state, addr.ip (and addr itself); the MAC and the rest are taken as found
Critical == {"cid", "cidb", "state", "addr", "ip"}
Binding  == Critical \cup {"mac", "macb"}                 \* lines that spell the (client id, MAC, IP) binding

\* Prediction: [kind, keep]   kind "exact": the loaded table is exactly the leases in keep, intact;
\*                            kind "subset": some subset of keep, intact (possibly empty: reset);
\*                            kind "open": the model does not commit (YAML corner), only the property level judges.
Exact(S)  == [kind |-> "exact", keep |-> S]
Subset(S) == [kind |-> "subset", keep |-> S]
Open      == [kind |-> "open", keep |-> {}]

PredictCut(f, i, part) ==
  LET L == LinesOf(f)
  IN IF i = 0 THEN Exact({})                                    \* empty file: yaml gives an empty table, nets nil -> reset
     ELSE LET t == L[i].tag
              j == L[i].j
              done == {x \in All(f) : x < j}                    \* leases written completely before line i
          IN IF j = 0 THEN Exact({})                            \* still inside the subnet blocks / list header: no lease yet
             ELSE IF part = "eol" THEN Exact(done \cup (IF i >= IpLine(f, j) THEN {j} ELSE {}))
             ELSE IF part = "key" THEN Subset(done)             \* partial key: YAML error -> reset (or the list item is dropped)
             ELSE IF part = "bol" THEN Subset(done \cup (IF i > IpLine(f, j) THEN {j} ELSE {}))
             ELSE \* inside the value
                  IF t = "ip" THEN Open                         \* a prefix of an address may itself be an address
                  ELSE IF i > IpLine(f, j) THEN Subset(done \cup {j})   \* xid / name / expiry damaged: reset or binding intact
                  ELSE Subset(done)

PredictDel(f, i) ==
  LET L == LinesOf(f)
      t == L[i].tag
      j == L[i].j
  IN IF j = 0 THEN (IF t \in {"net1", "net2", "leases"} THEN Subset(All(f)) ELSE Open)
     ELSE IF t \in {"state", "ip"} THEN Exact(All(f) \ {j})     \* state 0 / no address: the lease is skipped
     ELSE IF t \in {"cidb", "macb", "cid", "mac", "addr"} THEN Open
     ELSE Subset(All(f))

PredictDup(f, i) ==
  LET L == LinesOf(f)
      t == L[i].tag
      j == L[i].j
  IN IF t \in {"cidb", "macb"} THEN Open                        \* one more byte in the identifier
     ELSE Subset(All(f))                                        \* duplicate key: YAML error -> reset, or harmless

PredictSubst(f, i, part) ==
  LET L == LinesOf(f)
      t == L[i].tag
      j == L[i].j
  IN IF j > 0 /\ t \in Binding /\ part \in {"value", "key", "bol"} THEN Open
     ELSE IF j = 0 /\ t = "net1" /\ part = "key" THEN Open      \* the section name: Net1 stays nil (see C18_NoCrash)
     ELSE Subset(All(f))

\* a lease written without an address inside the home LAN is dropped by the loader in any case
ValidIdx(f) == {i \in All(f) : InHome(Files[f].leases[i].ip)}
Predict0(x) == CASE x.fault = "cut"   -> PredictCut(x.file, x.line, x.part)
                 [] x.fault = "del"   -> PredictDel(x.file, x.line)
                 [] x.fault = "dup"   -> PredictDup(x.file, x.line)
                 [] x.fault = "subst" -> PredictSubst(x.file, x.line, x.part)
                 [] OTHER -> Exact(All(x.file))                    \* "intact"
Predict(x) == [Predict0(x) EXCEPT !.keep = @ \cap ValidIdx(x.file)]

\* the abstract fault space of one file
Cases(f) ==
  LET n == Len(LinesOf(f))
  IN  {[file |-> f, fault |-> "intact", line |-> 0, part |-> "eol"]}
 \cup {[file |-> f, fault |-> "cut", line |-> i, part |-> p] : i \in 1..n, p \in Parts}
 \cup {[file |-> f, fault |-> "cut", line |-> 0, part |-> "eol"]}
 \cup {[file |-> f, fault |-> "subst", line |-> i, part |-> p] : i \in 1..n, p \in Parts \ {"eol"}}
 \cup {[file |-> f, fault |-> "subst", line |-> i, part |-> "eol"] : i \in 1..n}
 \cup {[file |-> f, fault |-> "del", line |-> i, part |-> "eol"] : i \in 1..n}
 \cup {[file |-> f, fault |-> "dup", line |-> i, part |-> "eol"] : i \in 1..n}

Tag(x) == IF x.line = 0 THEN "none" ELSE LinesOf(x.file)[x.line].tag
LeaseOf(x) == IF x.line = 0 THEN 0 ELSE LinesOf(x.file)[x.line].j

-----------------------------------------------------------------------------
(* property level: C18 on one real outcome r *)
\* r: [file, fault, line, part, off, ch, panic, hang, err, table: <<[k, mac, ip, st]>>, renew: <<[k, t, yi]>>, disc: [t, yi]]

Orig(f) == {[k |-> Files[f].leases[i].k, mac |-> Files[f].leases[i].mac, ip |-> Files[f].leases[i].ip] : i \in 1..NLease(f)}
Tab(r)  == {[k |-> r.table[i].k, mac |-> r.table[i].mac, ip |-> r.table[i].ip] : i \in 1..Len(r.table)}

C18_NoCrash(r)      == ~r.panic /\ ~r.hang
\* every binding after a damaged restart is one of the original bindings ...
C18_OnlyOriginal(r) == \A i \in 1..Len(r.table) :
                          [k |-> r.table[i].k, mac |-> r.table[i].mac, ip |-> r.table[i].ip] \in Orig(r.file)
\* ... lies in the home subnet, has a client identifier (and is an allocated lease)
C18_InHomeWithId(r) == \A i \in 1..Len(r.table) :
                          InHome(r.table[i].ip) /\ r.table[i].k # "cid:\"\"" /\ r.table[i].st = "allocated"
\* intact file: exactly the original bindings
\* (a lease the file holds without an address inside the home LAN -- written by an ACK of 0.0.0.0 -- must be dropped)
OrigValid(f) == {b \in Orig(f) : InHome(b.ip)}
C18_CleanLoad(r)    == r.fault = "intact" => Tab(r) = OrigValid(r.file) /\ Len(r.table) = Cardinality(OrigValid(r.file))
\* after a restart on the intact file the bindings keep being acknowledged and their addresses are not offered
\* to a new client (for damaged files the statement only demands no crash and no foreign binding)
C18_ProbeRenew(r)   == r.fault = "intact" => \A i \in 1..Len(r.renew) :
                          [k |-> r.renew[i].k, mac |-> r.renew[i].mac, ip |-> r.renew[i].ip] \in Orig(r.file)
                             => r.renew[i].t = "ack" /\ r.renew[i].yi = r.renew[i].ip
C18_ProbeNoReoffer(r) == r.fault = "intact" /\ r.disc.t = "offer" => ~(\E i \in 1..Len(r.table) : r.table[i].st = "allocated" /\ r.table[i].ip = r.disc.yi)

FailedGuards(r) ==
  IF r.hang \/ r.panic THEN {"C18_NoCrash"}
  ELSE (IF C18_OnlyOriginal(r) THEN {} ELSE {"C18_OnlyOriginal"})
  \cup (IF C18_InHomeWithId(r) THEN {} ELSE {"C18_InHomeWithId"})
  \cup (IF C18_CleanLoad(r) THEN {} ELSE {"C18_CleanLoad"})
  \cup (IF C18_ProbeRenew(r) THEN {} ELSE {"C18_ProbeRenew"})
  \cup (IF C18_ProbeNoReoffer(r) THEN {} ELSE {"C18_ProbeNoReoffer"})

\* mechanism conformance of a real outcome with the prediction
KeptIdx(r) == {i \in All(r.file) : [k |-> Files[r.file].leases[i].k, mac |-> Files[r.file].leases[i].mac, ip |-> Files[r.file].leases[i].ip] \in Tab(r)}
Conforms(r) ==
  LET p == Predict(r)
  IN IF r.panic \/ r.hang THEN p.kind = "open"
     ELSE CASE p.kind = "open"   -> TRUE
            [] p.kind = "exact"  -> Tab(r) \subseteq Orig(r.file) /\ KeptIdx(r) = p.keep
            [] p.kind = "subset" -> Tab(r) \subseteq Orig(r.file) /\ KeptIdx(r) \subseteq p.keep

-----------------------------------------------------------------------------
(* one-step specifications: every case is an initial state, the invariant prints / judges it *)

-----------------------------------------------------------------------------
(* Task "crash": the rewrite of the lease file after an ACK is interrupted after k bytes for real (the driver lowers
   RLIMIT_FSIZE to k for that one packet), over the previous version of the file. Whatever the implementation leaves
   behind -- a prefix of the new content when the file is truncated first, a splice new[..k] ++ old[k+1..] when it is
   overwritten in place -- is loaded by a new handler.  r: [hist, k, size, old, panic, hang, acked, table, ever]
   ever = every (client id, MAC, address) acknowledged in the history, the interrupted step included. *)
EverSet(r) == {[k |-> r.ever[i].k, mac |-> r.ever[i].mac, ip |-> r.ever[i].ip] : i \in 1..Len(r.ever)}
\* every binding loaded after the interrupted rewrite was acknowledged at some time, lies in the home subnet, has an id
C18_CrashOnlyAcked(r) == \A i \in 1..Len(r.table) :
                            /\ [k |-> r.table[i].k, mac |-> r.table[i].mac, ip |-> r.table[i].ip] \in EverSet(r)
                            /\ InHome(r.table[i].ip) /\ r.table[i].k # "cid:\"\"" /\ r.table[i].st = "allocated"
CrashGuards(r) == IF r.panic \/ r.hang THEN {"C18_NoCrash"}
                  ELSE IF C18_CrashOnlyAcked(r) THEN {} ELSE {"C18_CrashOnlyAcked"}
\* mechanism: WriteFile truncates, then writes: the file left behind is the first min(k, new size) bytes of the new content
CrashConforms(r) == r.panic \/ r.hang \/ r.size <= r.k

PlanCases == UNION {Cases(f) : f \in 1..Len(Files)}
Init == IF Task = "plan" THEN c \in PlanCases ELSE c \in 1..Len(Results)       \* "judge" and "crash": one state per outcome
Next == UNCHANGED c
Spec == Init /\ [][Next]_c

\* Task "plan": print every abstract case with the prediction (always TRUE)
Plan == PrintT(ToJson([file |-> c.file, fault |-> c.fault, line |-> c.line, part |-> c.part, tag |-> Tag(c), j |-> LeaseOf(c),
                       kind |-> Predict(c).kind, keep |-> Predict(c).keep]))

\* Task "judge": print the cases that fail a guard or depart from the prediction (always TRUE)
Judge == LET r == Results[c]
             g == FailedGuards(r)
             d == ~Conforms(r)
         IN (g # {} \/ d) => PrintT(ToJson([n |-> c, guards |-> g, drift |-> d, fault |-> r.fault, part |-> r.part,
                                            tag |-> Tag(r), j |-> LeaseOf(r)]))

\* Task "crash": print the outcomes that fail a guard or are not a prefix write (always TRUE)
JudgeCrash == LET r == Results[c]
                  g == CrashGuards(r)
                  d == ~CrashConforms(r)
              IN (g # {} \/ d) => PrintT(ToJson([n |-> c, guards |-> g, drift |-> d, hist |-> r.hist, k |-> r.k]))
=============================================================================
