------------------------------- MODULE Frame -------------------------------
(***************************************************************************)
(* Reference decoder of Ethernet frames for the properties C01, C02, C16   *)
(* of irai/packet (Session.Parse and the []byte view types).               *)
(*                                                                         *)
(* A frame is not a byte string here but an ABSTRACT SHAPE: the values of  *)
(* every length-bearing or table-selecting field (frame length, EtherType, *)
(* IHL, TotalLen, PayloadLen, protocol, ports, TCP data offset, ARP        *)
(* hlen/plen, source MAC class, source IP class).  All other bytes are     *)
(* free; the Go driver (harness/cmd/framedrv) fills them from VERIF_SEED,  *)
(* cycling over FreeByteFills (random, all zero, all ones: TTL / hop limit  *)
(* 0 and 255, id 0 and 0xffff, flow label, checksums, options ...).        *)
(* Parse is a function of the frame ALONE: the driver also parses every    *)
(* case again after each prefix of PrefixTransforms (frames derived from   *)
(* the case itself) and then a frame of a never-seen source (write path).  *)
(*                                                                         *)
(* Two levels (DESIGN 1.1):                                                *)
(*   property level  ParseOutcome(s)  - the documented EtherType /         *)
(*       IP-protocol / UDP-port table and the RFC length rules ("error     *)
(*       exactly when a mandatory header on the selected path is           *)
(*       truncated or length-inconsistent").  FieldTable gives, for every  *)
(*       getter of every view, its RFC position.                           *)
(*   mechanism level ParseM(s) - the staged validation as layer_frame.go   *)
(*       performs it today.  Deviations from the reference are NAMED by    *)
(*       Deviation(s) (eight classes until the fixes of round 1, see the   *)
(*       mechanism section; none now).  FrameVec.tla lets TLC check that   *)
(*       the mechanism differs from the reference on exactly the named     *)
(*       classes, i.e. at present that it equals the reference.            *)
(*                                                                         *)
(* Readings used where no RFC decides (package documentation followed):    *)
(*   - a frame whose SOURCE MAC has the group bit is PayloadEther and is   *)
(*     not decoded further ("only interested in unicast ethernet");        *)
(*   - 802.1Q / 802.1ad tagged frames are PayloadEther with the payload    *)
(*     after the tag(s) (18 / 22 bytes); a frame too short to hold its     *)
(*     tag is truncated, hence an error;                                   *)
(*   - EtherType < 1536 is Payload8023, unknown EtherTypes PayloadEther;   *)
(*   - the IPv4/IPv6 version nibble is not validated;                      *)
(*   - the IP protocol table is the same for both families (58 inside      *)
(*     IPv4 is reported as ICMP6, 1 inside IPv6 as ICMP4);                 *)
(*   - a layer-4 header is "truncated" when the FRAME does not hold it     *)
(*     (weakest reading).  The strict reading (it must lie inside IPv4     *)
(*     TotalLen / IPv6 PayloadLen) is computed as StrictErr(s) and only    *)
(*     counted by the check, never a verdict;                              *)
(*   - UDP.Len is not used for any decision (the UDP header has a fixed    *)
(*     size; the statement lists no offset that depends on it).            *)
(***************************************************************************)
EXTENDS Naturals, Integers, Sequences, FiniteSets, TLC

----------------------------------------------------------------------------
(* PayloadID values (layer_frame.go:17-47, README "Payload identification") *)
PEther == 1   P8023 == 2    PARP == 3    PIP4 == 4     PIP6 == 5
PICMP4 == 6   PICMP6 == 7   PUDP == 8    PTCP == 9     PDHCP4 == 10
PDHCP6 == 11  PDNS == 12    PMDNS == 13  PSSL == 14    PNTP == 15
PSSDP == 16   PWSDP == 17   PNBNS == 18  PPlex == 19   PUbiquiti == 20
PLLMNR == 21  PIGMP == 22   PPause == 23 PRRCP == 24   PLLDP == 25
P80211r == 26 P1905 == 27   PSonos == 28 P880a == 29
PayloadIDs == 1..29

(* EtherType values *)
EtIP4 == 2048     EtIP6 == 34525    EtARP == 2054
EtVLAN == 33024   EtQinQ == 34984            \* 0x8100, 0x88a8
EtPause == 34824  EtRRCP == 34969   EtLLDP == 35020  Et80211r == 35085
Et1905 == 35130   EtSonos == 26992  Et880a == 34826
NamedL2 == {EtPause, EtRRCP, EtLLDP, Et80211r, Et1905, EtSonos, Et880a}
EtLLCs == {0, 46, 1500, 1535}                \* length field of IEEE 802.3 (< 1536)
EtOthers == {1536, 34997, 65535}             \* unassigned / experimental / reserved
AllEtherTypes == {EtIP4, EtIP6, EtARP, EtVLAN, EtQinQ} \cup NamedL2 \cup EtLLCs \cup EtOthers

L2Id(et) == CASE et = EtPause -> PPause [] et = EtRRCP -> PRRCP [] et = EtLLDP -> PLLDP
              [] et = Et80211r -> P80211r [] et = Et1905 -> P1905 [] et = EtSonos -> PSonos
              [] et = Et880a -> P880a [] OTHER -> PEther

(* Ethernet header length: 14, plus one (0x8100) or two (0x88a8) 4-byte tags *)
HL(et) == IF et = EtVLAN THEN 18 ELSE IF et = EtQinQ THEN 22 ELSE 14

(* IP protocol numbers *)
ProtoUDP == 17  ProtoTCP == 6  ProtoICMP4 == 1  ProtoICMP6 == 58  ProtoIGMP == 2
ProtoOther == 253  ProtoNoNext == 59
ExtHeaderProtos == {0, 43, 44, 50, 51, 60, 4, 41}

----------------------------------------------------------------------------
(* The UDP port table: an ORDERED list of rows; the first matching row     *)
(* wins.  `either` ports match in both directions, `dst` ports only as     *)
(* destination (layer_frame.go:318-357).                                   *)
PortRows == <<
  [either |-> {443},   dst |-> {},             id |-> PSSL],
  [either |-> {},      dst |-> {67, 68},       id |-> PDHCP4],
  [either |-> {},      dst |-> {546, 547},     id |-> PDHCP6],
  [either |-> {53},    dst |-> {},             id |-> PDNS],
  [either |-> {5353},  dst |-> {},             id |-> PMDNS],
  [either |-> {5355},  dst |-> {},             id |-> PLLMNR],
  [either |-> {123},   dst |-> {},             id |-> PNTP],
  [either |-> {1900},  dst |-> {},             id |-> PSSDP],
  [either |-> {3702},  dst |-> {},             id |-> PWSDP],
  [either |-> {},      dst |-> {137, 138},     id |-> PNBNS],
  [either |-> {},      dst |-> {32412, 32414}, id |-> PPlex],
  [either |-> {10001}, dst |-> {},             id |-> PUbiquiti] >>

NamedPorts == UNION {PortRows[i].either \cup PortRows[i].dst : i \in DOMAIN PortRows}
UnnamedPort == 40000
EdgePorts == {0, 1, 65535}          \* legal values (RFC 768 / 9293) that no constant of the table hints at
PortClasses == NamedPorts \cup {UnnamedPort} \cup EdgePorts

RowMatches(r, sp, dp) == sp \in r.either \/ dp \in r.either \/ dp \in r.dst
MatchingRows(sp, dp) == {i \in DOMAIN PortRows : RowMatches(PortRows[i], sp, dp)}
MinOf(S) == CHOOSE x \in S : \A y \in S : x <= y
UDPId(sp, dp) == IF MatchingRows(sp, dp) = {} THEN PUDP
                 ELSE PortRows[MinOf(MatchingRows(sp, dp))].id

(* model-side checks on the table *)
PortTableDisjoint ==            \* no port is named by two rows: precedence only matters for PAIRS
  \A i, j \in DOMAIN PortRows : i # j =>
     (PortRows[i].either \cup PortRows[i].dst) \cap (PortRows[j].either \cup PortRows[j].dst) = {}
PortTableIsFunction ==          \* every ordered pair of port classes has exactly one PayloadID
  \A sp, dp \in PortClasses : Cardinality({id \in PayloadIDs : UDPId(sp, dp) = id}) = 1
PrecedenceOverlaps == {<<sp, dp>> \in PortClasses \X PortClasses : Cardinality(MatchingRows(sp, dp)) > 1}

----------------------------------------------------------------------------
(* Shapes of frames handed to Session.Parse                                 *)
FreeByteFills == {"random", "zero", "ones"}
(* prefixes parsed through the same session before the case is parsed again; the outcome must not change *)
PrefixTransforms == {"reverse",            \* addresses (MAC, IP) and ports swapped: the answer / the query of the case
                     "same-tuple",         \* same 5-tuple, other payload
                     "other-addresses",    \* same ports, other IP addresses
                     "reverse-then-other"} \* the reverse, then unrelated non-UDP traffic (ARP, ICMP echo), then the case
SrcMACs == {"client", "own", "router", "mcast", "bcast"}
Unicast(src) == src \in {"client", "own", "router"}

Base == [fam |-> "parse", path |-> "l2", src |-> "client", sip |-> "na",
         etype |-> 0, flen |-> 0, ihl |-> 0, tl |-> 0, pl |-> 0, proto |-> 0,
         sport |-> 0, dport |-> 0, doff |-> 0, itype |-> 0, hlen |-> 0, plen |-> 0,
         sha |-> "eth",           \* ARP sender hardware / protocol address class: "eth" = the Ethernet source (sip decides the IP),
                                  \* "own" / "router" = exactly the session's own / the router's MAC AND IPv4 address, "other" = a third station
         app |-> "none"]          \* structured content the driver writes where no field decides: see ShapesVlanInner, ShapesApp

Max(a, b) == IF a > b THEN a ELSE b
Min(a, b) == IF a < b THEN a ELSE b
NatOnly(S) == {x \in S : x >= 0}

(* outcome records *)
ErrO == [err |-> TRUE]
OkO(id, o4, o6, ou, ot, op, hasip, sp, dp, trk) ==
  [err |-> FALSE, id |-> id, ip4 |-> o4, ip6 |-> o6, udp |-> ou, tcp |-> ot, pay |-> op,
   hasip |-> hasip, sport |-> sp, dport |-> dp, tracked |-> trk]
PanicO == [err |-> FALSE, panic |-> TRUE]

(* host tracking rule (shared with Hosts.tla; mechanism level for C02, used by C16 to decide   *)
(* which cases must be allocation free)                                                       *)
Tracks(s) ==
  CASE s.path = "ip4" -> s.src # "own" /\ s.sip \in {"lan", "hostip", "routerip"}
    [] s.path = "ip6" -> s.src # "own" /\ (s.sip = "lla" \/ (s.sip \in {"gua", "ula"} /\ s.src # "router"))
    [] s.path = "arp" -> s.src # "own" /\ s.sip \in {"lan", "hostip", "routerip"}
    [] OTHER -> FALSE

----------------------------------------------------------------------------
(* PROPERTY LEVEL: the reference decoder                                    *)

(* layer 4 at offset `off`, `n` bytes of the frame remain, `o4`/`o6` offsets of the IP header *)
RefL4(s, o4, o6, off, n, ipid) ==
  LET trk == Tracks(s) IN
  CASE s.proto = ProtoUDP ->
         IF n < 8 THEN ErrO
         ELSE LET id == UDPId(s.sport, s.dport) IN
              OkO(id, o4, o6, off, 0, IF id = PUDP THEN off ELSE off + 8, TRUE, s.sport, s.dport, trk)
    [] s.proto = ProtoTCP ->
         IF n < 20 \/ s.doff < 5 \/ 4 * s.doff > n THEN ErrO
         ELSE OkO(PTCP, o4, o6, 0, off, off, TRUE, s.sport, s.dport, trk)
    [] s.proto = ProtoICMP4 -> IF n < 8 THEN ErrO ELSE OkO(PICMP4, o4, o6, 0, 0, off, TRUE, 0, 0, trk)
    [] s.proto = ProtoICMP6 -> IF n < 8 THEN ErrO ELSE OkO(PICMP6, o4, o6, 0, 0, off, TRUE, 0, 0, trk)
    [] s.proto = ProtoIGMP  -> OkO(PIGMP, o4, o6, 0, 0, off, TRUE, 0, 0, trk)
    [] OTHER -> OkO(ipid, o4, o6, 0, 0, off, TRUE, 0, 0, trk)

ParseOutcome(s) ==
  LET avail == s.flen - 14 IN
  IF s.flen < 14 THEN ErrO                                    \* Ethernet header truncated
  ELSE IF s.flen < HL(s.etype) THEN ErrO                      \* 802.1Q / 802.1ad tag truncated
  ELSE IF ~Unicast(s.src) THEN OkO(PEther, 0, 0, 0, 0, HL(s.etype), FALSE, 0, 0, FALSE)
  ELSE IF s.etype < 1536 THEN OkO(P8023, 0, 0, 0, 0, 14, FALSE, 0, 0, FALSE)
  ELSE IF s.etype = EtIP4 THEN
         IF avail < 20 \/ s.ihl < 5 \/ avail < 4 * s.ihl     \* header truncated / IHL inconsistent
            \/ s.tl < 4 * s.ihl \/ s.tl > avail               \* TotalLen inconsistent / datagram truncated
         THEN ErrO
         ELSE RefL4(s, 14, 0, 14 + 4 * s.ihl, avail - 4 * s.ihl, PIP4)
  ELSE IF s.etype = EtIP6 THEN
         IF avail < 40 \/ s.pl > avail - 40 THEN ErrO         \* header or declared payload truncated
         ELSE RefL4(s, 0, 14, 54, avail - 40, PIP6)           \* pl < avail-40: Ethernet padding, accepted
  ELSE IF s.etype = EtARP THEN
         IF avail < 28 \/ s.hlen # 6 \/ s.plen # 4 THEN ErrO
         ELSE OkO(PARP, 0, 0, 0, 0, 14, FALSE, 0, 0, Tracks(s))
  ELSE OkO(L2Id(s.etype), 0, 0, 0, 0, HL(s.etype), FALSE, 0, 0, FALSE)

(* strict reading: the layer-4 header must lie inside the declared IP payload *)
StrictErr(s) ==
  LET o == ParseOutcome(s) IN
  IF o.err THEN TRUE
  ELSE LET n == IF s.etype = EtIP4 THEN s.tl - 4 * s.ihl ELSE IF s.etype = EtIP6 THEN s.pl ELSE 0 IN
       /\ Unicast(s.src) /\ s.etype \in {EtIP4, EtIP6}
       /\ \/ s.proto = ProtoUDP /\ n < 8
          \/ s.proto = ProtoTCP /\ (n < 20 \/ 4 * s.doff > n)
          \/ s.proto \in {ProtoICMP4, ProtoICMP6} /\ n < 8

(* derived ranges of the views reached from Parse, relative to the start of each view; hi = -1 means  *)
(* "to the end of the view" (= end of the frame: the package does not trim Ethernet padding)           *)
ParseRanges(s) ==
  LET o == ParseOutcome(s) IN
  IF o.err THEN {}
  ELSE {[view |-> "Ether", g |-> "Payload", lo |-> HL(s.etype), hi |-> -1]}
       \cup (IF o.ip4 > 0 THEN {[view |-> "IP4", g |-> "Payload", lo |-> 4 * s.ihl, hi |-> s.tl]} ELSE {})
       \cup (IF o.ip6 > 0 THEN {[view |-> "IP6", g |-> "Payload", lo |-> 40, hi |-> -1]} ELSE {})
       \cup (IF o.udp > 0 THEN {[view |-> "UDP", g |-> "Payload", lo |-> 8, hi |-> -1]} ELSE {})
       \cup (IF o.tcp > 0 THEN {[view |-> "TCP", g |-> "Payload", lo |-> 4 * s.doff, hi |-> -1]} ELSE {})

(* a well-formed frame: accepted, nothing truncated even under the strict reading, no padding    *)
(* games; these are the frames whose parsing C16 requires to be allocation free                   *)
WellFormed(s) == ~ParseOutcome(s).err /\ ~StrictErr(s)

----------------------------------------------------------------------------
(* MECHANISM LEVEL: Session.Parse as written (layer_frame.go:152-413, /repo HEAD 8b87ea1)           *)
(*                                                                                                    *)
(* History.  Until the fix commits below the transcription deviated from the reference on eight      *)
(* named classes (each was an `open` known finding, now `fixed` in known_findings.d):                *)
(*   KF_ArpGuardPanic, KF_ArpGuardAcceptsShort, KF_ArpAcceptsBadLens   guard `len < 28 && arp[4] != 6`  e750d8d *)
(*   KF_VlanShortPayloadPanic        Ether.IsValid: 14 bytes only                                     9f521c8 *)
(*   KF_IP4AcceptsIHLBelow5, KF_IP4AcceptsTotalLenBelowIHL   IP4.IsValid: len >= 20, IHL, TotalLen    10e2599 *)
(*   KF_IP6RejectsPadding            IP6.IsValid: uint16(PayloadLen+40) == len                        7652c9d *)
(*   KF_TCPAcceptsBadDataOffset      TCP.IsValid: len >= 20 only                                      8b87ea1 *)
(* The transcription below is the FIXED code; the list of named deviations is empty, so the TLC      *)
(* invariant DeviationsNamed now states that the mechanism EQUALS the reference on every shape.      *)
(* A future deviation that is to be tolerated must be added to Deviation / NamedDeviations by name.  *)

MechL4(s, o4, o6, off, n, ipid) ==
  LET trk == Tracks(s) IN
  CASE s.proto = ProtoUDP ->
         IF n < 8 THEN ErrO                                                         \* UDP.IsValid
         ELSE LET id == UDPId(s.sport, s.dport) IN
              OkO(id, o4, o6, off, 0, IF id = PUDP THEN off ELSE off + 8, TRUE, s.sport, s.dport, trk)
    [] s.proto = ProtoTCP ->
         IF ~(n >= 20 /\ 4 * s.doff >= 20 /\ n >= 4 * s.doff) THEN ErrO             \* TCP.IsValid: length, data offset 5..15 inside the segment
         ELSE OkO(PTCP, o4, o6, 0, off, off, TRUE, s.sport, s.dport, trk)
    [] s.proto = ProtoICMP4 -> IF n < 8 THEN ErrO ELSE OkO(PICMP4, o4, o6, 0, 0, off, TRUE, 0, 0, trk)
    [] s.proto = ProtoICMP6 -> IF n < 8 THEN ErrO ELSE OkO(PICMP6, o4, o6, 0, 0, off, TRUE, 0, 0, trk)
    [] s.proto = ProtoIGMP  -> OkO(PIGMP, o4, o6, 0, 0, off, TRUE, 0, 0, trk)
    [] OTHER -> OkO(ipid, o4, o6, 0, 0, off, TRUE, 0, 0, trk)

ParseM(s) ==
  LET avail == s.flen - 14 IN
  IF ~(s.flen >= 14 /\ s.flen >= HL(s.etype)) THEN ErrO                           \* Ether.IsValid: header incl. 802.1Q / 802.1ad tag(s)
  ELSE IF ~Unicast(s.src) THEN OkO(PEther, 0, 0, 0, 0, HL(s.etype), FALSE, 0, 0, FALSE)
  ELSE IF s.etype < 1536 THEN OkO(P8023, 0, 0, 0, 0, 14, FALSE, 0, 0, FALSE)
  ELSE IF s.etype = EtIP4 THEN
         IF ~(avail >= 20 /\ 4 * s.ihl >= 20 /\ avail >= 4 * s.ihl
              /\ s.tl >= 4 * s.ihl /\ avail >= s.tl) THEN ErrO                     \* IP4.IsValid
         ELSE MechL4(s, 14, 0, 14 + 4 * s.ihl, avail - 4 * s.ihl, PIP4)
  ELSE IF s.etype = EtIP6 THEN
         IF ~(avail >= 40 /\ s.pl + 40 <= avail) THEN ErrO                          \* IP6.IsValid: int arithmetic, padding accepted
         ELSE MechL4(s, 0, 14, 54, avail - 40, PIP6)
  ELSE IF s.etype = EtARP THEN
         IF avail < 28 \/ s.hlen # 6 \/ s.plen # 4 THEN ErrO                        \* short-circuit: arp[4], arp[5] only with 28 bytes
         ELSE OkO(PARP, 0, 0, 0, 0, 14, FALSE, 0, 0, Tracks(s))
  ELSE OkO(L2Id(s.etype), 0, 0, 0, 0, HL(s.etype), FALSE, 0, 0, FALSE)

(* Frame.Payload() slices ether[offsetPayload:] and panics when the offset exceeds the frame *)
AccessorPanicM(s) == LET m == ParseM(s) IN
  ~m.err /\ "panic" \notin DOMAIN m /\ m.pay > s.flen

(* The named deviations of the mechanism from the reference (none at present). *)
Deviation(s) ==
  LET r == ParseOutcome(s)  m == ParseM(s) IN
  IF "panic" \in DOMAIN m THEN "UNNAMED"
  ELSE IF AccessorPanicM(s) THEN "UNNAMED"
  ELSE IF m = r THEN "none"
  ELSE "UNNAMED"

NamedDeviations == {"none"}

----------------------------------------------------------------------------
(* The class product: every boundary of every constant the code or the RFCs compare against     *)

FrameLens == {14, 15, 17, 18, 19, 21, 22, 23, 33, 34, 35, 41, 42, 43, 53, 54, 55, 59, 60, 61, 64,
              1513, 1514, 1515, 1518, 1522, 1523, 1600}

(* A. layer 2: every EtherType class x every source class x frame lengths (incl. < 14) *)
ShapesShort == {[Base EXCEPT !.path = "short", !.flen = n, !.etype = EtIP4] : n \in {0, 1, 13}}
ShapesL2 ==
  {[Base EXCEPT !.path = "l2", !.src = src, !.etype = et, !.flen = n] :
      src \in SrcMACs, et \in AllEtherTypes \ {EtIP4, EtIP6, EtARP}, n \in FrameLens}
  \cup \* IP / ARP EtherTypes from a group source address are not decoded
  {[Base EXCEPT !.path = "l2", !.src = src, !.etype = et, !.flen = n] :
      src \in {"mcast", "bcast"}, et \in {EtIP4, EtIP6, EtARP}, n \in {14, 15, 34, 42, 60}}

(* B. IPv4 header: IHL x available bytes x TotalLen, each around the others *)
IP4S(src, sip, avail, ihl, tl, proto, sp, dp, doff, it) ==
  [Base EXCEPT !.path = "ip4", !.src = src, !.sip = sip, !.etype = EtIP4, !.flen = 14 + avail,
               !.ihl = ihl, !.tl = tl, !.proto = proto, !.sport = sp, !.dport = dp, !.doff = doff, !.itype = it]
ShapesIP4Hdr ==
  UNION { UNION { {IP4S("client", "lan", avail, ihl, tl, proto, UnnamedPort, UnnamedPort, 5, 8) :
                      tl \in NatOnly({0, 19, 20, 4 * ihl - 1, 4 * ihl, 4 * ihl + 1, avail - 1, avail, avail + 1, 65535}),
                      proto \in {ProtoOther, ProtoUDP}} :
                  avail \in NatOnly({0, 1, 19, 20, 21, 4 * ihl - 1, 4 * ihl, 4 * ihl + 1, 4 * ihl + 8, 46, 90})} :
          ihl \in {0, 4, 5, 6, 15} }

(* C. layer 4 over a well-formed IP header: available bytes around 8 / 20 / 4*doff, with and without padding *)
L4Cases ==
  {[proto |-> ProtoUDP, n |-> n, doff |-> 0, it |-> 0] : n \in {0, 1, 7, 8, 9, 30, 1472}}
  \cup {[proto |-> ProtoTCP, n |-> n, doff |-> d, it |-> 0] :
           n \in {0, 19, 20, 21, 24, 40, 59, 60, 61, 80, 1460}, d \in {0, 4, 5, 6, 10, 15}}
  \cup {[proto |-> p, n |-> n, doff |-> 0, it |-> t] :
           p \in {ProtoICMP4, ProtoICMP6}, n \in {0, 7, 8, 9, 20}, t \in {0, 8, 3, 128, 129}}
  \cup {[proto |-> p, n |-> n, doff |-> 0, it |-> 0] : p \in {ProtoIGMP, ProtoOther, ProtoNoNext}, n \in {0, 8}}
  \* IPv6 extension headers (hop-by-hop 0, routing 43, fragment 44, ESP 50, AH 51, destination options 60) and IP-in-IP (4, 41):
  \* the documented table does not walk them: PayloadIP4 / PayloadIP6 with the payload after the fixed IP header
  \cup {[proto |-> p, n |-> n, doff |-> 0, it |-> 0] : p \in ExtHeaderProtos, n \in {0, 7, 8, 16, 48}}

ShapesIP4L4 ==
  {IP4S("client", "lan", 4 * ihl + c.n + pad, ihl, 4 * ihl + c.n, c.proto, UnnamedPort, UnnamedPort, c.doff, c.it) :
      ihl \in {5, 6, 15}, c \in L4Cases, pad \in {0, 7}}

IP6S(src, sip, avail, pl, nh, sp, dp, doff, it) ==
  [Base EXCEPT !.path = "ip6", !.src = src, !.sip = sip, !.etype = EtIP6, !.flen = 14 + avail,
               !.pl = pl, !.proto = nh, !.sport = sp, !.dport = dp, !.doff = doff, !.itype = it]
ShapesIP6Hdr ==
  UNION { {IP6S("client", "lla", avail, pl, nh, UnnamedPort, UnnamedPort, 5, 128) :
              pl \in NatOnly({0, avail - 41, avail - 40, avail - 39, 65535, 65496 + avail}) \cap 0..65535,
              nh \in {ProtoNoNext, ProtoUDP}} :
          avail \in {0, 1, 39, 40, 41, 46, 48, 100} }
ShapesIP6L4 ==
  {IP6S("client", "lla", 40 + c.n + pad, c.n, c.proto, UnnamedPort, UnnamedPort, c.doff, c.it) :
      c \in L4Cases, pad \in {0, 5}}

(* D. the UDP port table: every ordered pair of port classes, both families, empty and non-empty payload *)
ShapesPorts ==
  {IP4S("client", "lan", 20 + 8 + n, 5, 20 + 8 + n, ProtoUDP, sp, dp, 0, 0) :
      sp \in PortClasses, dp \in PortClasses, n \in {0, 12}}
  \cup {IP6S("client", "lla", 40 + 8 + n, 8 + n, ProtoUDP, sp, dp, 0, 0) :
      sp \in PortClasses, dp \in PortClasses, n \in {0, 12}}

(* E. ARP: available bytes around 5 / 18 / 28, hlen, plen *)
ARPS(src, sip, avail, hlen, plen) ==
  [Base EXCEPT !.path = "arp", !.src = src, !.sip = sip, !.etype = EtARP, !.flen = 14 + avail,
               !.hlen = hlen, !.plen = plen]
ShapesARP ==
  {ARPS(src, sip, avail, hlen, plen) :
      src \in {"client", "own"}, sip \in {"lan", "offlan", "zero"},
      avail \in {0, 1, 4, 5, 6, 13, 14, 17, 18, 19, 27, 28, 29, 46}, hlen \in {6, 0, 8}, plen \in {4, 0, 16}}

(* F. source classes: every source MAC class x source IP class on one well-formed frame per family *)
IP4Srcs == {"lan", "hostip", "routerip", "offlan", "zero", "bcast4"}
IP6Srcs == {"lla", "gua", "ula", "mcast6", "unspec6"}
ShapesSrc ==
  {IP4S(src, sip, 20 + 8 + 12, 5, 20 + 8 + 12, ProtoUDP, 123, UnnamedPort, 0, 0) : src \in SrcMACs, sip \in IP4Srcs}
  \cup {IP4S(src, sip, 20 + 20, 5, 20 + 20, ProtoTCP, 443, UnnamedPort, 5, 0) : src \in SrcMACs, sip \in IP4Srcs}
  \cup {IP6S(src, sip, 40 + 8 + 12, 8 + 12, ProtoUDP, 5353, 5353, 0, 0) : src \in SrcMACs, sip \in IP6Srcs}
  \cup {IP6S(src, sip, 40 + 24, 24, ProtoICMP6, 0, 0, 0, 135) : src \in SrcMACs, sip \in IP6Srcs}
  \cup {ARPS(src, sip, 28 + pad, 6, 4) : src \in SrcMACs, sip \in IP4Srcs, pad \in {0, 18}}
  \* ARP sender fields that name the session's own station or the router while another station transmits (proxy / spoofed ARP)
  \cup {[ARPS(src, IF sh = "own" THEN "hostip" ELSE IF sh = "router" THEN "routerip" ELSE "lan", 28 + pad, 6, 4) EXCEPT !.sha = sh] :
           src \in {"client", "router", "own"}, sh \in {"own", "router", "other"}, pad \in {0, 18}}
  \* TCP between edge port values
  \cup {IP4S("client", "lan", 20 + 20, 5, 20 + 20, ProtoTCP, sp, dp, 5, 0) : sp \in EdgePorts \cup {443}, dp \in EdgePorts \cup {80}}
  \cup {IP6S("client", "lla", 40 + 20, 20, ProtoTCP, sp, dp, 5, 0) : sp \in EdgePorts, dp \in EdgePorts}

(* G. 802.1Q / 802.1ad frames that carry a complete, well-formed IPv4 / IPv6 / ARP packet after the tag(s)   *)
(* (app = "inner-..": the driver writes the inner EtherType and packet).  Documented behaviour: PayloadEther,   *)
(* payload after the tag, nothing decoded (no IP view, no addresses, no host).                                  *)
ShapesVlanInner ==
  {[Base EXCEPT !.path = "l2", !.src = src, !.etype = et, !.flen = HL(et) + n, !.app = inner] :
      src \in {"client", "router", "own"}, et \in {EtVLAN, EtQinQ}, inner \in {"inner-ip4", "inner-ip6", "inner-arp"},
      n \in {0, 19, 20, 28, 40, 48, 100}}

(* H. application payloads behind recognised UDP ports, lengths around the thresholds of the payload views       *)
(* (DHCP4: 240 fixed bytes + options; DNS header: 12 bytes).  app = "dhcp4": the driver writes a BOOTP header,   *)
(* magic cookie and options so that the DHCP4 view laid over Frame.Payload() is valid where the length allows.  *)
ShapesApp ==
  {[IP4S("client", sip, 20 + 8 + n, 5, 20 + 8 + n, ProtoUDP, pp[1], pp[2], 0, 0) EXCEPT !.app = "dhcp4"] :
      sip \in {"zero", "lan"}, pp \in {<<68, 67>>, <<67, 68>>}, n \in {0, 1, 239, 240, 241, 242, 244, 300, 548}}
  \cup {[IP4S("client", "lan", 20 + 8 + n, 5, 20 + 8 + n, ProtoUDP, pp[1], pp[2], 0, 0) EXCEPT !.app = "dns"] :
      pp \in {<<UnnamedPort, 53>>, <<53, UnnamedPort>>, <<5353, 5353>>, <<UnnamedPort, 5355>>, <<137, 137>>}, n \in {0, 11, 12, 13, 40, 512}}
  \cup {[IP6S("client", "lla", 40 + 8 + n, 8 + n, ProtoUDP, pp[1], pp[2], 0, 0) EXCEPT !.app = "dns"] :
      pp \in {<<UnnamedPort, 53>>, <<5353, 5353>>, <<5355, UnnamedPort>>, <<546, 547>>}, n \in {0, 11, 12, 13, 40, 512}}

(* I. echo replies while a ping is in flight (app = "echo-waiter": the driver starts Session.Ping in a goroutine   *)
(* and writes the id of the registered waiter into the reply).  Parse must return for every byte string in every  *)
(* session state, also when the same reply arrives twice (the three buffers, and once more back to back).        *)
ShapesEchoWaiter ==
  {[IP4S("client", "lan", 20 + 8 + 16, 5, 20 + 8 + 16, p, 0, 0, 0, t) EXCEPT !.app = "echo-waiter"] :
      p \in {ProtoICMP4, ProtoICMP6}, t \in {0, 129, 8}}
  \cup {[IP6S("client", "lla", 40 + 8 + 16, 8 + 16, p, 0, 0, 0, t) EXCEPT !.app = "echo-waiter"] :
      p \in {ProtoICMP4, ProtoICMP6}, t \in {0, 129, 128}}

(* J. Session configuration classes.  Parse must return for every byte string in every session NewSession    *)
(* accepts, and what it decodes (error, PayloadID, offsets, addresses) does not depend on the NIC configuration; *)
(* only host tracking does (TracksCfg, mechanism level).                                                       *)
SessionConfigs == {"no-router-mac",      \* RouterAddr4.MAC empty (IPv6-only / isolated LAN)
                   "no-host-mac",        \* HostAddr4.MAC empty (tun-style NIC)
                   "no-host-lla",        \* HostLLA zero
                   "router-ip-invalid",  \* RouterAddr4.IP invalid
                   "lan-32",             \* HomeLAN4 = host address /32
                   "lan-0"}              \* HomeLAN4 = 0.0.0.0/0
InLAN(sip, cfg) == CASE cfg = "lan-0"  -> sip \in {"lan", "hostip", "routerip", "offlan", "zero", "bcast4"}
                     [] cfg = "lan-32" -> sip = "hostip"
                     [] OTHER          -> sip \in {"lan", "hostip", "routerip"}
IsOwn(src, cfg)    == src = "own" /\ cfg # "no-host-mac"        \* an empty configured MAC equals no frame MAC
IsRouter(src, cfg) == src = "router" /\ cfg # "no-router-mac"
TracksCfg(s, cfg) ==
  CASE s.path = "ip4" -> ~IsOwn(s.src, cfg) /\ InLAN(s.sip, cfg)
    [] s.path = "ip6" -> ~IsOwn(s.src, cfg) /\ (s.sip = "lla" \/ (s.sip \in {"gua", "ula"} /\ ~IsRouter(s.src, cfg)))
    [] s.path = "arp" -> ~IsOwn(s.src, cfg) /\ InLAN(s.sip, cfg)
    [] OTHER -> FALSE
WithCfg(o, s, cfg) == IF o.err \/ "panic" \in DOMAIN o THEN o
                      ELSE [o EXCEPT !.tracked = (o.hasip \/ o.id = PARP) /\ Unicast(s.src) /\ TracksCfg(s, cfg)]
ConfigShapes ==
  ShapesShort \cup ShapesSrc
  \cup {x \in ShapesARP : x.hlen = 6 /\ x.plen = 4 /\ x.flen \in {14 + 27, 14 + 28, 14 + 46}}
  \cup {x \in ShapesL2 : x.flen \in {14, 60}}
  \cup {x \in ShapesIP6Hdr : x.flen \in {14 + 40, 14 + 48}}
(* K. Session state and process-global knobs.  What Parse decodes is a function of the bytes: it must not      *)
(* depend on what other subsystems recorded for the frame's source (DHCP lease / offer, capture flag, host       *)
(* offline) nor on the level of the package logger (a process-global knob; output discarded).  Only Host /       *)
(* tracking may vary with the session state.                                                                     *)
SessionStates == {"dhcp-ack",           \* Session.DHCPv4Update(src MAC, a LAN address) has run: host entry + IP4Offer
                  "dhcp-offer",         \* Session.SetDHCPv4IPOffer(src MAC, a LAN address)
                  "captured",           \* Session.Capture(src MAC)
                  "captured-dhcp-ack",  \* both
                  "host-offline"}       \* the frame's source was tracked and has been marked offline by the ageing pass
(* table sizes: Parse must stay total (and decode the same) whatever the size of the host / MAC tables *)
HostsPerMAC == {1, 16, 31, 32, 33, 64, 255, 256}
TableStates == {"mac-hosts-1", "mac-hosts-16", "mac-hosts-31", "mac-hosts-32", "mac-hosts-33", "mac-hosts-64",
                "mac-hosts-255", "mac-hosts-256",   \* the source MAC already owns at least N tracked addresses (IPv4 in-LAN + link-local)
                "many-macs"}                        \* 320 other MACs are tracked, one IPv4 / link-local address each
LogLevels == {"error", "info", "debug"}  \* fastlog levels; "info" is the default of the package, "error" what the harness uses elsewhere
StateShapes ==
  ShapesApp \cup ShapesSrc \cup {x \in ShapesPorts : {x.sport, x.dport} \cap {67, 68} # {}}
ErrShapes ==       \* every shape on which a mandatory header is truncated or length-inconsistent
  {x \in ShapesShort \cup ShapesIP4Hdr \cup ShapesIP6Hdr \cup ShapesIP4L4 \cup ShapesIP6L4
         \cup {y \in ShapesARP : y.src = "client" /\ y.sip = "lan"} : ParseOutcome(x).err}
LogShapes == ErrShapes \cup ConfigShapes \cup ShapesApp
Env(c, st, lg) == [cfg |-> c, state |-> st, log |-> lg]
ConfigCases ==
  {[env |-> Env(c, "none", "error"), s |-> x] : c \in SessionConfigs, x \in ConfigShapes}
  \cup {[env |-> Env("default", st, "error"), s |-> x] : st \in SessionStates, x \in StateShapes}
  \cup {[env |-> Env("default", "none", lg), s |-> x] : lg \in LogLevels \ {"error"}, x \in LogShapes}
  \cup {[env |-> Env("default", "dhcp-ack", "debug"), s |-> x] : x \in ShapesApp}
  \cup {[env |-> Env("default", st, "error"), s |-> x] : st \in TableStates, x \in ShapesSrc}

ParseShapes == ShapesEchoWaiter \cup ShapesShort \cup ShapesL2 \cup ShapesIP4Hdr \cup ShapesIP4L4 \cup ShapesIP6Hdr
               \cup ShapesIP6L4 \cup ShapesPorts \cup ShapesARP \cup ShapesSrc \cup ShapesVlanInner \cup ShapesApp

----------------------------------------------------------------------------
(* C16: allocation cases = PayloadID class x address family x tracking status                   *)
(* status: "tracked" (host primed), "new" (first frame of that source), or the source class     *)
(* that makes the frame untracked by rule.                                                      *)
AllocFree(status) == status # "new"

WF4(src, sip, proto, sp, dp, n, doff, it) == IP4S(src, sip, 20 + n, 5, 20 + n, proto, sp, dp, doff, it)
WF6(src, sip, nh, sp, dp, n, doff, it)    == IP6S(src, sip, 40 + n, n, nh, sp, dp, doff, it)

(* Well-formed representative frames.  Every field that selects a code path inside Parse varies:      *)
(* every UDP port row in both directions, TCP with and without options, every ICMP type that Parse or  *)
(* a handler distinguishes (echo reply 0 / 129 wakes ping waiters, echo request, the five NDP types,   *)
(* destination unreachable), IGMP, an unknown protocol.                                                *)
AllocPortPairs == {<<p, UnnamedPort>> : p \in PortClasses} \cup {<<UnnamedPort, p>> : p \in PortClasses}
                  \cup {<<443, 53>>, <<53, 443>>, <<67, 68>>, <<68, 67>>, <<5353, 5353>>, <<137, 137>>}
ICMPTypes == {0, 8, 3, 5, 11, 128, 129, 133, 134, 135, 136, 137, 143}
L4Reps(fam, src, sip) ==
  LET W(proto, sp, dp, n, doff, it) == IF fam = 4 THEN WF4(src, sip, proto, sp, dp, n, doff, it)
                                                 ELSE WF6(src, sip, proto, sp, dp, n, doff, it) IN
  {W(ProtoUDP, pr[1], pr[2], 8 + 16, 0, 0) : pr \in AllocPortPairs}
  \cup {W(ProtoTCP, 443, UnnamedPort, 20 + 11, 5, 0), W(ProtoTCP, UnnamedPort, 80, 24 + 5, 6, 0)}
  \cup {W(p, 0, 0, 8 + 24, 0, t) : p \in {ProtoICMP4, ProtoICMP6}, t \in ICMPTypes}
  \cup {W(ProtoIGMP, 0, 0, 8, 0, 0), W(ProtoOther, 0, 0, 9, 0, 0), W(0, 0, 0, 16, 0, 0)}

AllocBase ==
  \* IP frames: tracked / new / untracked by rule
  {[s |-> sh, status |-> "tracked"] : sh \in L4Reps(4, "client", "lan") \cup L4Reps(6, "client", "lla") \cup L4Reps(6, "client", "gua")}
  \cup {[s |-> sh, status |-> "new"] : sh \in L4Reps(4, "client", "lan") \cup L4Reps(6, "client", "lla")}
  \cup {[s |-> sh, status |-> "own-mac"] : sh \in L4Reps(4, "own", "lan") \cup L4Reps(6, "own", "lla")}
  \cup {[s |-> sh, status |-> "off-lan"] : sh \in L4Reps(4, "client", "offlan")}
  \cup {[s |-> sh, status |-> "zero-ip"] : sh \in L4Reps(4, "client", "zero")}
  \cup {[s |-> sh, status |-> "router-gua"] : sh \in L4Reps(6, "router", "gua")}
  \cup {[s |-> sh, status |-> "mcast6-src"] : sh \in L4Reps(6, "client", "mcast6")}
  \cup {[s |-> sh, status |-> "group-mac"] : sh \in L4Reps(4, "mcast", "lan") \cup L4Reps(6, "bcast", "lla")}
  \* ARP
  \cup {[s |-> ARPS("client", "lan", 28 + pad, 6, 4), status |-> st] : pad \in {0, 18}, st \in {"tracked", "new"}}
  \cup {[s |-> ARPS("router", "routerip", 46, 6, 4), status |-> "tracked"]}
  \cup {[s |-> ARPS("own", "lan", 28, 6, 4), status |-> "own-mac"],
        [s |-> ARPS("client", "offlan", 28, 6, 4), status |-> "off-lan"],
        [s |-> ARPS("client", "zero", 46, 6, 4), status |-> "zero-ip"]}
  \* echo replies that wake a pending ping: the reply matches the only registered waiter / one of two (app = "echo-waiter":
  \* the driver starts Session.Ping / Ping6 before EVERY measured Parse and writes the waiter's id into the reply)
  \cup {[s |-> [WF4("client", "lan", ProtoICMP4, 0, 0, 8 + 24, 0, 0) EXCEPT !.app = "echo-waiter"], status |-> st] :
           st \in {"ping-pending-1", "ping-pending-2"}}
  \cup {[s |-> [WF6("client", "lla", ProtoICMP6, 0, 0, 8 + 24, 0, 129) EXCEPT !.app = "echo-waiter"], status |-> st] :
           st \in {"ping-pending-1", "ping-pending-2"}}
  \* layer-2 classes never create hosts
  \cup {[s |-> [Base EXCEPT !.etype = et, !.flen = 60, !.src = src], status |-> "no-ip"] :
           et \in NamedL2 \cup {EtVLAN, EtQinQ, 46, 34997}, src \in {"client", "router"}}

(* Two more dimensions (the statement is about every session the package accepts, not one tuning):      *)
(*   log   : level of the package logger: "error" (quiet harness) or "default" (Info, what a default       *)
(*           configured program runs with);                                                                *)
(*   quiet : "none" = frames back to back; "quiet" = the tracked, online host was silent for longer than  *)
(*           ProbeDeadline (and shorter than OfflineDeadline) before this frame.                           *)
(* AllocFree does not depend on either.                                                                    *)
AllocCases ==
  {[s |-> c.s, status |-> c.status, quiet |-> "none", log |-> lg] : c \in AllocBase, lg \in {"error", "default"}}
  \cup {[s |-> c.s, status |-> c.status, quiet |-> "quiet", log |-> lg] :
           c \in {x \in AllocBase : x.status = "tracked"}, lg \in {"error", "default"}}

(* Steady state with MANY hosts: frames of several tracked, online hosts interleaved.  A set is measured as a whole  *)
(* (round robin over the frames of all its hosts); the per-frame average must be 0.  "pair-*" sets alternate two hosts *)
(* whose addresses collide under a simple fold of the 16 address bytes (what a direct-mapped lookup cache would use). *)
AllocSets == {[name |-> "round-robin", hosts |-> n, families |-> fam] : n \in {2, 16, 64, 200}, fam \in {"ip4", "ip6", "dual", "dual+arp"}}
             \cup {[name |-> nm, hosts |-> 2, families |-> "dual"] :
                    nm \in {"pair-xor-fold", "pair-sum-fold", "pair-low-byte", "pair-crc8", "pair-v4-v6-same-fold"}}

AllocExpect(c) == [allocFree |-> AllocFree(c.status), quiet |-> c.quiet, log |-> c.log,
                   hostSet |-> Tracks(c.s) /\ Unicast(c.s.src) /\ c.s.path \in {"ip4", "ip6", "arp"},
                   o |-> ParseOutcome(c.s)]

----------------------------------------------------------------------------
(* FIELD TABLE: every getter of every view at its RFC position.                                  *)
(* uint : value = ((big-endian integer of bytes [off, off+n)) >> sh) mod 2^w) * mul + add        *)
(* bool : bit `sh` of byte `off`                                                                 *)
(* bytes / mac / ip4 / ip6 : the byte range [off, off+n)                                         *)
(* cstr : the bytes of [off, off+n) before the first zero byte                                   *)
U(v, g, off, n, sh, w)           == [v |-> v, g |-> g, k |-> "uint", off |-> off, n |-> n, sh |-> sh, w |-> w, mul |-> 1, add |-> 0]
UM(v, g, off, n, sh, w, mul, ad) == [v |-> v, g |-> g, k |-> "uint", off |-> off, n |-> n, sh |-> sh, w |-> w, mul |-> mul, add |-> ad]
Bl(v, g, off, bit)               == [v |-> v, g |-> g, k |-> "bool", off |-> off, n |-> 1, sh |-> bit, w |-> 1, mul |-> 1, add |-> 0]
Rg(v, g, k, off, n)              == [v |-> v, g |-> g, k |-> k, off |-> off, n |-> n, sh |-> 0, w |-> 0, mul |-> 1, add |-> 0]

FieldTable == {
  \* Ethernet II (IEEE 802.3 clause 3)
  Rg("Ether", "Dst", "mac", 0, 6), Rg("Ether", "Src", "mac", 6, 6), U("Ether", "EtherType", 12, 2, 0, 16),
  \* IPv4 (RFC 791 3.1)
  U("IP4", "Version", 0, 1, 4, 4), UM("IP4", "IHL", 0, 1, 0, 4, 4, 0), U("IP4", "TOS", 1, 1, 0, 8),
  U("IP4", "TotalLen", 2, 2, 0, 16), U("IP4", "ID", 4, 2, 0, 16),
  UM("IP4", "Flags", 6, 1, 5, 3, 32, 0),            \* the three flag bits, left in place (documented: "first 3 bits")
  Bl("IP4", "FlagDontFragment", 6, 6), Bl("IP4", "FlagMoreFragments", 6, 5),
  U("IP4", "Fragment", 6, 2, 0, 13),                \* fragment offset = low 13 bits of bytes 6-7
  U("IP4", "TTL", 8, 1, 0, 8), U("IP4", "Protocol", 9, 1, 0, 8), U("IP4", "Checksum", 10, 2, 0, 16),
  Rg("IP4", "Src", "ip4", 12, 4), Rg("IP4", "Dst", "ip4", 16, 4),
  \* IPv6 (RFC 8200 3)
  U("IP6", "Version", 0, 1, 4, 4), U("IP6", "TrafficClass", 0, 2, 4, 8), U("IP6", "FlowLabel", 1, 3, 0, 20),
  U("IP6", "PayloadLen", 4, 2, 0, 16), U("IP6", "NextHeader", 6, 1, 0, 8), U("IP6", "HopLimit", 7, 1, 0, 8),
  Rg("IP6", "Src", "ip6", 8, 16), Rg("IP6", "Dst", "ip6", 24, 16), UM("IP6", "HeaderLen", 0, 1, 0, 0, 0, 40),
  \* UDP (RFC 768)
  U("UDP", "SrcPort", 0, 2, 0, 16), U("UDP", "DstPort", 2, 2, 0, 16), U("UDP", "Len", 4, 2, 0, 16),
  U("UDP", "Checksum", 6, 2, 0, 16), UM("UDP", "HeaderLen", 0, 1, 0, 0, 0, 8),
  \* TCP (RFC 9293 3.1)
  U("TCP", "SrcPort", 0, 2, 0, 16), U("TCP", "DstPort", 2, 2, 0, 16), U("TCP", "Seq", 4, 4, 0, 32), U("TCP", "Ack", 8, 4, 0, 32),
  UM("TCP", "HeaderLen", 12, 1, 4, 4, 4, 0),        \* data offset in 32-bit words -> bytes
  Bl("TCP", "NS", 12, 0), Bl("TCP", "CWR", 13, 7), Bl("TCP", "ECE", 13, 6), Bl("TCP", "URG", 13, 5), Bl("TCP", "ACK", 13, 4),
  Bl("TCP", "PSH", 13, 3), Bl("TCP", "RST", 13, 2), Bl("TCP", "SYN", 13, 1), Bl("TCP", "FIN", 13, 0),
  U("TCP", "Window", 14, 2, 0, 16), U("TCP", "Checksum", 16, 2, 0, 16), U("TCP", "Urgent", 18, 2, 0, 16),
  \* ARP (RFC 826, Ethernet / IPv4)
  U("ARP", "HType", 0, 2, 0, 16), U("ARP", "Proto", 2, 2, 0, 16), U("ARP", "HLen", 4, 1, 0, 8), U("ARP", "PLen", 5, 1, 0, 8),
  U("ARP", "Operation", 6, 2, 0, 16), Rg("ARP", "SrcMAC", "mac", 8, 6), Rg("ARP", "SrcIP", "ip4", 14, 4),
  Rg("ARP", "DstMAC", "mac", 18, 6), Rg("ARP", "DstIP", "ip4", 24, 4),
  \* ICMP (RFC 792 / RFC 4443)
  U("ICMP", "Type", 0, 1, 0, 8), U("ICMP", "Code", 1, 1, 0, 8), U("ICMP", "Checksum", 2, 2, 0, 16), Rg("ICMP", "RestOfHeader", "bytes", 4, 4),
  U("ICMPEcho", "Type", 0, 1, 0, 8), U("ICMPEcho", "Code", 1, 1, 0, 8), U("ICMPEcho", "Checksum", 2, 2, 0, 16),
  U("ICMPEcho", "EchoID", 4, 2, 0, 16), U("ICMPEcho", "EchoSeq", 6, 2, 0, 16),
  \* the layout documented in layer_icmp.go:113-131 (Num Addrs, Addr Entry Size, Lifetime, entries from byte 8)
  U("ICMP4Redirect", "Type", 0, 1, 0, 8), U("ICMP4Redirect", "Code", 1, 1, 0, 8), U("ICMP4Redirect", "Checksum", 2, 2, 0, 16),
  U("ICMP4Redirect", "NumAddrs", 4, 1, 0, 8), U("ICMP4Redirect", "AddrSize", 5, 1, 0, 8), U("ICMP4Redirect", "Lifetime", 6, 2, 0, 16),
  \* NDP (RFC 4861 4.1-4.5, RFC 4191 2.2, RFC 4389)
  U("ICMP6RouterSolicitation", "Type", 0, 1, 0, 8), U("ICMP6RouterSolicitation", "Code", 1, 1, 0, 8), U("ICMP6RouterSolicitation", "Checksum", 2, 2, 0, 16),
  U("ICMP6RouterAdvertisement", "Type", 0, 1, 0, 8), U("ICMP6RouterAdvertisement", "Code", 1, 1, 0, 8), U("ICMP6RouterAdvertisement", "Checksum", 2, 2, 0, 16),
  U("ICMP6RouterAdvertisement", "CurrentHopLimit", 4, 1, 0, 8), U("ICMP6RouterAdvertisement", "Flags", 5, 1, 0, 8),
  Bl("ICMP6RouterAdvertisement", "ManagedConfiguration", 5, 7), Bl("ICMP6RouterAdvertisement", "OtherConfiguration", 5, 6),
  Bl("ICMP6RouterAdvertisement", "HomeAgent", 5, 5), U("ICMP6RouterAdvertisement", "Preference", 5, 1, 3, 2),
  Bl("ICMP6RouterAdvertisement", "ProxyFlag", 5, 2), U("ICMP6RouterAdvertisement", "Lifetime", 6, 2, 0, 16),
  U("ICMP6RouterAdvertisement", "ReachableTime", 8, 4, 0, 32), U("ICMP6RouterAdvertisement", "RetransmitTimer", 12, 4, 0, 32),
  U("ICMP6NeighborAdvertisement", "Type", 0, 1, 0, 8), U("ICMP6NeighborAdvertisement", "Code", 1, 1, 0, 8), U("ICMP6NeighborAdvertisement", "Checksum", 2, 2, 0, 16),
  Bl("ICMP6NeighborAdvertisement", "Router", 4, 7), Bl("ICMP6NeighborAdvertisement", "Solicited", 4, 6), Bl("ICMP6NeighborAdvertisement", "Override", 4, 5),
  Rg("ICMP6NeighborAdvertisement", "TargetAddress", "ip6", 8, 16),
  U("ICMP6NeighborSolicitation", "Type", 0, 1, 0, 8), U("ICMP6NeighborSolicitation", "Code", 1, 1, 0, 8), U("ICMP6NeighborSolicitation", "Checksum", 2, 2, 0, 16),
  Rg("ICMP6NeighborSolicitation", "TargetAddress", "ip6", 8, 16),
  U("ICMP6Redirect", "Type", 0, 1, 0, 8), U("ICMP6Redirect", "Code", 1, 1, 0, 8), U("ICMP6Redirect", "Checksum", 2, 2, 0, 16),
  Rg("ICMP6Redirect", "TargetAddress", "bytes", 8, 16), Rg("ICMP6Redirect", "DstAddress", "bytes", 24, 16),
  \* DHCPv4 / BOOTP (RFC 2131 2)
  U("DHCP4", "OpCode", 0, 1, 0, 8), U("DHCP4", "HType", 1, 1, 0, 8), U("DHCP4", "HLen", 2, 1, 0, 8), U("DHCP4", "Hops", 3, 1, 0, 8),
  Rg("DHCP4", "XId", "bytes", 4, 4), U("DHCP4", "Secs", 8, 2, 0, 16), U("DHCP4", "Flags", 10, 2, 0, 16), Bl("DHCP4", "Broadcast", 10, 7),
  Rg("DHCP4", "CIAddr", "ip4", 12, 4), Rg("DHCP4", "YIAddr", "ip4", 16, 4), Rg("DHCP4", "SIAddr", "ip4", 20, 4), Rg("DHCP4", "GIAddr", "ip4", 24, 4),
  Rg("DHCP4", "CHAddr", "mac", 28, 6), Rg("DHCP4", "SName", "cstr", 44, 64), Rg("DHCP4", "File", "cstr", 108, 128), Rg("DHCP4", "Cookie", "bytes", 236, 4),
  \* DNS header (RFC 1035 4.1.1)
  U("DNS", "TransactionID", 0, 2, 0, 16), Bl("DNS", "QR", 2, 7), U("DNS", "OpCode", 2, 1, 3, 4), Bl("DNS", "AA", 2, 2), Bl("DNS", "TC", 2, 1),
  Bl("DNS", "RD", 2, 0), Bl("DNS", "RA", 3, 7), U("DNS", "Z", 3, 1, 4, 3), U("DNS", "ResponseCode", 3, 1, 0, 4),
  U("DNS", "QDCount", 4, 2, 0, 16), U("DNS", "ANCount", 6, 2, 0, 16), U("DNS", "NSCount", 8, 2, 0, 16), U("DNS", "ARCount", 10, 2, 0, 16),
  \* IEEE 802.2 LLC / SNAP
  U("LLC", "DSAP", 0, 1, 0, 8), U("LLC", "SSAP", 1, 1, 0, 8), U("LLC", "Control", 2, 1, 0, 8),
  U("SNAP", "DSAP", 0, 1, 0, 8), U("SNAP", "SSAP", 1, 1, 0, 8), U("SNAP", "Control", 2, 1, 0, 8),
  Rg("SNAP", "OrganisationID", "bytes", 3, 3), U("SNAP", "EtherType", 6, 2, 0, 16),
  \* Realtek RRCP (layout documented in layer_rrcp.go)
  U("RRCP", "Protocol", 0, 1, 0, 8), Bl("RRCP", "Reply", 1, 7), U("RRCP", "OpCode", 1, 1, 0, 7), U("RRCP", "AuthKey", 2, 2, 0, 16),
  U("RRCP", "RegisterAddr", 4, 2, 0, 16), U("RRCP", "RegisterData", 6, 2, 0, 16), Rg("RRCP", "SixBytes", "bytes", 1, 6),
  \* IEEE 1905.1 CMDU header
  U("IEEE1905", "Version", 0, 1, 0, 8), U("IEEE1905", "Reserved", 1, 1, 0, 8), U("IEEE1905", "Type", 2, 2, 0, 16), U("IEEE1905", "ID", 4, 2, 0, 16),
  U("IEEE1905", "FragmentID", 6, 1, 0, 8), U("IEEE1905", "Flags", 7, 1, 0, 8),
  \* IEEE 802.3x PAUSE
  U("EthernetPause", "Opcode", 0, 2, 0, 16), U("EthernetPause", "Duration", 2, 2, 0, 16),
  \* IPv6 hop-by-hop options header (RFC 8200 4.3): length in 8-octet units not counting the first 8
  U("HopByHopExtensionHeader", "NextHeader", 0, 1, 0, 8), UM("HopByHopExtensionHeader", "Len", 1, 1, 0, 8, 8, 8)
}

ViewNames == {r.v : r \in FieldTable} \cup {"LLDP", "Unknown880a"}

(* The header fields Parse reads to classify a frame and to place its views.  C16: the views alias the buffer at the   *)
(* offsets Parse DECODED; writing any of these fields afterwards (through the buffer or through a view) changes the   *)
(* content of the views, never their position or length: every accessor re-fetched from the same Frame returns the   *)
(* same pointer and length as before the write.                                                                      *)
ClassifyingFields == {<<"Ether", "EtherType">>, <<"Ether", "Src">>, <<"IP4", "IHL">>, <<"IP4", "TotalLen">>, <<"IP4", "Protocol">>,
                      <<"IP4", "Src">>, <<"IP6", "PayloadLen">>, <<"IP6", "NextHeader">>, <<"IP6", "Src">>,
                      <<"UDP", "SrcPort">>, <<"UDP", "DstPort">>, <<"UDP", "Len">>, <<"TCP", "SrcPort">>, <<"TCP", "DstPort">>,
                      <<"TCP", "HeaderLen">>, <<"ARP", "HLen">>, <<"ARP", "PLen">>, <<"ARP", "SrcIP">>, <<"ICMP", "Type">>}

(* getters that are called (C01: no panic, no hang, results inside the view) but whose VALUE is not     *)
(* compared: renderers, checksum (C15), parsers returning maps / structs (C08, C17), convenience wrappers *)
UncomparedEverywhere == {"String"}
Uncompared == {<<"IP4", "CalculateChecksum">>, <<"ICMP6RouterSolicitation", "Options">>,
               <<"ICMP6RouterAdvertisement", "Options">>, <<"HopByHopExtensionHeader", "ParseHopByHopExtensions">>,
               <<"LLC", "Type">>, <<"Ether", "SrcIP">>, <<"Ether", "DstIP">>}
(* getters whose value is a derived range or number given per view shape (ViewShapes below) *)
DerivedGetters == {<<"Ether", "Payload">>, <<"Ether", "HeaderLen">>, <<"IP4", "Payload">>, <<"IP6", "Payload">>, <<"UDP", "Payload">>,
                   <<"TCP", "Payload">>, <<"ICMP", "Payload">>, <<"ICMPEcho", "EchoData">>, <<"ICMP4Redirect", "Addrs">>,
                   <<"ICMP6RouterSolicitation", "SourceLLA">>, <<"ICMP6NeighborAdvertisement", "TargetLLA">>,
                   <<"ICMP6NeighborSolicitation", "SourceLLA">>, <<"ICMP6Redirect", "TargetLinkLayerAddr">>,
                   <<"DHCP4", "Options">>, <<"DHCP4", "ParseOptions">>, <<"SNAP", "Payload">>, <<"RRCP", "Zeros">>, <<"IEEE1905", "TLV">>,
                   <<"EthernetPause", "Reserved">>, <<"LLC", "Payload">>, <<"LLDP", "ChassisID">>, <<"LLDP", "PortID">>,
                   <<"HopByHopExtensionHeader", "Data">>}

----------------------------------------------------------------------------
(* FIELD VECTORS: bit patterns per uint / bool row, expected value computed here.               *)
(* A pattern is the set of bit indexes (0 = least significant bit of the LAST covering byte)     *)
(* that are one; bytes and expected values are byte sequences so that 32-bit fields do not      *)
(* overflow TLC's integers.                                                                      *)
ByteAt(ones, base) ==
    (IF base \in ones THEN 1 ELSE 0) + (IF base + 1 \in ones THEN 2 ELSE 0) + (IF base + 2 \in ones THEN 4 ELSE 0)
  + (IF base + 3 \in ones THEN 8 ELSE 0) + (IF base + 4 \in ones THEN 16 ELSE 0) + (IF base + 5 \in ones THEN 32 ELSE 0)
  + (IF base + 6 \in ones THEN 64 ELSE 0) + (IF base + 7 \in ones THEN 128 ELSE 0)
BytesOf(ones, n) == [k \in 1..n |-> ByteAt(ones, 8 * (n - k))]          \* big endian
FieldOnes(r, ones) == {i - r.sh : i \in {j \in ones : j >= r.sh /\ j < r.sh + r.w}}
NumRows == {r \in FieldTable : r.k \in {"uint", "bool"} /\ r.w > 0}
Patterns(r) ==
  LET all == 0..(8 * r.n - 1)  fld == r.sh..(r.sh + r.w - 1) IN
  {[name |-> "zero", ones |-> {}], [name |-> "ones", ones |-> all],
   [name |-> "field-only", ones |-> fld], [name |-> "rest-only", ones |-> all \ fld]}
  \cup {[name |-> "bit", ones |-> {i}] : i \in fld}
  \cup {[name |-> "neighbour-bit", ones |-> {i}] : i \in {r.sh - 1, r.sh + r.w} \cap all}
FieldVectors ==
  UNION {{[fam |-> "field", view |-> r.v, g |-> r.g, k |-> r.k, off |-> r.off, pattern |-> p.name,
           bytes |-> BytesOf(p.ones, r.n),
           exp |-> BytesOf(FieldOnes(r, p.ones), (r.w + 7) \div 8), mul |-> r.mul, add |-> r.add] : p \in Patterns(r)} :
         r \in NumRows}

----------------------------------------------------------------------------
(* VIEW SHAPES: the view types on their own (reachable from Parse or not): length classes around *)
(* each IsValid threshold x internal length fields.                                              *)
(*   set : fields written through FieldTable (raw bit-field value, before mul/add)               *)
(*   raw : byte overrides for structure that is not a fixed field (TLVs, options)                *)
(* expectation: wf (well-formed PDU by the RFC), ranges (derived slices, relative to the view),  *)
(* absent (getters that must return an empty result)                                             *)
Fill(n, x) == [i \in 1..n |-> x]
S1(g, v) == [g |-> g, v |-> v]
Raw(off, b) == [off |-> off, b |-> b]
Rn(g, lo, hi) == [g |-> g, lo |-> lo, hi |-> hi]
VS(view, len, set, raw, wf, ranges, absent) ==
  [fam |-> "view", view |-> view, len |-> len, set |-> set, raw |-> raw,
   wf |-> wf, ranges |-> IF wf THEN ranges ELSE {}, absent |-> IF wf THEN absent ELSE {}, nums |-> {}, lists |-> {}, maps |-> {}]
Fixed(view, lens, minlen, ranges(_)) ==     \* views whose only length rule is a minimum length
  {VS(view, n, {}, {}, n >= minlen, ranges(n), {}) : n \in lens}

ViewEther ==
  {[VS("Ether", n, {S1("EtherType", et)}, {}, n >= HL(et), {Rn("Payload", HL(et), n)}, {})
      EXCEPT !.nums = IF n >= 14 THEN {S1("HeaderLen", HL(et))} ELSE {}] : n \in {13, 14, 15, 17, 18, 19, 21, 22, 23, 34, 60}, et \in {EtIP4, EtIP6, EtARP, EtVLAN, EtQinQ, EtLLDP, 46}}
ViewIP4 ==
  UNION {{VS("IP4", n, {S1("IHL", ihl), S1("TotalLen", tl)}, {}, n >= 20 /\ ihl >= 5 /\ 4 * ihl <= tl /\ tl <= n,
             {Rn("Payload", 4 * ihl, tl)}, {}) :
            tl \in NatOnly({0, 19, 20, 4 * ihl - 1, 4 * ihl, 4 * ihl + 1, n - 1, n, n + 1})} :
         n \in {19, 20, 24, 60, 80}, ihl \in {0, 4, 5, 6, 15}}
ViewIP6 ==
  UNION {{VS("IP6", n, {S1("PayloadLen", pl)}, {}, n >= 40 /\ pl <= n - 40, {Rn("Payload", 40, n)}, {}) :
            pl \in NatOnly({0, n - 41, n - 40, n - 39})} : n \in {39, 40, 41, 48, 100}}
ViewUDP == Fixed("UDP", {7, 8, 9, 20}, 8, LAMBDA n : {Rn("Payload", 8, n)})
ViewTCP ==
  {VS("TCP", n, {S1("HeaderLen", d)}, {}, n >= 20 /\ d >= 5 /\ 4 * d <= n, {Rn("Payload", 4 * d, n)}, {}) :
      n \in {19, 20, 21, 24, 40, 60, 80}, d \in {0, 4, 5, 6, 10, 15}}
ViewARP ==
  {VS("ARP", n, {S1("HType", ht), S1("Proto", pt), S1("HLen", hl), S1("PLen", pl)}, {},
      n >= 28 /\ ht = 1 /\ pt = EtIP4 /\ hl = 6 /\ pl = 4, {}, {}) :
      n \in {27, 28, 29, 46}, ht \in {1, 6}, pt \in {EtIP4, EtIP6}, hl \in {6, 8}, pl \in {4, 16}}
ViewICMP ==
  Fixed("ICMP", {7, 8, 9, 16}, 8, LAMBDA n : {Rn("Payload", 8, n)})
  \cup Fixed("ICMPEcho", {7, 8, 9, 16}, 8, LAMBDA n : {Rn("EchoData", 8, n)})
RedirectAddrs(na, sz) ==  \* expected list of address ranges of a well-formed ICMP4Redirect
  [i \in 1..na |-> [lo |-> 8 + (i - 1) * sz * 4, hi |-> 8 + (i - 1) * sz * 4 + (IF sz = 4 THEN 4 ELSE 16)]]
ViewRedirect4 ==     \* N addresses of S words each from byte 8; S = 4 -> 4-byte addresses, else 16 bytes are returned
  UNION {{[VS("ICMP4Redirect", n, {S1("Type", t), S1("NumAddrs", na), S1("AddrSize", sz)}, {},
              n >= 8 + na * sz * 4 /\ t = 137 /\ sz \in {4, 10}, {}, {})
             EXCEPT !.lists = IF n >= 8 + na * sz * 4 /\ t = 137 /\ sz \in {4, 10}
                              THEN {[g |-> "Addrs", items |-> RedirectAddrs(na, sz)]} ELSE {}] :
            n \in NatOnly({7, 8, 8 + na * sz * 4 - 1, 8 + na * sz * 4, 8 + na * sz * 4 + 3})} :
         t \in {137, 5}, na \in {0, 1, 2, 3}, sz \in {4, 10, 2}}

(* NDP: option area content classes (RFC 4861 4.6: type, length in 8-octet units, length 0 is invalid) *)
OptNone == <<>>
OptLLA(t) == <<t, 1, 2, 0, 0, 0, 1, 9>>
OptZeroLen == <<200, 0, 0, 0, 0, 0, 0, 0>>          \* unknown type, length 0: must be rejected, not looped on
OptOverlong == <<1, 9, 2, 0, 0, 0, 1, 9>>
OptMTU == <<5, 1, 0, 0, 0, 0, 5, 220>>
(* DNS search list option (RFC 8106 5.2): type 31, length, 2 reserved, 4 lifetime, domain names as DNS labels, zero padding.  *)
(* Labels in IDNA "xn--" form whose Unicode decoding is shorter / longer than their wire form (bucher -> 7 bytes from 13,       *)
(* ten hiragana letters -> 30 bytes from 16): a parser that converts labels must keep walking by WIRE lengths.                  *)
OptDNSSLAscii == <<31, 3, 0, 0, 0, 0, 0, 60, 7, 101, 120, 97, 109, 112, 108, 101, 3, 99, 111, 109, 0, 0, 0, 0>>
OptDNSSLPunyShorter == <<31, 4, 0, 0, 0, 0, 0, 60, 13, 120, 110, 45, 45, 98, 99, 104, 101, 114, 45, 107, 118, 97, 2, 100, 101, 0, 0, 0, 0, 0, 0, 0>>
OptDNSSLPunyLonger == <<31, 4, 0, 0, 0, 0, 0, 60, 16, 120, 110, 45, 45, 108, 56, 106, 97, 97, 97, 97, 97, 97, 97, 97, 97, 2, 106, 112, 0, 0, 0, 0>>
OptDNSSLTwoNames == <<31, 5, 0, 0, 0, 0, 0, 60, 17, 120, 110, 45, 45, 120, 45, 107, 113, 54, 97, 97, 97, 97, 97, 97, 97, 97, 2, 99, 110, 0, 1, 97, 1, 98, 0, 0, 0, 0, 0, 0>>
OptDNSSLBadLabel == <<31, 2, 0, 0, 0, 0, 0, 60, 9, 120, 110, 45, 45, 97, 0, 0>>      \* label length runs past the option
NdpOpts == {OptNone, OptLLA(1), OptLLA(2), OptZeroLen, OptOverlong, OptMTU,
            OptDNSSLAscii, OptDNSSLPunyShorter, OptDNSSLPunyLonger, OptDNSSLTwoNames, OptDNSSLBadLabel, OptMTU \o OptDNSSLPunyLonger}
OptsWF(o) == o \notin {OptZeroLen, OptOverlong, OptDNSSLBadLabel}
ViewNDP ==
  {VS("ICMP6RouterSolicitation", 8 + Len(o) + x, {S1("Type", t)}, {Raw(8, o)}, t = 133 /\ OptsWF(o) /\ x = 0,
      IF o = OptLLA(1) THEN {Rn("SourceLLA", 10, 16)} ELSE {}, IF o = OptLLA(1) THEN {} ELSE {"SourceLLA"}) :
      o \in NdpOpts, t \in {133, 134}, x \in {0, 16, 18}}
  \cup {VS("ICMP6RouterSolicitation", n, {S1("Type", 133)}, {}, FALSE, {}, {}) : n \in {7, 9, 23, 24, 25, 26}}
  \cup {VS("ICMP6RouterAdvertisement", 16 + Len(o) + x, {S1("Type", 134)}, {Raw(16, o)}, OptsWF(o) /\ x = 0, {}, {}) :
           o \in NdpOpts, x \in {0, 1}}
  \cup {VS("ICMP6RouterAdvertisement", n, {}, {}, FALSE, {}, {}) : n \in {15, 17}}
  \cup {VS("ICMP6NeighborAdvertisement", 24 + Len(o) + x, {S1("Type", 136)}, {Raw(24, o)}, OptsWF(o) /\ x = 0,
           IF o = OptLLA(2) THEN {Rn("TargetLLA", 26, 32)} ELSE {}, IF o = OptLLA(2) THEN {} ELSE {"TargetLLA"}) :
           o \in NdpOpts, x \in {0, 1}}
  \cup {VS("ICMP6NeighborAdvertisement", n, {}, {}, FALSE, {}, {}) : n \in {23, 25, 31}}
  \cup {VS("ICMP6NeighborSolicitation", 24 + Len(o) + x, {S1("Type", 135)}, {Raw(24, o)}, OptsWF(o) /\ x = 0,
           IF o = OptLLA(1) THEN {Rn("SourceLLA", 26, 32)} ELSE {}, IF o = OptLLA(1) THEN {} ELSE {"SourceLLA"}) :
           o \in NdpOpts, x \in {0, 1}}
  \cup {VS("ICMP6NeighborSolicitation", n, {}, {}, FALSE, {}, {}) : n \in {23, 25, 31}}
  \cup {VS("ICMP6Redirect", 40 + Len(o) + x, {S1("Type", 137)}, {Raw(40, o)}, OptsWF(o) /\ x = 0,
           IF o = OptLLA(2) THEN {Rn("TargetLinkLayerAddr", 42, 48)} ELSE {}, IF o = OptLLA(2) THEN {} ELSE {"TargetLinkLayerAddr"}) :
           o \in NdpOpts, x \in {0, 1}}
  \cup {VS("ICMP6Redirect", n, {}, {}, FALSE, {}, {}) : n \in {39, 41, 47}}

(* DHCPv4: 236 fixed bytes + cookie + options (RFC 2132: code, length, value; 0 pad; 255 end) *)
DhcpOpts == {<<>>, <<255>>, <<255, 0>>, <<0, 255>>, <<53, 1, 1, 255>>, <<53, 1, 1>>, <<53, 9, 1, 255>>,
             <<12, 3, 97, 98, 99, 53, 1, 3, 255, 0, 0>>, <<12, 0, 255>>, <<0, 0, 0, 0>>}
DhcpOptsWF(o) == o \in {<<255, 0>>, <<0, 255>>, <<53, 1, 1, 255>>, <<12, 3, 97, 98, 99, 53, 1, 3, 255, 0, 0>>, <<12, 0, 255>>}
(* expected result of ParseOptions for the well-formed option areas: code -> value range (relative to the view) *)
Ent(k, lo, hi) == [k |-> k, lo |-> lo, hi |-> hi]
DhcpOptMap(o) ==
  CASE o = <<53, 1, 1, 255>> -> {Ent(53, 242, 243)}
    [] o = <<12, 3, 97, 98, 99, 53, 1, 3, 255, 0, 0>> -> {Ent(12, 242, 245), Ent(53, 247, 248)}
    [] o = <<12, 0, 255>> -> {Ent(12, 242, 242)}
    [] OTHER -> {}
ViewDHCP4 ==
  {[VS("DHCP4", 240 + Len(o), {S1("OpCode", op), S1("HLen", hl)}, {Raw(236, <<99, 130, 83, 99>>), Raw(240, o)},
       op \in {1, 2} /\ hl = 6 /\ DhcpOptsWF(o), IF Len(o) > 0 THEN {Rn("Options", 240, 240 + Len(o))} ELSE {}, {})
      EXCEPT !.maps = IF op \in {1, 2} /\ hl = 6 /\ DhcpOptsWF(o) THEN {[g |-> "ParseOptions", items |-> DhcpOptMap(o)]} ELSE {}] :
      o \in DhcpOpts, op \in {0, 1, 2, 3}, hl \in {6, 16}}
  \cup {VS("DHCP4", n, {S1("OpCode", 1), S1("HLen", 6)}, {}, FALSE, {}, {}) : n \in {0, 239, 240, 241}}
  \* BOOTP strings: terminator at the first, a middle, the last byte of sname / file, or missing (FieldTable kind "cstr")
  \cup {VS("DHCP4", 244, {S1("OpCode", 2), S1("HLen", 6)},
            {Raw(236, <<99, 130, 83, 99>>), Raw(240, <<53, 1, 5, 255>>)} \cup zs \cup zf, TRUE, {Rn("Options", 240, 244)}, {}) :
         zs \in {{}, {Raw(44, <<0>>)}, {Raw(60, <<0>>)}, {Raw(107, <<0>>)}},
         zf \in {{}, {Raw(108, <<0>>)}, {Raw(200, <<0, 0>>)}, {Raw(235, <<0>>)}}}

(* RFC 2131 4.1 / RFC 2132 9.3: with option 52 (overload) the BOOTP `file` (108..235) and / or `sname` (44..107)   *)
(* fields carry options too.  Every byte range of the BOOTP header is potentially option-bearing: content classes  *)
(* of both fields x option 52 {absent, 1, 2, 3}.  IsValid()==nil must keep ParseOptions() panic-free and inside the *)
(* view whatever these fields hold (the package does not implement overload: values of ParseOptions not compared). *)
FieldContents(n) == {Fill(n, 0),                                   \* zero
                     <<97, 98, 99, 0>>,                            \* text
                     <<12, 3, 97, 98, 99, 255>> \o Fill(n - 6, 0), \* well-formed TLVs, end, padding
                     <<12, 250>>,                                  \* TLV running far past the field (and past the view)
                     <<0, 0, 12, n - 3>>,                          \* TLV running one byte past the field
                     <<12, n - 2>> \o Fill(n - 2, 120)}            \* TLV ending exactly at the end of the field
OverloadOpts == {<<53, 1, 1, 255>>, <<52, 1, 1, 53, 1, 1, 255>>, <<52, 1, 2, 53, 1, 1, 255>>, <<52, 1, 3, 53, 1, 1, 255>>,
                 <<53, 1, 1, 52, 1, 3, 255>>}
ViewDHCP4Overload ==
  {VS("DHCP4", 240 + Len(o) + x, {S1("OpCode", 1), S1("HLen", 6)},
      {Raw(236, <<99, 130, 83, 99>>), Raw(240, o), Raw(240 + Len(o), Fill(x, 0)), Raw(44, sn), Raw(108, fl)},
      TRUE, {Rn("Options", 240, 240 + Len(o) + x)}, {}) :
      o \in OverloadOpts, sn \in FieldContents(64), fl \in FieldContents(128), x \in {0, 60}}

ViewSmall ==
  Fixed("DNS", {0, 11, 12, 13, 17, 40, 512}, 12, LAMBDA n : {})
  \cup Fixed("SNAP", {8, 9, 10, 20}, 9, LAMBDA n : {Rn("Payload", 8, n)})
  \cup Fixed("RRCP", {15, 16, 17, 60}, 16, LAMBDA n : {Rn("Zeros", 7, n)})
  \cup Fixed("IEEE1905", {7, 8, 9, 20}, 8, LAMBDA n : {Rn("TLV", 8, n)})
  \cup Fixed("Unknown880a", {0, 1, 2}, 1, LAMBDA n : {})
  \cup {VS("EthernetPause", n, {S1("Opcode", op)}, {}, n >= 46 /\ op = 1, {Rn("Reserved", 4, n)}, {}) :
           n \in {45, 46, 47, 60}, op \in {1, 2}}
  \* LLC: U format (control 0bxxxxxx11) has a 1-byte control field, I / S formats 2 bytes (IEEE 802.2 5.2)
  \cup {VS("LLC", n, {S1("DSAP", sap), S1("SSAP", sap), S1("Control", c)}, {},
           n >= (IF c % 4 = 3 THEN 3 ELSE 4), {Rn("Payload", IF c % 4 = 3 THEN 3 ELSE 4, n)}, {}) :
           n \in {2, 3, 4, 5, 10}, c \in {3, 1, 0, 2, 19}, sap \in {170, 66}}

(* LLDP (IEEE 802.1AB 8.4): TLV header = 7-bit type, 9-bit length; mandatory chassis, port, TTL, end *)
TLVHdr(t, l) == <<2 * t + (l \div 256), l % 256>>
ViewLLDP ==
  {VS("LLDP", 2 + l1 + 2 + l2 + 4 + 2 + tail, {},
      {Raw(0, TLVHdr(1, l1)), Raw(2 + l1, TLVHdr(2, l2)), Raw(4 + l1 + l2, <<6, 2, 0, 120>>), Raw(8 + l1 + l2, <<0, 0>>)},
      l1 >= 2 /\ l2 >= 2, {Rn("ChassisID", 2, 2 + l1), Rn("PortID", 4 + l1, 4 + l1 + l2)}, {}) :
      l1 \in {0, 1, 2, 7, 255, 256}, l2 \in {0, 1, 2, 7}, tail \in {0, 3}}
  \cup {VS("LLDP", n, {}, {Raw(0, TLVHdr(t, l))}, FALSE, {}, {}) : n \in {5, 6, 7, 10, 30}, t \in {0, 1}, l \in {0, 1, 2, 7, 40, 511}}

(* hop-by-hop options header: length field x available bytes x option content *)
HbhOpts == {<<0, 0, 0, 0, 0, 0>>, <<1, 4, 0, 0, 0, 0>>, <<5, 2, 0, 0, 1, 0>>, <<1, 9, 0, 0, 0, 0>>, <<62, 4, 1, 2, 3, 4>>, <<0, 0, 0, 0, 0, 5>>, <<0, 0, 0, 5, 2, 0>>}
ViewHBH ==
  {VS("HopByHopExtensionHeader", n, {S1("NextHeader", 58), S1("Len", l)}, {Raw(2, o)},
      n >= 8 * l + 8 /\ o \notin {<<1, 9, 0, 0, 0, 0>>, <<0, 0, 0, 0, 0, 5>>}, {Rn("Data", 2, 8 * l + 8)}, {}) :
      n \in {1, 2, 7, 8, 9, 10, 16, 18, 26}, l \in {0, 1, 2, 255}, o \in HbhOpts}

ViewShapes == ViewEther \cup ViewIP4 \cup ViewIP6 \cup ViewUDP \cup ViewTCP \cup ViewARP \cup ViewICMP
              \cup ViewRedirect4 \cup ViewNDP \cup ViewDHCP4 \cup ViewDHCP4Overload \cup ViewSmall \cup ViewLLDP \cup ViewHBH

(* a long, well-formed base instance per view on which the field vectors are written *)
BaseView == [v \in ViewNames |->
  CASE v = "Ether" -> [len |-> 60, set |-> {S1("EtherType", EtIP4)}, raw |-> {}]
    [] v = "IP4"   -> [len |-> 80, set |-> {S1("IHL", 5), S1("TotalLen", 80)}, raw |-> {}]
    [] v = "IP6"   -> [len |-> 80, set |-> {S1("PayloadLen", 40)}, raw |-> {}]
    [] v = "TCP"   -> [len |-> 80, set |-> {S1("HeaderLen", 5)}, raw |-> {}]
    [] v = "ARP"   -> [len |-> 28, set |-> {S1("HType", 1), S1("Proto", EtIP4), S1("HLen", 6), S1("PLen", 4)}, raw |-> {}]
    [] v = "ICMP4Redirect" -> [len |-> 24, set |-> {S1("Type", 137), S1("NumAddrs", 1), S1("AddrSize", 4)}, raw |-> {}]
    [] v = "ICMP6RouterSolicitation" -> [len |-> 8, set |-> {S1("Type", 133)}, raw |-> {}]
    [] v = "ICMP6RouterAdvertisement" -> [len |-> 16, set |-> {S1("Type", 134)}, raw |-> {}]
    [] v = "DHCP4" -> [len |-> 300, set |-> {S1("OpCode", 1), S1("HLen", 6)}, raw |-> {Raw(236, <<99, 130, 83, 99>>), Raw(240, <<53, 1, 1, 255>>)}]
    [] v = "EthernetPause" -> [len |-> 60, set |-> {S1("Opcode", 1)}, raw |-> {}]
    [] v = "HopByHopExtensionHeader" -> [len |-> 2100, set |-> {S1("Len", 0)}, raw |-> {Raw(2, <<0, 0, 0, 0, 0, 0>>)}]
    [] OTHER -> [len |-> 64, set |-> {}, raw |-> {}]]

=============================================================================
