----------------------------- MODULE AddrListMC -----------------------------
(* Bounded model of AddrList.tla.  The state space is finite (sequences of distinct MACs with one IP each): it is explored
   completely.  VIEW ViewLast adds the last action to the view so that every (action, successor state) pair is reached
   and exported once: one action history per pair, each step with the observation the real AddrList must show. *)
EXTENDS AddrList, Json

CONSTANTS MaxDepth, ExportEvery
VARIABLES depth, hist, last
mcvars == <<list, ref, refIP, res, depth, hist, last>>

Step(rec) == /\ depth' = depth + 1
             /\ hist' = Append(hist, rec @@ [exp |-> [list |-> res'.list, len |-> res'.len,
                                                       idx |-> [m \in MACs |-> res'.idx[m]]]])
             /\ last' = rec
MCInit == Init /\ depth = 0 /\ hist = <<>> /\ last = [a |-> "init"]
MCNext == depth < MaxDepth /\
  \/ \E m \in MACs, ip \in IPs : Add(m, ip) /\ Step([a |-> "add", mac |-> m, ip |-> ip])
  \/ \E m \in MACs, ip \in IPs : Del(m, ip) /\ Step([a |-> "del", mac |-> m, ip |-> ip])
MCSpec == MCInit /\ [][MCNext]_mcvars

ViewLast == <<list, last>>
DepthOK == depth \in 0..MaxDepth
Export == (ExportEvery > 0 /\ depth > 0 /\ (ExportEvery = 1 \/ RandomElement(1..ExportEvery) = 1)) => PrintT(ToJson(hist))
ExportLeaf == (ExportEvery > 0 /\ depth = MaxDepth) => PrintT(ToJson(hist))
=============================================================================
