SPECIFICATION TraceSpec
CONSTANTS
  Mode = "M"
  TraceFile = "trace.ndjson"
  Own = "own"
  Router = "router"
  Targets = {"m1", "m2", "m3", "m4", "m5", "m6"}
  NilMAC = "nilmac"
  BcastMAC = "bcastmac"
  RouterIP = "routerip"
  HostIP = "hostip"
  LanIPs = {"a1", "a2", "a3", "a4"}
  Zero = "zero"
  LL = "ll1"
  Ext = "x1"
  Bcast4 = "bcast4"
  V6 = "l1"
  NoIP = "noip"
  ByMac = TRUE
  RacyStart = FALSE
CONSTRAINT Mark
CONSTRAINT Last
POSTCONDITION TraceAccepted
CHECK_DEADLOCK FALSE
