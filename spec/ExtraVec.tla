------------------------------ MODULE ExtraVec ------------------------------
(* X04 -- reference functions for pure helpers that no listed property covers, enumerated by TLC into vectors.

   family "oui"   manufacturer.go  FindManufacturer(mac): the vendor of the 24-bit OUI.
       The embedded table nmap-mac-prefixes.gz is read by checks/x04.py with an independent parser (documented line
       format "000019<TAB>Applied Dynamics"); a sample of its lines, in file order and with every line of a sampled
       prefix, is handed to TLC as TableFile together with prefixes that occur nowhere in the file (AbsentFile).
       Lookup is the reference: only 6-byte addresses have a vendor; the prefix is compared exactly (no longest-prefix
       or 28/36-bit blocks); when a prefix occurs on several lines the LAST line wins (the loader overwrites the map
       entry); everything else is the empty name.  Vendors are referred to by line number (names stay outside TLC).
   family "copy"  nic.go  CopyIP / CopyMAC / CopyBytes: the result has the source's bytes (CopyIP widens a 4-byte
       address to its 16-byte IPv4-mapped form) and shares no memory with the source. *)
EXTENDS Naturals, Integers, Sequences, FiniteSets, TLC, Json

CONSTANTS TableFile, AbsentFile, Families
VARIABLE d

Table  == ndJsonDeserialize(TableFile)       \* sequence of [i |-> line number, p |-> <<b1, b2, b3>>], in file order
Absent == ndJsonDeserialize(AbsentFile)      \* sequence of [p |-> <<b1, b2, b3>>] that are on no line of the file

Max(S) == CHOOSE x \in S : \A y \in S : y <= x
NoVendor == -1
Lookup(mac) ==
  IF Len(mac) # 6 THEN NoVendor
  ELSE LET S == {k \in 1..Len(Table) : Table[k].p = SubSeq(mac, 1, 3)}
       IN  IF S = {} THEN NoVendor ELSE Table[Max(S)].i

Suffixes == {<<0, 0, 0>>, <<255, 255, 255>>, <<18, 52, 86>>}
OuiMacs(p) == {p \o s : s \in Suffixes}                                   \* 6 bytes: the vendor
              \cup {p, SubSeq(p, 1, 2), p \o <<1>>, p \o <<1, 2>>,          \* too short
                    p \o <<1, 2, 3, 4>>, p \o <<1, 2, 3, 4, 5>>,            \* too long (7, EUI-64)
                    p \o [i \in 1..17 |-> i]}                               \* 20 bytes (InfiniBand)
OuiSet == {[k |-> "oui", mac |-> m] : m \in UNION {OuiMacs(Table[k].p) : k \in 1..Len(Table)}}
          \cup {[k |-> "oui", mac |-> Absent[k].p \o s] : k \in 1..Len(Absent), s \in Suffixes}
          \cup {[k |-> "oui", mac |-> <<>>]}

\* ---- copy helpers
Mapped(s) == <<0, 0, 0, 0, 0, 0, 0, 0, 0, 0, 255, 255>> \o s
CopyIPRef(s)  == IF Len(s) = 4 THEN Mapped(s) ELSE s
Pat(n, c) == [i \in 1..n |-> IF c = 0 THEN 0 ELSE IF c = 1 THEN 255 ELSE (i * 37 + c) % 256]
CopyLens == {0, 1, 3, 4, 5, 6, 15, 16, 17, 64}
CopySet == {[k |-> "copy", f |-> f, src |-> Pat(n, c)] : f \in {"ip", "mac", "bytes"}, n \in CopyLens, c \in 0..3}
Expected(v) == IF v.k = "oui" THEN [vendor |-> Lookup(v.mac)]
               ELSE [bytes |-> IF v.f = "ip" THEN CopyIPRef(v.src) ELSE v.src]

VInit == d \in (IF "oui" \in Families THEN OuiSet ELSE {}) \cup (IF "copy" \in Families THEN CopySet ELSE {})
VNext == UNCHANGED d
VSpec == VInit /\ [][VNext]_d

\* lemmas decided on every vector
Lemmas == /\ d.k = "oui" => (Lookup(d.mac) # NoVendor => Len(d.mac) = 6)
          /\ d.k = "oui" => (Lookup(d.mac) # NoVendor => \E k \in 1..Len(Table) : Table[k].i = Lookup(d.mac) /\ Table[k].p = SubSeq(d.mac, 1, 3))
          /\ d.k = "copy" => Len(Expected(d).bytes) = (IF d.f = "ip" /\ Len(d.src) = 4 THEN 16 ELSE Len(d.src))
VExport == PrintT(ToJson(d @@ [exp |-> Expected(d)]))
=============================================================================
