----------------------------- MODULE LogLineVec -----------------------------
(* C20 -- vector enumerator for the renderers of LogLine.tla (direction C).

   One TLC state per descriptor.  Invariants (once per state):
     Lemmas  -- relations between the property level and the mechanism level decided by TLC:
                * MechIP6 with the repaired bound (MinRun = 2) equals RFC 5952 on every vector,
                * MechIP6 as written (MinRun = CodeMinRun) differs from RFC 5952 exactly when the longest zero run
                  has two groups (named deviation KF_IP6RunOfTwo) -- nowhere else,
                * RFC 5952 structural facts: at most one "::", never for a single zero group, no group text longer
                  than 4, text length <= 39.
     Export  -- PrintT(ToJson([t, v, e, m, kf])): appender type, value, property-level field text (name "n"),
                mechanism-level field text, named deviation ("none" when both agree). *)
EXTENDS LogLine, Json, FiniteSets

CONSTANTS Variants,     \* number of value variants per IPv6 zero layout (4 quick, 16 thorough)
          CodeMinRun,   \* shortest zero run the code compresses: 3 as written (`zeros > 1`), 2 when repaired
          Types         \* subset of the type names below

VARIABLE d

N == <<"n">>

\* ------------------------------------------------------------------ IPv6 layouts
\* value classes by number of hex digits
ValTab == << <<1, 15, 10, 9>>, <<16, 255, 171, 160>>, <<256, 4095, 2748, 3512>>, <<4096, 65535, 65152, 8193>> >>
Bit(n, i) == (n \div (2 ^ (i - 1))) % 2            \* i = 1..8, bit 1 = group 1
GroupVal(layout, var, i) ==
  IF Bit(layout, i) = 0 THEN 0
  ELSE ValTab[((i + var) % 4) + 1][((i + layout + (var \div 4)) % 4) + 1]
LayoutGroups(layout, var) == [i \in 1..8 |-> GroupVal(layout, var, i)]
GroupBytes(g) == [i \in 1..16 |-> IF i % 2 = 1 THEN g[(i + 1) \div 2] \div 256 ELSE g[i \div 2] % 256]

Special6 == <<
  <<0,0,0,0,0,0,0,0,0,0,255,255,1,2,3,4>>,              \* ::ffff:1.2.3.4 (4in6)
  <<0,0,0,0,0,0,0,0,0,0,255,255,255,255,255,255>>,      \* ::ffff:255.255.255.255
  <<0,0,0,0,0,0,0,0,0,0,255,254,1,2,3,4>>,              \* ::fffe:102:304
  <<0,0,0,0,0,0,0,0,0,0,0,0,1,2,3,4>>,                  \* ::102:304 (IPv4-compatible, not mapped)
  <<0,100,255,155,0,0,0,0,0,0,0,0,1,2,3,4>>,            \* 64:ff9b::102:304
  <<32,1,13,184,0,0,0,0,0,1,0,2,0,3,0,4>>,              \* 2001:db8:0:0:1:2:3:4  (DESIGN 7 #24)
  <<0,1,0,2,0,3,0,4,0,5,0,6,0,0,0,0>>,                  \* 1:2:3:4:5:6::
  <<0,0,0,0,0,1,0,0,0,0,0,1,0,0,0,0>>,                  \* ::1:0:0:1:0:0 (three runs of two: the first)
  <<0,1,0,0,0,0,0,2,0,0,0,0,0,0,0,3>>,                  \* 1:0:0:2::3
  <<0,1,0,0,0,0,0,0,0,2,0,0,0,0,0,0>> >>                \* 1::2:0:0:0 (tie of three: the first)

\* ------------------------------------------------------------------ descriptors  [t, a, b, c]
Desc(t, a, b, c) == [t |-> t, a |-> a, b |-> b, c |-> c]
OctCls == {0, 1, 9, 10, 99, 100, 255}
U16Set == {0, 1, 9, 10, 11, 99, 100, 101, 255, 256, 999, 1000, 1001, 4095, 4096, 9999, 10000, 10001, 32767, 32768,
           43981, 65534, 65535}
\* uint32 as <<hi, lo>>
U32Set == {<<0, 0>>, <<0, 9>>, <<0, 10>>, <<0, 65535>>, <<1, 0>>, <<1, 34463>>, <<1, 34464>>, <<15, 16959>>, <<15, 16960>>,
           <<152, 38527>>, <<152, 38528>>, <<1525, 57599>>, <<1525, 57600>>, <<15258, 51711>>, <<15258, 51712>>,
           <<32767, 65535>>, <<32768, 0>>, <<61035, 10239>>, <<61035, 10240>>, <<65535, 65526>>, <<65535, 65535>>,
           <<4660, 22136>>, <<305, 1>>}
IntSet == {0, 1, -1, 9, -9, 10, -10, 99, 100, -100, 65535, 65536, -65536, 999999999, 1000000000, -1000000000,
           2147483647, -2147483647}

\* time values: instants (unix seconds) x milliseconds x location offset in minutes (UTC, +10:00, -03:30, +05:45, -12:00)
Instants == {0, 59, 86399, 86400, 951782399, 951782400, 951868799, 1078099199, 1709164800, 1709251199, 1735689599,
             1735689600, 1759400000, 2147000000}
Offsets  == {0, 600, -210, 345, -720}
\* zone-qualified addresses: address x zone length; the zone is a prefix of ZoneChars.  With the 39 character address
\* the text has 41, 44, 46, 47, 49, 60 characters.
ZoneChars == <<"e","n","p","0","s","3","1","f","6","v","l","a","n","1","2","3","4","b","r","0","w","x","y","z">>
ZoneLens  == {1, 4, 6, 7, 9, 20}
ZoneAddrs == << <<254,128,17,17,34,34,51,51,68,68,85,85,102,102,119,119>>,      \* fe80:1111:2222:3333:4444:5555:6666:7777
                <<254,128,0,0,0,0,0,0,0,0,0,0,0,0,0,1>>,                        \* fe80::1
                <<255,2,0,0,0,0,0,0,0,0,0,0,0,0,0,251>>,                        \* ff02::fb
                <<0,0,0,0,0,0,0,0,0,0,255,255,192,168,0,1>> >>                  \* ::ffff:192.168.0.1
Zone(n) == SubSeq(ZoneChars, 1, n)

DescSet ==
  (IF "ip6" \in Types THEN {Desc("ip6", l, v, 0) : l \in 0..255, v \in 0..(Variants - 1)} ELSE {}) \cup
  (IF "addr6" \in Types THEN {Desc("addr6", l, v, 0) : l \in 0..255, v \in 0..(Variants - 1)} ELSE {}) \cup
  (IF "ip6" \in Types THEN {Desc("ip6s", k, 0, 0) : k \in 1..Len(Special6)} ELSE {}) \cup
  (IF "addr6" \in Types THEN {Desc("addr6s", k, 0, 0) : k \in 1..Len(Special6)} ELSE {}) \cup
  (IF "ip4" \in Types THEN {Desc("ip4", x, p, 0) : x \in 0..255, p \in 1..4} \cup
                           {Desc("ip4c", x, y, z) : x \in OctCls, y \in OctCls, z \in OctCls} ELSE {}) \cup
  (IF "mac" \in Types THEN {Desc("mac", x, 6, 0) : x \in 0..255} \cup {Desc("mac", 7, n, 0) : n \in {0, 1, 5, 7, 8}} ELSE {}) \cup
  (IF "u8" \in Types THEN {Desc("u8", x, 0, 0) : x \in 0..255} \cup {Desc("u8hex", x, 0, 0) : x \in 0..255} ELSE {}) \cup
  (IF "u16" \in Types THEN {Desc("u16", x, 0, 0) : x \in U16Set} \cup {Desc("u16hex", x, 0, 0) : x \in U16Set}
                           \cup {Desc("u16hex", x * (16 ^ p), 0, 0) : x \in 0..15, p \in 0..3} ELSE {}) \cup
  (IF "u32" \in Types THEN {Desc("u32", x[1], x[2], 0) : x \in U32Set} ELSE {}) \cup
  (IF "int" \in Types THEN {Desc("int", x, 0, 0) : x \in IntSet} ELSE {}) \cup
  (IF "bool" \in Types THEN {Desc("bool", x, 0, 0) : x \in {0, 1}} ELSE {}) \cup
  (IF "time" \in Types THEN {Desc("time", u, ms, off) : u \in Instants, ms \in {0, 7, 999}, off \in Offsets} ELSE {}) \cup
  (IF "addr6z" \in Types THEN {Desc("addr6z", k, zl, 0) : k \in 1..Len(ZoneAddrs), zl \in ZoneLens} ELSE {}) \cup
  (IF "bytes" \in Types THEN {Desc("bytes", x, 1, 0) : x \in 0..255} \cup {Desc("bytes", x, n, 0) : x \in {0, 171}, n \in {0, 2, 3, 7}} ELSE {})

\* ------------------------------------------------------------------ descriptor -> value (sequence of integers)
Value(x) ==
  CASE x.t \in {"ip6", "addr6"}   -> GroupBytes(LayoutGroups(x.a, x.b))
    [] x.t \in {"ip6s", "addr6s"} -> Special6[x.a]
    [] x.t = "ip4"  -> [i \in 1..4 |-> IF i = x.b THEN x.a ELSE (x.a * 7 + i * 50) % 256]
    [] x.t = "ip4c" -> <<x.a, x.b, x.c, (x.a + x.b) % 256>>
    [] x.t = "mac"  -> [i \in 1..x.b |-> CASE i = 1 -> x.a [] i = 2 -> (x.a + 1) % 256 [] i = 3 -> 255 - x.a
                                            [] i = 4 -> (x.a * 7) % 256 [] i = 5 -> (x.a \div 16) [] OTHER -> (x.a * 16) % 256]
    [] x.t = "bytes" -> [i \in 1..x.b |-> (x.a + 17 * (i - 1)) % 256]
    [] x.t = "u32"  -> <<x.a, x.b>>
    [] x.t = "time" -> <<x.a, x.b, x.c>>
    [] x.t = "addr6z" -> ZoneAddrs[x.a]
    [] OTHER        -> <<x.a>>

\* property-level value text
Text(x) ==
  LET v == Value(x) \o <<>>
  IN CASE x.t \in {"ip6", "ip6s", "ip4", "ip4c"} -> IPSliceText(v)
       [] x.t \in {"addr6", "addr6s"}            -> AddrText(v)
       [] x.t = "mac"    -> MACText(v)
       [] x.t = "u8"     -> Dec(v[1])
       [] x.t = "u16"    -> Dec(v[1])
       [] x.t = "u32"    -> DecU32(v[1], v[2])
       [] x.t = "int"    -> DecInt(v[1])
       [] x.t = "u8hex"  -> Uint8HexText(v[1])
       [] x.t = "u16hex" -> Uint16HexText(v[1])
       [] x.t = "bool"   -> BoolText(v[1] = 1)
       [] x.t = "bytes"  -> ByteArrayText(v)
       [] x.t = "time"   -> StampMilliText(v[1], v[2], v[3])
       [] x.t = "addr6z" -> ZonedAddrText(v, Zone(x.b))

IsV6(x) == x.t \in {"ip6", "ip6s"} /\ ~Is4In6(Value(x) \o <<>>)

\* mechanism-level value text: only appendIP6 has an algorithm of its own worth transcribing
MechText(x) == IF IsV6(x) THEN MechIP6(Groups(Value(x) \o <<>>), CodeMinRun) ELSE Text(x)

LongestRun(g) == LET rs == Runs(g, 1) IN IF rs = {} THEN 0 ELSE RunLen(CHOOSE r \in rs : \A q \in rs : RunLen(r) >= RunLen(q))

KF(x) == IF MechText(x) # Text(x) THEN "KF_IP6RunOfTwo" ELSE "none"

CountSub(txt, a, b) == Cardinality({i \in 1..(Len(txt) - 1) : txt[i] = a /\ txt[i+1] = b})

Lemmas ==
  IsV6(d) =>
    LET g   == Groups(Value(d) \o <<>>)
        txt == IP6Text(g)
    IN  /\ MechIP6(g, 2) = txt                                             \* the repaired bound gives RFC 5952
        /\ (MechIP6(g, 3) # txt) <=> (LongestRun(g) = 2)                   \* the deviation as written: exactly this
        /\ CountSub(txt, ":", ":") <= 1 /\ Len(txt) <= 39 /\ Len(txt) >= 2
        /\ (CountSub(txt, ":", ":") = 1) <=> (LongestRun(g) >= 2)
        /\ Len(MechIP6(g, 3)) <= 39

Export == PrintT(ToJson([t |-> d.t, z |-> IF d.t = "addr6z" THEN Join(Zone(d.b)) ELSE "", v |-> Value(d) \o <<>>, e |-> Join(Field(N, Text(d))),
                         m |-> Join(Field(N, MechText(d))), kf |-> KF(d)]))

Init == d \in DescSet
Next == FALSE /\ UNCHANGED d
Spec == Init /\ [][Next]_d
=============================================================================
