------------------------------ MODULE ArpHunt ------------------------------
(***************************************************************************)
(* ARP hunt list and spoof loops of irai/packet                             *)
(* (handlers/arp_spoofer/spoof.go, arp.go:277-385).                         *)
(*                                                                         *)
(* Two levels (DESIGN 1.1):                                                *)
(*  - mechanism: hunt, loops, closed, offer, out, ev  -- shaped like the    *)
(*    code: StartHunt/StopHunt under arpMutex, one spoofLoop goroutine per  *)
(*    effective StartHunt with a program counter, membership looked up BY   *)
(*    IP (findHuntByIP), `closed` read without the mutex after the check,   *)
(*    ProcessPacket's classification of received ARP packets;               *)
(*  - property: refHunt, refClosed, refOffer, rl, poisoned, pre -- updated  *)
(*    only from the call log and the observable events, by the rules in the *)
(*    statement of C13.                                                     *)
(* `Verdict` names the first property-level predicate the last step         *)
(* contradicts ("none" otherwise).                                          *)
(***************************************************************************)
EXTENDS Naturals, Sequences, FiniteSets, TLC

CONSTANTS Own, Router, Targets, NilMAC,      \* MAC identifiers (Targets: set of client MACs)
          BcastMAC,                          \* ff:ff:ff:ff:ff:ff
          RouterIP, HostIP, LanIPs,          \* IPv4 inside the home LAN
          Zero, LL, Ext, Bcast4,             \* 0.0.0.0, a 169.254/16 address, an off-LAN address, 255.255.255.255
          V6, NoIP,                          \* an IPv6 address, the invalid (zero value) address
          ByMac,                             \* TRUE: loop membership looked up by MAC (the code since 0f0beaf)
          RacyStart                          \* TRUE: deviation variant -- StartHunt tests membership under a read lock and inserts
                                             \*   under a second, separate lock (two overlapping calls both insert and spawn)

IP4     == {RouterIP, HostIP, Zero, LL, Ext, Bcast4} \cup LanIPs
InLan(ip) == ip \in {RouterIP, HostIP} \cup LanIPs
MACS    == {Own, Router} \cup Targets
Nil     == [nil |-> TRUE]

VARIABLES hunt,      \* Targets -> IP4 \cup {NoIP}            Handler.huntList (NoIP: absent)
          loops,     \* sequence of [mac, ip, pc, tgt]         spoofLoop goroutines, index = loop id
          closed,    \* BOOLEAN                                Handler.closed
          offer,     \* Targets -> IP4 \cup {V6, NoIP}         MACEntry.IP4Offer
          pend,      \* Targets -> sequence of addresses: StartHunt calls between their membership test and their insert
                     \*   (always empty unless RacyStart)
          captured,  \* environment: MACs the application flagged with Session.Capture (a per-MAC flag independent of
                     \*   StartHunt / StopHunt; the handler must not look at it)
          hostOf,    \* LanIPs -> Targets \cup {NilMAC}         Session.HostTable restricted to client addresses: the
                     \*   MAC entry (and its offer) is deleted with its last host (hosttable.go:124-163)
          out,       \* sequence of ARP frames emitted by the last step
          ev,        \* observable record of the last step
          refHunt,   \* property level: set of MACs hunted according to the call log
          refClosed, \* property level: Close was called
          refOffer,  \* property level: outstanding offers according to the call log
          rl,        \* property level: per loop id [mac, alive, snap, fresh]
          poisoned,  \* property level: Targets -> {"ok", "owed", "forged"}: what the wire has told the target last --
                     \*   "forged": its last frame from us binds the router's IP to our MAC; "owed": it was un-hunted and has
                     \*   not yet received a restoring packet; "ok" otherwise
          pre        \* property level: facts about the state before the last step

mech == <<hunt, loops, closed, offer, hostOf, pend, captured, out, ev>>
prop == <<refHunt, refClosed, refOffer, rl, poisoned, pre>>
vars == <<hunt, loops, closed, offer, hostOf, pend, captured, out, ev, refHunt, refClosed, refOffer, rl, poisoned, pre>>

Frame(op, ed, sm, si, tm, ti) == [op |-> op, ed |-> ed, sm |-> sm, si |-> si, tm |-> tm, ti |-> ti]

\* the three kinds of frame the handler emits (arp.go:130-142, 181-206, spoof.go:94,105)
Forged(m)        == Frame(1, m, Own, RouterIP, BcastMAC, RouterIP)       \* AnnounceTo(target, routerIP)
Restore(m)       == Frame(1, m, Router, RouterIP, Router, RouterIP)      \* RequestRaw(mac, routerAddr, routerAddr)
SpoofReply(m, ip) == Frame(2, m, Own, RouterIP, m, ip)                   \* Reply(src, {own, routerIP}, src)
Reject(m, ip)    == Frame(2, m, Own, ip, m, Bcast4)                      \* Reply(src, {own, probed}, {src, 255.255.255.255})

-----------------------------------------------------------------------------
(* mechanism *)

Hunted(m) == m \in Targets /\ hunt[m] # NoIP

\* findHuntByIP: any entry with that IP (Go map iteration order: nondeterministic when shared)
FoundByIP(ip) == {m \in Targets : hunt[m] = ip}
\* the entries a loop may find at its check
Found(l) == IF ByMac THEN (IF Hunted(loops[l].mac) THEN {loops[l].mac} ELSE {})
            ELSE FoundByIP(loops[l].ip)

StartHuntM(m, ip) ==
  /\ UNCHANGED <<closed, offer, hostOf, pend, captured>> /\ out' = <<>>
  /\ IF m = NilMAC \/ ip \notin IP4
     THEN /\ UNCHANGED <<hunt, loops>>
          /\ ev' = [kind |-> "start", mac |-> m, ip |-> ip, err |-> TRUE, spawned |-> 0]
     ELSE IF Hunted(m)
     THEN /\ UNCHANGED <<hunt, loops>>
          /\ ev' = [kind |-> "start", mac |-> m, ip |-> ip, err |-> FALSE, spawned |-> 0]
     ELSE /\ hunt' = [hunt EXCEPT ![m] = ip]
          /\ loops' = Append(loops, [mac |-> m, ip |-> ip, pc |-> "check", tgt |-> m, cl |-> FALSE])
          /\ ev' = [kind |-> "start", mac |-> m, ip |-> ip, err |-> FALSE, spawned |-> 1]

\* n overlapping StartHunt(m, ip) calls observed together (all have returned): the mutex serialises them, so the
\* first effective one inserts and spawns, the others find the entry
ConcStartM(m, ip, n) ==
  /\ UNCHANGED <<closed, offer, hostOf, pend, captured>> /\ out' = <<>>
  /\ IF m = NilMAC \/ ip \notin IP4
     THEN /\ UNCHANGED <<hunt, loops>>
          /\ ev' = [kind |-> "cstart", mac |-> m, ip |-> ip, n |-> n, errs |-> n, spawned |-> 0]
     ELSE IF Hunted(m)
     THEN /\ UNCHANGED <<hunt, loops>>
          /\ ev' = [kind |-> "cstart", mac |-> m, ip |-> ip, n |-> n, errs |-> 0, spawned |-> 0]
     ELSE /\ hunt' = [hunt EXCEPT ![m] = ip]
          /\ loops' = Append(loops, [mac |-> m, ip |-> ip, pc |-> "check", tgt |-> m, cl |-> FALSE])
          /\ ev' = [kind |-> "cstart", mac |-> m, ip |-> ip, n |-> n, errs |-> 0, spawned |-> 1]

\* deviation variant RacyStart: the membership test and the insert are two critical sections
StartCheckM(m, ip) ==
  /\ RacyStart /\ m # NilMAC /\ ip \in IP4 /\ ~Hunted(m) /\ Len(pend[m]) < 2
  /\ UNCHANGED <<hunt, loops, closed, offer, hostOf, captured>> /\ out' = <<>>
  /\ pend' = [pend EXCEPT ![m] = Append(@, ip)]
  /\ ev' = [kind |-> "scheck", mac |-> m, ip |-> ip]
StartInsertM(m) ==
  /\ RacyStart /\ pend[m] # <<>>
  /\ UNCHANGED <<closed, offer, hostOf, captured>> /\ out' = <<>>
  /\ pend' = [pend EXCEPT ![m] = Tail(@)]
  /\ hunt' = [hunt EXCEPT ![m] = Head(pend[m])]
  /\ loops' = Append(loops, [mac |-> m, ip |-> Head(pend[m]), pc |-> "check", tgt |-> m, cl |-> FALSE])
  /\ ev' = [kind |-> "sinsert", mac |-> m, ip |-> Head(pend[m]), spawned |-> 1]

StopHuntM(m) ==
  /\ UNCHANGED <<loops, closed, offer, hostOf, pend, captured>> /\ out' = <<>>
  /\ hunt' = IF m \in Targets THEN [hunt EXCEPT ![m] = NoIP] ELSE hunt
  /\ ev' = [kind |-> "stop", mac |-> m]

CloseM ==
  /\ UNCHANGED <<hunt, loops, offer, hostOf, pend, captured>> /\ out' = <<>>
  /\ closed' = TRUE
  /\ ev' = [kind |-> "close", stuck |-> {}]

\* Close followed by the wake-up of every waiting loop (closeChan is closed: spoof.go:119); `stuck`
\* is the set of waiting loops observed NOT to wake up (always empty in the mechanism)
CloseAndWakeM ==
  /\ UNCHANGED <<hunt, offer, hostOf, pend, captured>> /\ out' = <<>>
  /\ closed' = TRUE
  /\ loops' = [i \in 1..Len(loops) |-> IF loops[i].pc = "wait" THEN [loops[i] EXCEPT !.pc = "check"] ELSE loops[i]]
  /\ ev' = [kind |-> "close", stuck |-> {}]

OfferM(m, ip) ==
  /\ UNCHANGED <<hunt, loops, closed, hostOf, pend, captured>> /\ out' = <<>>
  /\ offer' = [offer EXCEPT ![m] = ip]
  /\ ev' = [kind |-> "offer", mac |-> m, ip |-> ip]

\* Session.Capture / Session.Release (session.go:534-565): environment calls; no effect on the handler
CaptureM(m, on) ==
  /\ UNCHANGED <<hunt, loops, closed, offer, hostOf, pend>> /\ out' = <<>>
  /\ captured' = IF on THEN captured \cup {m} ELSE captured \ {m}
  /\ ev' = [kind |-> "capture", mac |-> m, on |-> on]

\* spoof.go:82-84: membership check under arpMutex
LoopCheckFromM(l, t, pcs) ==
  /\ loops[l].pc \in pcs
  /\ UNCHANGED <<hunt, closed, offer, hostOf, pend, captured>> /\ out' = <<>>
  /\ IF Found(l) = {}
     THEN /\ t = NilMAC
          /\ loops' = [loops EXCEPT ![l].pc = "correct", ![l].cl = closed]
          /\ ev' = [kind |-> "check", l |-> l, hunting |-> FALSE, tgt |-> NilMAC]
     ELSE /\ t \in Found(l)
          /\ loops' = [loops EXCEPT ![l].pc = "send", ![l].tgt = t, ![l].cl = closed]
          /\ ev' = [kind |-> "check", l |-> l, hunting |-> TRUE, tgt |-> t]

LoopCheckM(l, t) == LoopCheckFromM(l, t, {"check"})

\* spoof.go: since f0fba2f `closed` is read into a local under the mutex together with the membership lookup (cl);
\* a Close between the check and the action no longer changes what the loop does in this cycle
\* auto: the harness observes a loop that finds closeChan already closed back at its check together with its frame
LoopActM(l, auto) ==
  /\ loops[l].pc \in {"send", "correct"}
  /\ UNCHANGED <<hunt, closed, offer, hostOf, pend, captured>>
  /\ IF loops[l].cl
     THEN /\ loops' = [loops EXCEPT ![l].pc = "done"] /\ out' = <<>>
          /\ ev' = [kind |-> "act", l |-> l, done |-> TRUE]
     ELSE IF loops[l].pc = "correct"
     THEN /\ loops' = [loops EXCEPT ![l].pc = "done"] /\ out' = <<Restore(loops[l].mac)>>
          /\ ev' = [kind |-> "act", l |-> l, done |-> TRUE]
     ELSE /\ loops' = [loops EXCEPT ![l].pc = IF auto /\ closed THEN "check" ELSE "wait"] /\ out' = <<Forged(loops[l].tgt)>>
          /\ ev' = [kind |-> "act", l |-> l, done |-> FALSE]

\* the 6 s ticker fires / closeChan is closed
TickM(l) ==
  /\ loops[l].pc = "wait"
  /\ UNCHANGED <<hunt, closed, offer, hostOf, pend, captured>> /\ out' = <<>>
  /\ loops' = [loops EXCEPT ![l].pc = "check"]
  /\ ev' = [kind |-> "tick", l |-> l]
WakeOnCloseM(l) == closed /\ TickM(l)

\* arp.go:277-385
RecvClass(op, si, ti) ==
  IF si = LL \/ ti = LL THEN "linklocal"
  ELSE IF op = 2 THEN "reply"
  ELSE IF op # 1 THEN "invalid"
  ELSE IF si = ti THEN "announcement"
  ELSE IF si = Zero THEN "probe"
  ELSE "request"

\* Session.Parse of the ARP frame (layer_frame.go:236-259): a sender address inside the home LAN is
\* bound to the sender MAC; if it was bound to another MAC that host is deleted, and a MAC entry
\* that loses its last host is deleted together with its outstanding offer
ParseHosts(sm, si) == IF si \in LanIPs /\ sm \in Targets THEN [hostOf EXCEPT ![si] = sm] ELSE hostOf
ParseOffer(sm, si) ==
  IF si \in LanIPs /\ sm \in Targets /\ hostOf[si] \in Targets /\ hostOf[si] # sm
       /\ ~\E ip \in LanIPs \ {si} : hostOf[ip] = hostOf[si]
  THEN [offer EXCEPT ![hostOf[si]] = NoIP] ELSE offer

RecvOut(op, sm, si, ti, off) ==
  LET c == RecvClass(op, si, ti) IN
  IF c = "request" /\ Hunted(sm) /\ ti = RouterIP THEN <<SpoofReply(sm, si)>>
  ELSE IF c = "probe" /\ sm \in Targets /\ off[sm] \in IP4 /\ off[sm] # ti /\ InLan(ti) THEN <<Reject(sm, ti)>>
  ELSE <<>>

\* es: the Ethernet source of the frame. The handler keys everything on the ARP sender hardware address sm
\* (arp.go:325,331); a relay that forwards another station's request has es # sm.
RecvM(op, es, sm, si, ti) ==
  /\ UNCHANGED <<hunt, loops, closed, pend, captured>>
  /\ hostOf' = ParseHosts(sm, si) /\ offer' = ParseOffer(sm, si)
  /\ out' = RecvOut(op, sm, si, ti, offer')
  /\ ev' = [kind |-> "recv", op |-> op, es |-> es, sm |-> sm, si |-> si, ti |-> ti]

-----------------------------------------------------------------------------
(* property level: reference variables, updated from the call log and the observable events only *)

FrameKind(f) ==
  IF f.op = 2 /\ f.sm = Own /\ f.ti = Bcast4 THEN "reject"
  ELSE IF f.si = RouterIP /\ f.sm = Own THEN "forged"
  ELSE IF f.si = RouterIP /\ f.sm = Router THEN "restore"
  ELSE "other"

RECURSIVE Poison(_, _)
Poison(p, fs) ==
  IF fs = <<>> THEN p
  ELSE LET f == Head(fs)
           p1 == IF f.ed \in Targets /\ FrameKind(f) = "forged" THEN [p EXCEPT ![f.ed] = "forged"]
                 ELSE IF f.ed \in Targets /\ FrameKind(f) = "restore" THEN [p EXCEPT ![f.ed] = "ok"]
                 ELSE p
       IN Poison(p1, Tail(fs))

NoPre == [hunted |-> FALSE, valid |-> FALSE, snap |-> {}, snapClosed |-> TRUE, mac |-> NilMAC, zombie |-> FALSE]

StartHuntR(m, ip, n) ==          \* n: number of loop instances that announce themselves after the call
  LET valid == m # NilMAC /\ ip \in IP4 IN
  /\ pre' = [NoPre EXCEPT !.hunted = m \in refHunt, !.valid = valid, !.mac = m]
  /\ refHunt' = IF valid THEN refHunt \cup {m} ELSE refHunt
  /\ UNCHANGED <<refClosed, refOffer>>
  \* "unless it is hunted again": a new hunt cancels a restore that is still owed
  /\ poisoned' = Poison(IF valid /\ m \in Targets /\ poisoned[m] = "owed" THEN [poisoned EXCEPT ![m] = "ok"] ELSE poisoned, out')
  /\ rl' = rl \o [i \in 1..n |-> [mac |-> m, alive |-> TRUE, snap |-> {}, snapClosed |-> TRUE, fresh |-> FALSE, cur |-> TRUE]]

StopHuntR(m) ==
  /\ pre' = [NoPre EXCEPT !.hunted = m \in refHunt, !.mac = m]
  /\ refHunt' = refHunt \ {m}
  \* the loops spawned for the hunt that ends here no longer count as loops of the current hunt of m
  /\ rl' = [l \in 1..Len(rl) |-> IF rl[l].mac = m THEN [rl[l] EXCEPT !.cur = FALSE] ELSE rl[l]]
  /\ UNCHANGED <<refClosed, refOffer>>
  \* from now on the target is owed a restoring packet (it may come with this very call or from the loop)
  /\ poisoned' = Poison(IF m \in refHunt /\ ~refClosed /\ poisoned[m] = "ok" THEN [poisoned EXCEPT ![m] = "owed"] ELSE poisoned, out')

CloseR == /\ refClosed' = TRUE /\ pre' = NoPre /\ UNCHANGED <<refHunt, refOffer, rl>> /\ poisoned' = Poison(poisoned, out')

OfferR(m, ip) == /\ refOffer' = [refOffer EXCEPT ![m] = ip] /\ pre' = NoPre
                 /\ UNCHANGED <<refHunt, refClosed, rl>> /\ poisoned' = Poison(poisoned, out')

\* a membership check of loop l: from now on one forged frame to a MAC hunted at this instant is allowed
LoopCheckR(l) ==
  /\ rl' = [rl EXCEPT ![l].snap = refHunt, ![l].snapClosed = refClosed, ![l].fresh = TRUE]
  /\ pre' = [NoPre EXCEPT !.zombie = ~rl[l].alive, !.mac = rl[l].mac]
  /\ UNCHANGED <<refHunt, refClosed, refOffer>> /\ poisoned' = Poison(poisoned, out')

LoopActR(l) ==
  /\ pre' = [NoPre EXCEPT !.snap = IF rl[l].fresh THEN rl[l].snap ELSE {}, !.snapClosed = ~rl[l].fresh \/ rl[l].snapClosed, !.mac = rl[l].mac]
  /\ rl' = [rl EXCEPT ![l].fresh = FALSE, ![l].alive = ~ev'.done]
  /\ poisoned' = Poison(poisoned, out')
  /\ UNCHANGED <<refHunt, refClosed, refOffer>>

IdleR == pre' = NoPre /\ UNCHANGED <<refHunt, refClosed, refOffer, rl>> /\ poisoned' = Poison(poisoned, out')
\* frames emitted while a packet is processed also count for the poisoned ledger
RecvR == pre' = NoPre /\ poisoned' = Poison(poisoned, out') /\ UNCHANGED <<refHunt, refClosed, refOffer, rl>>

-----------------------------------------------------------------------------
(* actions *)

StartHunt(m, ip) == StartHuntM(m, ip) /\ StartHuntR(m, ip, ev'.spawned)
ConcStart(m, ip, n) == ConcStartM(m, ip, n) /\ StartHuntR(m, ip, ev'.spawned)
StartCheck(m, ip) == StartCheckM(m, ip) /\ IdleR
StartInsert(m)   == StartInsertM(m) /\ StartHuntR(m, Head(pend[m]), 1)
StopHunt(m)      == StopHuntM(m) /\ StopHuntR(m)
Close            == CloseM /\ CloseR
Offer(m, ip)     == OfferM(m, ip) /\ OfferR(m, ip)
LoopCheck(l, t)  == LoopCheckM(l, t) /\ LoopCheckR(l)
LoopAct(l)       == LoopActM(l, FALSE) /\ LoopActR(l)
Capture(m, on)   == CaptureM(m, on) /\ IdleR
Tick(l)          == TickM(l) /\ IdleR
WakeOnClose(l)   == WakeOnCloseM(l) /\ IdleR
Recv(op, es, sm, si, ti) == RecvM(op, es, sm, si, ti) /\ RecvR

Init ==
  /\ hunt = [m \in Targets |-> NoIP] /\ loops = <<>> /\ closed = FALSE
  /\ offer = [m \in Targets |-> NoIP] /\ hostOf = [ip \in LanIPs |-> NilMAC] /\ pend = [m \in Targets |-> <<>>] /\ captured = {} /\ out = <<>> /\ ev = [kind |-> "init"]
  /\ refHunt = {} /\ refClosed = FALSE /\ refOffer = [m \in Targets |-> NoIP]
  /\ rl = <<>> /\ poisoned = [m \in Targets |-> "ok"] /\ pre = NoPre

-----------------------------------------------------------------------------
(* property-level predicates: direct transcriptions of the statement of C13.               *)
(* They mention only the call log (ev args, refHunt, refClosed, refOffer), the observable  *)
(* loop events (rl, pre.snap) and the emitted frames (out).                                 *)

Frames == {out[i] : i \in 1..Len(out)}
OfKind(k) == {f \in Frames : FrameKind(f) = k}

\* "forged ARP packets ... only to hosts that are in its hunt list (periodically while hunted,
\*  and as an immediate reply when a hunted host asks for the router), never to any other host".
\* Reading: a periodic forged frame of a loop must follow a membership check of that loop at which
\* the receiver was hunted, one frame per check.
P_ForgedOnlyToHunted ==
  \A f \in OfKind("forged") :
     \/ ev.kind = "act" /\ f.ed \in pre.snap /\ Cardinality(OfKind("forged")) = 1 /\ Len(out) = 1
     \* the forged reply is ADDRESSED to a hunted MAC, which is the station that asked (the ARP sender)
     \/ /\ ev.kind = "recv" /\ RecvClass(ev.op, ev.si, ev.ti) = "request" /\ ev.ti = RouterIP
        /\ f.ed \in refHunt /\ f.ed = ev.sm /\ f.op = 2 /\ Len(out) = 1

\* "a probe-reject reply is sent only when the probing MAC holds a different outstanding DHCP
\*  offer and the probed address lies in the home LAN"
P_RejectOnlyIf ==
  \A f \in OfKind("reject") :
     /\ ev.kind = "recv" /\ RecvClass(ev.op, ev.si, ev.ti) = "probe"
     /\ ev.sm \in Targets /\ refOffer[ev.sm] \in IP4 /\ refOffer[ev.sm] # ev.ti /\ InLan(ev.ti)
     /\ f.ed = ev.sm /\ f.si = ev.ti /\ Len(out) = 1

\* "After StopHunt the spoof loop terminates within one cycle and the target receives an ARP packet
\*  restoring the router's real MAC, after which no further forged packet is sent to it unless it is
\*  hunted again"
\*  (a) a loop that continues after a check was checking a MAC of its own that was hunted then;
\*  (b), (c) on the wire, per target: once no loop can still legitimately send to an un-hunted m (its own loops have
\*      ended, no other loop holds a fresh check that saw it hunted), m has received its restoring packet (b) and
\*      that packet -- or a later one -- is the last word: no forged frame follows it (c).  WHO sends the restoring
\*      packet (the ending loop, StopHunt itself) is not prescribed.
P_UndoContinue == /\ ev.kind = "act" /\ ~ev.done => pre.mac \in pre.snap
                  /\ ev.kind = "check" => ~pre.zombie              \* a loop that ended stays ended
Settled(m) == m \notin refHunt /\ ~refClosed
              /\ ~\E l \in 1..Len(rl) : rl[l].alive /\ (rl[l].mac = m \/ (rl[l].fresh /\ m \in rl[l].snap))
P_UndoRestore  == \A m \in Targets : Settled(m) => poisoned[m] # "owed"
P_UndoQuiet    == \A m \in Targets : Settled(m) => poisoned[m] # "forged"
P_UndoWithinOneCycle == P_UndoContinue /\ P_UndoRestore /\ P_UndoQuiet

\* "StartHunt is idempotent per MAC" (and rejects a nil MAC / non-IPv4 target): a second StartHunt
\* neither changes the list nor starts another loop
\* Also for overlapping calls: however many StartHunt calls for one MAC run concurrently, one hunt has one loop.
P_Idempotent ==
  /\ ev.kind = "start" =>
        /\ ev.err = ~pre.valid
        /\ (~pre.valid => ev.spawned = 0)
        /\ (~refClosed => ev.spawned = (IF pre.valid /\ ~pre.hunted THEN 1 ELSE 0))    \* (the statement is silent about StartHunt after Close)
  /\ ev.kind = "cstart" =>
        /\ ev.errs = (IF pre.valid THEN 0 ELSE ev.n)
        /\ (~pre.valid => ev.spawned = 0)
        /\ (~refClosed => ev.spawned = (IF pre.valid /\ ~pre.hunted THEN 1 ELSE 0))
  /\ ~refClosed => \A m \in Targets : Cardinality({l \in 1..Len(rl) : rl[l].mac = m /\ rl[l].cur}) <= 1

\* "Close stops all loops": a loop that continues after a check saw the handler open at that check (reading as
\* for StopHunt: the cycle already past its check when Close is called may complete; the next check ends the loop)
\* (the wake-up half is the `stuck` observation of the trace specification / the fairness config)
P_CloseStops == /\ ev.kind = "act" /\ ~ev.done => ~pre.snapClosed
                /\ ev.kind = "close" => ev.stuck = {}

\* the list the handler reports is the list the call log defines
P_ListMatches == refClosed \/ {m \in Targets : hunt[m] # NoIP} = refHunt      \* (the statement is silent about the list after Close)

Verdict ==
  IF ~P_ForgedOnlyToHunted THEN "C13_ForgedOnlyToHunted"
  ELSE IF ~P_RejectOnlyIf THEN "C13_RejectOnlyIf"
  ELSE IF ~P_CloseStops THEN "C13_CloseStops"
  ELSE IF ~P_UndoContinue THEN "C13_UndoWithinOneCycle_continue"
  ELSE IF ~P_UndoRestore THEN "C13_UndoWithinOneCycle_restore"
  ELSE IF ~P_UndoQuiet THEN "C13_UndoWithinOneCycle_quiet"
  ELSE IF ~P_Idempotent THEN "C13_Idempotent"
  ELSE IF ~P_ListMatches THEN "C13_Idempotent_list"
  ELSE "none"

\* C07 rider: every emitted frame is one of the four shapes, addressed to a unicast client
WellFormedOut == \A f \in Frames : f.ed \in Targets /\ FrameKind(f) # "other"
=============================================================================
