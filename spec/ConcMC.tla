------------------------------ MODULE ConcMC ------------------------------
(* Bounded instances of Conc.tla.  The race pairs of the model are collected in TLC register 7 and
   printed once each (RaceLog is an always-true invariant); behaviours that reach a racing state, a
   stale purge deletion or an inconsistent quiescent state are exported through the *X invariants. *)
EXTENDS Conc, Json

(* scenarios (records cannot be written in a .cfg): Frames <- MC_Frames, InitHosts <- MC_InitHosts *)
CONSTANT Scenario
H(mac, ip, on, seen) == [mac |-> mac, ip |-> ip, online |-> on, seen |-> seen]
Fr(mac, ip) == [mac |-> mac, ip |-> ip]
\* with PurgeNow = 10, OfflineD = 2, PurgeD = 4: seen 0 is stale (deletable when offline), seen 5 is due to go offline
MC_InitHosts ==
  CASE Scenario = "stale"    -> {H(1, 1, FALSE, 0)}
    [] Scenario = "ipchange" -> {H(1, 1, TRUE, 5)}
    [] Scenario = "dup"      -> {H(1, 1, TRUE, 5)}
    [] Scenario = "two"      -> {H(1, 1, FALSE, 0), H(2, 2, TRUE, 5)}
    [] Scenario = "mix"      -> {H(1, 1, FALSE, 0), H(1, 2, TRUE, 5)}
    [] Scenario = "apionly"  -> {H(1, 1, TRUE, 10)}          \* fresh and online: purge only scans
    [] Scenario = "returning" -> {H(1, 1, FALSE, 0)}         \* a client comes back under a new address; its old one is purgeable
    [] Scenario = "twoold"   -> {H(1, 1, FALSE, 0), H(1, 2, TRUE, 5)}
    [] OTHER                 -> {}
MC_Frames ==
  CASE Scenario = "stale"    -> <<Fr(1, 1)>>
    [] Scenario = "ipchange" -> <<Fr(1, 2), Fr(1, 1)>>
    [] Scenario = "dup"      -> <<Fr(2, 1), Fr(1, 1)>>
    [] Scenario = "two"      -> <<Fr(1, 1), Fr(2, 2)>>
    [] Scenario = "mix"      -> <<Fr(1, 1), Fr(1, 2)>>
    [] Scenario = "returning" -> <<Fr(1, 2)>>
    [] Scenario = "twoold"   -> <<Fr(2, 1), Fr(1, 1)>>
    [] OTHER                 -> <<>>

(* ---- gate-granular instance (direction A): context switches only where the real code can be held
   by packet.VerifGate (hooks/packet_gates.patch) or between two calls.  Every behaviour of this instance
   is a schedule harness/cmd/concdrv can force on the real code: hist is the list of
   "run process p until gate g / until its call returns" commands. *)
VARIABLES cur, hist, qbad    \* qbad: C05 failed at some quiescent point of the schedule (index into hist)
ggvars == <<htab, mtab, hobj, mobj, nextH, nextM, sess, row, pc, loc,
            arpMu, hunting, arpClosed, closeChanClosed, h6Chan, h6Mu, h6Closed, sessClosed, staleDel, panicked, cur, hist, qbad>>
CONSTANT OfflineGate      \* TRUE: the tree carries the optional gate purge.offline (hooks/packet_gates-2.patch)
SwitchPcs == {"idle", "done", "foc_g", "ot_b", "nt_g", "pg_g", "pg_r", "api_pick"} \cup (IF OfflineGate THEN {"pg_og"} ELSE {})
GateName(p, c) == CASE c = "foc_g" -> "foc.upgrade" [] c = "ot_b" -> "ot.mid" [] c = "nt_g" -> "notify.write"
                    [] c = "pg_g" -> "purge.delete" [] c = "pg_og" -> "purge.offline" [] c = "done" /\ p = "loop" -> "exit" [] OTHER -> "end"
StepOf(p) == IF p = "loop" THEN LoopNext \/ MakeOfflineNext("loop")
             ELSE IF p = "purge" THEN PurgeNext \/ MakeOfflineNext("purge")
             ELSE ApiNext(p)
GGInit == Init /\ TLCSet(7, {}) /\ cur = NoProc /\ hist = <<>> /\ qbad = 0
GGNext == \E p \in Procs :
            /\ cur \in {NoProc, p}
            /\ StepOf(p)
            /\ IF pc'[p] \in SwitchPcs
               THEN /\ cur' = NoProc
                    /\ hist' = Append(hist, [p |-> p, until |-> GateName(p, pc'[p]),
                                             op |-> loc'[p].op, mac |-> loc'[p].arg, ip |-> loc'[p].ip])
               ELSE cur' = p /\ hist' = hist
            /\ qbad' = IF qbad = 0 /\ Quiescent' /\ ~(C05_Structure' /\ C05_OnlineImpliesMacOnline') THEN Len(hist') ELSE qbad
GGSpec == GGInit /\ [][GGNext]_ggvars

Pair(r) == [pair |-> r]
RaceLog == LET new == Races \ TLCGet(7)
           IN IF new = {} THEN TRUE
              ELSE TLCSet(7, TLCGet(7) \cup new) /\ \A r \in new : PrintT(ToJson(Pair(r)))
MCInit == Init /\ TLCSet(7, {}) /\ cur = NoProc /\ hist = <<>> /\ qbad = 0
MCSpec == MCInit /\ [][Next /\ UNCHANGED <<cur, hist, qbad>>]_ggvars

\* export of every complete schedule with the state the model reaches (always TRUE)
SnapIP == [hosts |-> {[ip |-> hobj[h].ip, mac |-> mobj[hobj[h].m].mac, online |-> hobj[h].online, dirty |-> hobj[h].dirty] : h \in LiveH},
           macs  |-> {[mac |-> mobj[m].mac, online |-> mobj[m].online, ip4 |-> mobj[m].ip4, captured |-> mobj[m].captured,
                       offer |-> mobj[m].offer, list |-> [i \in 1..Len(mobj[m].list) |-> hobj[mobj[m].list[i]].ip]] : m \in mtab}]
GGExport == AllDone => PrintT(ToJson([scenario |-> Scenario, init |-> InitHosts, frames |-> Frames, sched |-> hist, final |-> SnapIP, staleDel |-> staleDel,
                                      c05 |-> C05_Structure /\ C05_OnlineImpliesMacOnline, qbad |-> qbad]))

\* abstract state printed with an expected counterexample
Snap == [pc |-> pc, htab |-> htab, hosts |-> [h \in LiveH |-> hobj[h]], macs |-> [m \in mtab |-> mobj[m]]]
PurgeDeleteStaleX == PurgeDeleteStale \/ (PrintT(ToJson([cex |-> "PurgeDeleteStale", state |-> Snap])) /\ FALSE)
NoPanicX == NoPanic \/ (PrintT(ToJson([cex |-> "NoPanic", state |-> Snap])) /\ FALSE)
C05_OnlineAtQuiescenceX == C05_OnlineAtQuiescence \/ (PrintT(ToJson([cex |-> "C05_OnlineImpliesMacOnline", state |-> Snap])) /\ FALSE)
=============================================================================
