SPECIFICATION Spec
CONSTANTS
  MaxLen = 2
  MaxSecond = 1
  Part = "single"
INVARIANTS WalkTerminates Export
CHECK_DEADLOCK FALSE
