SPECIFICATION MCSpec
CONSTANTS
  Own = own
  Targets = {m1, m2, m3}
  RouterNIC = router
  RouterMACs = {rm1, rm2}
  HostLLA = hostlla
  AllNodes = allnodes
  LLAs = {l1, l2, lz1, lx1, lx2}
  ZLLA = lz1
  ZBase = l1
  ExtraLLAs = {}
  GUAs = {g1, ula1, unspec6, loop6, mc5, map4, allnodes}
  CaptureMACs = {}
  OtherV6 = {ula1, unspec6, loop6, mc5, map4, allnodes}
  V4s = {a1}
  NoIP = noip
  RouterIPs = {r1, r2}
  NilMAC = nilmac
  T1 = m1
  T2 = m2
  T3 = m3
  L1 = l1
  L2 = l2
  G1 = g1
  V41 = a1
  R1 = r1
  R2 = r2
  RM1 = rm1
  RM2 = rm2
  SafeWake = TRUE
  MaxLoops = 3
  MaxDepth = 0
  Bounded = FALSE
  ExportEvery = 1
INVARIANTS TypeOK C14_ForgedOnlyToHunted C14_OnlyAfterRouter C14_NAFields C14_StartFilters C14_Idempotent C14_QuietAfterStop NoPanic SleepersWakeOnClose
VIEW View
CHECK_DEADLOCK FALSE
