---------------------------- MODULE MemConnTrace ----------------------------
(* Trace validation of recorded executions of the real TestNewBufferedConn() pair against MemConn.tla
   (Cap = 512, the code's maxBufSize; one trace line per real call).

   The next state is always the one MemConn.tla computes from the logged ARGUMENTS; the logged OUTCOME of the line
   just consumed is compared with the specification's `out` in a CONSTRAINT.  The first line whose outcome differs is
   recorded (register VI) together with the outcome the specification demands and the walk is pruned there; the
   POSTCONDITION prints  MISMATCH <line> <expected outcome as JSON>  or  ACCEPTED <lines> <known-finding counters>.
   checks/x01.py classifies a mismatch (property-level contradiction or drift at a known-finding site).
   Many behaviours are concatenated; a "reset" line starts the next one. *)
EXTENDS MemConn, Json

CONSTANTS TraceFile
VARIABLES l, kfs
tvars == <<q, closed, rd, dl, nid, out, acc, dlv, l, kfs>>

Trace == ndJsonDeserialize(TraceFile)
HW == 1                \* register: highest line consumed
VI == 2                \* register: first mismatch <<line, [expected outcome, known-finding sites of that step]>>
KF == 3                \* register: sequence of known-finding keys met (with multiplicity capped by the checker)
E  == Trace[l]

IsEvent(a) == l <= Len(Trace) /\ E.a = a /\ l' = l + 1

TReset == /\ IsEvent("reset")
          /\ q' = [e \in Ends |-> <<>>] /\ closed' = [e \in Ends |-> FALSE] /\ rd' = [e \in Ends |-> Nil]
          /\ dl' = [e \in Ends |-> "off"] /\ nid' = 0 /\ out' = Plain("ok", 0)
          /\ acc' = [e \in Ends |-> <<>>] /\ dlv' = [e \in Ends |-> <<>>] /\ kfs' = <<>>
TWrite == /\ IsEvent("write") /\ E.e \in Ends /\ nid = E.id
          /\ Write(E.e, E.n) /\ kfs' = KfWrite(E.e) \o KfOver(out')
TRead  == /\ IsEvent("read") /\ E.e \in Ends
          /\ Read(E.e, Buf(E.len, E.cap)) /\ kfs' = KfRead(E.e) \o KfOver(out')
TClose == /\ IsEvent("close") /\ E.e \in Ends
          /\ Close(E.e) /\ kfs' = KfClose(E.e)
TIdle  == /\ IsEvent("idle") /\ out' = Plain("", 0) /\ kfs' = <<>>
          /\ UNCHANGED <<q, closed, rd, dl, nid, acc, dlv>>

TraceInit == Init /\ l = 1 /\ kfs = <<>> /\ TLCSet(HW, 0) /\ TLCSet(VI, <<>>) /\ TLCSet(KF, <<>>)
TraceNext == TReset \/ TWrite \/ TRead \/ TClose \/ TIdle
TraceSpec == TraceInit /\ [][TraceNext]_tvars

\* ---- comparison of the logged outcome of line l-1 with `out`
LE == Trace[l - 1]
IdOK(id, ids) == id = NoId \/ \E i \in 1..Len(ids) : ids[i] = id
WakeOK(w, lw) == /\ Len(w) = Len(lw)
                 /\ \A i \in 1..Len(w) : /\ lw[i].e = w[i].e /\ lw[i].n = w[i].n /\ lw[i].over = w[i].over
                                         /\ lw[i].bad = "" /\ IdOK(w[i].id, lw[i].ids)
Conforms ==
  /\ LE.res = out.res
  /\ WakeOK(out.wake, LE.wake)
  /\ (LE.a = "write" /\ out.res = "ok") => LE.rn = out.n
  /\ (LE.a = "read" /\ out.res = "ok") => /\ LE.rn = out.n /\ LE.over = out.over /\ LE.bad = "" /\ IdOK(out.id, LE.ids)

Count(s) == IF Len(TLCGet(KF)) < 2000 THEN TLCSet(KF, TLCGet(KF) \o s) ELSE TRUE
Check == /\ TLCSet(HW, IF l - 1 > TLCGet(HW) THEN l - 1 ELSE TLCGet(HW))
         /\ IF l = 1 \/ LE.a = "reset" THEN TRUE
            ELSE IF Conforms THEN (kfs = <<>> \/ Count(kfs))
            ELSE TLCSet(VI, <<l - 1, [exp |-> out, kf |-> kfs]>>) /\ FALSE

TraceAccepted ==
  IF TLCGet(VI) # <<>> THEN Print(<<"MISMATCH", TLCGet(VI)[1], ToJson(TLCGet(VI)[2])>>, FALSE)
  ELSE IF TLCGet(HW) = Len(Trace) THEN Print(<<"ACCEPTED", Len(Trace), ToJson(TLCGet(KF))>>, TRUE)
  ELSE Print(<<"REJECTED", "line", TLCGet(HW) + 1>>, FALSE)
=============================================================================
