SPECIFICATION MCSpec
CONSTANTS
  Own = own
  Router = router
  Targets = {m1, m2, m3}
  NilMAC = nilmac
  BcastMAC = bcastmac
  RouterIP = routerip
  HostIP = hostip
  LanIPs = {a1, a2}
  Zero = zero
  LL = ll1
  Ext = x1
  Bcast4 = bcast4
  V6 = l1
  NoIP = noip
  T1 = m1
  T2 = m2
  T3 = m3
  A1 = a1
  A2 = a2
  ByMac = TRUE
  RacyStart = FALSE
  NarrowES = FALSE
  CaptureMACs = {m1}
  MaxLoops = 1
  MaxDepth = 0
  Bounded = FALSE
  ExportEvery = 1
  WithOffer = TRUE
  RecvOps = {1, 2}
  RecvSI = {a1, zero, ll1}
  RecvTI = {routerip, a1, a2, x1, ll1, zero}
INVARIANTS TypeOK C13_ForgedOnlyToHunted C13_RejectOnlyIf C13_CloseStops C13_UndoWithinOneCycle C13_Idempotent C07_WellFormedOut LoopServesOwnMac
VIEW View
CHECK_DEADLOCK FALSE
