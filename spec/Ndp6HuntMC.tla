----------------------------- MODULE Ndp6HuntMC -----------------------------
(* Bounded model of Ndp6Hunt.tla.
   Full mode (Bounded = FALSE): the complete finite graph of all StartHunt/StopHunt/Close sequences over
   IPv4, global, link-local (two addresses) and address-less targets, RA arrivals from two routers
   (valid, unparsable options, no host) at every point, every loop step and timer, limited only by the
   number of loop instances ever spawned (MaxLoops).  Walk mode (Bounded = TRUE): depth-bounded with an
   action history for behaviour export.  Property predicates are evaluated on EVERY transition
   (bad' = Verdict'), so hiding the per-step outputs from the VIEW loses nothing. *)
EXTENDS Ndp6Hunt, Json

CONSTANTS T1, T2, T3, L1, L2, G1, V41, R1, R2, RM1, RM2,      \* members of the universes by name
          CaptureMACs,                                        \* MACs the application may flag with Session.Capture / Release
          ExtraLLAs,                                          \* further link-local targets (zoned, non-zero bits after the /10 prefix) tried in the walks
          OtherV6,                                            \* IPv6 addresses that are neither link-local unicast nor G1 (subset of GUAs)
          MaxLoops, MaxDepth, Bounded, ExportEvery
VARIABLES bad, depth, hist
mcvars == <<hunt, loops, routers, raCount, closed, panicked, captured, out, ev, refHunt, refClosed, refRouters, rl, pre, bad, depth, hist>>

\* t1 has two link-local addresses, t2 is address-less, t3 is known by a global and an IPv4 address
StartChoices == {<<T1, L1>>, <<T1, L2>>, <<T2, NoIP>>, <<T3, G1>>, <<T3, V41>>, <<T3, L2>>} \cup {<<T3, x>> : x \in OtherV6}
                \cup {<<T1, x>> : x \in ExtraLLAs} \cup {<<T3, x>> : x \in ExtraLLAs}
StopChoices  == {<<T1, L1>>, <<T1, G1>>, <<T1, NoIP>>, <<T2, NoIP>>, <<T2, V41>>, <<T3, L2>>} \cup {<<T3, x>> : x \in OtherV6}
                \cup {<<T1, x>> : x \in ExtraLLAs} \cup {<<T3, x>> : x \in ExtraLLAs}
RAChoices    == {<<R1, RM1, "ok">>, <<R2, RM2, "ok">>, <<R1, RM1, "badopts">>, <<R2, RM2, "nohost">>}
OtherKinds   == {"ns-lla", "ns-gua", "na", "rs", "echo"}

Step(rec) == /\ bad' = IF bad # "none" THEN bad ELSE Verdict'
             /\ depth' = IF Bounded THEN depth + 1 ELSE depth
             /\ hist' = IF Bounded THEN Append(hist, rec) ELSE hist

MCInit == Init /\ bad = "none" /\ depth = 0 /\ hist = <<>>

MCNext == ~panicked /\ (~Bounded \/ depth < MaxDepth) /\
  \/ \E c \in StartChoices :
        /\ (Effective(c[2]) /\ c[1] \notin HuntMacs) => Len(loops) < MaxLoops
        /\ StartHunt(c[1], c[2]) /\ Step([a |-> "start", mac |-> c[1], ip |-> c[2]])
  \/ \E c \in {<<T1, L1>>, <<T2, NoIP>>, <<T3, G1>>, <<T3, V41>>} :
        /\ (Effective(c[2]) /\ c[1] \notin HuntMacs) => Len(loops) < MaxLoops
        /\ ConcStart(c[1], c[2], 4) /\ Step([a |-> "cstart", mac |-> c[1], ip |-> c[2], n |-> 4])
  \/ \E c \in StopChoices : StopHunt(c[1], c[2]) /\ Step([a |-> "stop", mac |-> c[1], ip |-> c[2]])
  \/ ~closed /\ Close /\ Step([a |-> "close"])
  \/ \E l \in 1..Len(loops) :
        \/ LoopCheck(l) /\ Step([a |-> "check", l |-> l])
        \/ \E o \in SetToSeqs(loops[l].list) : LoopSendRound(l, o) /\ Step([a |-> "act", l |-> l])
        \/ ~loops[l].woken /\ ~closed /\ Timeout(l) /\ Step([a |-> "timeout", l |-> l])
        \/ WakeByRA(l) /\ Step([a |-> "wake", l |-> l])
  \/ \E c \in RAChoices : RecvRA(c[1], c[2], c[3]) /\ Step([a |-> "ra", src |-> c[1], rmac |-> c[2], kind |-> c[3]])
  \/ \E m \in CaptureMACs :
        \/ m \notin captured /\ Capture(m, TRUE) /\ Step([a |-> "capture", mac |-> m])
        \/ m \in captured /\ Capture(m, FALSE) /\ Step([a |-> "release", mac |-> m])
  \/ \E k \in OtherKinds : RecvOther(k) /\ Step([a |-> "other", kind |-> k])

MCSpec == MCInit /\ [][MCNext]_mcvars

TypeOK == /\ Len(loops) <= MaxLoops /\ Len(rl) = Len(loops) /\ raCount \in 0..3
          /\ \A l \in 1..Len(loops) : loops[l].pc \in {"check", "send", "sleep", "done"}
          /\ \A l \in 1..Len(loops) : rl[l].alive = (loops[l].pc # "done") /\ rl[l].mac = loops[l].mac

C14_ForgedOnlyToHunted == bad # "C14_ForgedOnlyToHunted"
C14_OnlyAfterRouter    == bad # "C14_OnlyAfterRouter"
C14_NAFields           == bad # "C14_NAFields"
C14_StartFilters       == bad # "C14_StartFilters"
C14_Idempotent         == bad \notin {"C14_Idempotent", "C14_Idempotent_list"}
C14_QuietAfterStop     == bad # "C14_QuietAfterStop"
NoPanic                == bad # "C14_NoPanic" /\ ~panicked
\* mechanism level: a sleeping loop is never lost -- it is woken by the next RA or Close, or times out
SleepersWakeOnClose == closed => \A l \in 1..Len(loops) : loops[l].pc = "sleep" => ENABLED WakeByRAM(l)

Export == (Bounded /\ depth = MaxDepth /\ (ExportEvery = 1 \/ RandomElement(1..ExportEvery) = 1)) => PrintT(ToJson(hist))
ExportBad == (Bounded /\ bad # "none" /\ ev.kind # "init") => PrintT(ToJson([bad |-> bad, hist |-> hist]))
NotBad == bad = "none"

View == <<hunt, loops, routers, raCount, closed, panicked, captured, refHunt, refClosed, refRouters, rl, bad, depth>>

-----------------------------------------------------------------------------
(* fairness configuration: after an effective StopHunt or Close every loop instance of that MAC ends *)
LiveNext ==
  \/ \E c \in {<<T1, L1>>, <<T2, NoIP>>} : Len(loops) < MaxLoops /\ StartHunt(c[1], c[2]) /\ UNCHANGED <<bad, depth, hist>>
  \/ \E c \in {<<T1, L1>>, <<T2, NoIP>>, <<T1, G1>>} : StopHunt(c[1], c[2]) /\ UNCHANGED <<bad, depth, hist>>
  \/ ~closed /\ Close /\ UNCHANGED <<bad, depth, hist>>
  \/ \E l \in 1..Len(loops) :
        \/ LoopCheck(l) /\ UNCHANGED <<bad, depth, hist>>
        \/ \E o \in SetToSeqs(loops[l].list) : LoopSendRound(l, o) /\ UNCHANGED <<bad, depth, hist>>
        \/ Timeout(l) /\ UNCHANGED <<bad, depth, hist>>
  \/ ~closed /\ RecvRA(R1, RM1, "ok") /\ UNCHANGED <<bad, depth, hist>>
LoopStep(l) == /\ l <= Len(loops)
               /\ \/ LoopCheck(l)
                  \/ \E o \in SetToSeqs(loops[l].list) : LoopSendRound(l, o)
                  \/ Timeout(l)
               /\ UNCHANGED <<bad, depth, hist>>
LiveSpec == MCInit /\ [][LiveNext]_mcvars /\ \A l \in 1..MaxLoops : WF_mcvars(LoopStep(l))
Ended(l) == l <= Len(loops) /\ loops[l].pc = "done"
StopLeadsToDone  == \A l \in 1..MaxLoops :
                      (l <= Len(loops) /\ loops[l].mac \notin refHunt) ~> (Ended(l) \/ (l <= Len(loops) /\ loops[l].mac \in refHunt))
CloseLeadsToDone == \A l \in 1..MaxLoops : (closed /\ l <= Len(loops)) ~> Ended(l)
=============================================================================
