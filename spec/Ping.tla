-------------------------------- MODULE Ping --------------------------------
(***************************************************************************)
(* Ping waiter table of irai/packet (layer_icmp.go:505-607 icmpTable,      *)
(* echoNotify, Session.Ping / Ping6 / ping; layer_frame.go:373-405 Parse   *)
(* calling echoNotify for ICMPv4 / ICMPv6 echo replies).                   *)
(*                                                                         *)
(* Two levels (DESIGN 1.1):                                                *)
(*  - mechanism: table, nextID, pc, id, fam, closed, recv, res, panic --   *)
(*    one action per critical section / blocking point of the code:        *)
(*      Register   icmpTable.Lock; id := icmpTable.id; id++; table[id]=&msg *)
(*      Send       ICMP4SendEchoRequest / ICMP6SendEchoRequest succeeded    *)
(*      KF_SendFailsLeak   the send returned an error: `return err` with    *)
(*                 the waiter still registered (layer_icmp.go:549-551,      *)
(*                 588-590) -- DESIGN section 7 item 21                     *)
(*      SendFailsClean     what a repaired Ping would do                    *)
(*      Wake / TimerFires  the two arms of the select                       *)
(*      Cleanup    icmpTable.Lock; delete(table, id)                        *)
(*      Return     if !msg.msgRecv { return ErrTimeout }; return nil        *)
(*      Parse(i,k) -> EchoNotify(i) for echo replies only                   *)
(*  - property: ref -- per ping what the statement of C19 talks about:      *)
(*    whether it is running, the identifier of its request, whether an     *)
(*    echo reply carrying that identifier was parsed while it was running  *)
(*    (any) and whether one of its own address family was parsed before    *)
(*    its timer fired (before), and the value it returned.                 *)
(* The invariants C19_* relate the two levels.                             *)
(***************************************************************************)
EXTENDS Naturals, Sequences, FiniteSets, TLC

CONSTANTS Procs,            \* ping callers (one call each)
          NoProc,
          IdSpace,          \* echo identifiers are 0..IdSpace-1 (uint16 in the code)
          FirstId,          \* value of the process-wide counter when the run starts (1 in a fresh process)
          LeakOnSendError   \* TRUE: the code as it is; FALSE: repaired

ReplyKinds == {"echoReply4", "echoReply6"}
Kinds      == ReplyKinds \cup {"echoRequest", "malformed"}
Fams       == {"v4", "v6"}
KindFam(k) == IF k = "echoReply4" THEN "v4" ELSE IF k = "echoReply6" THEN "v6" ELSE "none"
NoId       == IdSpace       \* "identifier not (yet) known"

VARIABLES table,    \* set of <<id, proc>>: icmpTable.table (functional in id)
          nextID,   \* icmpTable.id
          pc,       \* Procs -> program counter
          id,       \* Procs -> identifier taken at Register
          fam,      \* Procs -> "v4" (Session.Ping) | "v6" (Session.Ping6)
          closed,   \* Procs -> msg.wakeup is closed
          recv,     \* Procs -> msg.msgRecv
          res,      \* Procs -> "none" | "nil" | "timeout" | "error"
          panic,    \* close of a closed channel happened
          ref       \* property level: Procs -> [st, fam, id, any, before, res]

mech == <<table, nextID, pc, id, fam, closed, recv, res, panic>>
vars == <<table, nextID, pc, id, fam, closed, recv, res, panic, ref>>

PCs == {"idle", "start", "registered", "waiting", "woken", "timedOut", "cleaned", "done"}

Owner(i)   == IF \E e \in table : e[1] = i THEN (CHOOSE e \in table : e[1] = i)[2] ELSE NoProc
Without(i) == {e \in table : e[1] # i}
TableIds   == {e[1] : e \in table}

RefInit == [st |-> "idle", fam |-> "v4", id |-> NoId, any |-> FALSE, before |-> FALSE, res |-> "none"]

Init == /\ table = {} /\ nextID = FirstId
        /\ pc = [p \in Procs |-> "idle"] /\ id = [p \in Procs |-> NoId]
        /\ fam = [p \in Procs |-> "v4"]
        /\ closed = [p \in Procs |-> FALSE] /\ recv = [p \in Procs |-> FALSE]
        /\ res = [p \in Procs |-> "none"] /\ panic = FALSE
        /\ ref = [p \in Procs |-> RefInit]

-----------------------------------------------------------------------------
(* mechanism *)

\* the caller enters Ping (f = v4) or Ping6 (f = v6)
StartM(p, f) == /\ pc[p] = "idle"
                /\ pc' = [pc EXCEPT ![p] = "start"] /\ fam' = [fam EXCEPT ![p] = f]
                /\ UNCHANGED <<table, nextID, id, closed, recv, res, panic>>

\* msg := icmpEntry{wakeup: make(chan bool)}; Lock; id := table.id; table.id++; table.table[id] = &msg; Unlock
RegisterM(p) == /\ pc[p] = "start"
                /\ id' = [id EXCEPT ![p] = nextID]
                /\ nextID' = (nextID + 1) % IdSpace
                /\ table' = Without(nextID) \cup {<<nextID, p>>}      \* a map assignment overwrites
                /\ closed' = [closed EXCEPT ![p] = FALSE] /\ recv' = [recv EXCEPT ![p] = FALSE]
                /\ pc' = [pc EXCEPT ![p] = "registered"]
                /\ UNCHANGED <<fam, res, panic>>

\* the echo request was written to the connection; the caller blocks in select
SendM(p) == /\ pc[p] = "registered"
            /\ pc' = [pc EXCEPT ![p] = "waiting"]
            /\ UNCHANGED <<table, nextID, id, fam, closed, recv, res, panic>>

\* `if err = h.ICMP6SendEchoRequest(...); err != nil { return err }`: the waiter stays registered
KF_SendFailsLeakM(p) == /\ pc[p] = "registered"
                        /\ pc' = [pc EXCEPT ![p] = "done"] /\ res' = [res EXCEPT ![p] = "error"]
                        /\ UNCHANGED <<table, nextID, id, fam, closed, recv, panic>>

\* repaired: unregister before returning the error
SendFailsCleanM(p) == /\ pc[p] = "registered"
                      /\ pc' = [pc EXCEPT ![p] = "done"] /\ res' = [res EXCEPT ![p] = "error"]
                      /\ table' = {e \in table : e # <<id[p], p>>}
                      /\ UNCHANGED <<nextID, id, fam, closed, recv, panic>>

\* case <-msg.wakeup
WakeM(p) == /\ pc[p] = "waiting" /\ closed[p]
            /\ pc' = [pc EXCEPT ![p] = "woken"]
            /\ UNCHANGED <<table, nextID, id, fam, closed, recv, res, panic>>

\* case <-time.After(timeout)
TimerFiresM(p) == /\ pc[p] = "waiting"
                  /\ pc' = [pc EXCEPT ![p] = "timedOut"]
                  /\ UNCHANGED <<table, nextID, id, fam, closed, recv, res, panic>>

\* Lock; delete(table, id); Unlock   (by identifier, whoever owns the entry)
CleanupM(p) == /\ pc[p] \in {"woken", "timedOut"}
               /\ table' = Without(id[p])
               /\ pc' = [pc EXCEPT ![p] = "cleaned"]
               /\ UNCHANGED <<nextID, id, fam, closed, recv, res, panic>>

\* if !msg.msgRecv { return ErrTimeout }; return nil
ReturnM(p) == /\ pc[p] = "cleaned"
              /\ pc' = [pc EXCEPT ![p] = "done"]
              /\ res' = [res EXCEPT ![p] = IF recv[p] THEN "nil" ELSE "timeout"]
              /\ UNCHANGED <<table, nextID, id, fam, closed, recv, panic>>

\* echoNotify(id): Lock; if entry, ok := table[id]; ok { entry.msgRecv = true; close(entry.wakeup); delete } Unlock
EchoNotifyM(i) ==
  LET q == Owner(i) IN
  IF q = NoProc THEN UNCHANGED mech
  ELSE /\ recv' = [recv EXCEPT ![q] = TRUE]
       /\ IF closed[q] THEN panic' = TRUE /\ closed' = closed
          ELSE panic' = panic /\ closed' = [closed EXCEPT ![q] = TRUE]
       /\ table' = Without(i)
       /\ UNCHANGED <<nextID, pc, id, fam, res>>

\* Session.Parse of an ICMP message of kind k carrying identifier i
ParseM(i, k) == IF k \in ReplyKinds THEN EchoNotifyM(i) ELSE UNCHANGED mech

-----------------------------------------------------------------------------
(* property level: only what the statement mentions *)

StartR(p, f)   == ref' = [ref EXCEPT ![p] = [RefInit EXCEPT !.st = "running", !.fam = f]]
\* the identifier carried by p's echo request becomes known
IdentR(p, i)   == ref' = [ref EXCEPT ![p].id = i]
ReturnR(p, r)  == ref' = [ref EXCEPT ![p].st = "returned", ![p].res = r]
\* an ICMP message (i, k) is handed to Parse while the pings in `run` are running; for the pings in
\* `bef` the timer has certainly not fired yet
MayParseR(i, k) == [p \in Procs |-> ref[p].st = "running" /\ ref[p].id = i /\ k \in ReplyKinds]
ReplyR(i, k, bef) ==
  ref' = [p \in Procs |->
            [ref[p] EXCEPT !.any = @ \/ MayParseR(i, k)[p],
                           !.before = @ \/ (MayParseR(i, k)[p] /\ p \in bef /\ KindFam(k) = ref[p].fam)]]

-----------------------------------------------------------------------------
(* composed actions of the closed model (PingMC) *)

\* Session.Close (session.go: closed = true; close(closeChan); close(C); Conn.Close(); sleep) never touches the waiter table, which is
\* a package-level variable shared by all sessions of the process: closing the session a pending ping was started on, or any other
\* session, changes nothing for the ping -- it still completes on its own reply (Parse of any session feeds the one table) or times out.
CloseSessionM == UNCHANGED mech
CloseSession  == CloseSessionM /\ UNCHANGED ref
Start(p, f)   == StartM(p, f) /\ StartR(p, f)
Register(p)   == RegisterM(p) /\ IdentR(p, nextID)
Send(p)       == SendM(p) /\ UNCHANGED ref
SendFails(p)  == /\ IF LeakOnSendError THEN KF_SendFailsLeakM(p) ELSE SendFailsCleanM(p)
                 /\ ReturnR(p, "error")
Wake(p)       == WakeM(p) /\ UNCHANGED ref
TimerFires(p) == TimerFiresM(p) /\ UNCHANGED ref
Cleanup(p)    == CleanupM(p) /\ UNCHANGED ref
Return(p)     == ReturnM(p) /\ ReturnR(p, IF recv[p] THEN "nil" ELSE "timeout")
NotFired      == {p \in Procs : pc[p] \in {"registered", "waiting", "woken"}}
Reply(i, k)   == ParseM(i, k) /\ ReplyR(i, k, NotFired)

-----------------------------------------------------------------------------
(* invariants *)

TypeOK == /\ \A e \in table : e[1] \in 0..(IdSpace - 1) /\ e[2] \in Procs
          /\ \A e, g \in table : e[1] = g[1] => e = g
          /\ nextID \in 0..(IdSpace - 1)
          /\ \A p \in Procs : pc[p] \in PCs /\ fam[p] \in Fams /\ res[p] \in {"none", "nil", "timeout", "error"}

\* nil only if an echo reply with the caller's identifier was parsed while it was running;
\* ErrTimeout only if no echo reply of its own family with its identifier was parsed before its timer fired
C19_NilIffOwnReply ==
  \A p \in Procs : /\ ref[p].res = "nil" => ref[p].any
                   /\ ref[p].res = "timeout" => ~ref[p].before
                   /\ ref[p].st = "returned" => ref[p].res \in {"nil", "timeout", "error"}
\* concurrent pings hold different identifiers
C19_DistinctIds ==
  \A p, q \in Procs : (p # q /\ ref[p].st = "running" /\ ref[q].st = "running" /\ ref[p].id # NoId) => ref[p].id # ref[q].id
Quiescent == \A p \in Procs : ref[p].st # "running"
\* no waiter entry is left behind
C19_NoLeak == Quiescent => table = {}
\* the same, leaving out what the named deviation KF_SendFailsLeak is known to leave behind
C19_NoLeakModuloKF == Quiescent => \A e \in table : ref[e[2]].res = "error"
NoPanic == ~panic
\* a message completes (closes the waiter of) nobody but the running ping whose identifier it
\* carries, and only if it is an echo reply (checked on every Reply step: PingMC!OnlyOwnStep)
OnlyOwn(i, k) == \A p \in Procs : (closed'[p] # closed[p] \/ recv'[p] # recv[p]) => (k \in ReplyKinds /\ id[p] = i)
=============================================================================
