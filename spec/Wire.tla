-------------------------------- MODULE Wire --------------------------------
(***************************************************************************)
(* Wire formats of irai/packet: C03 (encoders and decoders are mutually    *)
(* inverse) and C07 (every transmitted frame is well formed and sourced    *)
(* from the host NIC MAC).                                                 *)
(*                                                                         *)
(* Part A  buffer-building protocol of the encoders as a state machine     *)
(*         over an abstract buffer [cap, layers]: EncodeEther, EncodeIP4,  *)
(*         EncodeIP6, EncodeARP, EncodeUDP, EncodeICMPEcho, EncodeDHCP4,   *)
(*         in-place payloads, SetPayload / AppendPayload at every layer,   *)
(*         external payloads (raw, DNS query, NS / NA marshal, echo).      *)
(*         Mechanism level: len/cap arithmetic and length-field formulas   *)
(*         shaped like layer_ethernet.go / layer_ip4.go / layer_ip6.go.    *)
(*         Property level: RefWalk, a decoder that looks only at the outer *)
(*         length and the length fields, and the C03_* invariants.         *)
(* Part B  DHCPv4 option layout (layer_dhcp4.go:298-391) as a function of  *)
(*         (supplied option set, requested order) with the C03_Dhcp*       *)
(*         predicates.                                                     *)
(* Part C  one action per exported send function; parameters range over    *)
(*         address classes; Mech(call) models what the code emits, Exp     *)
(*         (call) what the statement of C07 demands; WellFormed is the     *)
(*         transcription of the statement.  Deliberate deviations of the   *)
(*         code are labelled KF_* (DESIGN 3.1).                            *)
(***************************************************************************)
EXTENDS Naturals, Integers, Sequences, FiniteSets, TLC

CONSTANTS Caps,        \* capacities of the Ethernet buffer explored by part A
          NSmall,      \* small payload lengths tried everywhere (e.g. {0, 1, 17, 18})
          PortClasses, \* UDP port classes used by part A
          DhcpCodes,   \* option codes that may be supplied to EncodeDHCP4
          MaxOpts,     \* max size of a supplied option set
          ReqCodes,    \* codes that may occur in a requested-parameter list
          MaxReq,      \* max length of a requested-parameter list
          DhcpCaps,    \* capacities of the buffer handed to EncodeDHCP4 (part B)
          BigCode,     \* an option code whose value length ranges over BigLens (e.g. 43, vendor specific)
          BigLens,     \* value length classes of BigCode: {0, 1, typical, 254, 255}; 255 is the largest legal length
          WriteFailures, \* write-failure classes of the connection during a send action: subset of {"none","temp1","perm1","temp2"}
          IdClasses,   \* classes of the echo identifier of the echo send functions (part C), see EchoIdClasses
          NICs,        \* NIC configurations (names, concretised by the driver)
          Parts        \* subset of {"build", "alias", "dhcp", "send", "pairs"}

VARIABLES phase,  \* "idle" | "build" | "done" | "rewritten" | "stop" | "vec"
          cap,    \* capacity of the buffer under construction
          st,     \* layers, outermost first
          cur,    \* index of the innermost layer not yet attached to its parent
          res,    \* result of the last action: ok | nil | ErrPayloadTooBig | panic
          hist,   \* actions with arguments and expected results (export)
          vec,    \* part B / C: the vector [call, exp, mech]
          pool    \* part C: abstract content of the pooled frame buffer = the last frame a send action built in it;
                  \* written by every send action, read by NONE (see "The pool is write-only" below)

vars == <<phase, cap, st, cur, res, hist, vec, pool>>

Max(a, b) == IF a > b THEN a ELSE b
Range(s) == {s[i] : i \in 1..Len(s)}
Nil == [nil |-> TRUE]

RECURSIVE DedupR(_, _)
DedupR(s, seen) == IF s = <<>> THEN <<>>
                   ELSE IF Head(s) \in seen THEN DedupR(Tail(s), seen)
                   ELSE <<Head(s)>> \o DedupR(Tail(s), seen \cup {Head(s)})
Dedup(s) == DedupR(s, {})


RECURSIVE SetToSeq(_)
SetToSeq(S) == IF S = {} THEN <<>> ELSE LET x == CHOOSE y \in S : \A z \in S : y <= z IN <<x>> \o SetToSeq(S \ {x})

-----------------------------------------------------------------------------
(* Part B: DHCPv4 option layout                                            *)

MsgType == 53
OptLen(c) == CASE c = 1 -> 4 [] c = 3 -> 4 [] c = 6 -> 8 [] c = 12 -> 6 [] c = 15 -> 3 [] c = 33 -> 8
               [] c = 51 -> 4 [] c = 53 -> 1 [] c = 54 -> 4 [] c = 55 -> 5 [] c = 61 -> 7 [] c = 121 -> 9
               [] OTHER -> 2

Supplied(s) == s \cup {MsgType}                       \* EncodeDHCP4 always adds the message type
VLen(c, bl) == IF c = BigCode THEN bl ELSE OptLen(c)  \* bl: value length of BigCode in this vector
RECURSIVE OptBytesR(_, _)
OptBytesR(S, bl) == IF S = {} THEN 0 ELSE LET x == CHOOSE y \in S : TRUE IN 2 + VLen(x, bl) + OptBytesR(S \ {x}, bl)
OptBytes(s, bl) == OptBytesR(Supplied(s), bl)         \* every option exactly once: code, length octet, value
DhcpLen(s, bl)  == Max(300, 240 + OptBytes(s, bl) + 1)   \* End option always present, padded to the BOOTP minimum

\* mechanism: AppendOptions walks `order` followed by the fixed list <<1, 33, 3>>, deletes each
\* option from the map once written, then ranges over the rest of the map (random order)
MechOrder(order)     == order \o <<1, 33, 3>>
MechPrefix(s, order) == Dedup(SelectSeq(MechOrder(order), LAMBDA c : c \in Supplied(s)))
MechRest(s, order)   == Supplied(s) \ Range(MechPrefix(s, order))

\* property level
ReqPrefix(s, order) == Dedup(SelectSeq(order, LAMBDA c : c \in Supplied(s)))
Pos(seq, c) == CHOOSE i \in 1..Len(seq) : seq[i] = c
IsPrefix(p, q) == Len(p) <= Len(q) /\ \A i \in 1..Len(p) : p[i] = q[i]
\* a requested order that names the router before the mask (or the router only) contradicts
\* "mask before router": the weakest reading demands nothing there
OrderConflict(order) == 3 \in Range(order) /\ (1 \notin Range(order) \/ Pos(order, 3) < Pos(order, 1))

C03_DhcpEachOnce(s, order) ==
    LET p == MechPrefix(s, order) IN
    /\ \A i, j \in 1..Len(p) : i # j => p[i] # p[j]
    /\ Range(p) \cap MechRest(s, order) = {}
    /\ Range(p) \cup MechRest(s, order) = Supplied(s)
C03_DhcpMsgType(s, order) == MsgType \in Range(MechPrefix(s, order)) \cup MechRest(s, order)
C03_DhcpReqOrder(s, order) == IsPrefix(ReqPrefix(s, order), MechPrefix(s, order))
C03_DhcpMaskFirst(s, order) ==
    (1 \in s /\ 3 \in s /\ ~OrderConflict(order)) =>
        LET p == MechPrefix(s, order) IN 1 \in Range(p) /\ 3 \in Range(p) /\ Pos(p, 1) < Pos(p, 3)
C03_DhcpPadded(s, bl) == DhcpLen(s, bl) >= 300 /\ DhcpLen(s, bl) >= 240 + OptBytes(s, bl) + 1

DhcpExp(s, order, c, bl) ==
    IF c < 300 THEN [res |-> "nil", len |-> 0, prefix |-> <<>>, rest |-> {}, req |-> <<>>, conflict |-> FALSE]
    ELSE [res |-> "ok", len |-> DhcpLen(s, bl), prefix |-> MechPrefix(s, order), rest |-> MechRest(s, order),
          req |-> ReqPrefix(s, order), conflict |-> OrderConflict(order)]

DhcpSets == {s \in SUBSET DhcpCodes : Cardinality(s) <= MaxOpts}
RECURSIVE SeqsUpTo(_, _)
SeqsUpTo(S, n) == IF n = 0 THEN {<<>>}
                  ELSE LET shorter == SeqsUpTo(S, n - 1) IN
                       shorter \cup {Append(q, x) : q \in {r \in shorter : Len(r) = n - 1}, x \in S}
\* requested-parameter lists naming a code twice with another code in between (the short lists of SeqsUpTo already
\* contain the adjacent repetitions <<c, c>>), and the list of a common client with a repeated DNS option
RepeatOrders == {<<c, d, c>> : c \in ReqCodes \cap {1, 3, 6}, d \in ReqCodes \cap {1, 3, 6}} \cup {<<1, 3, 6, 15, 6>>, <<3, 33, 3>>}
DhcpOrders == SeqsUpTo(ReqCodes, MaxReq) \cup RepeatOrders
OptLens(s, bl) == [i \in 1..Cardinality(Supplied(s)) |->
                 LET c == SetToSeq(Supplied(s))[i] IN [c |-> c, n |-> VLen(c, bl)]]

DhcpVec(s, order, c, bl) ==
    /\ phase = "idle" /\ "dhcp" \in Parts
    /\ 240 + OptBytes(s, bl) + 1 <= c \/ c < 300       \* "all option maps whose encoding fits"
    /\ phase' = "vec"
    /\ vec' = [part |-> "dhcp", cap |-> c, opts |-> SetToSeq(s), order |-> order, optlens |-> OptLens(s, bl), big |-> bl,
               exp |-> DhcpExp(s, order, c, bl)]
    /\ UNCHANGED <<cap, st, cur, res, hist, pool>>

-----------------------------------------------------------------------------
(* Part A: the build machine                                               *)

L(k, sub, off, hl, len, lf, att) == [k |-> k, sub |-> sub, off |-> off, hl |-> hl, len |-> len, lf |-> lf, att |-> att]
Top == st[Len(st)]
Rem(l) == cap - (l.off + l.len)                        \* capacity left behind the layer's current end
HeaderOnly(l) == l.len = l.hl /\ ~l.att
IsIP(l) == l.k \in {"ip4", "ip6"}

\* value the code writes into the length field of layer kind k for a payload of n bytes
LF(k, n) == CASE k = "ip4" -> 20 + n      \* IP4.SetPayload / AppendPayload: HeaderLen + len(b)
              [] k = "ip6" -> n           \* IP6: payload length
              [] k = "udp" -> 8 + n       \* UDP: UDPHeaderLen + len(b)
              [] OTHER -> -1

NSet(r) == {n \in NSmall \cup {r - 1, r, r + 1, r + 100} : n >= 0}

Step(rec) == hist' = Append(hist, rec)
Stop(r)   == phase' = "stop" /\ res' = r /\ UNCHANGED <<cap, st, cur>>
Push(l)   == st' = Append(st, l) /\ cur' = Len(st) + 1 /\ res' = "ok" /\ UNCHANGED <<phase, cap>>

BNew(c) == /\ phase = "idle" /\ "build" \in Parts
           /\ phase' = "build" /\ cap' = c /\ st' = <<>> /\ cur' = 0 /\ res' = "ok"
           /\ Step([a |-> "new", cap |-> c])
           /\ UNCHANGED <<vec, pool>>

BEther(et) == /\ phase = "build" /\ st = <<>> /\ cap >= 14      \* documented: panics below 14
              /\ Push(L("ether", et, 0, 14, 14, -1, FALSE))
              /\ Step([a |-> "ether", et |-> et, exp |-> [res |-> "ok", len |-> 14]])
              /\ UNCHANGED <<vec, pool>>

BNet(k) == /\ phase = "build" /\ Len(st) = 1 /\ Top.sub = k /\ HeaderOnly(Top)
           /\ LET hl == CASE k = "ip4" -> 20 [] k = "ip6" -> 40 [] k = "arp" -> 28 IN
              IF Rem(Top) < hl
              THEN /\ k = "arp"                         \* EncodeARP panics "invalid arp buffer"; the IP encoders
                   /\ Stop("panic")                     \* have no documented behaviour below their minimum
                   /\ Step([a |-> k, exp |-> [res |-> "panic", len |-> 0]])
              ELSE /\ Push(L(k, "", 14, hl, hl, LF(k, 0), FALSE))
                   /\ Step([a |-> k, exp |-> [res |-> "ok", len |-> hl, lf |-> LF(k, 0)]])
           /\ UNCHANGED <<vec, pool>>

BUDP(pc) == /\ phase = "build" /\ Len(st) = 2 /\ IsIP(Top) /\ HeaderOnly(Top)
            /\ IF Rem(Top) < 8
               THEN Stop("nil") /\ Step([a |-> "udp", ports |-> pc, exp |-> [res |-> "nil", len |-> 0]])
               ELSE /\ Push(L("udp", pc, Top.off + Top.hl, 8, 8, 0, FALSE))
                    /\ Step([a |-> "udp", ports |-> pc, exp |-> [res |-> "ok", len |-> 8, lf |-> 0]])
            /\ UNCHANGED <<vec, pool>>

\* EncodeICMPEcho directly into ip.Payload()
BEchoIn(n) == /\ phase = "build" /\ Len(st) = 2 /\ IsIP(Top) /\ HeaderOnly(Top)
              /\ IF 8 + n > Rem(Top)
                 THEN Stop("nil") /\ Step([a |-> "echoin", n |-> n, exp |-> [res |-> "nil", len |-> 0]])
                 ELSE /\ Push(L("echo", "in", Top.off + Top.hl, 8, 8 + n, -1, FALSE))
                      /\ Step([a |-> "echoin", n |-> n, exp |-> [res |-> "ok", len |-> 8 + n]])
              /\ UNCHANGED <<vec, pool>>

\* n payload bytes written in place behind the header
BRawIn(n) == /\ phase = "build" /\ Len(st) \in {2, 3} /\ Top.k \in {"ip4", "ip6", "udp"} /\ HeaderOnly(Top)
             /\ n <= Rem(Top)
             /\ Push(L("raw", "in", Top.off + Top.hl, 0, n, -1, FALSE))
             /\ Step([a |-> "rawin", n |-> n, exp |-> [res |-> "ok", len |-> n]])
             /\ UNCHANGED <<vec, pool>>

\* EncodeDHCP4 directly into udp.Payload() (as SendDiscoverPacket does)
BDhcpIn(s, order) ==
    /\ phase = "build" /\ Len(st) = 3 /\ Top.k = "udp" /\ st[2].k = "ip4" /\ HeaderOnly(Top)
    /\ IF Rem(Top) < 300
       THEN Stop("nil") /\ Step([a |-> "dhcpin", opts |-> SetToSeq(s), order |-> order, optlens |-> OptLens(s, 0),
                                 exp |-> DhcpExp(s, order, 0, 0)])
       ELSE /\ 240 + OptBytes(s, 0) + 1 <= Rem(Top)
            /\ Push(L("dhcp", "in", Top.off + Top.hl, 0, DhcpLen(s, 0), -1, FALSE))
            /\ Step([a |-> "dhcpin", opts |-> SetToSeq(s), order |-> order, optlens |-> OptLens(s, 0),
                     exp |-> DhcpExp(s, order, Rem(Top), 0)])
    /\ UNCHANGED <<vec, pool>>

\* parent.AppendPayload(b) with a separately allocated payload b of n bytes
ExtKinds(k) == CASE k = "udp" -> {"raw", "dns"} [] k = "ip4" -> {"raw", "echo"} [] k = "ip6" -> {"raw", "echo", "ns", "na"}
BAppendExt(kind, n) ==
    /\ phase = "build" /\ Len(st) \in {2, 3} /\ Top.k \in {"ip4", "ip6", "udp"} /\ HeaderOnly(Top)
    /\ kind \in ExtKinds(Top.k)
    /\ kind \in {"ns", "na"} => n = 32
    /\ kind = "echo" => n >= 8
    /\ kind = "dns" => n >= 17 /\ n # 18 /\ n <= 271   \* 16 bytes + a name of 1 or 3..255 bytes
    /\ IF n > Rem(Top)
       THEN /\ Stop("ErrPayloadTooBig")
            /\ Step([a |-> "appext", kind |-> kind, n |-> n, layer |-> Top.k,
                     exp |-> [res |-> "ErrPayloadTooBig", len |-> Top.len, lf |-> Top.lf]])
       ELSE /\ st' = Append([st EXCEPT ![Len(st)].len = Top.hl + n, ![Len(st)].lf = LF(Top.k, n)],
                            L(kind, "ext", Top.off + Top.hl, 0, n, -1, TRUE))
            /\ cur' = Len(st) /\ res' = "ok" /\ UNCHANGED <<phase, cap>>
            \* stable: the separately allocated result of EncodeDNSQuery / the NS / NA marshal belongs to the caller;
            \* it must not change when the encoder is called again (the driver re-encodes decoys before using it)
            /\ Step([a |-> "appext", kind |-> kind, n |-> n, layer |-> Top.k,
                     exp |-> [res |-> "ok", len |-> Top.hl + n, lf |-> LF(Top.k, n), stable |-> TRUE]])
    /\ UNCHANGED <<vec, pool>>

\* Ether.AppendPayload(b) with a complete, separately built IPv4 packet of n bytes whose slice has
\* `slack` spare capacity (the code sliced its destination by cap(b) until fix ca70b93; capover marks those cases)
BEtherAppendExt(n, slack) ==
    /\ phase = "build" /\ Len(st) = 1 /\ Top.sub = "ip4" /\ HeaderOnly(Top) /\ cap >= 60 /\ n >= 28
    /\ IF n + 14 > cap
       THEN /\ Stop("ErrPayloadTooBig")
            /\ Step([a |-> "etherappext", n |-> n, slack |-> slack, exp |-> [res |-> "ErrPayloadTooBig", len |-> 14]])
       ELSE /\ st' = Append([st EXCEPT ![1].len = Max(60, 14 + n)], L("ip4ext", "ext", 14, 20, n, n, TRUE))
            /\ cur' = 1 /\ res' = "ok" /\ phase' = "done" /\ UNCHANGED cap
            /\ Step([a |-> "etherappext", n |-> n, slack |-> slack,
                     exp |-> [res |-> "ok", len |-> Max(60, 14 + n),
                              capover |-> n + slack > cap - 14]])      \* payload slice capacity exceeds the room: still must work
    /\ UNCHANGED <<vec, pool>>

\* parent.SetPayload(child) / parent.AppendPayload(child) for a child that was built in place
ChildClosed == cur = Len(st) \/ (cur < Len(st) /\ st[cur + 1].att)
BAttach(mode) ==
    /\ phase = "build" /\ cur >= 2 /\ ~st[cur].att /\ ChildClosed
    /\ LET p == st[cur - 1]
           c == st[cur]
           n == c.len
           plen == IF p.k = "ether" THEN (IF mode = "append" THEN Max(60, 14 + n) ELSE 14 + n) ELSE p.hl + n
       IN /\ p.k = "ether" /\ mode = "append" => cap >= 60          \* pads to 60 bytes
          /\ c.k = "udp" => c.lf >= 8      \* EncodeUDP leaves Len = 0 until SetPayload / AppendPayload is called
          /\ st' = [st EXCEPT ![cur].att = TRUE, ![cur - 1].len = plen, ![cur - 1].lf = LF(p.k, n)]
          /\ cur' = cur - 1
          /\ phase' = IF cur = 2 THEN "done" ELSE "build"
          /\ res' = "ok" /\ UNCHANGED cap
          /\ Step([a |-> "attach", mode |-> mode, layer |-> p.k, exp |-> [res |-> "ok", len |-> plen, lf |-> LF(p.k, n)]])
    /\ UNCHANGED <<vec, pool>>

\* ---- property level: a decoder that sees only the outer length and the length fields ----
PayloadByField(l, outer) == CASE l.k = "ether" -> outer - 14
                              [] l.k = "ip4" -> l.lf - 20
                              [] l.k = "ip6" -> l.lf
                              [] l.k = "udp" -> l.lf - 8
                              [] l.k = "ip4ext" -> l.lf - 20
                              [] OTHER -> -1
\* layer i+1 lies inside layer i, has the length its parent announces (Ethernet may pad up to 60)
C03_LengthsConsistent ==
    phase = "done" =>
      /\ \A i \in 2..Len(st) : st[i].att
      /\ \A i \in 1..(Len(st) - 1) :
           LET p == st[i]  c == st[i + 1]  announced == PayloadByField(p, st[1].len) IN
           IF p.k = "ether" THEN announced >= c.len /\ (announced = c.len \/ st[1].len = 60)
           ELSE p.k \in {"ip4", "ip6", "udp"} => announced = c.len
      /\ st[1].len <= cap
C03_TooBigExact ==
    (phase = "stop" /\ res = "ErrPayloadTooBig") =>
      LET h == hist[Len(hist)] IN
      \/ h.a = "appext" /\ h.n > Rem(Top)
      \/ h.a = "etherappext" /\ h.n + 14 > cap
C03_NeverPastCap == phase \in {"build", "done", "rewritten", "stop"} => \A i \in 1..Len(st) : st[i].off + st[i].len <= cap


\* ---- rewriting the payload of a finished frame in place -------------------------------------------------
\* The innermost in-place payload of a finished Ethernet / IP (/ UDP) frame is replaced by n2 new bytes and the
\* length fields are brought up to date with SetPayload / AppendPayload applied to views that ALREADY carry a
\* payload: the slices returned by the first build (via = "result") or Frame.IP4() / IP6() / UDP() of the parsed
\* frame (via = "parsed"); both have length header + old payload.  Mechanism formulas as in the code:
\*   IP4 / IP6 / UDP Set and AppendPayload return p[:header+n] and write the matching length field.
\* (Until 328f94d / ee3eca1 all but IP4.SetPayload returned p[:len(p)+n]: a slice longer than its own length
\* field when len(p) > header -- the deviations KF_SetPayloadOnPayload / KF_AppendPayloadOnPayload.)
\* since the fixes 328f94d / ee3eca1 every Set / AppendPayload returns p[:header+n] whatever the receiver's length
HdrLen(k) == CASE k = "ip4" -> 20 [] k = "ip6" -> 40 [] k = "udp" -> 8
ReLen(k, mode, old, n) == HdrLen(k) + n
ReKF(k, mode, old)   == {}      \* no labelled deviation at present (the label names are kept for a recurrence)
Rewritable == /\ phase = "done" /\ Len(st) \in {3, 4}
              /\ st[2].k \in {"ip4", "ip6"} /\ st[Len(st)].k = "raw" /\ st[Len(st)].sub = "in"
              /\ (Len(st) = 4 => st[3].k = "udp")
              /\ st[1].len = 14 + st[2].len                    \* no Ethernet padding: the parsed views end with the packet
BRewrite(n2, mu, mi, via) ==
    /\ Rewritable
    /\ LET hasU == Len(st) = 4
           ip == st[2]
           leaf == st[Len(st)]
           ulen == IF hasU THEN ReLen("udp", mu, st[3].len, n2) ELSE 0
           ipn  == IF hasU THEN ulen ELSE n2                       \* what the IP layer is told its payload is
           iplen == ReLen(ip.k, mi, ip.len, ipn)
           kf == (IF hasU THEN ReKF("udp", mu, st[3].len) ELSE {}) \cup ReKF(ip.k, mi, ip.len)
           ideal == [udp |-> IF hasU THEN 8 + n2 ELSE 0, ip |-> ip.hl + (IF hasU THEN 8 + n2 ELSE n2)]
       IN /\ n2 # leaf.len
          /\ ip.off + iplen <= cap /\ (hasU => st[3].off + ulen <= cap) /\ leaf.off + n2 <= cap    \* everything fits
          /\ st' = [i \in 1..Len(st) |->
                      IF i = 1 THEN [st[1] EXCEPT !.len = 14 + iplen]
                      ELSE IF i = 2 THEN [ip EXCEPT !.len = iplen, !.lf = LF(ip.k, ipn)]
                      ELSE IF i = 3 /\ hasU THEN [st[3] EXCEPT !.len = ulen, !.lf = 8 + n2]
                      ELSE [leaf EXCEPT !.len = n2]]
          /\ phase' = "rewritten" /\ res' = "ok" /\ UNCHANGED <<cap, cur>>
          /\ Step([a |-> "rewrite", n |-> n2, mu |-> mu, mi |-> mi, via |-> via,
                   exp |-> [udplen |-> ulen, udplf |-> IF hasU THEN 8 + n2 ELSE -1, iplen |-> iplen, iplf |-> LF(ip.k, ipn),
                            etherlen |-> 14 + iplen, ideal |-> ideal, kf |-> kf]])
    /\ UNCHANGED <<vec, pool>>

\* property level: after ANY such sequence the slice lengths agree with the length fields, layer by layer
RewriteConsistent ==
    /\ st[2].len = st[2].hl + PayloadByField(st[2], st[1].len)
    /\ st[1].len = 14 + st[2].len
    /\ (Len(st) = 4 => /\ st[3].len = 8 + PayloadByField(st[3], 0) /\ PayloadByField(st[2], 0) = st[3].len
                       /\ PayloadByField(st[3], 0) = st[4].len)
    /\ (Len(st) = 3 => PayloadByField(st[2], 0) = st[3].len)
C03_RewriteConsistentUnlessKF ==
    phase = "rewritten" => (RewriteConsistent <=> hist[Len(hist)].exp.kf = {})

\* ---- aliased arguments ("reply in place") ---------------------------------------------------------------
\* An encoder is handed views of the very buffer it encodes into: the value supplied is the value the view
\* had BEFORE the call.  Mechanism: the order in which the encoder writes byte ranges and reads its slice
\* arguments; a pattern is supported iff no argument's view is overwritten before it is read.
W(lo, hi, arg) == [lo |-> lo, hi |-> hi, arg |-> arg]
V(lo, hi) == [lo |-> lo, hi |-> hi]
Disjoint(a, b) == a.hi < b.lo \/ b.hi < a.lo
EtherWrites == <<W(0, 5, "dst"), W(6, 11, "src")>>                               \* layer_ethernet.go:201-202
ArpWrites   == <<W(8, 13, "sha"), W(14, 17, "spa"), W(18, 23, "tha"), W(24, 27, "tpa")>>   \* layer_arp.go:78-81 (netip values: no views)
\* EncodeDHCP4 into the request buffer: `order = append(order, 1, 33, 3)` writes 3 bytes behind the parameter
\* request list when `order` is a view of it; all option values are then copied to a scratch buffer (5000..) and
\* only after that written back at 240.. (layer_dhcp4.go:303-329)
DhcpWrites(prlEnd, withOrder) ==
    (IF withOrder THEN <<W(prlEnd + 1, prlEnd + 3, "fixedlist")>> ELSE <<>>) \o
    <<W(5000, 5999, "cid"), W(6000, 6099, "order"), W(240, 999, "scratch")>>
AliasCases == {
    [enc |-> "ether", pat |-> "dst=oldsrc", writes |-> EtherWrites, views |-> [dst |-> V(6, 11)], required |-> TRUE],
    [enc |-> "ether", pat |-> "same", writes |-> EtherWrites, views |-> [dst |-> V(0, 5), src |-> V(6, 11)], required |-> TRUE],
    [enc |-> "ether", pat |-> "src=olddst", writes |-> EtherWrites, views |-> [src |-> V(0, 5)], required |-> FALSE],
    [enc |-> "arp", pat |-> "same", writes |-> ArpWrites, views |-> [sha |-> V(8, 13), tha |-> V(18, 23)], required |-> TRUE],
    [enc |-> "arp", pat |-> "tha=oldsha", writes |-> ArpWrites, views |-> [tha |-> V(8, 13)], required |-> FALSE],
    [enc |-> "arp", pat |-> "sha=oldtha", writes |-> ArpWrites, views |-> [sha |-> V(18, 23)], required |-> TRUE],
    \* request options: "apart" = 53 | 61 (data 245..251) | 55 (data 254..257); "adjacent" = 53 | 55 (data 245..248) | 61 (data 251..257)
    [enc |-> "dhcp", pat |-> "nak:cid=view", writes |-> DhcpWrites(257, FALSE), views |-> [cid |-> V(245, 251)], required |-> TRUE],
    [enc |-> "dhcp", pat |-> "offer:order=view", writes |-> DhcpWrites(257, TRUE), views |-> [order |-> V(254, 257)], required |-> TRUE],
    [enc |-> "dhcp", pat |-> "both:apart", writes |-> DhcpWrites(257, TRUE), views |-> [order |-> V(254, 257), cid |-> V(245, 251)], required |-> TRUE],
    [enc |-> "dhcp", pat |-> "both:adjacent", writes |-> DhcpWrites(248, TRUE), views |-> [order |-> V(245, 248), cid |-> V(251, 257)], required |-> FALSE],
    \* the NS / NA marshal functions allocate their result: views of a frame that is about to be reused are safe
    [enc |-> "ns", pat |-> "mac=view", writes |-> <<W(10000, 10031, "mac")>>, views |-> [mac |-> V(6, 11)], required |-> TRUE],
    [enc |-> "na", pat |-> "mac=view", writes |-> <<W(10000, 10031, "mac")>>, views |-> [mac |-> V(6, 11)], required |-> TRUE]}
AliasSupported(c) ==
    \A i, j \in 1..Len(c.writes) :
        (i < j /\ c.writes[j].arg \in DOMAIN c.views) => Disjoint(c.writes[i], c.views[c.writes[j].arg])
AliasVec(c) ==
    /\ phase = "idle" /\ "alias" \in Parts
    /\ phase' = "vec"
    /\ vec' = [part |-> "alias", enc |-> c.enc, pat |-> c.pat, required |-> c.required, supported |-> AliasSupported(c)]
    /\ UNCHANGED <<cap, st, cur, res, hist, pool>>
AliasNext == phase = "idle" /\ "alias" \in Parts /\ \E c \in AliasCases : AliasVec(c)
\* the reply-in-place patterns the handlers rely on must be supported by the write order of the encoders
C03_AliasRequiredSupported == (phase = "vec" /\ vec.part = "alias" /\ vec.required) => vec.supported

\* Parse classification of a composed frame (session Parse table, documented in layer_frame.go)
Classify == IF phase \notin {"done", "rewritten"} THEN "none"
            ELSE CASE st[2].k = "arp" -> "ARP"
                   [] Len(st) >= 3 /\ st[3].k = "udp" ->
                        (CASE st[3].sub = "dhcp" -> "DHCP4" [] st[3].sub = "mdns" -> "MDNS" [] st[3].sub = "nbns" -> "NBNS"
                           [] st[3].sub = "ssdp" -> "SSDP" [] st[3].sub = "llmnr" -> "LLMNR" [] OTHER -> "UDP")
                   [] Len(st) >= 3 /\ st[3].k = "echo" -> (IF st[2].k = "ip4" THEN "ICMP4" ELSE "ICMP6")
                   [] Len(st) >= 3 /\ st[3].k \in {"ns", "na"} -> "ICMP6"
                   [] st[2].k \in {"ip4", "ip4ext"} -> "IP4"
                   [] OTHER -> "IP6"

BuildNext == "build" \in Parts /\ phase \in {"idle", "build"} /\
    \/ \E c \in Caps : BNew(c)
    \/ \E et \in {"ip4", "ip6", "arp"} : BEther(et)
    \/ \E k \in {"ip4", "ip6", "arp"} : BNet(k)
    \/ \E pc \in PortClasses : BUDP(pc)
    \/ phase = "build" /\ Len(st) = 2 /\ \E n \in NSet(Rem(Top) - 8) : BEchoIn(n)
    \/ phase = "build" /\ Len(st) \in {2, 3} /\ \E n \in NSet(Rem(Top)) : BRawIn(n)
    \/ phase = "build" /\ Len(st) = 3 /\ \E s \in {{}, DhcpCodes} : BDhcpIn(s, IF 3 \in s THEN <<3, 6>> ELSE <<>>)
    \/ phase = "build" /\ Len(st) \in {2, 3} /\
         \E kind \in {"raw", "dns", "echo", "ns", "na"} :
           \E n \in (IF kind \in {"ns", "na"} THEN {32} ELSE NSet(Rem(Top)) \cup {8, 50}) : BAppendExt(kind, n)
    \/ phase = "build" /\ Len(st) = 1 /\ \E n \in NSet(cap - 14) \cup {28, 46}, slack \in {0, 7} : BEtherAppendExt(n, slack)
    \/ \E m \in {"set", "append"} : BAttach(m)

\* n2: shorter and longer than the payload it replaces
RewriteNext == "build" \in Parts /\ phase = "done" /\ Rewritable /\
    \E n2 \in {n \in {0, st[Len(st)].len - 1, st[Len(st)].len + 1, st[Len(st)].len + 7} : n >= 0} :
    \E mu \in (IF Len(st) = 4 THEN {"set", "append"} ELSE {"set"}), mi \in {"set", "append"}, via \in {"result", "parsed"} :
        BRewrite(n2, mu, mi, via)

-----------------------------------------------------------------------------
(* Part C: exported send functions                                         *)
(* Abstract addresses are names; the driver concretises them per NIC       *)
(* configuration and seed.  All kind specific fields (f) are strings.      *)

IP4U == {"hostip4", "routerip4", "lan4"}
IP4S == {"zero4", "bcast4"}
IP4M == {"224.0.0.1", "224.0.0.251", "224.0.0.252", "239.255.255.250"}
IP6U == {"hostlla", "lla1", "gua1"}
IP6M == {"ff02::1", "ff02::2", "sol:lla1", "sol:gua1"}
Is4(a) == a \in IP4U \cup IP4S \cup IP4M
Is6(a) == a \in IP6U \cup IP6M
LinkLocal6(a) == a \in {"hostlla", "lla1", "ff02::1", "ff02::2", "sol:lla1", "sol:gua1"}
Mc6MAC(a) == CASE a = "ff02::1" -> "33:33:00:00:00:01" [] a = "ff02::2" -> "33:33:00:00:00:02"
               [] a = "sol:lla1" -> "mc6:sol:lla1" [] a = "sol:gua1" -> "mc6:sol:gua1" [] OTHER -> "none"
Mc4MAC(a) == CASE a = "224.0.0.1" -> "01:00:5e:00:00:01" [] a = "224.0.0.251" -> "01:00:5e:00:00:fb" [] a = "224.0.0.252" -> "01:00:5e:00:00:fc"
               [] a = "239.255.255.250" -> "01:00:5e:7f:ff:fa" [] OTHER -> "none"
NDPKinds == {"ns", "na", "rs", "ra"}

A(mac, ip) == [mac |-> mac, ip |-> ip]

\* what the caller means by a destination name (property level, RFC 4291 / 4861 / 6762 / 4795)
IntentAddr(d) == CASE d = "u:lla1" -> A("mac1", "lla1") [] d = "u:gua1" -> A("mac1", "gua1")
                   [] d = "lib:allnodes" -> A("33:33:00:00:00:01", "ff02::1")
                   [] d = "lib:allrouters" -> A("33:33:00:00:00:02", "ff02::2")
                   [] d = "lib:solnode" -> A("mc6:sol:lla1", "sol:lla1")          \* packet.IPv6SolicitedNode(lla1)
                   [] d = "lib:solnode:gua" -> A("mc6:sol:gua1", "sol:gua1")     \* packet.IPv6SolicitedNode(gua1)
                   [] d = "u:hostlla" -> A("hostmac", "hostlla")
                   [] d = "u:lan4" -> A("mac1", "lan4") [] d = "u:invalid" -> A("mac1", "invalid")
\* what the library's exported constants really contain (mechanism level)
MechAddr(d) == IntentAddr(d)     \* session.go:44 was ff02::1 for all-routers until fix c76f60c
\* The statement of C07 names the IPv6 33:33 mapping only; the link-layer address of an IPv4 group is
\* not constrained ("any").  The code sends these groups to the Ethernet broadcast address (RFC 1112
\* 6.4 wants 01:00:5e + low 23 bits): recorded by the reference decoder as a note, not a finding.
IntentMDNS4  == A("any", "224.0.0.251")
IntentLLMNR4 == A("any", "224.0.0.252")
IntentSSDP4  == A("any", "239.255.255.250")
MechMDNS4    == A("bcast", "224.0.0.251")          \* mdns.go:57
MechLLMNR4   == A("bcast", "224.0.0.252")          \* mdns.go:73 (address fixed by 6faaf2a)
MechSSDP4    == A("bcast", "239.255.255.250")      \* ssdp.go:27

Fr(proto, ethSrc, ethDst, ipSrc, ipDst, hop, sport, dport, kind, f) ==
    [proto |-> proto, ethSrc |-> ethSrc, ethDst |-> ethDst, ipSrc |-> ipSrc, ipDst |-> ipDst, hop |-> hop,
     sport |-> sport, dport |-> dport, kind |-> kind, f |-> f, sound |-> "ok"]
NoFrame == [none |-> TRUE]
Res(n, err, fr, kf) == [n |-> n, err |-> err, fr |-> fr, kf |-> kf]
KF(field, label) == [field |-> field, label |-> label]

\* fields of f that the statement does not constrain (mechanism detail)
MechOnlyF == {"data", "router", "solicited", "override", "tha", "curhop", "lifetime", "mtu", "qtype", "qclass", "flags", "an", "startline",
              "prefix1.flags", "prefix1.valid", "prefix1.preferred", "rdnss.lifetime"}
HopDemanded(fr) == IF fr.kind \in NDPKinds /\ LinkLocal6(fr.ipDst) THEN 255 ELSE -1
Relax(fr) == [fr EXCEPT !.hop = HopDemanded(fr),
                        !.f = [k \in DOMAIN fr.f |-> IF k \in MechOnlyF THEN "any" ELSE fr.f[k]]]

Match(a, b)  == b = "any" \/ a = b
MatchN(a, b) == b = -1 \/ a = b

\* the predicate of C07: fr is an emitted frame, ex the frame the caller asked for ("any" = not constrained)
WellFormed(fr, ex) ==
    /\ fr.ethSrc = "hostmac"                                                   \* always the host NIC MAC
    /\ fr.proto = ex.proto /\ fr.kind = ex.kind                                \* intended protocol
    /\ Match(fr.ethDst, ex.ethDst) /\ Match(fr.ipSrc, ex.ipSrc) /\ Match(fr.ipDst, ex.ipDst)   \* caller's addresses
    /\ MatchN(fr.sport, ex.sport) /\ MatchN(fr.dport, ex.dport)
    /\ \A k \in DOMAIN ex.f : ex.f[k] = "any" \/ (k \in DOMAIN fr.f /\ fr.f[k] = ex.f[k])       \* caller's fields
    /\ (fr.ipDst \in IP6M => fr.ethDst = Mc6MAC(fr.ipDst))                     \* 33:33:<low 32 bits>
    /\ MatchN(fr.hop, HopDemanded(fr))                                         \* link-local NDP: hop limit 255
    /\ fr.sound = "ok"                                                         \* checksums verify, lengths consistent

\* ------------------------------------------------------------------ Session
EchoF(t, id, seq) == [type |-> t, id |-> id, seq |-> seq, data |-> "HELLO-NETFILTER"]
\* Classes of the echo identifier.  The Internet checksum is the one's complement of the one's complement sum of
\* the 16 bit words: with S the plain 32 bit sum, Fold(S) = S \div 65536 + S % 65536 may itself reach 65536 and
\* must be folded again (RFC 1071 4.1 "end around carry").  NeedsSecondFold is the condition the driver searches
\* an identifier for ("carryLE" / "carryBE": words accumulated little / big endian; "carryHdr": the IPv4 header of
\* the frame instead, by choice of the destination address); "sweep" = every identifier 0..65535.
Fold(S) == (S \div 65536) + (S % 65536)
NeedsSecondFold(S) == Fold(S) >= 65536
EchoIdClasses == {"rand", "carryLE", "carryBE", "carryHdr", "sweep"}
ASSUME NeedsSecondFold(131071 + 65535) /\ NeedsSecondFold(131071) /\ ~NeedsSecondFold(131070) /\ Fold(Fold(131071 + 65535)) = 1
Hop6(ip) == IF LinkLocal6(ip) THEN 255 ELSE 64          \* layer_icmp.go:471-474

Echo4(src, dst, id, seq, okerr) ==
    LET bad == ~Is4(src.ip) \/ ~Is4(dst.ip)
        fr == Fr("icmp4", "hostmac", dst.mac, src.ip, dst.ip, 50, -1, -1, "echoreq", EchoF("8", id, seq))
    IN [clean |-> ~bad,
        exp  |-> IF bad THEN Res(-1, "any", NoFrame, {}) ELSE Res(1, okerr, Relax(fr), {}),
        mech |-> IF bad THEN Res(0, "ErrInvalidIP", NoFrame, {}) ELSE Res(1, okerr, fr, {})]

KFDst(d) == {}      \* no labelled deviation of a library address constant at present

Echo6(src, d, id, seq, okerr) ==
    LET i == IntentAddr(d)  m == MechAddr(d)
        bad == ~Is6(src.ip) \/ ~Is6(i.ip)
        ideal == Fr("icmp6", "hostmac", i.mac, src.ip, i.ip, Hop6(i.ip), -1, -1, "echoreq", EchoF("128", id, seq))
        real  == Fr("icmp6", "hostmac", m.mac, src.ip, m.ip, Hop6(m.ip), -1, -1, "echoreq", EchoF("128", id, seq))
    IN [clean |-> ~bad,
        exp  |-> IF bad THEN Res(-1, "any", NoFrame, {}) ELSE Res(1, okerr, Relax(ideal), {}),
        mech |-> IF bad THEN Res(0, "ErrInvalidIP", NoFrame, {}) ELSE Res(1, okerr, real, KFDst(d))]

\* no argument validation in the NDP senders: with a non-IPv6 argument the statement demands nothing
NDP6(src, d, kind, f, mf) ==
    LET i == IntentAddr(d)  m == MechAddr(d)
        bad == ~Is6(src.ip) \/ ~Is6(i.ip) \/ (\E k \in DOMAIN f : f[k] \in {"invalid", "lan4"})
        ideal == Fr("icmp6", "hostmac", i.mac, src.ip, i.ip, Hop6(i.ip), -1, -1, kind, f)
        real  == Fr("icmp6", "hostmac", m.mac, src.ip, m.ip, Hop6(m.ip), -1, -1, kind, mf)
    IN [clean |-> ~bad,
        exp  |-> IF bad THEN Res(-1, "any", NoFrame, {}) ELSE Res(1, "nil", Relax(ideal), {}),
        mech |-> IF bad THEN Res(-1, "any", NoFrame, {}) ELSE Res(1, "nil", real, KFDst(d))]

NAF(t)  == [type |-> "136", target |-> t.ip, tlla |-> t.mac, router |-> "0", solicited |-> "0", override |-> "1"]
NSF(ip) == [type |-> "135", target |-> ip]                                   \* the option belongs to C03
NSMechF(ip) == [type |-> "135", target |-> ip, slla |-> "hostmac"]          \* layer_icmp.go:383 (type 1 since fix 8d08f2e)

HostLLAAddr == A("hostmac", "hostlla")
RS == LET ideal == Fr("icmp6", "hostmac", "33:33:00:00:00:02", "hostlla", "ff02::2", 255, -1, -1, "rs", [type |-> "133", slla |-> "hostmac"])
          \* RouterSolicitation.marshal yields the body only; the send function prepends the ICMPv6 header (fix 5720c60)
      IN [clean |-> TRUE, exp |-> Res(1, "nil", Relax(ideal), {}), mech |-> Res(1, "nil", ideal, {})]

NStr(n) == CASE n = 0 -> "0" [] n = 1 -> "1" [] n = 2 -> "2" [] n = 3 -> "3" [] OTHER -> "many"
RA(np, rd, d) ==
    LET i == IntentAddr(d)
        f == [type |-> "134", curhop |-> "64", lifetime |-> "1800", nprefix |-> NStr(np), slla |-> "hostmac", mtu |-> "arg.mtu",
              rdnss |-> IF rd THEN "arg.rdnss" ELSE "absent",
              prefix1 |-> "arg.prefix1", prefix2 |-> IF np >= 2 THEN "arg.prefix2" ELSE "absent",
              prefix3 |-> IF np >= 3 THEN "arg.prefix3" ELSE "absent"]
             \* what the function adds on its own (layer_icmp6_ndp.go:235-244): on-link + autonomous, 2 h / 30 min
             @@ ("prefix1.flags" :> "192") @@ ("prefix1.valid" :> "7200") @@ ("prefix1.preferred" :> "1800")
             @@ ("rdnss.lifetime" :> IF rd THEN "1800" ELSE "absent")
        ideal == Fr("icmp6", "hostmac", i.mac, "hostlla", i.ip, Hop6(i.ip), -1, -1, "ra", f)
        \* RouterAdvertisement.marshal yields the body only; the send function prepends the ICMPv6 header (fix 5720c60)
    IN IF np = 0 THEN [clean |-> TRUE, exp |-> Res(-1, "any", NoFrame, {}), mech |-> Res(0, "nil", NoFrame, {})]
       \* 46 prefix options (32 bytes each) do not fit one Ethernet frame: the caller must get an error and no frame.
       \* icmp6SendPacket returns the error of IP6.AppendPayload (it dropped it and panicked on the nil packet until fix 1b8de3f)
       ELSE IF np > 3 THEN [clean |-> TRUE, exp |-> Res(0, "ErrPayloadTooBig", NoFrame, {}),
                            mech |-> Res(0, "ErrPayloadTooBig", NoFrame, {})]
       ELSE [clean |-> TRUE, exp |-> Res(1, "nil", Relax(ideal), {}),
             mech |-> Res(1, "nil", ideal, {})]

ArpF(op, s, t) == [op |-> op, sha |-> s.mac, spa |-> s.ip, tha |-> t.mac, tpa |-> t.ip]
Arp(ethDst, op, s, t, checked) ==
    LET bad == ~Is4(s.ip) \/ ~Is4(t.ip)
        fr == Fr("arp", "hostmac", ethDst, "none", "none", -1, -1, -1, IF op = "1" THEN "arpreq" ELSE "arpreply", ArpF(op, s, t))
    IN [clean |-> ~bad,
        exp  |-> IF bad THEN Res(-1, "any", NoFrame, {}) ELSE Res(1, "nil", Relax(fr), {}),
        mech |-> IF bad THEN (IF checked THEN Res(0, "ErrInvalidIP", NoFrame, {}) ELSE Res(-1, "any", NoFrame, {}))
                 ELSE Res(1, "nil", fr, {})]

\* Session.purge probes (session.go:314-345) driven through VerifPurge
PurgeProbe(h) ==
    CASE h = "lan4" ->
           LET ideal == Fr("arp", "hostmac", "bcast", "none", "none", -1, -1, -1, "arpreq",
                           ArpF("1", A("hostmac", "hostip4"), A("bcast", "lan4")))
               \* session.go:372-373 write hlen/plen into the ARP header (into the Ethernet destination until fix ee34ff3)
           IN [clean |-> TRUE, exp |-> Res(1, "nil", Relax(ideal), {}), mech |-> Res(1, "nil", ideal, {})]
      [] h = "lla1" -> NDP6(HostLLAAddr, "lib:solnode", "ns", NSF("lla1"), NSMechF("lla1"))
      [] h = "gua1" -> Echo6(HostLLAAddr, "u:gua1", "any", "0", "nil")

\* ------------------------------------------------------------------ dhcp4_spoofer
DhcpF(op, mt, ch, ci, yi, xid) == [op |-> op, msgtype |-> mt, chaddr |-> ch, ciaddr |-> ci, yiaddr |-> yi, xid |-> xid]
HostAddr4   == A("hostmac", "hostip4")
RouterAddr4 == A("routermac", "routerip4")
Dhcp(ethDst, ipDst, sport, dport, f) == Fr("udp4", "hostmac", ethDst, "hostip4", ipDst, 50, sport, dport, "dhcp4", f)

\* name classes: none | short | long (60 characters: the option area passes 60 bytes, the message 300)
Discover(ch, ci, nm) ==
    LET f == DhcpF("1", "1", ch, ci, "zero4", "arg.xid") @@
             [opt55 |-> "35017903060f", opt12 |-> IF nm = "none" THEN "absent" ELSE "arg.name"]
        fr == Dhcp("routermac", "routerip4", 68, 67, f)
    IN [clean |-> TRUE, exp |-> Res(1, "nil", Relax(fr), {}), mech |-> Res(1, "nil", fr, {})]

\* replies of the server to a client mac1 (broadcast flag set or not); forged decline / release
\* cid: the client identifies itself by chaddr ("mac") or by a 60 byte client identifier option ("long")
ServerReply(mt, bcast) ==
    LET f == DhcpF("2", mt, "mac1", "any", IF mt = "6" THEN "zero4" ELSE "arg.yiaddr", "arg.xid") @@
             [opt54 |-> "hostip4", opt61 |-> IF mt = "6" THEN "arg.clientid" ELSE "absent"]   \* nakPacket echoes the client id
        fr == IF bcast THEN Dhcp("bcast", "bcast4", 67, 68, f) ELSE Dhcp("mac1", "arg.yiaddr", 67, 68, f)   \* renewing: unicast
    IN [clean |-> TRUE, exp |-> Res(1, "nil", Relax(fr), {}), mech |-> Res(1, "nil", fr, {})]

ForgedDecline ==
    LET f == DhcpF("1", "4", "mac1", "zero4", "zero4", "arg.xid") @@
             [opt54 |-> "arg.server", opt50 |-> "arg.offered", opt61 |-> "arg.clientid"]
        fr == Dhcp("routermac", "routerip4", 68, 67, f)
    IN [clean |-> TRUE, exp |-> Res(1, "nil", Relax(fr), {}), mech |-> Res(1, "nil", fr, {})]

ForgedRelease ==
    LET f == DhcpF("1", "7", "mac1", "arg.leased", "zero4", "any") @@ [opt54 |-> "routerip4", opt61 |-> "arg.clientid"]
        ideal == Dhcp("routermac", "routerip4", 68, 67, f)
        \* client.go:85 passes the option map it has built (nil until fix 29f303c)
    IN [clean |-> TRUE, exp |-> Res(1, "nil", Relax(ideal), {}), mech |-> Res(1, "nil", ideal, {})]

\* ------------------------------------------------------------------ dns_naming
DnsF(id, qr, qd, qname) == [id |-> id, qr |-> qr, qd |-> qd, qname |-> qname]
UdpQ(ethSrc, a, src, port, kind, f) == Fr("udp4", ethSrc, a.mac, src, a.ip, 255, port, port, kind, f)

MDNSQuery ==
    LET f == DnsF("0", "0", "1", "arg.name")
    IN [clean |-> TRUE, exp |-> Res(1, "nil", Relax(UdpQ("hostmac", IntentMDNS4, "hostip4", 5353, "mdns", f)), {}),
        mech |-> Res(1, "nil", UdpQ("hostmac", MechMDNS4, "hostip4", 5353, "mdns", f), {})]
LLMNRQuery ==
    LET f == DnsF("0", "0", "1", "arg.name")
    IN [clean |-> TRUE, exp |-> Res(1, "nil", Relax(UdpQ("hostmac", IntentLLMNR4, "hostip4", 5355, "llmnr", f)), {}),
        mech |-> Res(1, "nil", UdpQ("hostmac", MechLLMNR4, "hostip4", 5355, "llmnr", f), {})]
SSDPSearch ==
    LET f == [startline |-> "M-SEARCH * HTTP/1.1"]
    IN [clean |-> TRUE, exp |-> Res(1, "nil", Relax(UdpQ("hostmac", IntentSSDP4, "hostip4", 1900, "ssdp", f)), {}),
        mech |-> Res(1, "nil", UdpQ("hostmac", MechSSDP4, "hostip4", 1900, "ssdp", f), {})]
SleepProxy(src, dst) ==
    LET f == [id |-> "arg.id", qr |-> "1", qd |-> "0", an |-> "4"]
        fr == UdpQ("hostmac", dst, src.ip, 5353, "mdns", f)
        bad == ~Is4(src.ip) \/ ~Is4(dst.ip)
    IN [clean |-> ~bad, exp |-> IF bad THEN Res(-1, "any", NoFrame, {}) ELSE Res(1, "nil", Relax(fr), {}),
        mech |-> IF bad THEN Res(-1, "any", NoFrame, {}) ELSE Res(1, "nil", fr, {})]
\* sendNBNS forces the Ethernet source to the NIC MAC (took it from its argument until fix 3ee2a1b)
NBNS(src, dst, qtype) ==
    LET f == DnsF("any", "0", "1", "arg.nbname") @@ [qtype |-> qtype]
        ideal == Fr("udp4", "hostmac", dst.mac, src.ip, dst.ip, 255, 137, 137, "nbns", f)
    IN [clean |-> TRUE, exp |-> Res(1, "nil", Relax(ideal), {}), mech |-> Res(1, "nil", ideal, {})]

\* ------------------------------------------------------------------ the calls
Src4 == {HostAddr4, A("mac1", "lan4"), A("hostmac", "lan4"), A("hostmac", "routerip4"), A("hostmac", "zero4"), A("hostmac", "lla1"), A("hostmac", "invalid")}
\* A("01:00:5e:00:00:01", "224.0.0.1") is packet.IP4AllNodesAddr
Dst4 == {A("mac1", "lan4"), RouterAddr4, A("bcast", "bcast4"), A("01:00:5e:00:00:01", "224.0.0.1"), A("hostmac", "hostip4"),
         A("mac1", "zero4"), A("mac1", "lla1"), A("mac1", "invalid")}
Src6 == {HostLLAAddr, A("mac1", "lla1"), A("hostmac", "gua1"), A("hostmac", "lan4"), A("hostmac", "invalid")}
Dst6 == {"u:lla1", "u:gua1", "u:hostlla", "lib:allnodes", "lib:allrouters", "lib:solnode", "lib:solnode:gua", "u:lan4", "u:invalid"}
Tgt6 == {A("hostmac", "lla1"), A("mac1", "lla1"), A("mac1", "gua1"), A("hostmac", "invalid")}
ArpDstMACs == {"mac1", "bcast", "routermac"}
ArpIPs == {"lan4", "routerip4", "hostip4", "zero4", "bcast4", "224.0.0.251", "lla1", "invalid"}
ArpSenders == {HostAddr4, A("mac1", "lan4"), A("hostmac", "zero4"), A("mac1", "zero4"), A("hostmac", "routerip4"), A("mac1", "routerip4")}
ArpTargets == {A("bcast", "lan4"), A("zero", "lan4"), A("mac1", "lan4"), A("mac1", "routerip4"), A("hostmac", "hostip4"), A("mac1", "bcast4")}

Call(c) ==
    CASE c.f = "ICMP4SendEchoRequest" -> Echo4(c.src, c.dst, "arg.id", "arg.seq", "nil")
      [] c.f = "ICMP6SendEchoRequest" -> Echo6(c.src, c.dst, "arg.id", "arg.seq", "nil")
      [] c.f = "ICMP6SendNeighborAdvertisement" -> NDP6(c.src, c.dst, "na", NAF(c.tgt), NAF(c.tgt))
      [] c.f = "ICMP6SendNeighbourSolicitation" -> NDP6(c.src, c.dst, "ns", NSF(c.ip), NSMechF(c.ip))
      [] c.f = "ICMP6SendRouterSolicitation" -> RS
      [] c.f = "ICMP6SendRouterAdvertisement" -> RA(c.np, c.rdnss, c.dst)
      [] c.f = "Ping" -> Echo4(HostAddr4, c.dst, "any", "1", "ErrTimeout")
      [] c.f = "Ping6" -> Echo6(c.src, c.dst, "any", "1", "ErrTimeout")
      [] c.f = "PurgeProbe" -> PurgeProbe(c.host)
      [] c.f = "arp.Request" -> Arp("bcast", "1", HostAddr4, A("bcast", c.ip), TRUE)
      [] c.f = "arp.RequestTo" -> Arp(c.mac, "1", HostAddr4, A("bcast", c.ip), TRUE)
      [] c.f = "arp.Probe" -> Arp("bcast", "1", A("hostmac", "zero4"), A("zero", c.ip), FALSE)
      [] c.f = "arp.AnnounceTo" -> Arp(c.mac, "1", A("hostmac", c.ip), A("bcast", c.ip), FALSE)
      [] c.f = "arp.RequestRaw" -> Arp(c.mac, "1", c.src, c.dst, FALSE)
      [] c.f = "arp.Reply" -> Arp(c.mac, "2", c.src, c.dst, FALSE)
      [] c.f = "dhcp4.SendDiscoverPacket" -> Discover(c.ch, c.ci, c.name)
      \* c.sp: UDP source port of the client's request ("68" or another port): a server-to-client message always goes to
      \* port 68 (RFC 2131 4.1), on the broadcast and on the unicast branch
      [] c.f = "dhcp4.ServerReply" -> ServerReply(c.mt, c.bcast)
      [] c.f = "dhcp4.ForgedDecline" -> ForgedDecline
      \* two OFFERs of another server arrive back to back in ONE reused receive buffer: the DECLINE forged for the
      \* first must carry the FIRST offer's chaddr / xid / client identifier (the vector judges that one)
      [] c.f = "dhcp4.ForgedDeclinePair" -> ForgedDecline
      [] c.f = "dhcp4.ForgedRelease" -> ForgedRelease
      [] c.f = "dns.SendMDNSQuery" -> MDNSQuery
      [] c.f = "dns.SendLLMNRQuery" -> LLMNRQuery
      [] c.f = "dns.SendSSDPSearch" -> SSDPSearch
      [] c.f = "dns.SendSleepProxyResponse" -> SleepProxy(c.src, c.dst)
      [] c.f = "dns.SendNBNSQuery" -> NBNS(c.src, c.dst, "32")
      [] c.f = "dns.SendNBNSNodeStatus" -> NBNS(HostAddr4, A("bcast", "bcast4"), "33")

PoolAfter(c) == IF Call(c).mech.n = 1 THEN Call(c).mech.fr ELSE pool      \* what the call leaves in the buffer
\* Write failures.  While the action runs, the first write(s) of the connection fail with a temporary (EAGAIN style) or a
\* permanent net.Error ("temp1", "perm1", "temp2" = two temporary failures) and the following ones succeed.  The statement
\* speaks about frames that are transmitted: whether the action gives up, retries or goes on is its own business (n and err
\* are not constrained), but EVERY frame that reaches the wire -- also one written after a failed attempt -- is judged by the
\* same expectation as without failure.
UnderFailure(x, wf) ==
    IF wf = "none" THEN x
    ELSE [x EXCEPT !.exp = [x.exp EXCEPT !.n = IF @ = 1 THEN -1 ELSE @, !.err = "any"],
                   !.mech = [x.mech EXCEPT !.n = -1, !.err = "any"]]
\* ctx = [nic, wf]
Send(c, ctx) ==
    /\ phase = "idle" /\ "send" \in Parts
    /\ phase' = "vec"
    /\ vec' = [part |-> "send", nic |-> ctx.nic, wf |-> ctx.wf, call |-> c] @@ UnderFailure(Call(c), ctx.wf)
    /\ pool' = PoolAfter(c)
    /\ UNCHANGED <<cap, st, cur, res, hist>>

\* ---- The pool is write-only: send histories -------------------------------------------------------------
\* The frame a send action emits is a function of its parameters only, not of the previous content of the pooled
\* buffer it is built in.  Part "pairs": a first send (one canonical call per function, chosen to leave non-zero
\* bytes everywhere) fills the pool, a second send follows on the same process; its vector is Call(next), computed
\* without looking at `pool`.  dirty = "ee": the driver overwrites the pooled buffers with 0xEE between the two
\* calls; "prev": the second call finds the first frame's bytes.  C07_PoolNotRead states the frame condition; the
\* driver additionally compares every frame with the one the same call emits on zero-filled buffers.
\* (a tuple, not a set: the records have differently typed fields)
PairCalls == <<
    [f |-> "ICMP4SendEchoRequest", src |-> HostAddr4, dst |-> A("mac1", "lan4"), idc |-> "rand"],
    [f |-> "ICMP6SendEchoRequest", src |-> HostLLAAddr, dst |-> "u:lla1", idc |-> "rand"],
    [f |-> "ICMP6SendNeighborAdvertisement", src |-> HostLLAAddr, dst |-> "u:lla1", tgt |-> A("hostmac", "lla1")],
    [f |-> "ICMP6SendNeighbourSolicitation", src |-> HostLLAAddr, dst |-> "lib:solnode", ip |-> "lla1"],
    [f |-> "ICMP6SendRouterSolicitation"],
    [f |-> "ICMP6SendRouterAdvertisement", np |-> 2, rdnss |-> TRUE, dst |-> "lib:allnodes"],
    [f |-> "Ping", dst |-> A("mac1", "lan4")],
    [f |-> "Ping6", src |-> HostLLAAddr, dst |-> "u:lla1"],
    [f |-> "PurgeProbe", host |-> "lan4"], [f |-> "PurgeProbe", host |-> "gua1"],
    [f |-> "arp.Request", ip |-> "lan4"], [f |-> "arp.RequestTo", mac |-> "mac1", ip |-> "lan4"],
    [f |-> "arp.Probe", ip |-> "lan4"], [f |-> "arp.AnnounceTo", mac |-> "mac1", ip |-> "routerip4"],
    [f |-> "arp.RequestRaw", mac |-> "mac1", src |-> A("hostmac", "routerip4"), dst |-> A("mac1", "lan4")],
    [f |-> "arp.Reply", mac |-> "mac1", src |-> A("hostmac", "routerip4"), dst |-> A("mac1", "lan4")],
    [f |-> "dhcp4.SendDiscoverPacket", ch |-> "mac1", ci |-> "lan4", name |-> "long"],
    [f |-> "dhcp4.ServerReply", mt |-> "2", bcast |-> TRUE, cid |-> "mac", sp |-> "68"],
    [f |-> "dhcp4.ServerReply", mt |-> "6", bcast |-> TRUE, cid |-> "long", sp |-> "other"],
    [f |-> "dhcp4.ForgedDecline", cid |-> "long"], [f |-> "dhcp4.ForgedRelease", cid |-> "mac"],
    [f |-> "dns.SendMDNSQuery"], [f |-> "dns.SendLLMNRQuery"], [f |-> "dns.SendSSDPSearch"], [f |-> "dns.SendNBNSNodeStatus"],
    [f |-> "dns.SendSleepProxyResponse", src |-> HostAddr4, dst |-> A("mac1", "lan4")],
    [f |-> "dns.SendNBNSQuery", src |-> HostAddr4, dst |-> A("mac1", "lan4")]>>
PairIdx == 1..Len(PairCalls)
SendFirst(c, nic) ==
    /\ phase = "idle" /\ "pairs" \in Parts
    /\ phase' = "vec"
    /\ vec' = [part |-> "first", nic |-> nic, call |-> c] @@ Call(c)
    /\ pool' = PoolAfter(c)
    /\ UNCHANGED <<cap, st, cur, res, hist>>
SendSecond(c, dirty) ==
    /\ phase = "vec" /\ "pairs" \in Parts /\ vec.part = "first"
    /\ vec' = [part |-> "send", nic |-> vec.nic, call |-> c, prev |-> vec.call, dirty |-> dirty] @@ Call(c)
    /\ pool' = PoolAfter(c)
    /\ UNCHANGED <<phase, cap, st, cur, res, hist>>
PairsNext == "pairs" \in Parts /\
    \/ phase = "idle" /\ \E n \in NICs, i \in PairIdx : SendFirst(PairCalls[i], n)
    \/ phase = "vec" /\ vec.part = "first" /\ \E i \in PairIdx, d \in {"ee", "prev"} : SendSecond(PairCalls[i], d)
\* the second frame does not depend on what the first left behind
C07_PoolNotRead ==
    (phase = "vec" /\ vec.part = "send" /\ "prev" \in DOMAIN vec) =>
        /\ vec.exp = Call(vec.call).exp /\ vec.mech = Call(vec.call).mech      \* whatever `prev` and `pool` were

\* one action per exported send function
\* the identifier classes other than "rand" are combined with the canonical address pair only
IdcOf(canonical) == IF canonical THEN IdClasses ELSE {"rand"}
ICMP4SendEchoRequest(n) == \E s \in Src4, d \in Dst4 : \E idc \in IdcOf(s = HostAddr4 /\ d = A("mac1", "lan4")) :
                               Send([f |-> "ICMP4SendEchoRequest", src |-> s, dst |-> d, idc |-> idc], n)
ICMP6SendEchoRequest(n) == \E s \in Src6, d \in Dst6 : \E idc \in IdcOf(s = HostLLAAddr /\ d = "u:lla1") \ {"carryHdr"} :
                               Send([f |-> "ICMP6SendEchoRequest", src |-> s, dst |-> d, idc |-> idc], n)
ICMP6SendNeighborAdvertisement(n) ==
    \E s \in Src6, d \in Dst6, t \in Tgt6 : Send([f |-> "ICMP6SendNeighborAdvertisement", src |-> s, dst |-> d, tgt |-> t], n)
ICMP6SendNeighbourSolicitation(n) ==
    \E s \in Src6, d \in Dst6, ip \in {"lla1", "gua1", "hostlla", "invalid"} :
        Send([f |-> "ICMP6SendNeighbourSolicitation", src |-> s, dst |-> d, ip |-> ip], n)
ICMP6SendRouterSolicitation(n) == Send([f |-> "ICMP6SendRouterSolicitation"], n)
ICMP6SendRouterAdvertisement(n) ==
    \E np \in (0..3) \cup {46}, rd \in BOOLEAN, d \in {"lib:allnodes", "u:lla1", "u:gua1"} :
        Send([f |-> "ICMP6SendRouterAdvertisement", np |-> np, rdnss |-> rd, dst |-> d], n)
Ping(n)  == \E d \in Dst4 : Send([f |-> "Ping", dst |-> d], n)
Ping6(n) == \E s \in Src6, d \in Dst6 : Send([f |-> "Ping6", src |-> s, dst |-> d], n)
Purge(n) == \E h \in {"lan4", "lla1", "gua1"} : Send([f |-> "PurgeProbe", host |-> h], n)
ArpRequest(n)    == \E ip \in ArpIPs : Send([f |-> "arp.Request", ip |-> ip], n)
ArpRequestTo(n)  == \E m \in ArpDstMACs, ip \in ArpIPs : Send([f |-> "arp.RequestTo", mac |-> m, ip |-> ip], n)
ArpProbe(n)      == \E ip \in ArpIPs : Send([f |-> "arp.Probe", ip |-> ip], n)
ArpAnnounceTo(n) == \E m \in ArpDstMACs, ip \in ArpIPs : Send([f |-> "arp.AnnounceTo", mac |-> m, ip |-> ip], n)
ArpRequestRaw(n) == \E m \in ArpDstMACs, s \in ArpSenders, t \in ArpTargets :
                        Send([f |-> "arp.RequestRaw", mac |-> m, src |-> s, dst |-> t], n)
ArpReply(n)      == \E m \in ArpDstMACs, s \in ArpSenders, t \in ArpTargets :
                        Send([f |-> "arp.Reply", mac |-> m, src |-> s, dst |-> t], n)
DhcpSendDiscover(n) == \E ch \in {"mac1", "mac2", "hostmac"}, ci \in {"zero4", "lan4", "hostip4"}, nm \in {"none", "short", "long"} :
                        Send([f |-> "dhcp4.SendDiscoverPacket", ch |-> ch, ci |-> ci, name |-> nm], n)
DhcpServerReply(n)  == \E mt \in {"2", "5", "6"}, b \in BOOLEAN, cid \in {"mac", "long"}, sp \in {"68", "other"} :
                        (b \/ mt = "5") /\ Send([f |-> "dhcp4.ServerReply", mt |-> mt, bcast |-> b, cid |-> cid, sp |-> sp], n)
DhcpForged(n)       == \E k \in {"dhcp4.ForgedDecline", "dhcp4.ForgedDeclinePair", "dhcp4.ForgedRelease"}, cid \in {"mac", "long"} : Send([f |-> k, cid |-> cid], n)
DnsQueries(n)       == \E k \in {"dns.SendMDNSQuery", "dns.SendLLMNRQuery", "dns.SendSSDPSearch", "dns.SendNBNSNodeStatus"} : Send([f |-> k], n)
DnsSleepProxy(n)    == \E s \in {HostAddr4, A("mac1", "lan4"), HostLLAAddr}, d \in {A("mac1", "lan4"), A("bcast", "bcast4"), A("01:00:5e:00:00:fb", "224.0.0.251")} :
                        Send([f |-> "dns.SendSleepProxyResponse", src |-> s, dst |-> d], n)
DnsNBNSQuery(n)     == \E s \in {HostAddr4, A("mac1", "lan4"), A("hostmac", "lan4")}, d \in {A("mac1", "lan4"), A("bcast", "bcast4"), RouterAddr4} :
                        Send([f |-> "dns.SendNBNSQuery", src |-> s, dst |-> d], n)

SendNext == phase = "idle" /\ "send" \in Parts /\ \E n0 \in NICs, wf \in WriteFailures : LET n == [nic |-> n0, wf |-> wf] IN
    \/ ICMP4SendEchoRequest(n) \/ ICMP6SendEchoRequest(n) \/ ICMP6SendNeighborAdvertisement(n)
    \/ ICMP6SendNeighbourSolicitation(n) \/ ICMP6SendRouterSolicitation(n) \/ ICMP6SendRouterAdvertisement(n)
    \/ Ping(n) \/ Ping6(n) \/ Purge(n)
    \/ ArpRequest(n) \/ ArpRequestTo(n) \/ ArpProbe(n) \/ ArpAnnounceTo(n) \/ ArpRequestRaw(n) \/ ArpReply(n)
    \/ DhcpSendDiscover(n) \/ DhcpServerReply(n) \/ DhcpForged(n)
    \/ DnsQueries(n) \/ DnsSleepProxy(n) \/ DnsNBNSQuery(n)

\* C07 on the model: the mechanism emits a well formed frame exactly where no deviation is labelled
IsSendVec == phase = "vec" /\ vec.part = "send"
C07_MechWellFormedUnlessKF ==
    (IsSendVec /\ vec.clean /\ Call(vec.call).mech.n = 1) => (WellFormed(vec.mech.fr, vec.exp.fr) <=> vec.mech.kf = {})
\* every labelled field really deviates, and nothing else does
C07_KFExact ==
    (IsSendVec /\ vec.clean /\ Call(vec.call).mech.n = 1) =>
        LET m == vec.mech.fr  e == vec.exp.fr
            dev == {k \in {"ethSrc", "ethDst", "ipSrc", "ipDst", "kind", "sound"} :
                      CASE k = "ethSrc" -> m.ethSrc # "hostmac" [] k = "ethDst" -> ~Match(m.ethDst, e.ethDst)
                        [] k = "ipSrc" -> ~Match(m.ipSrc, e.ipSrc) [] k = "ipDst" -> ~Match(m.ipDst, e.ipDst)
                        [] k = "kind" -> m.kind # e.kind [] k = "sound" -> m.sound # "ok"}
        IN dev \subseteq {x.field : x \in vec.mech.kf}
C07_ExpSelfConsistent ==
    (IsSendVec /\ Call(vec.call).exp.n = 1) => WellFormed([vec.exp.fr EXCEPT !.hop = HopDemanded(vec.exp.fr)], vec.exp.fr)

-----------------------------------------------------------------------------
(* No shared state.                                                          *)
(* Every action of parts A and B reads and writes only the variables of its   *)
(* own build -- cap, st, cur, res (the destination buffer) -- and its          *)
(* parameters: Encode*, Marshal*, SetPayload and AppendPayload are functions   *)
(* of their arguments and the destination buffer only.  Two builds therefore   *)
(* compose as the product of two copies of this machine WITHOUT any common     *)
(* variable: whatever the interleaving, each copy reaches exactly the terminal *)
(* states it reaches alone, i.e. every case exported here has the same         *)
(* expected result when other encoder calls run at the same time.  BuildFrame  *)
(* states the frame condition on the model; the binding to the code is the     *)
(* concurrent stage of the driver (wiredrv -concurrent): N goroutines execute  *)
(* the exported cases in private buffers at once and each result is judged     *)
(* against that goroutine's own supplied values.                               *)
BuildFrame == [][(phase \in {"build", "done"} /\ phase' \in {"build", "done", "rewritten", "stop"}) => vec' = vec]_vars

Init == /\ phase = "idle" /\ cap = 0 /\ st = <<>> /\ cur = 0 /\ res = "ok" /\ hist = <<>> /\ vec = Nil /\ pool = Nil

\* guards first: a terminal state must not pay for the enumeration of the whole class product
DhcpNext == phase = "idle" /\ "dhcp" \in Parts /\ \E s \in DhcpSets, o \in DhcpOrders, c \in DhcpCaps :
               \E bl \in (IF BigCode \in s THEN BigLens ELSE {0}) : DhcpVec(s, o, c, bl)

Next == BuildNext \/ RewriteNext \/ AliasNext \/ DhcpNext \/ SendNext \/ PairsNext
Spec == Init /\ [][Next]_vars

C03_Dhcp == (phase = "vec" /\ vec.part = "dhcp" /\ vec.exp.res = "ok") =>
              LET s == Range(vec.opts)  o == vec.order IN
              /\ C03_DhcpEachOnce(s, o) /\ C03_DhcpMsgType(s, o) /\ C03_DhcpReqOrder(s, o)
              /\ C03_DhcpMaskFirst(s, o) /\ C03_DhcpPadded(s, vec.big)
              /\ vec.exp.len = Max(300, 241 + OptBytes(s, vec.big))

TypeOK == /\ phase \in {"idle", "build", "done", "rewritten", "stop", "vec"}
          /\ res \in {"ok", "nil", "ErrPayloadTooBig", "panic"}
          /\ cur \in 0..4 /\ Len(st) <= 4
=============================================================================
