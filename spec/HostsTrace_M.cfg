SPECIFICATION TraceSpec
CONSTANTS
  Mode = "M"
  TraceFile = "trace.ndjson"
  Check = {"C04", "C05", "C06"}
  Own = "own"
  Router = "router"
  Clients = {"m1", "m2", "m3", "m4", "m5", "m6", "m7", "m8", "m9", "m10", "m11", "m12", "m13", "m14", "m15", "m16", "m17", "m18", "m19", "m20", "m101", "m102", "m103", "m201", "m202"}
  HostIP = "hostip"
  RouterIP = "routerip"
  LanIPs = {"a1", "a2", "a3", "a4", "a5", "a6", "a7", "a8", "a9", "a10", "a11", "a12", "a13", "a14", "a15", "a16", "a17", "a18", "a19", "a20"}
  ExtIPs = {"x1", "x2", "x3"}
  LLAs = {"l1", "l2", "l3", "l4"}
  GUAs = {"g1", "g2", "g3", "g4", "q1", "q2", "q3", "q4", "q5", "q6", "u1", "u2"}
  Slots = {"dhcp", "mdns", "ssdp", "llmnr", "nbns"}
  Dhcp = "dhcp"
  Llmnr = "llmnr"
  Names = {"n1", "n2", "n3", "n1u", "n2u"}
  NoIP = "noip"
  NoName = "noname"
  ProbeD = 1
  OfflineD = 2
  PurgeD = 4
  Never = 100000
CONSTRAINT Mark
CONSTRAINT Props
POSTCONDITION TraceAccepted
CHECK_DEADLOCK FALSE
