SPECIFICATION Spec
CONSTANTS
  NLines = 3
  MaxFields = 1
  PutsOnWriteError = 2
  ExportEvery = 0
INVARIANTS C20_LinesIndependent
CHECK_DEADLOCK FALSE
