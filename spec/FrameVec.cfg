SPECIFICATION Spec
CONSTANT Family = "all"
INVARIANTS OutcomeTotal DeviationsNamed FieldVectorOK ViewShapeOK Export
CHECK_DEADLOCK FALSE
