------------------------------- MODULE DhcpMC -------------------------------
(* Bounded model of Dhcp.tla: depth bound, argument classes chosen from the state (own / peer
   offers and bindings plus a fixed set of special addresses), action history with symbolic
   address arguments for behaviour replay, VIEW hiding the history.
   TLC decides: TypeOK, C18_CleanRestartSuperset and OnlyTolerated (every property guard the
   mechanism model can contradict within the bound is one of the listed deviations). *)
EXTENDS Dhcp, Json

CONSTANTS MaxDepth, Clients,      \* Clients: set of <<cid, mac>> pairs that send messages
          SpecialA,               \* fixed address arguments (broadcast, network, off-LAN, pool address, ...)
          ForeignA,               \* addresses other hosts show up on
          PRLs, XidAux,           \* parameter request list classes; xid used where it is only echoed
          MaxTog, MaxTick, MaxEnv, WithRestart,
          Tolerated,              \* set of "<guard>:<cause>" keys listed as open known findings
          CheckFam,               \* property families judged by this run: subset of {"C11", "C12", "C18"}
          ExportEvery, ExportFailEvery
VARIABLES depth, hist, ntog, ntick, nenv
mcvars == <<lease, next, file, replies, hosts, ment, acked, obs, verdict, depth, hist, ntog, ntick, nenv>>

OwnAddrs(k)   == IF lease[k] = Nil THEN {} ELSE {lease[k].offer, lease[k].ip} \ {NoA}
PeerAddrs(k)  == UNION {OwnAddrs(j) : j \in CIDs \ {k}}
AddrArgs(k)   == OwnAddrs(k) \cup PeerAddrs(k) \cup SpecialA
\* how the replayer finds the argument again when the real server chose differently
Sym(a) == IF a = NoA THEN "lit"
          ELSE IF \E j \in CIDs : lease[j] # Nil /\ lease[j].offer = a
               THEN "offer:" \o ToString(CHOOSE j \in CIDs : lease[j] # Nil /\ lease[j].offer = a)
          ELSE IF \E j \in CIDs : lease[j] # Nil /\ lease[j].ip = a
               THEN "ip:" \o ToString(CHOOSE j \in CIDs : lease[j] # Nil /\ lease[j].ip = a)
          ELSE "lit"

Step(rec) == depth' = depth + 1 /\ hist' = Append(hist, rec)
Keep == UNCHANGED <<ntog, ntick, nenv>>

MCInit == Init /\ depth = 0 /\ hist = <<>> /\ ntog = 0 /\ ntick = 0 /\ nenv = 0

Req(c, sid, ropt, ci, srck, x, p) ==
  LET src == IF srck = "zero" THEN NoA ELSE IF srck = "bcast" THEN BcastA ELSE ci
  IN /\ Request(c[1], c[2], sid, ropt, ci, src, x, p)
     /\ Step([a |-> "request", k |-> c[1], m |-> c[2], sid |-> sid, ropt |-> ropt, ropts |-> Sym(ropt),
              ci |-> ci, cis |-> Sym(ci), srck |-> srck, xid |-> x, prl |-> p])
     /\ Keep

Next == depth < MaxDepth /\
  \/ \E c \in Clients, x \in XIDs, p \in PRLs : \E r \in AddrArgs(c[1]) \cup {NoA} :
        /\ Discover(c[1], c[2], r, x, p)
        /\ Step([a |-> "discover", k |-> c[1], m |-> c[2], req |-> r, reqs |-> Sym(r), xid |-> x, prl |-> p])
        /\ Keep
  \/ \E c \in Clients, x \in XIDs, p \in PRLs, sid \in {"us", "other"} : \E r \in AddrArgs(c[1]) :
        Req(c, sid, r, NoA, "zero", x, p)                                        \* selecting
  \/ \E c \in Clients, p \in PRLs : \E a \in AddrArgs(c[1]) :
        \/ Req(c, "none", NoA, a, "ci", XidAux, p)                               \* renewing (unicast from ciaddr)
        \/ Req(c, "none", NoA, a, "zero", XidAux, p)                             \* renewing, source 0.0.0.0
        \/ Req(c, "none", NoA, a, "bcast", XidAux, p)                            \* rebinding
        \/ Req(c, "none", a, NoA, "zero", XidAux, p)                             \* rebooting
        \/ \E ci \in OwnAddrs(c[1]) : Req(c, "none", a, ci, "zero", XidAux, p)    \* rebooting with a non-zero ciaddr (option 50 decides)
  \/ \E c \in Clients, sid \in {"us", "other"} : \E r \in OwnAddrs(c[1]) \cup PeerAddrs(c[1]) \cup {NoA} :
        /\ Decline(c[1], c[2], r, sid)
        /\ Step([a |-> "decline", k |-> c[1], m |-> c[2], ropt |-> r, ropts |-> Sym(r), sid |-> sid]) /\ Keep
  \/ \E c \in Clients : \E a \in OwnAddrs(c[1]) :
        /\ ReleaseMsg(c[1], c[2], a, "us")
        /\ Step([a |-> "release", k |-> c[1], m |-> c[2], ci |-> a, cis |-> Sym(a), sid |-> "us"]) /\ Keep
  \/ \E m \in {c[2] : c \in Clients} :
        /\ ntog < MaxTog /\ ntog' = ntog + 1 /\ UNCHANGED <<ntick, nenv>>
        /\ IF IsCap(ment, m) THEN ReleaseCapture(m) /\ Step([a |-> "uncapture", m |-> m])
                             ELSE Capture(m) /\ Step([a |-> "capture", m |-> m])
  \/ \E far \in BOOLEAN :
        /\ ntick < MaxTick /\ ntick' = ntick + 1 /\ UNCHANGED <<ntog, nenv>>
        /\ Tick(far) /\ Step([a |-> "tick", far |-> far])
  \/ /\ nenv < MaxEnv /\ nenv' = nenv + 1 /\ UNCHANGED <<ntog, ntick>>
     /\ \/ \E m \in {c[2] : c \in Clients} \cup {Stranger} : \E a \in ForeignA \cup UNION {OwnAddrs(c[1]) : c \in Clients} :
             a \in Net1 /\ ForeignTraffic(m, a) /\ Step([a |-> "foreign", m |-> m, ip |-> a, ips |-> Sym(a)])
        \/ PurgeHosts /\ Step([a |-> "purge"])
        \/ WithRestart /\ Restart /\ Step([a |-> "restart"])
        \/ WithRestart /\ Reload /\ Step([a |-> "reload"])
        \/ WithRestart /\ lease # [j \in CIDs |-> Nil] /\ Reconf /\ Step([a |-> "reconf"])

Spec == MCInit /\ [][Next]_mcvars

MCTypeOK == TypeOK /\ depth \in 0..MaxDepth

Key(f) == f.g \o ":" \o f.c
\* a failure that is not a listed deviation: print the behaviour (it is replayed on the real code) and stop
OnlyTolerated == (\A f \in verdict : Family(f.g) \in CheckFam => Key(f) \in Tolerated)
                 \/ (PrintT(ToJson([cex |-> hist, keys |-> {Key(f) : f \in verdict}])) /\ FALSE)

\* behaviour export: evaluated once per distinct (VIEW) state; always TRUE
Pick(n) == n = 1 \/ (n > 1 /\ RandomElement(1..n) = 1)
Export == ((depth = MaxDepth /\ Pick(ExportEvery)) \/ (verdict # {} /\ Pick(ExportFailEvery)))
             => PrintT(ToJson([h |-> hist, v |-> {Key(f) : f \in verdict}]))

ClientsDiag == {<<k, k>> : k \in CIDs}          \* MC configs use the same tokens for client ids and MACs
ClientsAll  == CIDs \X MACs                      \* any client id from any MAC

View == <<lease, next, file, replies, hosts, ment, acked, obs, verdict, depth, ntog, ntick, nenv>>
Sym2 == Permutations(CIDs)
=============================================================================
