------------------------------ MODULE PingMC ------------------------------
(* Closed, bounded model of Ping.tla: N concurrent pings (one call each), an environment that
   hands at most MaxReplies ICMP messages to Parse (every identifier of ReplyIds x every kind, at
   every point of every interleaving), timers that may fire at any time, send failures.
   hist records the environment-visible events of the behaviour (what the Go driver can force:
   start, send failure, injected message, timer expiry, return); it is exported for terminal
   states and replayed on the real code by harness/cmd/pingdrv. *)
EXTENDS Ping, Json

CONSTANTS MaxReplies, ReplyIds, ExportEvery, AllowSendFail,
          Sessions          \* sessions of the process: they share the one waiter table; each may be closed once
VARIABLES nrep,     \* messages handed to Parse so far
          hist,     \* sequence of driver-level events
          bad,      \* some Reply step completed somebody it must not (C19_OnlyOwn)
          raced,    \* a message for p arrived between p's timer expiry and its cleanup (cannot be forced from outside)
          sessOf,   \* Procs -> session the ping is called on
          open      \* sessions not closed yet
mcvars == <<table, nextID, pc, id, fam, closed, recv, res, panic, ref, nrep, hist, bad, raced, sessOf, open>>

Ev(rec) == hist' = Append(hist, rec)
Keep == UNCHANGED <<nrep, bad, raced, sessOf, open>>

\* how the driver names the identifier of an injected message: the ping that holds it, or the
\* offset from the next identifier to be handed out (0 = the next ping to start will get it)
Tgt(i) == IF \E p \in Procs : id[p] = i /\ pc[p] # "idle" /\ pc[p] # "start"
          THEN [tgt |-> CHOOSE p \in Procs : id[p] = i /\ pc[p] # "idle" /\ pc[p] # "start", off |-> 0]
          ELSE [tgt |-> NoProc, off |-> (i + IdSpace - nextID) % IdSpace]

MCInit == Init /\ nrep = 0 /\ hist = <<>> /\ bad = FALSE /\ raced = FALSE
          /\ sessOf = [p \in Procs |-> CHOOSE s \in Sessions : TRUE] /\ open = Sessions

\* Start and Register are one driver-level event: the identifier is taken first thing in Ping
MCNext ==
  \/ \E p \in Procs, f \in Fams, s \in open :
        /\ Start(p, f) /\ Ev([a |-> "start", p |-> p, fam |-> f, sess |-> s])
        /\ sessOf' = [sessOf EXCEPT ![p] = s] /\ UNCHANGED <<nrep, bad, raced, open>>
  \* Close of a session while pings of this or of another session are pending
  \/ \E s \in open : /\ \E p \in Procs : pc[p] \notin {"idle", "done"}
                     /\ CloseSession /\ open' = open \ {s} /\ Ev([a |-> "close", sess |-> s])
                     /\ UNCHANGED <<nrep, bad, raced, sessOf>>
  \/ \E p \in Procs : Register(p) /\ UNCHANGED hist /\ Keep
  \/ \E p \in Procs : Send(p) /\ Ev([a |-> "sent", p |-> p]) /\ Keep
  \/ \E p \in Procs : AllowSendFail /\ SendFails(p) /\ Ev([a |-> "sendfail", p |-> p]) /\ Keep
  \/ \E p \in Procs : Wake(p) /\ UNCHANGED hist /\ Keep
  \/ \E p \in Procs : TimerFires(p) /\ Ev([a |-> "timeout", p |-> p]) /\ Keep
  \/ \E p \in Procs : Cleanup(p) /\ UNCHANGED hist /\ Keep
  \/ \E p \in Procs : Return(p) /\ Ev([a |-> "ret", p |-> p, res |-> IF recv[p] THEN "nil" ELSE "timeout"]) /\ Keep
  \/ \E i \in ReplyIds, k \in Kinds :
        /\ nrep < MaxReplies
        /\ Reply(i, k)
        /\ nrep' = nrep + 1
        /\ bad' = (bad \/ ~OnlyOwn(i, k))
        /\ raced' = (raced \/ \E p \in Procs : pc[p] = "timedOut" /\ id[p] = i)
        /\ Ev([a |-> "reply", tgt |-> Tgt(i).tgt, off |-> Tgt(i).off, kind |-> k])
        /\ UNCHANGED <<sessOf, open>>

MCSpec == MCInit /\ [][MCNext]_mcvars

C19_OnlyOwn == ~bad
MCTypeOK == TypeOK /\ nrep \in 0..MaxReplies

AllDone == (\A p \in Procs : pc[p] \in {"idle", "done"}) /\ (\E p \in Procs : pc[p] = "done")
\* behaviour export: evaluated once per distinct (VIEW) state; always TRUE
Export == (AllDone /\ ~raced /\ (ExportEvery = 1 \/ RandomElement(1..ExportEvery) = 1)) => PrintT(ToJson(hist))
\* expected-counterexample configs: print the history of the state that violates the invariant
C19_NoLeakX == C19_NoLeak \/ (PrintT(ToJson([cex |-> "C19_NoLeak", hist |-> hist])) /\ FALSE)
C19_DistinctIdsX == C19_DistinctIds \/ (PrintT(ToJson([cex |-> "C19_DistinctIds", hist |-> hist])) /\ FALSE)

View    == <<table, nextID, pc, id, fam, closed, recv, res, panic, ref, nrep, bad, raced, sessOf, open>>
\* export runs keep the injected messages in the view: one exported history per distinct
\* (state, sequence of driver-level events)
ViewEnv == <<table, nextID, pc, id, fam, closed, recv, res, panic, ref, nrep, bad, raced, sessOf, open, hist>>
Sym == Permutations(Procs)
=============================================================================
