"""Shared plumbing of the X-checks of family `extras3`: components of /repo that no listed property covers.

 X08  spec/DhcpModes.tla, DhcpModesMC.tla   handlers/dhcp4_spoofer: operating modes, traffic aimed at the other DHCP server
 X09  spec/SmallVec.tla                     small pure helpers (DHCP4 header accessors, OptionsLeaseTime, NewMTU, IPv6NewLLA / ULA,
                                            IsUnicastMAC, fastlog levels, Addr helpers)

Driver: harness/cmd/extradrv3 (one binary, sub-commands modes | vec).  TLC runs use at most two workers (the machine is shared)
and the in-memory state queue."""
import concurrent.futures
import json
import os

import vlib

MEMQ = {"tlc2.tool.queue.IStateQueue": "MemStateQueue"}
WORKERS = 2


def tlc_ok(ctx, module, cfg_text, what, timeout=600, heap="3g", workers=WORKERS, files=None, **kw):
    """Exhaustive TLC run that must finish cleanly: a model-level failure is not a verdict about the code (exit 2)."""
    fs = {"x.cfg": cfg_text}
    fs.update(files or {})
    kw.setdefault("seed", ctx.seed)
    r = vlib.tlc(ctx, module, cfg="x.cfg", files=fs, workers=workers, timeout=timeout, heap=heap, jprops=MEMQ, **kw)
    if not r.ok:
        raise vlib.InfraError("TLC %s (%s): model-level failure (violated=%s error=%s): the specification's own invariants "
                              "do not hold or the run did not finish, which is not a verdict about the code\n%s" %
                              (module, what, r.violated, r.error, r.out[-3000:]))
    return r


def tlc_sim(ctx, module, cfg_text, what, num, depth, timeout=120, heap="2g"):
    """Random walks of the bounded model (TLC -simulate): the exported histories are the result."""
    r = vlib.tlc(ctx, module, cfg="s.cfg", files={"s.cfg": cfg_text}, workers=WORKERS, timeout=timeout, heap=heap,
                 simulate="num=%d" % max(1, num // WORKERS), depth=depth, seed=ctx.seed)
    if r.violated or (r.error and "timeout" not in str(r.error)):
        raise vlib.InfraError("TLC %s simulate (%s): model-level failure (violated=%s error=%s)\n%s" %
                              (module, what, r.violated, r.error, r.out[-2000:]))
    return r


def write_lines(path, items):
    with open(path, "w") as f:
        for x in items:
            f.write(json.dumps(x, separators=(",", ":")) + "\n")
    return len(items)


def drive(ctx, binary, args, timeout=600):
    p = vlib.run_driver(ctx, binary, args, timeout=timeout)
    lines = [x for x in p.stdout.strip().splitlines() if x.startswith("{")]
    if not lines:
        raise vlib.InfraError("driver printed no summary\nstderr:\n" + p.stderr[-3000:])
    return json.loads(lines[-1])


def drive_parallel(ctx, binary, arglists, timeout=170, jobs=4):
    """Several driver processes side by side (each under three minutes: a session's NIC monitor SIGTERMs a process that
    parses no IP frame for that long)."""
    with concurrent.futures.ThreadPoolExecutor(max_workers=max(1, min(jobs, len(arglists)))) as ex:
        futs = [ex.submit(drive, ctx, binary, a, timeout) for a in arglists]
        return [f.result() for f in futs]


def read_results(path):
    return vlib.read_ndjson(path) if os.path.exists(path) else []


def load_replay(path):
    return json.load(open(path))["replay"]
