"""C13 -- ARP spoofing is confined to hunted hosts and undone on StopHunt.
See DESIGN.md section 6 and checks/hunt_common.py (spec/ArpHunt.tla, ArpHuntMC.tla, ArpHuntTrace.tla)."""
import hunt_common

LEVEL = "model_checking"


def run(ctx):
    hunt_common.run_c13(ctx)


def replay(ctx, path):
    return hunt_common.replay(ctx, hunt_common.ArpFamily(), path)
