"""C04 -- see DESIGN.md section 6 and checks/hosts_common.py (spec/Hosts.tla, HostsMC.tla, HostsTrace.tla)."""
import hosts_common

LEVEL = "model_checking"


def run(ctx):
    hosts_common.run_family(ctx, ["C04"], ["free", "notify"])
    ctx.coverage.setdefault("tlc", {})["hosts_liveness"] = hosts_common.liveness(ctx)


def replay(ctx, path):
    return hosts_common.replay(ctx, path, ["C04"])
