"""C07 -- every transmitted frame is well formed and sourced from the host NIC MAC.
spec/Wire.tla part C (one action per exported send function, predicate WellFormed), spec/WireMC.tla,
harness/cmd/wiredrv -send / -frames.  See DESIGN.md section 6 / C07 and checks/wire_common.py."""
import json
import os
import random

import wire_common as wc

import vlib

LEVEL = "exploration"

NICS = '{"nicA", "nicB", "nicC"}'


def frames_remap(r, f):
    """-frames mode has no call to compare with: name the purge probe defect by its signature."""
    flat = r.get("flat") or {}
    if f["key"] == "frame:arp.hlenplen" and flat.get("ethDst", "").endswith(":06:04") and flat.get("kind") == "arpreq":
        return "C07:KF_PurgeProbeHlenPlen"
    return "C07:" + f["key"]


def history_frames(ctx, cov):
    """Frames emitted by the session along histories of the Hosts family (purge probes of C04):
    hostsdrv -frames writes them, wiredrv -frames checks each with vh.CheckWellFormed."""
    try:
        import hosts_common
        hb = vlib.go_build(ctx, "hostsdrv")
    except Exception as ex:  # the other family's driver is not ours to fix
        cov["history_frames"] = {"skipped": "hostsdrv unavailable: %s" % str(ex)[:200]}
        return 0, 0
    rng = random.Random(ctx.seed)
    n, ln = (60, 40) if ctx.quick else (600, 60)
    scripts = [hosts_common.random_script(rng, "notify", ln) for _ in range(n)]
    sp, tp, fp = (os.path.join(ctx.scratch, x) for x in ("wire-h.script", "wire-h.trace", "wire-h.frames"))
    hosts_common.write_script(sp, scripts)
    hosts_common.drive(ctx, hb, sp, tp, stutter=0.1, frames=fp)
    nframes = sum(1 for _ in open(fp))
    if nframes == 0:
        cov["history_frames"] = {"histories": n, "frames": 0}
        return 0, 0
    binary = wc.build_driver(ctx)
    out = os.path.join(ctx.scratch, "wire-h.res")
    p = vlib.run_driver(ctx, binary, ["-frames", fp, "-out", out, "-mac", "02:00:00:00:00:01"], timeout=600)
    summary = json.loads(p.stdout.strip().splitlines()[-1])
    results = vlib.read_ndjson(out)
    prop = {}
    for r in results:
        for f in r.get("findings", []):
            if f["level"] == "prop":
                prop.setdefault(frames_remap(r, f), []).append((r, f))
    for key, lst in sorted(prop.items()):
        r, f = lst[0]
        # reproduce: decode the recorded bytes a second time
        one = os.path.join(ctx.scratch, "wire-h.one")
        open(one, "w").write(r["frame"] + "\n")
        out1 = os.path.join(ctx.scratch, "wire-h.one.res")
        vlib.run_driver(ctx, binary, ["-frames", one, "-out", out1, "-mac", "02:00:00:00:00:01"])
        again = vlib.read_ndjson(out1)
        if not any(frames_remap(a, g) == key for a in again for g in a.get("findings", [])):
            raise vlib.InfraError("frame finding %s did not reproduce" % key)
        replay = {"mode": "frames", "key": key, "frame": r["frame"], "mac": "02:00:00:00:00:01", "k": 1}
        if ctx.report(key, "frame emitted along a session history: " + f["what"], replay) == "known":
            for _ in lst[1:]:
                ctx.report(key, f["what"], replay)
    cov["history_frames"] = {"histories": n, "frames": nframes, "kinds": summary.get("kinds", {}),
                             "findings": {k: len(v) for k, v in prop.items()}}
    return nframes, len(summary.get("kinds", {}))


def run(ctx):
    binary = wc.build_driver(ctx)
    cov = ctx.coverage
    cov["refdecoder_selftest_cases"] = wc.selftest(ctx, binary)
    k = 3 if ctx.quick else 40
    idc = '{"rand", "carryLE", "carryBE", "carryHdr"}' if ctx.quick else '{"rand", "carryLE", "carryBE", "carryHdr", "sweep"}'
    vecs, r = wc.tlc_part(ctx, "send", {"NICs": NICS, "IdClasses": idc, "Parts": '{"send"}'}, timeout=1200)
    cov["tlc"] = {"send": dict(r.summary(), exported=len(vecs))}
    results, summary = wc.drive(ctx, binary, "send", vecs, k, "send", timeout=1500)
    if summary.get("instances") != len(vecs) * k:
        raise vlib.InfraError("driver executed %s of %d instances" % (summary.get("instances"), len(vecs) * k))
    drift, notes = wc.judge(ctx, binary, "send", vecs, results, k, "send")
    skipped = summary.get("skipped", {})
    nskipped = sum(skipped.values())
    functions = sorted({v["call"]["f"] for v in vecs})
    distinct = {wc.abstract_digest(v) for v in vecs if v.get("clean") and v["exp"]["n"] == 1}
    nframes, _ = history_frames(ctx, cov)
    cov.update({
        "evaluations": summary["instances"] - nskipped + nframes + summary.get("sweep_calls", 0),
        "sweep_calls": summary.get("sweep_calls", 0),
        "distinct_nontrivial": len(distinct),
        "states": r.distinct, "transitions": r.generated,
        "rule": "one case = one (send function, parameter classes, NIC configuration) vector enumerated by TLC from WireMC part C, "
                "called k times with seeded concrete addresses on a session over a recording connection; every recorded frame is decoded "
                "by the independent reference decoder and compared with the frame the specification expects (property level) and with "
                "the mechanism model's frame; distinct = distinct vectors by digest; non-trivial = valid arguments for which the "
                "statement demands a frame.  Frames recorded along session histories of the Hosts family are checked with the "
                "call-independent predicates only",
        "samples": wc.sample_vectors([v for v in vecs if v.get("clean")], 4),
        "functions": functions, "instances_per_case": k, "drift": drift, "notes": notes,
        "dns_hook_present": bool(summary.get("dnshook")), "skipped": skipped,
        "driver_findings": summary.get("findings", {}),
        "exhaustive": False,
    })
    if nskipped:
        vlib.log("  note: %d DNS send instances skipped (hook dns_naming.VerifNew absent in %s)" % (nskipped, vlib.REPO))
    ctx.assumptions += [
        "frames are observed at Session.Conn.WriteTo through the recording connection harness/vh/conn.go",
        "the reference decoder harness/vh/wire_refdecode.go is trusted (it shares no code with the library)",
        "addresses are sampled per class from VERIF_SEED; classes and functions are enumerated by TLC",
        "weakest readings: 'link-local NDP' = NDP sent to a link-local destination; arguments of the wrong family / invalid addresses are outside the statement (only noted); "
        "an IPv4 multicast destination is expected on its RFC 1112 MAC as part of 'intended protocol'",
        "the DNS send functions need the hook dns_naming.VerifNew (hooks/dns_naming_verif.patch); without it they are skipped and listed under coverage.skipped",
    ]


def replay(ctx, path):
    obj = json.load(open(path))
    return wc.replay(ctx, path, remap=frames_remap if obj["replay"]["mode"] == "frames" else None)
