"""C07 -- every transmitted frame is well formed and sourced from the host NIC MAC.
spec/Wire.tla part C (one action per exported send function, predicate WellFormed), spec/WireMC.tla,
harness/cmd/wiredrv -send / -frames.  See DESIGN.md section 6 / C07 and checks/wire_common.py."""
import json
import os
import random

import wire_common as wc

import vlib

LEVEL = "exploration"

NICS = '{"nicA", "nicB", "nicC"}'


HOST_MAC = "02:00:00:00:00:01"     # vh.OwnMAC: the NIC MAC of every producer's universe


def frames_remap(r, f):
    """-frames mode has no call to compare with: name the purge probe defect by its signature."""
    flat = r.get("flat") or {}
    if f["key"] == "frame:arp.hlenplen" and flat.get("ethDst", "").endswith(":06:04") and flat.get("kind") == "arpreq":
        return "C07:KF_PurgeProbeHlenPlen"
    if f["key"] == "frame:mcast6mac" and flat.get("kind") == "na" and flat.get("ipDst") == "ff02::1":
        try:
            if int(flat.get("ethDst", "01")[:2], 16) & 1 == 0:
                # icmp6spoof.go:66-69: a hunted host without a known IPv6 address is sent the forged NA with the
                # all-nodes address on its own unicast MAC (deliberate; RFC 6085 allows it, the statement does not)
                return "C07:KF_NAToAllNodesOnUnicastMAC"
        except ValueError:
            pass
    return "C07:" + f["key"]


# ---------------------------------------------------------------------------------------------
# Part 2 of the design: frames emitted along the histories of the other families.
# A producer runs another family's driver (never edited here) on a modest number of seeded histories with
# `-frames <file>`; every recorded frame is decoded by wiredrv -frames (vh.CheckWellFormed: complete,
# length-consistent, checksums, Ethernet source = host NIC MAC, 33:33 mapping, NDP hop limit) and then judged
# against what the producing handler is meant to emit (expect_* below).  Producer trouble is never a verdict:
# it is recorded in coverage.skipped.

def _hex4(ip):
    try:
        return "".join("%02x" % int(x) for x in ip.split("."))
    except ValueError:
        return None


def expect_hosts(flat):
    out = []
    if flat.get("kind") not in ("arpreq", "ns", "echoreq"):
        out.append(("kind", "purge probe of kind %s" % flat.get("kind")))
    return out


def expect_arp(flat):
    # forged requests / replies legitimately carry the router's or a client's address as sender: that is the spoof
    out = []
    if flat.get("proto") != "arp":
        out.append(("proto", "the ARP handler emitted a %s frame" % flat.get("proto")))
    # a reply of the handler always claims "<ip> is at the host NIC MAC" (arp.go:331,358); requests may carry the
    # router's real MAC as sender (spoof.go:103 restores the client's cache when a hunt ends)
    if flat.get("kind") == "arpreply" and flat.get("f.sha") != flat.get("ethSrc"):
        out.append(("reply.sha", "forged ARP reply names %s, not the host NIC MAC, as sender hardware address" % flat.get("f.sha")))
    return out


def expect_ndp(flat):
    out = []
    kind = flat.get("kind")
    if flat.get("proto") != "icmp6" or kind not in ("na", "ns", "rs", "ra", "echoreq"):
        out.append(("kind", "the ICMPv6 handler emitted %s / %s" % (flat.get("proto"), kind)))
    if kind == "na" and flat.get("f.tlla") != flat.get("ethSrc"):     # icmp6spoof.go:97: target = router address at OUR MAC
        out.append(("na.tlla", "forged neighbour advertisement carries target link-layer address %s, not the host NIC MAC" % flat.get("f.tlla")))
    if kind == "na" and flat.get("f.override") != "1":
        out.append(("na.override", "forged neighbour advertisement without the override flag"))
    if kind in ("na", "ns") and flat.get("f.target") in (None, "::"):
        out.append(("nd.target", "%s without target address" % kind))
    if kind == "ns" and flat.get("f.slla") != flat.get("ethSrc"):
        out.append(("ns.slla", "neighbour solicitation source link-layer address option is %s" % flat.get("f.slla")))
    return out


def expect_dhcp(flat):
    out = []
    kind = flat.get("kind")
    if kind == "arpreq":
        return out
    if kind != "dhcp4":
        return [("kind", "the DHCP handler emitted a %s frame" % kind)]
    op, mt = flat.get("f.op"), flat.get("f.msgtype")
    ports = (flat.get("sport"), flat.get("dport"))
    if op == "2":                       # server replies
        if ports != ("67", "68"):
            out.append(("reply.ports", "BOOTREPLY on ports %s->%s" % ports))
        if mt not in ("2", "5", "6"):
            out.append(("reply.msgtype", "BOOTREPLY with message type %s" % mt))
        if flat.get("f.opt54") is None or len(flat.get("f.opt54", "")) != 8:
            out.append(("reply.serverid", "server reply without a 4 byte server identifier"))
        if mt in ("2", "5"):
            if flat.get("f.yiaddr") in (None, "0.0.0.0"):
                out.append(("reply.yiaddr", "OFFER/ACK with yiaddr %s" % flat.get("f.yiaddr")))
            for o in ("f.opt51", "f.opt1"):
                if flat.get(o) is None:
                    out.append(("reply.options", "OFFER/ACK without option %s" % o[5:]))
        elif mt == "6" and flat.get("f.yiaddr") != "0.0.0.0":
            out.append(("reply.yiaddr", "NAK with yiaddr %s" % flat.get("f.yiaddr")))
    elif op == "1":                     # forged client messages: DISCOVER storm, DECLINE, RELEASE
        if ports != ("68", "67"):
            out.append(("forged.ports", "BOOTREQUEST on ports %s->%s" % ports))
        if mt not in ("1", "4", "7"):
            out.append(("forged.msgtype", "forged client message of type %s" % mt))
        if mt == "1" and flat.get("f.opt55") is None:
            out.append(("forged.discover", "DISCOVER without parameter request list"))
        if mt == "4" and (flat.get("f.opt54") is None or flat.get("f.opt50") is None):
            out.append(("forged.decline", "DECLINE without server identifier / requested address"))
        if mt == "7" and flat.get("f.opt54") is None:
            out.append(("forged.release", "RELEASE without server identifier"))
    if flat.get("f.dups") not in (None, "0"):
        out.append(("options.duplicate", "an option occurs twice: %s" % flat.get("f.codes")))
    return out


def produce_hosts(ctx, rng, frames_path):
    import hosts_common
    hb = vlib.go_build(ctx, "hostsdrv")
    n, ln = (60, 40) if ctx.quick else (600, 60)
    sp, tp = os.path.join(ctx.scratch, "wire-h.script"), os.path.join(ctx.scratch, "wire-h.trace")
    hosts_common.write_script(sp, [hosts_common.random_script(rng, "notify", ln) for _ in range(n)])
    hosts_common.drive(ctx, hb, sp, tp, stutter=0.1, frames=frames_path)
    return n


def _produce_hunt(ctx, rng, frames_path, sub, gen):
    import hunt_common
    hb = hunt_common.build(ctx)
    n, ln = (250, 30) if ctx.quick else (2500, 40)
    sp, tp = os.path.join(ctx.scratch, "wire-%s.script" % sub), os.path.join(ctx.scratch, "wire-%s.trace" % sub)
    hunt_common.write_script(sp, [gen(rng, ln) for _ in range(n)])
    st = hunt_common.drive(ctx, hb, sub, sp, tp, frames=frames_path)
    if st.get("infra"):
        raise vlib.InfraError("huntdrv %s: %s" % (sub, st["infra"]))
    return n


def produce_hunt_arp(ctx, rng, frames_path):
    import hunt_common
    return _produce_hunt(ctx, rng, frames_path, "arp", hunt_common.arp_random_script)


def produce_hunt_ndp(ctx, rng, frames_path):
    import hunt_common
    return _produce_hunt(ctx, rng, frames_path, "ndp", hunt_common.ndp_random_script)


def produce_dhcp(ctx, rng, frames_path):
    import dhcp_common
    db = dhcp_common.build_driver(ctx)
    per, ln = (12, 30) if ctx.quick else (120, 40)
    lines = []
    n = 0
    for shape in (2, 3, 4):
        for mode in dhcp_common.MODES:
            hs = [dhcp_common.random_script(rng, shape, ln) for _ in range(per)]
            hs += [dhcp_common.lifecycle_script(rng, shape, ln) for _ in range(per // 2)]
            lines += dhcp_common.script_of(hs, [shape], mode, start_id=n)
            n += len(hs)
    dhcp_common.drive(ctx, db, lines, "wire-dhcp", frames=frames_path)
    return n


# name, producer, expectation, host NIC MAC.  One more producer (e.g. the ping waiters of the conc family) = one line.
PRODUCERS = [
    ("hosts", produce_hosts, expect_hosts, HOST_MAC),
    ("hunt-arp", produce_hunt_arp, expect_arp, HOST_MAC),
    ("hunt-ndp", produce_hunt_ndp, expect_ndp, HOST_MAC),
    ("dhcp", produce_dhcp, expect_dhcp, HOST_MAC),
]
EXPECT = {name: exp for name, _, exp, _ in PRODUCERS}


def frame_findings(producer, r):
    """All property-level findings of one decoded frame: (key, what)."""
    out = []
    for f in r.get("findings", []):
        if f["level"] == "prop":
            key = frames_remap(r, f)
            if not key.startswith("C07:KF_"):
                key = "C07:history:%s:%s" % (producer, f["key"].split(":", 1)[-1])
            out.append((key, f["what"]))
    if not out or all(k.endswith(("ethsrc", "mcast6mac", "ndphop")) for k, _ in out):   # decodable: judge the content
        for field, what in EXPECT[producer](r.get("flat") or {}):
            out.append(("C07:history:%s:%s" % (producer, field), what))
    return out


def decode_frames(ctx, binary, frames_path, mac, tag):
    out = os.path.join(ctx.scratch, "wire-%s.res" % tag)
    p = vlib.run_driver(ctx, binary, ["-frames", frames_path, "-flat", "-out", out, "-mac", mac], timeout=900)
    return vlib.read_ndjson(out), json.loads(p.stdout.strip().splitlines()[-1])


def history_frames(ctx, cov):
    binary = wc.build_driver(ctx)
    hist = cov.setdefault("history_frames", {})
    skipped = cov.setdefault("skipped_producers", {})
    total = 0
    for name, produce, _, mac in PRODUCERS:
        fp = os.path.join(ctx.scratch, "wire-%s.frames" % name)
        try:
            nh = produce(ctx, random.Random(ctx.seed * 7919 + len(name)), fp)
            nframes = sum(1 for _ in open(fp))
        except Exception as ex:       # the other family's driver / module is not ours to fix
            skipped[name] = str(ex)[:300]
            vlib.log("  note: producer %s skipped: %s" % (name, str(ex)[:200]))
            continue
        if nframes == 0:
            hist[name] = {"histories": nh, "frames": 0, "kinds": {}}
            continue
        results, summary = decode_frames(ctx, binary, fp, mac, name)
        found = {}
        notes = {}
        for r in results:
            for key, what in frame_findings(name, r):
                found.setdefault(key, []).append((r, what))
            for f in r.get("findings", []):
                if f["level"] == "note":
                    notes[f["key"]] = notes.get(f["key"], 0) + 1
        for key, lst in sorted(found.items()):
            r, what = lst[0]
            one = os.path.join(ctx.scratch, "wire-one.hex")
            open(one, "w").write(r["frame"] + "\n")
            again, _ = decode_frames(ctx, binary, one, mac, "one")     # reproduce: decode the recorded bytes once more
            if not any(k == key for a in again for k, _ in frame_findings(name, a)):
                wc.unreproduced(ctx, key, what, {"mode": "frames", "producer": name, "count": len(lst)})
                continue
            replay = {"mode": "frames", "producer": name, "key": key, "frame": r["frame"], "mac": mac, "k": 1}
            if ctx.report(key, "frame emitted along a %s history: %s" % (name, what), replay) == "known":
                for _ in lst[1:]:
                    ctx.report(key, what, replay)
        hist[name] = {"histories": nh, "frames": nframes, "kinds": summary.get("kinds", {}),
                      "findings": {k: len(v) for k, v in found.items()}, "notes": notes}
        total += nframes
    return total, len(hist)


def replay_frames(ctx, rp, path):
    binary = wc.build_driver(ctx)
    one = os.path.join(ctx.scratch, "replay.hex")
    open(one, "w").write(rp["frame"] + "\n")
    results, _ = decode_frames(ctx, binary, one, rp.get("mac", HOST_MAC), "replay")
    producer = rp.get("producer", "hosts")
    for r in results:
        for key, what in frame_findings(producer, r):
            if key == rp["key"]:
                print("VIOLATION property=%s replay=%s" % (ctx.pid, path))
                vlib.log("  reproduced: %s" % what)
                return 1
    print("not reproduced")
    return 0


def run(ctx):
    binary = wc.build_driver(ctx)
    cov = ctx.coverage
    cov["refdecoder_selftest_cases"] = wc.selftest(ctx, binary)
    k = 3 if ctx.quick else 40
    idc = '{"rand", "carryLE", "carryBE", "carryHdr"}' if ctx.quick else '{"rand", "carryLE", "carryBE", "carryHdr", "sweep"}'
    allvecs, r = wc.tlc_part(ctx, "send", {"NICs": NICS, "IdClasses": idc, "WriteFailures": '{"none", "temp1", "perm1", "temp2"}',
                                           "Parts": '{"send"}'}, timeout=1800)
    cov["tlc"] = {"send": dict(r.summary(), exported=len(allvecs))}
    vecs = [v for v in allvecs if v.get("wf", "none") == "none"]
    results, summary = wc.drive(ctx, binary, "send", vecs, k, "send", timeout=1800)
    if summary.get("instances") != len(vecs) * k:
        raise vlib.InfraError("driver executed %s of %d instances" % (summary.get("instances"), len(vecs) * k))
    drift, notes = wc.judge(ctx, binary, "send", vecs, results, k, "send")
    # the same vectors while the first write(s) of the connection fail (temporary / permanent / two temporary failures)
    fvecs = [v for v in allvecs if v.get("wf", "none") != "none" and v["call"].get("idc", "rand") != "sweep"
             and (not ctx.quick or v["nic"] == "nicA")]
    kf = 1 if ctx.quick else 4
    fresults, fsummary = wc.drive(ctx, binary, "send", fvecs, kf, "sendfail", timeout=1800)
    fdrift, fnotes = wc.judge(ctx, binary, "send", fvecs, fresults, kf, "sendfail")
    drift += [d for d in fdrift if d["key"] not in {x["key"] for x in drift}]
    cov["write_failures"] = {"vectors": len(fvecs), "instances": fsummary.get("instances"), "driver_findings": fsummary.get("findings", {})}
    # send histories through the shared buffer pool: every ordered pair of the canonical calls, 0xEE / previous-frame variants
    pvecs, pr = wc.tlc_part(ctx, "pairs", {"NICs": '{"nicA"}' if ctx.quick else NICS, "Parts": '{"pairs"}'}, timeout=1200)
    pvecs = [v for v in pvecs if "prev" in v]
    cov["tlc"]["pairs"] = dict(pr.summary(), exported=len(pvecs))
    kp = 1 if ctx.quick else 3
    presults, psummary = wc.drive(ctx, binary, "send", pvecs, kp, "pairs", timeout=1500)
    pdrift, pnotes = wc.judge(ctx, binary, "send", pvecs, presults, kp, "pairs")
    drift += [d for d in pdrift if d["key"] not in {x["key"] for x in drift}]
    cov["pairs"] = {"vectors": len(pvecs), "instances": psummary.get("instances"), "driver_findings": psummary.get("findings", {})}
    # concurrent senders after the error-path vector
    cov["send_concurrent_stage"] = wc.send_concurrent_stage(ctx, binary, 6, 2 if ctx.quick else 20)
    skipped = summary.get("skipped", {})
    nskipped = sum(skipped.values())
    functions = sorted({v["call"]["f"] for v in vecs})
    distinct = {wc.abstract_digest(v) for v in vecs if v.get("clean") and v["exp"]["n"] == 1}
    nframes, _ = history_frames(ctx, cov)
    cov.update({
        "evaluations": summary["instances"] - nskipped + nframes + summary.get("sweep_calls", 0) + (psummary.get("instances") or 0)
        + cov["send_concurrent_stage"].get("executions", 0) + (fsummary.get("instances") or 0),
        "sweep_calls": summary.get("sweep_calls", 0),
        "distinct_nontrivial": len(distinct),
        "states": r.distinct + pr.distinct, "transitions": r.generated + pr.generated,
        "rule": "one case = one (send function, parameter classes, NIC configuration) vector enumerated by TLC from WireMC part C, "
                "called k times with seeded concrete addresses on a session over a recording connection; every recorded frame is decoded "
                "by the independent reference decoder and compared with the frame the specification expects (property level) and with "
                "the mechanism model's frame; distinct = distinct vectors by digest; non-trivial = valid arguments for which the "
                "statement demands a frame.  Frames recorded along the histories of the other families (Hosts purge probes, ARP "
                "and ICMPv6 hunt handlers, DHCP server: coverage.history_frames, counted per producer and kind) are decoded by the same "
                "reference decoder, checked with the call-independent predicates and with what the producing handler is meant to emit",
        "samples": wc.sample_vectors([v for v in vecs if v.get("clean")], 4),
        "functions": functions, "instances_per_case": k, "drift": drift, "notes": notes,
        "dns_hook_present": bool(summary.get("dnshook")), "skipped": skipped,
        "driver_findings": summary.get("findings", {}),
        "exhaustive": False,
    })
    if nskipped:
        vlib.log("  note: %d DNS send instances skipped (hook dns_naming.VerifNew absent in %s)" % (nskipped, vlib.REPO))
    ctx.assumptions += [
        "frames are observed at Session.Conn.WriteTo through the recording connection harness/vh/conn.go",
        "the reference decoder harness/vh/wire_refdecode.go is trusted (it shares no code with the library)",
        "addresses are sampled per class from VERIF_SEED; classes and functions are enumerated by TLC",
        "weakest readings: 'link-local NDP' = NDP sent to a link-local destination; arguments of the wrong family / invalid addresses are outside the statement (only noted); "
        "an IPv4 multicast destination is expected on its RFC 1112 MAC as part of 'intended protocol'",
        "the DNS send functions need the hook dns_naming.VerifNew (hooks/dns_naming_verif.patch); without it they are skipped and listed under coverage.skipped",
    ]


def replay(ctx, path):
    obj = json.load(open(path))
    if obj["replay"]["mode"] == "frames":
        return replay_frames(ctx, obj["replay"], path)
    return wc.replay(ctx, path)
