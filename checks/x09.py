"""X09 -- small pure helpers that no listed property covers   (spec/SmallVec.tla)

Statement (written by the verification team; the RFC cited is the one the code or its comment names):
 (H1) DHCP4 header accessors (layer_dhcp4.go, RFC 2131 figure 1): every setter changes exactly the bytes of its field (nothing
      else in the 240 byte header, nothing behind it, not its argument) and the getter reads the value back, for every argument that
      fits the field; SetBroadcast changes the top bit of the flags only; SetSName / SetFile terminate a shorter name with NUL and
      truncate a longer one to the field (no panic); SetCHAddr stores at most 16 bytes and writes the length into hlen;
 (H2) OptionsLeaseTime(d) is the number of whole seconds of d as a big-endian 32 bit value (RFC 2132 9.2) for 0 <= d < 2^32 s;
 (H3) NewMTU(v) is the RFC 4861 MTU option (type 5) holding v;
 (H4) IPv6NewLLA(mac) is fe80::/64 + the modified EUI-64 of a 48 bit MAC (RFC 4291 appendix A: ff:fe in the middle, universal/local
      bit inverted and no other bit), nil for any other length; IPv6NewULA(mac, subnet) is an RFC 4193 prefix fdXX:XXXX:XXXX:<subnet>::/64,
      an error for a MAC that is neither nil nor 6 bytes; IPv6SolicitedNode(a) is ff02::1:ff + low 24 bits of a on 33:33:ff + the same
      24 bits (RFC 4291 2.7.1, RFC 2464 7), the zero Addr for an IPv4 address;
 (H5) IsUnicastMAC(mac) = the individual/group bit of the first octet is 0; no panic on any argument;
 (H6) fastlog levels: error < info < debug; IsInfo = level >= info, IsDebug = level >= debug; SetLevel ignores LevelInvalid;
      SetLevelString accepts exactly the words error / info / debug in any letter case and ignores anything else; Disable = error,
      EnableInfo = info, EnableDebug = debug; Str2LogLevel returns the level a word names and, as documented, LevelError otherwise.
What the code does outside these domains (arguments that do not fit, negative durations) is recorded by the reference (Obs sites);
where it contradicts (H5) / (H6) the reference records the code and marks the site (Kf): known finding when the real code behaves
as recorded, DRIFT when it behaves as stated.

Pipeline: TLC enumerates the vector space of SmallVec.tla (reference results computed in TLA+, lemmas on the reference decided per
vector); `extradrv3 vec` executes every vector on the real functions (header filled with 0x00 and with 0xA5 before the setter, 16
guard bytes behind it, every getter read after every setter)."""
import json
import os

import extras3_common as xc
import vlib

LEVEL = "exploration"

FAMILIES = ["hdr", "lease", "mtu", "lla", "ula", "solnode", "ucast", "log"]

SITES = {
    "KfUcastEmptyPanics": ("finding", "X09:KF_IsUnicastMACEmptyPanics",
                           "IsUnicastMAC(mac) indexes mac[0] without a length test (layer_ethernet.go:41-43): an empty or nil hardware address panics "
                           "(index out of range) instead of returning false"),
    "KfStr2LogLevelDoc": ("finding", "X09:KF_Str2LogLevelDoc",
                          "fastlog.Str2LogLevel is documented 'If the string is invalid, the function returns LevelError' (fastlog/logging.go:94-96) "
                          "and returns LevelInvalid (0); SetLevelString relies on the latter"),
}
DRIFT_ASPECTS = {"KfUcastEmptyPanics": "nopanic", "KfStr2LogLevelDoc": "documented"}


def ucast_fixed():
    """The mechanism constant follows the status of the finding in known_findings.d (fixed: the length test is there)."""
    return any(e.get("key") == "X09:KF_IsUnicastMACEmptyPanics" and e.get("status") == "fixed" for e in vlib.load_known())


def cfg(families, deep):
    return ("SPECIFICATION VSpec\nCONSTANTS\n  Families = {%s}\n  Deep = %s\n  UcastFixed = %s\nINVARIANTS Lemmas VExport\nCHECK_DEADLOCK FALSE\n" %
            (", ".join('"%s"' % f for f in families), "TRUE" if deep else "FALSE", "TRUE" if ucast_fixed() else "FALSE"))


def execute(ctx, binary, vectors, tag):
    vp = os.path.join(ctx.scratch, tag + ".vec")
    rp = os.path.join(ctx.scratch, tag + ".res")
    xc.write_lines(vp, vectors)
    return xc.drive(ctx, binary, ["vec", "-in", vp, "-out", rp], timeout=300), xc.read_results(rp)


def run(ctx):
    binary = vlib.go_build(ctx, "extradrv3")
    r = xc.tlc_ok(ctx, "SmallVec", cfg(FAMILIES, not ctx.quick), "vectors", timeout=300, heap="2g")
    vecs = [v for v in r.json if isinstance(v, dict) and "k" in v]
    if len(vecs) != r.distinct or not vecs:
        raise vlib.InfraError("SmallVec: %d states but %d vectors" % (r.distinct, len(vecs)))
    st, results = execute(ctx, binary, vecs, "all")
    seen, drift, unrepro = {}, [], []
    for res in results:
        v = vecs[res["i"]]
        site = v.get("obs") or ""
        if site in DRIFT_ASPECTS and res["aspect"] == DRIFT_ASPECTS[site]:
            drift.append({"site": site, "vector": res["i"]})
            continue
        key = "X09:%s:%s" % (v["k"] + ("." + v["f"] if v.get("f") else ""), res["aspect"])
        seen[key] = seen.get(key, 0) + 1
        if seen[key] > 2:
            continue
        again = []
        for _ in range(3):
            _, again = execute(ctx, binary, [v], "re")
            if again:
                break
        if not again:
            unrepro.append({"vector": res["i"], "aspect": res["aspect"]})
            vlib.log("  X09: a difference did not reproduce in three re-executions (logged, no verdict): %s" % json.dumps(res)[:300])
            continue
        ctx.report(key, res["what"], {"kind": "vector", "vector": v})
    for site, n in sorted(st.get("sites", {}).items()):
        if site in SITES and n > 0:
            _, key, text = SITES[site]
            ctx.report(key, text, {"kind": "site", "site": site, "vector": vecs[st["site_examples"][site]]})
    digests = {vlib.digest({k: v[k] for k in v if k not in ("exp", "get", "writes")}) for v in vecs
               if v["k"] != "hdr" or v.get("arg")}
    ctx.coverage.update({
        "tlc": {"vectors": r.summary()},
        "evaluations": len(vecs), "distinct_nontrivial": len(digests),
        "rule": "one case = one vector enumerated by TLC from spec/SmallVec.tla (a header setter with one argument on a header filled with one "
                "byte value; a duration; a MAC; an address; a sequence of one or two logger calls from one of three levels) executed on the real "
                "function with the reference result computed in TLA+; non-trivial = non-empty argument, distinct by digest of the input",
        "samples": [{k: v[k] for k in v if k != "get"} for v in (vecs[len(vecs) // 3], vecs[-1])],
        "families": st.get("families"), "sites_confirmed_on_real_code": st.get("sites"),
        "driver": {k: v for k, v in st.items() if k != "site_examples"},
        "drift": drift[:20], "drift_count": len(drift), "unreproduced": unrepro[:20], "unreproduced_count": len(unrepro),
        "exhaustive": False,
    })
    ctx.assumptions += [
        "the argument classes (lengths 0 / field-1 / field / field+1 / far above, four address kinds, first octets, 12 second counts with three "
        "fractions and both signs, 11 words) are chosen by hand in the specification; TLC enumerates their product, not the byte space",
        "IPv6NewULA draws its global id from the clock: only the structure of the result is compared",
    ]


def replay(ctx, path):
    obj = xc.load_replay(path)
    binary = vlib.go_build(ctx, "extradrv3")
    v = obj["vector"]
    st, again = execute(ctx, binary, [v], "re")
    if obj.get("kind") == "site":
        if st.get("sites", {}).get(obj["site"], 0) > 0:
            print("VIOLATION property=%s replay=%s" % (ctx.pid, path))
            return 1
    elif again:
        print("VIOLATION property=%s replay=%s" % (ctx.pid, path))
        return 1
    print("not reproduced")
    return 0
