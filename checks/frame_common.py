"""Shared pipeline of C01 / C02 / C16: spec/Frame.tla + spec/FrameVec.tla + harness/cmd/framedrv.

 model side : TLC enumerates the complete class product of spec/Frame.tla (Parse shapes, view
              shapes, field bit patterns, allocation cases, the field table), checks on every case that
              the reference decoder is total and well typed and that the mechanism-level transcription
              of Session.Parse deviates from the reference on exactly the named classes, checks once
              that the UDP port table is a function and every PayloadID / named deviation is reached,
              and prints one JSON vector per case.
 code side  : harness/cmd/framedrv turns every vector into K byte strings (free bytes from VERIF_SEED),
              each in three buffers (cap==len, cap>len with two poisons), and runs Session.Parse, every
              Frame accessor and every zero-argument getter (reflection) of every valid view in killable
              worker processes (recover + hang watchdog).
 binding    : the driver compares the real results with the values the specification computed; this
              module turns every contradiction into a key, re-executes it once (reproduction) and
              reports it through ctx.report for the property it belongs to.
"""
import glob
import json
import os
import re

import vlib

K = {"quick": 4, "thorough": 48}     # 128 before the round 3-4 passes multiplied the work per concrete case
FASTLOG_OVERFLOW = re.compile(r"\[2048\]|length 2048|capacity 2048|\[:-\d+\]")
CONFIGS = {"quick": [None], "thorough": [0, 1, 2]}     # NIC configurations (None: seed modulo 3)


# ---------------------------------------------------------------------------------------------
# model side

def enumerate_vectors(ctx):
    """Run TLC on FrameVec (Family = all). Returns (vectors, tlc result). A model-level failure
    (invariant of the specification itself, ASSUME) is not a verdict about the code: exit 2."""
    r = vlib.tlc(ctx, "FrameVec", cfg="FrameVec.cfg", workers=1, timeout=900, heap="4g")
    if not r.ok:
        raise vlib.InfraError("FrameVec: model-level failure (violated=%s error=%s)\n%s" % (r.violated, r.error, r.out[-3000:]))
    recs = [x for x in r.json if isinstance(x, dict) and "fam" in x]
    if len(recs) != r.distinct:
        raise vlib.InfraError("FrameVec: %d vectors printed for %d distinct states" % (len(recs), r.distinct))
    fams = {}
    for x in recs:
        fams[x["fam"]] = fams.get(x["fam"], 0) + 1
    for fam, least in (("parse", 1000), ("view", 200), ("field", 500), ("alloc", 50), ("table", 100), ("meta", 1)):
        if fams.get(fam, 0) < least:
            raise vlib.InfraError("FrameVec: only %d vectors of family %s (vacuous enumeration)" % (fams.get(fam, 0), fam))
    # stable ids: independent of the order in which TLC visits the initial states
    recs.sort(key=lambda x: (x["fam"], json.dumps(x, sort_keys=True)))
    for i, x in enumerate(recs):
        x["id"] = i
    return recs, r


def write_vectors(path, recs):
    with open(path, "w") as f:
        for x in recs:
            f.write(json.dumps(x, sort_keys=True, separators=(",", ":")) + "\n")


def spec_lines(recs):
    """table rows + meta: needed by the driver to evaluate any single vector (stored in replay files)."""
    return [x for x in recs if x["fam"] in ("table", "meta")]


# ---------------------------------------------------------------------------------------------
# code side

def run_driver(ctx, binary, vectors_path, out_path, k, cfg=None, ids=None, allocs=False, timeout=3600):
    args = ["-vectors", vectors_path, "-out", out_path, "-k", k, "-j", 8]
    if cfg is not None:
        args += ["-cfg", cfg]
    if ids:
        args += ["-ids", ",".join(str(i) for i in ids)]
    if allocs:
        args.append("-allocs")
    p = vlib.run_driver(ctx, binary, args, timeout=timeout, ok_codes=(0, 2))
    try:
        summary = json.loads(p.stdout.strip().splitlines()[-1])
    except Exception:
        raise vlib.InfraError("framedrv gave no summary\nstderr:\n%s" % p.stderr[-3000:])
    if p.returncode != 0 or summary.get("infra"):
        raise vlib.InfraError("framedrv infrastructure failure: %s\n%s" % (summary.get("infra"), p.stderr[-2000:]))
    return summary, vlib.read_ndjson(out_path)


# ---------------------------------------------------------------------------------------------
# keys: machine-matchable signature of a contradiction

def class_of(vec):
    fam = vec.get("fam")
    if fam in ("parse", "alloc"):
        dev = vec.get("dev", "none")
        return dev if dev not in ("none", None, "") else vec["s"]["path"]
    return fam


def key_from(prop, what, view, g, cls, variant, vec=None):
    """The key of a contradiction from its parts (the driver's record, or its overflow counter)."""
    if prop == "C01":
        if what in ("panic", "crash"):
            return "C01:Parse:%s:%s" % (what, cls)
        if what == "cap" and view == "Parse":
            return "C01:Parse:cap:%s" % cls
        if what == "accessor-panic":
            return "C01:Frame.%s:panic:%s" % (g, cls)
        if what in ("getter-panic", "isvalid-panic"):
            if variant == "fastlog":
                # the renderer overflowed fastlog's 2048 byte line buffer (property C20), not the view
                return "C01:%s.String:panic:fastlog-buffer" % view
            return "C01:%s.%s:panic" % (view, g)
        if what == "tail":
            return "C01:%s:writes-spare-capacity" % view
        return "C01:%s.%s:%s" % (view, g, what)                # cap, outside, not-subslice
    if prop == "C02":
        if what == "err":
            return "C02:Parse:%s:%s" % ("missing-error" if variant == "true" else "unexpected-error", cls)
        if what == "panic":
            return "C02:Parse:panic:%s" % cls
        if what in ("id", "off", "addr"):
            return "C02:Parse:%s:%s:%s" % (what, g, cls)
        return "C02:%s.%s" % (view, g)                          # getter
    if prop == "C16":
        if what == "allocs" and vec is not None and vec.get("fam") == "allocset":
            return "C16:allocs:interleaved:%s" % g
        if what == "allocs" and vec is not None:
            x = vec.get("x", {})
            return "C16:allocs:payload%s:%s:%s:log-%s" % (x.get("o", {}).get("id", "?"), vec.get("status", "?"), x.get("quiet", "none"), x.get("log", "error"))
        return "C16:%s:%s.%s" % (what, view, g)
    return "%s:%s:%s.%s" % (prop, what, view, g)


def key_of(r, vec):
    """r: driver record (t = mm | hang), vec: the abstract vector it belongs to."""
    if r["t"] == "hang":
        return "C01", "C01:%s:hang" % r.get("op", "?")
    prop, what, g = r.get("prop"), r.get("what"), r.get("g", "")
    variant = ""
    if what == "err":
        variant = r.get("exp", "")
    if what == "getter-panic" and g == "String" and FASTLOG_OVERFLOW.search(r.get("got", "")):
        variant = "fastlog"
    return prop, key_from(prop, what, r.get("view", ""), g, class_of(vec), variant, vec)


def same_finding(a, b):
    return all(a.get(f) == b.get(f) for f in ("t", "prop", "what", "view", "g", "op")) and a.get("id") == b.get("id")


# ---------------------------------------------------------------------------------------------
# the pipeline

class Run:
    """One execution of the whole machinery; every check of the family uses the part that belongs to
    its property."""

    def __init__(self, ctx, want_allocs=False):
        self.ctx = ctx
        self.recs, self.tlc = enumerate_vectors(ctx)
        self.byid = {x["id"]: x for x in self.recs}
        self.vpath = os.path.join(ctx.scratch, "vectors.ndjson")
        write_vectors(self.vpath, self.recs)
        self.binary = vlib.go_build(ctx, "framedrv")
        self.k = K[ctx.tier]
        self.records = []       # (record, cfg)
        self.counts = {}
        self.hangs = 0
        for i, cfg in enumerate(CONFIGS[ctx.tier]):
            summ, recs = run_driver(ctx, self.binary, self.vpath, os.path.join(ctx.scratch, "res%d.ndjson" % i), self.k, cfg=cfg)
            for kk, v in summ.get("count", {}).items():
                self.counts[kk] = self.counts.get(kk, 0) + v
            self.hangs += summ.get("hangs", 0)
            self.records += [(r, cfg) for r in recs]
        self.alloc_counts = {}
        if want_allocs:
            for i, cfg in enumerate(CONFIGS[ctx.tier]):
                summ, recs = run_driver(ctx, self.binary, self.vpath, os.path.join(ctx.scratch, "alloc%d.ndjson" % i), 1, cfg=cfg, allocs=True)
                for kk, v in summ.get("count", {}).items():
                    self.alloc_counts[kk] = self.alloc_counts.get(kk, 0) + v
                self.records += [(dict(r, allocs=True), cfg) for r in recs]
        self.meta = [x for x in self.recs if x["fam"] == "meta"][0]["c"]
        self.table = [x["c"] for x in self.recs if x["fam"] == "table"]

    # ---- reproduction -----------------------------------------------------------------------
    def reproduce(self, firsts):
        """firsts: {key: (record, cfg)}. Re-executes the vectors once more; returns the set of keys
        whose contradiction shows again."""
        again = set()
        groups = {}
        for key, (r, cfg) in firsts.items():
            groups.setdefault((cfg, bool(r.get("allocs"))), []).append((key, r))
        for n, ((cfg, allocs), items) in enumerate(sorted(groups.items(), key=str)):
            ids = sorted({r["id"] for _, r in items})
            _, recs = run_driver(self.ctx, self.binary, self.vpath, os.path.join(self.ctx.scratch, "repro%d.ndjson" % n),
                                 1 if allocs else self.k, cfg=cfg, ids=ids, allocs=allocs, timeout=600)
            for key, r in items:
                for x in recs:
                    if same_finding(dict(x, allocs=None), dict(r, allocs=None)) and x.get("k") == r.get("k"):
                        again.add(key)
                        break
        return again

    # ---- verdicts for one property ----------------------------------------------------------------
    def report(self, prop):
        ctx = self.ctx
        firsts, counts = {}, {}
        for r, cfg in self.records:
            if r["t"] not in ("mm", "hang"):
                continue
            vec = self.byid[r["id"]]
            p, key = key_of(r, vec)
            if p != prop:
                continue
            counts[key] = counts.get(key, 0) + 1
            if key not in firsts or (r.get("hex") and not firsts[key][0].get("hex")):
                firsts[key] = (r, cfg)
        for ck, n in self.counts.items():      # records beyond the per-worker cap were only counted
            if ck.startswith("x\t"):
                p, what, view, g, cls, variant = ck.split("\t")[1:7]
                if p == prop:
                    key = key_from(p, what, view, g, cls, variant)
                    if key in counts:
                        counts[key] += n
        again = self.reproduce(firsts) if firsts else set()
        lost = sorted(set(firsts) - again)
        for key in sorted(firsts):
            if key in lost:
                continue
            r, cfg = firsts[key]
            vec = self.byid[r["id"]]
            what = describe(r, vec)
            replay = {"vector": vec, "spec": spec_lines(self.recs), "record": {k: v for k, v in r.items() if k != "allocs"},
                      "allocs": bool(r.get("allocs")), "cfg": cfg, "k": self.k, "seed": ctx.seed}
            verdict = ctx.report(key, what, replay)
            if verdict == "known":     # count every occurrence, not only the reproduced first one
                for kf in ctx.known:
                    if kf.get("status") == "open" and vlib._key_match(kf["key"], key) and kf["key"] in ctx.known_seen:
                        ctx.known_seen[kf["key"]]["count"] += counts[key] - 1
                        break
        if lost:
            unknown = [k for k in lost if not any(kf.get("status") == "open" and vlib._key_match(kf["key"], k) for kf in ctx.known)]
            if unknown:
                detail = "; ".join("%s: %s" % (k, str(firsts[k][0].get("got", ""))[:1200]) for k in unknown)
                raise vlib.InfraError("contradiction(s) did not reproduce on re-execution: %s\n%s" % (unknown, detail))
        return counts

    # ---- coverage ---------------------------------------------------------------------------------
    def drift(self):
        d = {}
        for r, _ in self.records:
            if r["t"] == "drift":
                k = "%s:%s" % (r.get("what"), r.get("view", ""))
                d.setdefault(k, {"count": 0, "example": None})
                d[k]["count"] += 1
                if d[k]["example"] is None:
                    d[k]["example"] = {"vector": self.byid[r["id"]].get("s") or self.byid[r["id"]].get("c"), "expected": r.get("exp"), "got": r.get("got")}
        return d

    def executed(self, bit):
        """distinct abstract cases (by digest of their content) on which the real code was exercised
        in the sense of `bit` (1 executed, 2 value compared, 4 aliasing checked)."""
        out = set()
        for r, _ in self.records:
            if r["t"] == "v" and r.get("k", 0) & bit:
                v = self.byid[r["id"]]
                out.add(vlib.digest({k: v[k] for k in v if k != "id"}))
        return out

    def samples(self, fams, n=4):
        out = []
        hexes = {}
        for r, _ in self.records:
            if r["t"] == "sample" and r.get("hex"):
                hexes.setdefault(r["id"], r)
        for fam in fams:
            got = 0
            for vid, r in sorted(hexes.items()):
                v = self.byid[vid]
                if v["fam"] != fam:
                    continue
                out.append({"abstract_case": {k: v[k] for k in v if k in ("fam", "s", "o", "dev", "c", "status", "x")},
                            "concrete_bytes_hex": r["hex"], "observed": r.get("got")})
                got += 1
                if got >= n:
                    break
        return out

    def reflection_coverage(self):
        """getters found by reflection that the specification does not know; view types declared in
        the repository's working tree that the driver's registry does not know."""
        p = vlib.run_driver(self.ctx, self.binary, ["-list"], timeout=60)
        found = json.loads(p.stdout.strip().splitlines()[-1])
        known = {(r["v"], r["g"]) for r in self.table}
        known |= {tuple(x) for x in self.meta["uncompared"]} | {tuple(x) for x in self.meta["derived"]}
        everywhere = set(self.meta["uncomparedEverywhere"])
        unknown = sorted("%s.%s" % (v, g) for v, gs in found.items() for g in (gs or []) if (v, g) not in known and g not in everywhere)
        stale = sorted("%s.%s" % (v, g) for (v, g) in known if g not in (found.get(v) or []))
        declared = set()
        for f in glob.glob(os.path.join(vlib.REPO, "*.go")):
            if f.endswith("_test.go"):
                continue
            src = open(f, errors="replace").read()
            types = set(re.findall(r"^type ([A-Z]\w*) \[\]byte", src, re.M))
            declared |= {t for t in types}
        valid = set()
        for f in glob.glob(os.path.join(vlib.REPO, "*.go")):
            if not f.endswith("_test.go"):
                valid |= set(re.findall(r"^func \(\w+ ([A-Z]\w*)\) IsValid\(\)", open(f, errors="replace").read(), re.M))
        return {"getters_found_by_reflection": sum(len(g or []) for g in found.values()),
                "getters_not_in_spec": unknown, "spec_getters_not_in_code": stale,
                "view_types_not_registered": sorted((declared & valid) - set(found))}


def describe(r, vec):
    if r["t"] == "hang":
        return "%s did not return within the deadline (worker watchdog) on case %s" % (r.get("op"), short(vec))
    s = "%s %s.%s on case %s" % (r.get("what"), r.get("view", ""), r.get("g", ""), short(vec))
    if r.get("what") == "cap":
        s += ": result depends on spare capacity: %s / %s" % (r.get("exp"), r.get("got"))
    elif r.get("what") == "state":
        s += ": result depends on hidden state, not only on the bytes: %s / %s" % (r.get("exp"), r.get("got"))
    elif r.get("exp"):
        s += ": specification %s, real code %s" % (r.get("exp"), r.get("got"))
    elif r.get("got"):
        s += ": real code %s" % r.get("got")
    if r.get("hex"):
        s += " (input %s)" % (r["hex"] if len(r["hex"]) <= 160 else r["hex"][:160] + "...")
    return s


def short(vec):
    if vec["fam"] in ("parse", "alloc"):
        s = vec["s"]
        keep = {k: v for k, v in s.items() if k not in ("fam",) and v not in (0, "na", "none")}
        if vec.get("cfg", "default") != "default":
            keep["session"] = vec["cfg"]
        if vec.get("state", "none") != "none":
            keep["session_state"] = vec["state"]
        if vec.get("log", "error") != "error":
            keep["logger"] = vec["log"]
        if vec["fam"] == "alloc":
            keep.update({"status": vec.get("status"), "quiet": vec.get("x", {}).get("quiet"), "log": vec.get("x", {}).get("log")})
        return json.dumps(keep, sort_keys=True)
    c = vec.get("c", {})
    return json.dumps({k: c[k] for k in c if k in ("view", "len", "set", "raw", "g", "pattern", "bytes", "name", "hosts", "families")}, sort_keys=True)[:700]


ASSUMPTIONS = [
    "the byte space is sampled inside every abstract class (K seeded byte strings per case); exhaustive only over the classes of spec/Frame.tla",
    "memory safety is Go's bounds checking observed as panics, and pointer containment observed with unsafe.SliceData; TLA+ contributes the case space and the expected values",
    "readings where no RFC decides follow the package documentation (VLAN frames PayloadEther with payload after the tag, unknown EtherTypes PayloadEther, group source MAC not decoded, IP version nibble not validated, layer-4 header truncated = not in the frame, end of every view = end of frame)",
    "the view types are listed explicitly in harness/cmd/framedrv/views.go (reflection cannot enumerate a package); their methods are enumerated by reflection",
]


def replay(ctx, path):
    obj = json.load(open(path))
    rp = obj["replay"]
    vec = rp["vector"]
    lines = rp["spec"] + [vec]
    vpath = os.path.join(ctx.scratch, "replay.ndjson")
    write_vectors(vpath, lines)
    binary = vlib.go_build(ctx, "framedrv")
    ctx.seed = rp.get("seed", ctx.seed)
    _, recs = run_driver(ctx, binary, vpath, os.path.join(ctx.scratch, "replay.out"), rp.get("k", 2), cfg=rp.get("cfg"),
                         ids=[vec["id"]], allocs=rp.get("allocs", False), timeout=600)
    want = rp["record"]
    for x in recs:
        if same_finding(x, want):
            print("VIOLATION property=%s replay=%s" % (ctx.pid, path))
            vlib.log("  reproduced: " + describe(x, vec))
            return 1
    print("not reproduced")
    return 0
