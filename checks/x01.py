"""X01 -- memconn.go: TestNewBufferedConn() / TestReadAndDiscardLoop()   (spec/MemConn.tla, MemConnMC.tla, MemConnTrace.tla)

Statement (what a user of the in-memory "wire" relies on; written by the verification team, the component has no listed property):
 (a) copy semantics: a datagram read from one endpoint has exactly the bytes the writer's buffer held at the time of
     WriteTo (later changes of the writer's buffer are not observable), truncated to the reader's buffer;
 (b) per direction exactly the datagrams whose WriteTo returned len(b) are delivered, once, in the order written;
 (c) WriteTo never blocks: with fewer than 512 datagrams in flight in its direction it accepts (len(b), nil), with 512 in
     flight it drops the datagram and returns (0, nil);
 (d) ReadFrom blocks iff its direction is empty and the peer has not closed; it completes when the peer writes or closes;
     on a closed and drained direction it returns (0, nil, nil);
 (e) net.PacketConn contract: ReadFrom stores into b[:len(b)] only and returns n <= len(b); Close releases the endpoint's
     own blocked ReadFrom; ReadFrom / WriteTo on a closed endpoint return an error (they neither deliver, block nor panic).
The code does not give (e): four known findings (known_findings.d/X01.json).  A second Close panics; io.Closer leaves
that undefined, so it is recorded as observed behaviour only.

Pipeline
 A  TLC explores the mechanism state space of MemConnMC for Cap = 2 COMPLETELY (view: queue lengths, flags, blocked
    readers, last action) and exports one behaviour per (action, successor state); the driver executes each at block
    scale 256 (one model datagram = 256 real ones, so the model's "full" is the real 512) in goroutines, compares every
    outcome with the one the specification computed, and checks blocked operations robustly (see extradrv/memconn.go).
 A' the same with TestReadAndDiscardLoop actions at scale 1 (Cap = 512, depth-bounded) and deeper simulation walks.
 G  TLC decides the ghost invariants (exactly once, FIFO, bounded, nothing accepted after Close) on every behaviour
    up to a depth bound with content identities (no view abstraction).
 B  the driver records seeded random histories of single real calls (incl. bursts around 512); TLC validates the trace
    against MemConnTrace (Cap = 512)."""
import json
import os
import re

import extras_common as xc
import vlib

LEVEL = "model_checking"

# FALSE while known finding X01:ReadBeyondLen is open; set True together with flipping that entry to "fixed" once
# findings/X01-readfrom-len.fix.patch is committed to /repo (the specification then models ReadFrom copying into b[:len(b)])
CLIP_TO_LEN = True

KEYS = ("ReadBeyondLen", "WriteAfterClosePanics", "ReadAfterOwnClose", "CloseLeavesOwnReadBlocked")
KF_WHAT = {
    "ReadBeyondLen": "bufferedPacketConn.ReadFrom copies into b[:cap(b)] (memconn.go:37): with len(b) < cap(b) it stores beyond len(b) and returns n > len(b)",
    "WriteAfterClosePanics": "bufferedPacketConn.WriteTo after Close panics (send on closed channel, memconn.go:48) instead of returning an error",
    "ReadAfterOwnClose": "bufferedPacketConn.ReadFrom on an endpoint that was closed keeps delivering / blocking / returning (0, nil, nil); it never returns an error (memconn.go:34-39)",
    "CloseLeavesOwnReadBlocked": "bufferedPacketConn.Close closes only the outgoing channel (memconn.go:24-27): the endpoint's own blocked ReadFrom is not released",
}
PROP = {"alias": "a", "content": "a", "order": "b", "id": "b", "n": "c/d", "res": "c/d", "hang": "c", "wake": "d", "spurious": "d",
        "loop": "d", "over": "e", "tail": "e", "err": "e", "count": "e", "mixed": "b/c", "panic": "e"}


def mc_cfg(cap, depth, lens, bufs, loop, every, view, export="Export", ghost=True):
    inv = ["TypeOK", "DepthOK", "BlockedOnlyIfEmpty", "OneReader"]
    if ghost:
        inv += ["ExactlyOnceFifo", "Bounded"]
    if every:
        inv.append(export)
    return ("SPECIFICATION MCSpec\nCONSTANTS\n  EA = \"a\"\n  EB = \"b\"\n  Nil = Nil\n  ClipToLen = " + ("TRUE" if CLIP_TO_LEN else "FALSE") + "\n  Cap = %d\n  MaxDepth = %d\n  Lens = {%s}\n"
            "  BufIdx = {%s}\n  WithLoop = %s\n  ExportEvery = %d\nINVARIANTS %s\n%s%sCHECK_DEADLOCK FALSE\n" %
            (cap, depth, ", ".join(map(str, lens)), ", ".join(map(str, bufs)), "TRUE" if loop else "FALSE", every,
             " ".join(inv), "PROPERTIES NoAcceptAfterClose\n" if ghost else "", ("VIEW %s\n" % view) if view else ""))


TRACE_CFG = ("SPECIFICATION TraceSpec\nCONSTANTS\n  EA = \"a\"\n  EB = \"b\"\n  Cap = 512\n  Nil = Nil\n  ClipToLen = " + ("TRUE" if CLIP_TO_LEN else "FALSE") + "\n  TraceFile = \"trace.ndjson\"\n"
             "CONSTRAINT Check\nPOSTCONDITION TraceAccepted\nCHECK_DEADLOCK FALSE\n")


# ---------------------------------------------------------------------------------------------
# classification of one differing step

def aspect(exp, act):
    note = act.get("note", "")
    if note:
        return re.split(r"[(:]", note)[0]
    for f in ("res", "n", "id", "over"):
        if act.get(f) != exp.get(f):
            return f
    if act.get("wake") != exp.get("wake"):
        return "wake"
    if act.get("loop") != exp.get("loop"):
        return "loop"
    return "same"


def contract_alternative(step, exp, act):
    """True if the real outcome is not the specification's (code-shaped) one but what the contract (e) asks for at a
    known-finding site, or an outcome the statement leaves open: DRIFT, not a violation."""
    kf = step.get("kf") or []
    if step["a"] == "close" and exp["res"] == "panic" and act["res"] in ("ok", "err"):
        return "second Close does not panic (undefined by io.Closer)"
    if step["a"] == "write" and act["res"] == "err" and ("WriteAfterClosePanics" in kf or exp["res"] == "ok" and exp["n"] == 0 and step.get("n", 0) > 0):
        return "WriteTo on a closed endpoint returns an error"
    if "ReadAfterOwnClose" in kf and act.get("note") == "err":
        return "ReadFrom on a closed endpoint returns an error"
    if "CloseLeavesOwnReadBlocked" in kf and act["res"] == "ok" and any(w["e"] == step["e"] for w in act.get("wake") or []):
        return "Close releases the endpoint's own blocked ReadFrom"
    if "ReadBeyondLen" in kf and not act.get("note"):
        def clipped(o, oe):
            return o.get("over") is False and o.get("n", 0) < oe["n"] and (o.get("id") == oe["id"] or (o.get("n") == 0 and o.get("id") == -1))
        if exp.get("over") and act["res"] == "ok" and clipped(act, exp) and act.get("wake") == exp.get("wake"):
            return "ReadFrom clips to len(b)"
        ew, aw = exp.get("wake") or [], act.get("wake") or []
        if ew and ew[0].get("over") and len(aw) == 1 and aw[0]["e"] == ew[0]["e"] and clipped(aw[0], ew[0]) and \
                all(act.get(f) == exp.get(f) for f in ("res", "n", "id", "over")):
            return "ReadFrom clips to len(b)"
    return None


def judge(ctx, step, act, replay_obj, reproduce, drift):
    exp = step["exp"]
    alt = contract_alternative(step, exp, act)
    if alt:
        drift.append({"step": {k: v for k, v in step.items() if k != "exp"}, "why": alt})
        return
    asp = aspect(exp, act)
    key = "X01:%s:%s" % (step["a"], asp)
    if sum(1 for v in ctx.violations if v["key"] == key) >= 2:      # two replay files per key are enough
        return
    if not reproduce():
        raise vlib.InfraError("X01: a differing outcome did not reproduce: step %s expected %s got %s" %
                              (json.dumps({k: v for k, v in step.items() if k != "exp"}), json.dumps(exp), json.dumps(act)))
    ctx.report(key,
               "TestNewBufferedConn pair contradicts statement (%s): %s on endpoint %s must give %s, the real pair gave %s" %
               (PROP.get(asp, "a-e"), step["a"], step.get("e"), json.dumps(exp, sort_keys=True), json.dumps(act, sort_keys=True)),
               replay_obj)


# ---------------------------------------------------------------------------------------------

def run_replay(ctx, binary, label, behaviours, scale, drift):
    bp = os.path.join(ctx.scratch, label + ".beh")
    rp = os.path.join(ctx.scratch, label + ".res")
    xc.write_lines(bp, behaviours)
    st = xc.drive(ctx, binary, ["memconn", "-in", bp, "-out", rp, "-scale", scale], timeout=900)
    for res in xc.read_results(rp)[:20]:
        beh = behaviours[res["i"]]
        step, act = beh[res["step"]], res["actual"]

        def reproduce(beh=beh, res=res):
            return replay_behaviour(ctx, binary, beh, scale, res["step"])
        judge(ctx, step, act, {"kind": "behaviour", "scale": scale, "behaviour": beh, "step": res["step"]}, reproduce, drift)
    return st


def replay_behaviour(ctx, binary, beh, scale, step):
    bp = os.path.join(ctx.scratch, "one.beh")
    rp = os.path.join(ctx.scratch, "one.res")
    xc.write_lines(bp, [beh])
    xc.drive(ctx, binary, ["memconn", "-in", bp, "-out", rp, "-scale", scale, "-par", 1], timeout=300)
    rs = xc.read_results(rp)
    if not rs or rs[0]["step"] != step:
        return False
    return not contract_alternative(beh[step], beh[step]["exp"], rs[0]["actual"])


def event_step(ev, info):
    """A trace line (one real call) in the shape of a TLC step / outcome pair."""
    exp = info["exp"]
    def pick(expid, ids):
        if expid in ids or not ids:
            return expid if expid in ids else (-1 if not ids else ids[0])
        return ids[0]
    step = {"a": ev["a"], "e": ev["e"], "n": ev["n"], "id": ev["id"], "len": ev["len"], "cap": ev["cap"], "exp": exp, "kf": list(info.get("kf") or [])}
    act = {"res": ev["res"], "n": ev["rn"], "id": -1, "over": ev["over"], "wake": [], "loop": []}
    note = ev.get("bad") or ""
    if ev["a"] == "read" and ev["res"] == "ok" and not note:
        act["id"] = pick(exp.get("id", -1), ev["ids"]) if ev["rn"] > 0 else -1
        if act["id"] >= 4000000:
            note = "alias"
        elif ev["rn"] > 0 and not ev["ids"]:
            act["id"], note = -2, "content"
    ew = exp.get("wake") or []
    for i, w in enumerate(ev.get("wake") or []):
        eid = ew[i]["id"] if i < len(ew) else -1
        wid = (pick(eid, w["ids"]) if w["n"] > 0 else -1)
        if w.get("bad"):
            note = w["bad"]
        elif wid >= 4000000:
            note = "alias"
        elif w["n"] > 0 and not w["ids"]:
            wid, note = -2, "content"
        act["wake"].append({"e": w["e"], "n": w["n"], "id": wid, "over": w["over"]})
    if ev["res"] == "hang":
        note = "hang"
    if note:
        act["note"] = note
    return step, act


def behaviour_of(lines, idx):
    j = idx
    while j > 0 and lines[j]["a"] != "reset":
        j -= 1
    return lines[j:idx + 1]


def validate_trace(ctx, trace_path, timeout=600):
    r = vlib.tlc(ctx, "MemConnTrace", cfg="t.cfg", files={"t.cfg": TRACE_CFG, "trace.ndjson": trace_path}, workers=1,
                 timeout=timeout, heap="3g")
    m = re.search(r'<<"MISMATCH", (\d+), "(.*)">>', r.out)
    if m:
        return ("mismatch", int(m.group(1)), json.loads(m.group(2).replace('\\"', '"'))), r
    m = re.search(r'<<"ACCEPTED", (\d+), "(.*)">>', r.out)
    if m and r.ok:
        return ("accepted", int(m.group(1)), json.loads(m.group(2).replace('\\"', '"'))), r
    m = re.search(r'<<"REJECTED", "line", (\d+)>>', r.out)
    if m:
        raise vlib.InfraError("MemConnTrace: line %s of the recorded trace is not a step of the specification at all "
                              "(driver / specification mismatch, not a verdict)\n%s" % (m.group(1), r.out[-1500:]))
    raise vlib.InfraError("trace validation gave no verdict:\n" + r.out[-3000:])


def replay_events(ctx, binary, evs):
    """Re-execute the calls of one recorded behaviour (arguments only) and validate again. True if TLC still finds a mismatch."""
    # the driver re-generates the same behaviour from the same seed and index only as part of a whole run, so the
    # arguments are replayed through the behaviour executor: each call becomes a step whose expectation TLC recomputes.
    tp = os.path.join(ctx.scratch, "re.trace")
    ap = os.path.join(ctx.scratch, "re.args")
    xc.write_lines(ap, evs)
    xc.drive(ctx, binary, ["memrand", "-out", tp, "-args", ap], timeout=300)
    v, _ = validate_trace(ctx, tp, timeout=300)
    return v


def run(ctx):
    quick = ctx.quick
    binary = vlib.go_build(ctx, "extradrv")
    cov = ctx.coverage
    cov["tlc"] = {}
    drift = []
    states = trans = 0
    nbeh = nsteps = 0
    distinct = set()
    samples = []
    kf_counts = {}

    def take(label, r, behaviours, scale):
        nonlocal nbeh, nsteps
        st = run_replay(ctx, binary, label, behaviours, scale, drift)
        nbeh += len(behaviours)
        nsteps += st["steps"]
        for k, n in (st.get("kf") or {}).items():
            kf_counts[k] = kf_counts.get(k, 0) + n
        for b in behaviours:
            if len(b) > 1:
                distinct.add(vlib.digest([{k: v for k, v in s.items() if k != "exp"} for s in b]))
        if behaviours:
            samples.append({"source": label, "scale": scale, "behaviour": behaviours[len(behaviours) // 2]})
        cov.setdefault("runs", []).append(dict(st, label=label))

    def phases():
        nonlocal states, trans, nbeh
        # A: complete mechanism state space, Cap = 2, block scale 256
        every = 6 if quick else 1
        r = xc.tlc_ok(ctx, "MemConnMC", mc_cfg(2, 99, [0, 3, 40], [1, 2, 3, 4, 5], False, every, "ViewMech"), "complete, Cap=2", timeout=900)
        cov["tlc"]["complete_cap2"] = r.summary()
        states += r.distinct
        trans += r.generated
        behs = [h for h in r.json if isinstance(h, list)]
        if not behs:
            raise vlib.InfraError("TLC exported no behaviours")
        take("complete-cap2", r, behs, 256)
        yield
        if not quick:
            r = xc.tlc_ok(ctx, "MemConnMC", mc_cfg(4, 99, [0, 40], [1, 3], False, 8, "ViewMech"), "complete, Cap=4", timeout=1200)
            cov["tlc"]["complete_cap4"] = r.summary()
            states += r.distinct
            trans += r.generated
            take("complete-cap4", r, [h for h in r.json if isinstance(h, list)], 128)
            yield

        # A': TestReadAndDiscardLoop, single datagrams, real capacity
        d = 5 if quick else 6
        r = xc.tlc_ok(ctx, "MemConnMC", mc_cfg(512, d, [0, 5, 40], [1, 3], True, 3 if quick else 2, "ViewMech"), "loop, depth %d" % d, timeout=900, workers=1)
        cov["tlc"]["loop_depth%d" % d] = r.summary()
        states += r.distinct
        trans += r.generated
        take("loop", r, [h for h in r.json if isinstance(h, list)], 1)
        yield

        # simulation walks: deeper than anything above, loop actions included (scale 1) and excluded (scale 256)
        num, sd = (150, 25) if quick else (800, 40)
        r = xc.tlc_sim(ctx, "MemConnMC", mc_cfg(2, sd, [0, 3, 40], [1, 2, 3, 4, 5], False, 1, None, export="ExportLeaf"), "walks", num, sd + 1)
        cov["tlc"]["sim_cap2"] = r.summary()
        take("sim-cap2", r, [h for h in r.json if isinstance(h, list)][:num], 256)
        yield
        r = xc.tlc_sim(ctx, "MemConnMC", mc_cfg(512, sd, [0, 5, 40, 60], [1, 3], True, 1, None, export="ExportLeaf"), "walks with loop", num, sd + 1)
        cov["tlc"]["sim_loop"] = r.summary()
        take("sim-loop", r, [h for h in r.json if isinstance(h, list)][:num], 1)
        yield

        # G: ghost invariants with content identities on every behaviour up to a depth bound
        d = 6 if quick else 8
        r = xc.tlc_ok(ctx, "MemConnMC", mc_cfg(2, d, [0, 40], [1, 3], True, 0, "ViewHist"), "ghost depth %d" % d, timeout=1500)
        cov["tlc"]["ghost_depth%d" % d] = r.summary()
        states += r.distinct
        trans += r.generated

        # B: recorded random histories, validated by TLC
        tp = os.path.join(ctx.scratch, "rand.trace")
        n, ln, bursts = (120, 60, 3) if quick else (600, 80, 12)
        st = xc.drive(ctx, binary, ["memrand", "-out", tp, "-n", n, "-len", ln, "-bursts", bursts], timeout=900)
        v, r = validate_trace(ctx, tp)
        cov["tlc"]["trace"] = r.summary()
        cov["trace_lines"] = st["lines"]
        states += r.distinct
        trans += r.generated
        if v[0] == "mismatch":
            lines = vlib.read_ndjson(tp)
            ev = lines[v[1] - 1]
            step, act = event_step(ev, v[2])
            evs = behaviour_of(lines, v[1] - 1)

            def reproduce():
                return replay_events(ctx, binary, evs)[0] == "mismatch"
            judge(ctx, step, act, {"kind": "calls", "calls": evs}, reproduce, drift)
            cov["trace_lines_validated"] = v[1] - 1
        else:
            cov["trace_lines_validated"] = v[1]
            for k in v[2]:
                kf_counts[k] = kf_counts.get(k, 0) + 1
        nbeh += n
        samples.append({"source": "random-calls", "calls": [{k: x for k, x in e.items() if k in ("a", "e", "n", "len", "cap", "res", "rn")}
                                                             for e in vlib.read_ndjson(tp)[1:12]]})


    for _ in phases():
        if ctx.violations:          # a reproduced contradiction: the verdict stands, the remaining phases add nothing
            cov["stopped_after_violation"] = True
            break

    # known findings: the code behaved as the specification says at a site where the contract (e) asks for more
    for k in KEYS:
        for _ in range(min(kf_counts.get(k, 0), 2)):
            ctx.report("X01:" + k, KF_WHAT[k], {"kind": "known-finding-site", "key": k})
    cov.update({
        "states": states, "transitions": trans,
        "traces_validated_against_impl": nbeh,
        "steps_executed": nsteps, "known_finding_sites": kf_counts,
        "evaluations": nbeh, "distinct_nontrivial": len(distinct),
        "rule": "one case = one action history (WriteTo / ReadFrom / Close / TestReadAndDiscardLoop on either endpoint) executed on a real "
                "TestNewBufferedConn pair, every outcome compared with the one spec/MemConn.tla computes; distinct = distinct "
                "histories of length >= 2; plus recorded random call histories validated line by line by TLC",
        "samples": samples[:5], "drift": drift[:20], "exhaustive": not quick,
    })
    ctx.assumptions += [
        "one writer and at most one reader goroutine per endpoint (concurrent writers can block between WriteTo's length test and its send)",
        "blocked operations are observed with a grace period of 15 ms and again at the end of the behaviour (a wrong completion can be missed, not invented); expected completions are waited for 10 s",
        "block scale: one model datagram stands for 256 (Cap = 2) or 128 (Cap = 4) real datagrams; single-call granularity is covered by the recorded random histories (bursts of 505-516 writes around the capacity)",
    ]


def replay(ctx, path):
    obj = xc.load_replay(path)
    binary = vlib.go_build(ctx, "extradrv")
    if obj.get("kind") == "behaviour":
        ok = replay_behaviour(ctx, binary, obj["behaviour"], obj["scale"], obj["step"])
    elif obj.get("kind") == "calls":
        ok = replay_events(ctx, binary, obj["calls"])[0] == "mismatch"
    else:
        print("known-finding site: nothing to replay (see findings/X01.md)")
        return 0
    if ok:
        print("VIOLATION property=%s replay=%s" % (ctx.pid, path))
        return 1
    print("not reproduced")
    return 0
