"""C16 -- Parsing is zero-copy and allocation-free in steady state.
DESIGN.md section 6 / C16; spec/Frame.tla (offsets of ParseOutcome, AllocCases, Tracks, AllocFree), spec/FrameVec.tla,
harness/cmd/framedrv, checks/frame_common.py.

Property-level predicates: (a) for every concrete case Parse accepts and the specification accepts,
each view returned by Frame.Ether/IP4/IP6/UDP/TCP/Payload starts at &buf[offset of the specification]
(unsafe.SliceData), ends inside the frame, a write through the view is visible in the buffer and a write
to the buffer is visible through the view; (b) for every allocation case TLC enumerates with
AllocFree(status) (every PayloadID class x address family, source already tracked or untracked by rule)
testing.AllocsPerRun(200, Parse) == 0 in a non-race build with logging at error level.
"""
import frame_common
import vlib

LEVEL = "exploration"


def run(ctx):
    run = frame_common.Run(ctx, want_allocs=True)
    counts = run.report("C16")
    nontrivial = run.executed(4)
    alloc_cases = [x for x in run.recs if x["fam"] == "alloc"]
    measured = {vlib.digest({k: x[k] for k in x if k != "id"}) for x in alloc_cases if x["x"]["allocFree"]}
    cov = ctx.coverage
    c = run.counts
    cov.update({
        "tlc": run.tlc.summary(),
        "vectors_enumerated_by_tlc": run.tlc.distinct,
        "evaluations": c.get("cases", 0) + run.alloc_counts.get("alloc_measured", 0),
        "distinct_nontrivial": len(nontrivial) + (len(measured) if run.alloc_counts.get("alloc_measured", 0) else 0),
        "rule": "aliasing: one abstract Parse shape = one TLC state, K=%d byte strings each per NIC configuration, non-trivial = at least "
                "one non-empty view was compared with &buf[offset] and written through; allocation: one case = PayloadID class x family x "
                "tracking status enumerated by TLC, non-trivial = AllocFree(status) and measured; distinct by digest of the abstract case" % run.k,
        "views_alias_checked": c.get("alias_checked", 0),
        "refetch_after_header_write_checks": c.get("refetch_checks", 0),
        "pending_ping_allocation_cases": run.alloc_counts.get("alloc_measured_ping_pending", 0),
        "alloc_cases": run.alloc_counts.get("alloc_cases", 0), "alloc_cases_measured": run.alloc_counts.get("alloc_measured", 0),
        "alloc_cases_not_required": run.alloc_counts.get("alloc_not_required", 0),
        "interleaved_sets_measured": run.alloc_counts.get("allocset_measured", 0),
        "interleaved_frames_per_round_total": run.alloc_counts.get("allocset_frames", 0),
        "payload_ids_measured": sorted({x["x"]["o"]["id"] for x in alloc_cases if x["x"]["allocFree"]}),
        "statuses": sorted({x["status"] for x in alloc_cases}),
        "alloc_dimensions": {"quiet": sorted({x["x"]["quiet"] for x in alloc_cases}), "log": sorted({x["x"]["log"] for x in alloc_cases}),
                             "measured_quiet": run.alloc_counts.get("alloc_measured_quiet", 0),
                             "measured_log_default": run.alloc_counts.get("alloc_measured_log_default", 0)},
        "contradictions_by_key": counts,
        "drift": {k: v for k, v in run.drift().items() if k.split(":")[0] in ("tracked", "view-end", "alloc-case-id", "alloc-precondition", "mechanism")},
        "samples": run.samples(["alloc", "parse"]), "exhaustive": False,
    })
    if c.get("alias_checked", 0) == 0 or run.alloc_counts.get("alloc_measured", 0) == 0:
        raise vlib.InfraError("vacuous: no view was alias-checked or no allocation case measured")
    ctx.assumptions += frame_common.ASSUMPTIONS + [
        "allocation is a run-time observation (testing.AllocsPerRun, integer average over 200 runs, GOMAXPROCS 1) attached to model-enumerated cases",
    ]


def replay(ctx, path):
    return frame_common.replay(ctx, path)
