"""C12 -- DHCP replies segregate captured clients and conform to the transaction.
See DESIGN.md section 6 and checks/dhcp_common.py (spec/Dhcp.tla, DhcpMC.tla, DhcpTrace.tla)."""
import dhcp_common

LEVEL = "model_checking"


def run(ctx):
    dhcp_common.run_family(ctx, ["C12"])


def replay(ctx, path):
    return dhcp_common.replay(ctx, path, ["C12"])
