"""X03 -- session.go: life cycle of a packet.Session (Config.NewSession / Close) and the API around it
(spec/Lifecycle.tla, LifecycleMC.tla)

Statement (written by the verification team; the component has no listed property):
 (L1) Config.NewSession accepts a configuration iff its deadlines, after zero-defaulting, lie within the documented bounds
      (probe in (0, 30 min], offline in [probe, 60 min], purge in (0, 24 h]); an accepted session owns exactly two host entries:
      the NIC's own address (online, never expires) and the router (online, IsRouter), C has capacity 128;
 (L2) Close is idempotent, never panics, closes C (buffered notifications stay readable, then the channel reports closed), ends
      the session's goroutines, and on a contract-abiding connection releases a blocked Session.ReadFrom with ErrHandlerClosed;
 (L3) FindIP, IsCaptured, Capture and Parse behave after Close as before;
 (L4) no call sequence that is legal by the documentation panics inside the library or kills the process.
"The session is no longer valid after calling Close()": Notify / Ping after Close are illegal, their panics (send on the closed
C, WriteTo of the in-memory pipe) are observed behaviour that the specification records.  The purge pass is started by the
library itself each minute; a pass in flight when Close is called hits the same closed channel: known finding X03:PurgeInFlightAtClose.

Pipeline: TLC explores LifecycleMC for both connection kinds ("mem" = memconn.go pipe, "rec" = the harness' well-behaved
connection) up to a depth bound, deciding CapturedHasEntry, DirtyExists, RecReleased, NoNoteAfterClose, CloseFinal, and exports
one behaviour per (call, successor state) -- thorough tier: additionally EVERY call sequence up to depth 4; extradrv executes
each behaviour on a real session (calls under recover, blocked calls observed robustly, behaviours predicted to kill the process
and a sample of the others in a child process with goroutine accounting) and compares every outcome with the specification's.
DeadlineOutcome is enumerated over 11^3 configurations and executed on Config.NewSession."""
import json
import os
import random

import extras_common as xc
import vlib

LEVEL = "model_checking"

SITES = {
    "PurgeInFlightAtClose": ("finding", "a purge pass that runs after Close (the minute goroutine's pass in flight when Close is called) sends the offline "
                                         "notification on the closed channel C (session.go:467-468 via notification.go:49-50): panic in the library's own goroutine; "
                                         "over the in-memory pipe its ARP probe goroutine panics in WriteTo as well and the process dies"),
    "NotifyAfterClosePanics": ("observed", "Notify after Close panics (send on closed channel)"),
    "PingAfterCloseOnMemConnPanics": ("observed", "Ping after Close over the in-memory pipe panics in WriteTo (X01:WriteAfterClosePanics)"),
    "CloseLeavesReadFromBlockedOnMemConn": ("observed", "Close over the in-memory pipe leaves Session.ReadFrom blocked (X01:CloseLeavesOwnReadBlocked)"),
}


def mc_cfg(conn, depth, every, view=True, export="Export", cfgexport=False, gated=False):
    inv = ["DepthOK", "TypeOK", "CapturedHasEntry", "DirtyExists", "RecReleased"]
    if every:
        inv.append(export)
    if cfgexport:
        inv.append("CfgExport")
    return ("SPECIFICATION MCSpec\nCONSTANTS\n  H1 = \"h1\"\n  RT = \"router\"\n  Conn = \"%s\"\n  NoPass = NoPass\n  MaxDepth = %d\n  ExportEvery = %d\n"
            "  Gated = %s\nINVARIANTS %s\nPROPERTIES NoNoteAfterClose CloseFinal\n%sCHECK_DEADLOCK FALSE\n" %
            (conn, depth, every, "TRUE" if gated else "FALSE", " ".join(inv), "VIEW ViewLast\n" if view else ""))


def execute(ctx, binary, behaviours, cfgs, tag, isolate=0, timeout=170):
    """Each driver process must stay well under three minutes (the NIC monitor of a session that was not closed SIGTERMs the process)."""
    rp = os.path.join(ctx.scratch, tag + ".res")
    args = ["lifecycle", "-out", rp]
    if behaviours is not None:
        bp = os.path.join(ctx.scratch, tag + ".beh")
        xc.write_lines(bp, behaviours)
        args += ["-in", bp, "-isolate", isolate]
    if cfgs is not None:
        cp = os.path.join(ctx.scratch, tag + ".cfg")
        xc.write_lines(cp, cfgs)
        args += ["-cfg", cp]
    return xc.drive(ctx, binary, args, timeout=timeout), xc.read_results(rp)


def aspect(exp, act):
    for f in ("res", "err", "host", "flag"):
        if exp.get(f) != act.get(f):
            return f
    if len(exp.get("notes") or []) != len(act.get("notes") or []) or exp.get("notes") != act.get("notes"):
        return "notes"
    return "wire"


def run(ctx):
    quick = ctx.quick
    binary = vlib.go_build(ctx, "extradrv")
    cov = ctx.coverage
    cov["tlc"] = {}
    states = trans = 0
    behs = []
    gated = []
    cfgs = []
    rng = random.Random(ctx.seed)
    depth = 6 if quick else 8
    for conn in ("mem", "rec"):
        r = xc.tlc_ok(ctx, "LifecycleMC", mc_cfg(conn, depth, 1, cfgexport=(conn == "mem")), "%s depth %d" % (conn, depth), timeout=900, workers=1)
        cov["tlc"]["%s_depth%d" % (conn, depth)] = r.summary()
        states += r.distinct
        trans += r.generated
        for h in r.json:
            if isinstance(h, list):
                behs.append({"conn": conn, "steps": h})
            elif isinstance(h, dict) and "cfg" in h:
                cfgs.append(h)
        # the purge pass in two halves with anything in between (Close in particular); these behaviours need a process each
        gd = 5 if quick else 6
        r = xc.tlc_ok(ctx, "LifecycleMC", mc_cfg(conn, gd, 1, gated=True), "%s gated depth %d" % (conn, gd), timeout=900, workers=1)
        cov["tlc"]["%s_gated_depth%d" % (conn, gd)] = r.summary()
        states += r.distinct
        trans += r.generated
        g = [{"conn": conn, "steps": h} for h in r.json if isinstance(h, list) and any(s["a"] == "purgestart" for s in h)]
        hot = [b for b in g if any(s.get("kf") for s in b["steps"] if s["a"] == "purgeend")]
        rest = [b for b in g if b not in hot]
        rng.shuffle(hot)
        rng.shuffle(rest)
        cap = 50 if quick else 300
        gated += hot[:cap // 2] + rest[:cap - min(len(hot), cap // 2)]
        cov["tlc"]["%s_gated_depth%d" % (conn, gd)]["behaviours_with_gate"] = len(g)
        if not quick:       # every call sequence up to depth 4, no view abstraction
            r = xc.tlc_ok(ctx, "LifecycleMC", mc_cfg(conn, 4, 1, view=False, export="ExportLeaf"), "%s all sequences" % conn, timeout=900)
            cov["tlc"]["%s_allseq_depth4" % conn] = r.summary()
            states += r.distinct
            trans += r.generated
            behs += [{"conn": conn, "steps": h} for h in r.json if isinstance(h, list)]
    behs += gated
    if not behs or not gated or len(cfgs) != 11 ** 3:
        raise vlib.InfraError("TLC exported %d behaviours and %d configuration vectors (want 1331)" % (len(behs), len(cfgs)))

    kf_sites = {}
    results = []
    summary = {"behaviours": 0, "steps": 0, "isolated": 0, "leaks": 0}
    st, res = execute(ctx, binary, None, cfgs, "cfg")
    cov["cfg_vectors"] = st["cfg_vectors"]
    for r_ in res[:3]:
        v = cfgs[r_["i"]]
        _, again = execute(ctx, binary, None, [v], "recfg")
        if not again:
            raise vlib.InfraError("X03: configuration failure did not reproduce: %s" % json.dumps(r_))
        ctx.report("X03:NewSession:%s" % v["res"], "Config.NewSession with deadlines %s minutes: %s (the rule of L1 gives %s %s)" %
                   (v["cfg"], r_["what"], v["res"], v.get("which", "")), {"kind": "cfg", "vector": v})
    chunk = 1500
    for c in range(0, len(behs), chunk):
        part = behs[c:c + chunk]
        st, res = execute(ctx, binary, part, None, "b%d" % c, isolate=25 if quick else 20)
        for k in ("behaviours", "steps", "isolated", "leaks"):
            summary[k] += st.get(k, 0)
        for r_ in res:
            r_["i"] += c
            results.append(r_)
    cov["driver"] = summary
    for b in behs:
        for s in b["steps"]:
            for k in s.get("kf") or []:
                kf_sites[k] = kf_sites.get(k, 0) + 1
    seen = {}
    differing = set()
    for r_ in results:
        b = behs[r_["i"]]
        differing.add(r_["i"])
        if r_["kind"] == "leak":
            key = "X03:close:goroutines"
            what = "after Close returned, %d goroutine(s) of the session are still alive (calls: %s)" % (r_["leak"], [s["a"] for s in b["steps"]])
        else:
            s = b["steps"][r_["step"]]
            key = "X03:%s:%s" % (s["a"], aspect(s["exp"], r_["actual"]))
            what = ("session over the %s connection, calls %s: the last call must give %s, the real session gave %s" %
                    (b["conn"], [x["a"] + (":" + x["x"] if x["x"] else "") for x in b["steps"][:r_["step"] + 1]],
                     json.dumps(s["exp"], sort_keys=True), json.dumps(r_["actual"], sort_keys=True)))
        seen[key] = seen.get(key, 0) + 1
        if seen[key] > 2:
            continue
        _, again = execute(ctx, binary, [b], None, "re", isolate=1)
        if not again or again[0]["kind"] != r_["kind"] or again[0].get("step") != r_.get("step"):
            raise vlib.InfraError("X03: a differing outcome did not reproduce in a child process: %s / %s" % (json.dumps(r_), json.dumps(again)))
        ctx.report(key, what, {"kind": "behaviour", "behaviour": b})
    # the code did what the specification records at a site where (L4) asks for more
    for k, n in kf_sites.items():
        confirmed = sum(1 for i, b in enumerate(behs) if i not in differing and any(k in (s.get("kf") or []) for s in b["steps"]))
        if SITES[k][0] == "finding" and confirmed:
            for _ in range(min(confirmed, 2)):
                ctx.report("X03:" + k, SITES[k][1], {"kind": "known-finding-site", "key": k})
    distinct = {vlib.digest([b["conn"]] + [[s["a"], s["x"]] for s in b["steps"]]) for b in behs if len(b["steps"]) > 1}
    mid = behs[len(behs) // 2]
    cov.update({
        "states": states, "transitions": trans,
        "traces_validated_against_impl": len(behs), "cfg_vectors": len(cfgs),
        "evaluations": len(behs) + len(cfgs), "distinct_nontrivial": len(distinct),
        "rule": "one case = one sequence of API calls on a real packet.Session (over memconn.go's pipe or the harness' connection), every outcome "
                "(value, error, panic, blocked, process crash, notifications drained, frames written) compared with spec/Lifecycle.tla; "
                "distinct = distinct call sequences of length >= 2; plus 1331 deadline configurations on Config.NewSession",
        "samples": [{"conn": mid["conn"], "calls": [{k: v for k, v in s.items() if k != "kf"} for s in mid["steps"]]},
                    {"cfg": cfgs[len(cfgs) // 2]}],
        "sites": {k: {"class": SITES[k][0], "steps": n} for k, n in kf_sites.items()},
        "exhaustive": False,
    })
    ctx.assumptions += [
        "the purge pass is driven through the hook Session.VerifPurge with the clock two hours ahead (the minute goroutine calls the same function with time.Now())",
        "one client besides the router; default deadlines in behaviours (host table semantics proper are C04-C06)",
        "sequential calls on one session (concurrent Close / API calls are the subject of C09)",
        "blocked ReadFrom observed after a grace period of 15 ms and again at the end of the behaviour; expected returns are waited for 10 s",
    ]


def replay(ctx, path):
    obj = xc.load_replay(path)
    binary = vlib.go_build(ctx, "extradrv")
    if obj.get("kind") == "cfg":
        _, again = execute(ctx, binary, None, [obj["vector"]], "re")
    elif obj.get("kind") == "behaviour":
        _, again = execute(ctx, binary, [obj["behaviour"]], None, "re", isolate=1)
    else:
        print("known-finding site: see findings/X03.md")
        return 0
    if again:
        print("VIOLATION property=%s replay=%s" % (ctx.pid, path))
        return 1
    print("not reproduced")
    return 0
