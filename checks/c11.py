"""C11 -- DHCP never leases one address to two clients or hands out a reserved address.
See DESIGN.md section 6 and checks/dhcp_common.py (spec/Dhcp.tla, DhcpMC.tla, DhcpTrace.tla)."""
import dhcp_common

LEVEL = "model_checking"


def run(ctx):
    dhcp_common.run_family(ctx, ["C11"])


def replay(ctx, path):
    return dhcp_common.replay(ctx, path, ["C11"])
