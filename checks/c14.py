"""C14 -- ICMPv6 spoofing is confined to hunted hosts; routers are learned exactly.
See DESIGN.md section 6 and checks/hunt_common.py (spec/Ndp6Hunt.tla, Ndp6HuntMC.tla, Ndp6HuntTrace.tla, Ndp6RaVec.tla)."""
import hunt_common

LEVEL = "model_checking"


def run(ctx):
    hunt_common.run_c14(ctx)


def replay(ctx, path):
    return hunt_common.replay(ctx, hunt_common.NdpFamily(), path)


def replay_ra(ctx, binary, obj, path):
    return hunt_common.replay_ra(ctx, binary, obj, path)
