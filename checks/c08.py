"""C08 -- protocol handlers terminate without panic on arbitrary packets.
DESIGN.md section 6 / C08; spec/Walk.tla; harness/cmd/walkdrv; checks/walk_common.py."""
import collections
import json

import vlib
import walk_common as wc

LEVEL = "exploration"


def key_of(vector, r):
    """Machine-matchable signature of one failed call."""
    if r.get("mut"):
        return "C08:mut:%s:%s@%s" % (r["w"], r["outcome"], r.get("site") or "?")
    kf = wc.dev_of(vector, r["group"], r["outcome"]) if vector else None
    if kf:                                   # the specification attributes it to a named open deviation
        return "C08:%s:%s:%s" % (kf, r["entry"], r["outcome"])
    w, cls = r["w"], r["cls"]
    if w == "?" and vector:                  # the worker process died without a report
        w, cls = vector["w"], vector["cls"]
    return "C08:unpredicted:%s.%s:%s:%s" % (w, cls, r["entry"], r["outcome"])


def run(ctx):
    binary = wc.build(ctx)
    vectors, tlc, kfs = wc.generate(ctx, wc.ALL_WALKERS)
    k, mut = wc.params(ctx)
    summ, results = wc.drive(ctx, binary, vectors, "c08", k, mut)
    cov = ctx.coverage
    cov["tlc"] = tlc
    cov["open_deviations_in_spec"] = kfs
    cov["driver"] = {x: summ[x] for x in ("vectors", "cases", "restarts", "parse_panics", "dns_hook", "wall_s")}
    cov["outcomes"] = summ["outcomes"]
    cov["mechanism_prediction"] = summ["pred"]
    cov["skipped"] = summ["skipped"]
    # group failures by key, confirm each key on a few of its cases before reporting
    failures = collections.OrderedDict()
    stale = collections.Counter()
    for r in results:
        if r["outcome"] in ("panic", "hang", "killed"):
            v = vectors[r["v"]] if 0 <= r["v"] < len(vectors) else None
            failures.setdefault(key_of(v, r), []).append(r)
        elif r["outcome"] == "ret" and r.get("pred") not in (None, "", "ok") and not r.get("mut"):
            stale["%s/%s predicted %s" % (r["w"], r["group"], r["pred"])] += 1
    unrepro = {}
    for key, rs in failures.items():
        confirmed = None
        for r in rs[:3]:
            again = wc.run_one(ctx, binary, vectors[r["v"]], r["c"], k, mut)
            if again.get("outcome") == r["outcome"] or (r["outcome"] == "killed" and again.get("outcome") in ("hang", "killed", "panic")):
                confirmed = (r, again)
                break
        if confirmed is None:
            unrepro[key] = len(rs)
            continue
        r, again = confirmed
        if r.get("mut") and not r.get("site") and again.get("site"):     # the worker could not name the spinning function
            key = key_of(vectors[r["v"]], dict(r, site=again["site"]))
        what = "%s %s on %s input (class %s) at %s: %s" % (r["entry"], "panicked" if r["outcome"] == "panic" else "did not return within the deadline",
                                                         "a mutated " + r["w"] if r.get("mut") else "the " + r["w"], r["cls"], again.get("site") or r.get("site"), (r.get("msg") or "")[:120])
        for _ in rs:
            st = ctx.report(key, what, {"vector": vectors[r["v"]], "c": r["c"], "k": k, "mut": mut, "expect": r["outcome"],
                                        "entry": r["entry"], "input_hex": r.get("hex")})
            if st == "violation":
                break                          # one replay file per key is enough
    if unrepro:
        cov["unreproduced"] = unrepro
    cov["concurrent_stage"] = wc.conc_stage(ctx, binary)
    # drift: predictions of the mechanism model that the code did not follow
    pred_bad = {p: n for p, n in summ["pred"].items() if p.split("/")[2] != p.split("/")[3]}
    cov["drift"] = {"prediction_mismatches": pred_bad, "stale_predictions": dict(stale)}
    distinct = set(vlib.digest([v["w"], v["seq"], v["aux"]]) for v in vectors if v["seq"])
    states = sum(t["distinct"] for t in tlc.values())
    cov.update({
        "evaluations": summ["cases"],
        "distinct_nontrivial": len(distinct),
        "tlc_states": states,
        "vectors": len(vectors),
        "rule": "TLC enumerates every element sequence of each walker of spec/Walk.tla up to the configured length "
                "(closed under truncation and the fault alphabet); each vector is executed as K concrete encodings per "
                "entry point plus M seeded byte mutations in watchdog-guarded worker processes. distinct_nontrivial = "
                "distinct abstract vectors (digest of walker, elements, header parameters) with at least one element",
        "samples": wc.sample_cases(vectors, results),
        "exhaustive": False,
    })
    ctx.assumptions += [
        "views are called behind their IsValid gate, as the library itself does",
        "payload-level inputs are byte strings without spare capacity; frames are delivered in a buffer of the packet loop's size (1514) whose tail is zeroed",
        "a panic inside Session.Parse is property C01's, not C08's (counted in driver.parse_panics)",
        "hang = no return within the per-call deadline (300 ms, confirmed with 2 s on a second execution)",
        "rate limiters of the library are re-armed before every case where a hook exists (STP log line, DISCOVER storm); large STP frames additionally run as the first STP frame of a worker process of their own",
        "concurrent stage: one packet loop goroutine and three readers of the documented goroutine-safe DNS table API, a few seconds per run (schedules are sampled, not enumerated; spec/WalkConc.tla checks the lock protocol)",
        "inputs of a class on which the code is predicted to spin are exercised a bounded number of times per run (coverage.skipped)",
    ]
    if not summ["dns_hook"]:
        ctx.assumptions.append("dns_naming.VerifNew is absent from the tree under test: ProcessDNS/ProcessMDNS/ProcessNBNS/ProcessSSDP were not exercised")


def replay(ctx, path):
    obj = json.load(open(path))
    rp = obj["replay"]
    binary = wc.build(ctx)
    if "conc" in rp:
        import subprocess
        b = wc.build(ctx, race=True) if rp["conc"].get("race") else binary
        for _ in range(3):
            p = subprocess.run([b, "-mode", "conc", "-dur", rp["conc"]["dur"], "-readers", str(rp["conc"]["readers"])],
                               stdout=subprocess.PIPE, stderr=subprocess.PIPE, text=True, errors="replace", timeout=120)
            if "fatal error:" in p.stderr or "WARNING: DATA RACE" in p.stderr:
                print("VIOLATION property=%s replay=%s" % (ctx.pid, path))
                return 1
        print("not reproduced")
        return 0
    again = wc.run_one(ctx, binary, rp["vector"], rp["c"], rp["k"], rp["mut"])
    if again.get("outcome") in ("panic", "hang", "killed"):
        print("VIOLATION property=%s replay=%s" % (ctx.pid, path))
        print("  %s: %s %s %s" % (again.get("entry"), again.get("outcome"), again.get("site"), again.get("msg")))
        return 1
    print("not reproduced: %s" % (again,))
    return 0
