"""X04 -- manufacturer.go FindManufacturer and the pure copy helpers of nic.go   (spec/ExtraVec.tla)

Statement (written by the verification team; the components have no listed property):
 (M1) FindManufacturer(mac) is the vendor name of the line of nmap-mac-prefixes.gz whose 24-bit prefix equals mac[0:3], for
      6-byte addresses only; a prefix listed on several lines has the name of its LAST line; any other address (shorter, longer,
      nil, unknown prefix) gives ""; the argument is not modified; the function never panics;
 (M2) CopyIP / CopyMAC / CopyBytes return the source's bytes (CopyIP widens a 4-byte address to the 16-byte IPv4-mapped form) in
      memory that is not shared with the source.

Pipeline: the check reads the embedded table with an independent parser of the documented line format, hands a seeded sample of
its lines (plus every duplicate-prefix line of the file, plus prefixes that occur nowhere in the file) to TLC; ExtraVec's
reference Lookup / CopyIPRef are enumerated over the vector space (lemmas decided per vector) and every vector is executed on the
real functions by `extradrv vec`."""
import gzip
import json
import os
import random

import extras_common as xc
import vlib

LEVEL = "exploration"


def read_table():
    """Independent reader of the documented format: "000019<TAB>Applied Dynamics"; '#' comments and blank lines are skipped."""
    path = os.path.join(vlib.REPO, "nmap-mac-prefixes.gz")
    try:
        raw = gzip.open(path, "rb").read().decode("utf-8", "replace")
    except OSError as ex:
        raise vlib.InfraError("cannot read %s: %s" % (path, ex))
    out = []
    for i, line in enumerate(raw.split("\n")):
        line = line.rstrip("\r")
        if not line or line.startswith("#") or len(line) < 8:
            continue
        parts = line.split("\t")
        if len(parts) < 2 or len(parts[0]) != 6:
            raise vlib.InfraError("%s line %d: not in the documented format (the loader panics on it): %r" % (path, i + 1, line))
        try:
            p = list(bytes.fromhex(parts[0]))
        except ValueError:
            raise vlib.InfraError("%s line %d: prefix is not hexadecimal: %r" % (path, i + 1, line))
        out.append({"i": i + 1, "p": p, "name": " ".join(parts[1:])})
    return out


def cfg(families):
    return ("SPECIFICATION VSpec\nCONSTANTS\n  TableFile = \"table.ndjson\"\n  AbsentFile = \"absent.ndjson\"\n  Families = {%s}\n"
            "INVARIANTS Lemmas VExport\nCHECK_DEADLOCK FALSE\n" % ", ".join('"%s"' % f for f in families))


def execute(ctx, binary, vectors, names_path, tag):
    vp = os.path.join(ctx.scratch, tag + ".vec")
    rp = os.path.join(ctx.scratch, tag + ".res")
    xc.write_lines(vp, vectors)
    return xc.drive(ctx, binary, ["vec", "-in", vp, "-table", names_path, "-out", rp], timeout=600), xc.read_results(rp)


def run(ctx):
    quick = ctx.quick
    binary = vlib.go_build(ctx, "extradrv")
    rng = random.Random(ctx.seed)
    table = read_table()
    byp = {}
    for e in table:
        byp.setdefault(tuple(e["p"]), []).append(e)
    dups = [p for p, es in byp.items() if len(es) > 1]
    n = 250 if quick else 700
    chosen = set(rng.sample(sorted(byp), min(n, len(byp)))) | set(dups)
    chosen |= {p for p in byp if p in ((0, 0, 0), (255, 255, 255), (0, 0, 1))}
    sample = sorted((e for p in chosen for e in byp[p]), key=lambda e: e["i"])
    absent = []
    for p in sorted(chosen):                 # neighbours of listed prefixes that are on no line of the file
        for q in ((p[0] ^ 1, p[1], p[2]), (p[0], p[1], p[2] ^ 0x80), (p[2], p[1], p[0])):
            if q not in byp and len(absent) < (120 if quick else 400):
                absent.append({"p": list(q)})
    names_path = os.path.join(ctx.scratch, "names.ndjson")
    xc.write_lines(names_path, [{"i": e["i"], "name": e["name"]} for e in table])
    files = {"table.ndjson": "\n".join(json.dumps({"i": e["i"], "p": e["p"]}) for e in sample) + "\n",
             "absent.ndjson": "\n".join(json.dumps(a) for a in absent) + "\n"}
    r = xc.tlc_ok(ctx, "ExtraVec", cfg(["oui", "copy"]), "vectors", timeout=900, files=files, heap="3g")
    vecs = [v for v in r.json if isinstance(v, dict) and "k" in v]
    if len(vecs) != r.distinct:
        raise vlib.InfraError("ExtraVec: %d states but %d vectors" % (r.distinct, len(vecs)))
    st, results = execute(ctx, binary, vecs, names_path, "all")
    seen = {}
    for res in results:
        v = vecs[res["i"]]
        key = "X04:%s:%s" % (v["k"] if v["k"] == "oui" else "Copy" + v["f"], res["aspect"])
        seen[key] = seen.get(key, 0) + 1
        if seen[key] > 2:
            continue
        _, again = execute(ctx, binary, [v], names_path, "re")
        if not again:
            raise vlib.InfraError("X04: failure did not reproduce: %s" % json.dumps(res))
        ctx.report(key, res["what"], {"kind": "vector", "vector": v})
    digests = {vlib.digest({k: v[k] for k in v if k != "exp"}) for v in vecs
               if (v["k"] == "oui" and len(v["mac"]) > 0) or (v["k"] == "copy" and len(v["src"]) > 0)}
    ctx.coverage.update({
        "tlc": {"vectors": r.summary()},
        "evaluations": len(vecs), "distinct_nontrivial": len(digests),
        "rule": "one case = one vector enumerated by TLC from spec/ExtraVec.tla (an address looked up in the vendor table: every sampled "
                "prefix with three suffixes and seven wrong lengths, unknown prefixes; or a byte string copied by CopyIP / CopyMAC / CopyBytes) "
                "executed on the real function; non-trivial = non-empty input, distinct by digest of the input",
        "samples": [vecs[len(vecs) // 3], vecs[-1]],
        "table_lines": len(table), "table_lines_sampled": len(sample), "duplicate_prefixes": len(dups), "absent_prefixes": len(absent),
        "driver": st, "exhaustive": False,
    })
    ctx.assumptions += [
        "the vendor table is read from the repository's nmap-mac-prefixes.gz by an independent parser of the documented line format; TLC sees a seeded sample of its lines (all duplicate-prefix lines included)",
        "prefixes outside the sample are used only when they occur on no line of the file",
    ]


def replay(ctx, path):
    obj = xc.load_replay(path)
    binary = vlib.go_build(ctx, "extradrv")
    names_path = os.path.join(ctx.scratch, "names.ndjson")
    xc.write_lines(names_path, [{"i": e["i"], "name": e["name"]} for e in read_table()])
    _, again = execute(ctx, binary, [obj["vector"]], names_path, "re")
    if again:
        print("VIOLATION property=%s replay=%s" % (ctx.pid, path))
        return 1
    print("not reproduced")
    return 0
