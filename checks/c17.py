"""C17 -- DNS records and names decode as a reference decoder; merges are monotone.
DESIGN.md section 6 / C17; spec/Walk.tla (name, dnsmsg, nbns walkers), spec/Names.tla;
harness/cmd/walkdrv; checks/walk_common.py."""
import collections
import json
import os

import vlib
import walk_common as wc

LEVEL = "exploration"


def key_of(vector, r, x):
    kf = wc.dev_of(vector, r["group"], x["what"])
    if kf:
        return "C17:%s:%s:%s" % (kf, r["entry"], x["what"])
    return "C17:unpredicted:%s.%s:%s:%s:%s" % (r["w"], r["cls"], r["entry"], x["what"], x["against"])


def names_cfg(mode, depth, upd, vals="small"):
    inv = ("TypeOK NoErase ChangeIff Idempotent OnlyNamed ExportPairs" if mode == "pairs"
           else "TypeOK C17_NoErase C17_DirtyIff C17_MacCopy ExportHosts")
    return ("SPECIFICATION Spec\nCONSTANTS\n  Mode = \"%s\"\n  MaxDepth = %d\n  UpdSet = \"%s\"\n  ValSet = \"%s\"\nINVARIANTS %s\nCHECK_DEADLOCK FALSE\n"
            % (mode, depth, upd, vals, inv))


def run_names(ctx, binary):
    cov = {}
    vals = "small" if ctx.quick else "full"          # near-equal variants of a: case, trailing blank, blank only / plus tab, CR LF, dot
    rp = vlib.tlc(ctx, "Names", cfg="np.cfg", files={"np.cfg": names_cfg("pairs", 0, "small", vals)}, workers=4, timeout=900, heap="6g",
                  jprops={"tlc2.tool.queue.IStateQueue": "MemStateQueue"}, keep_out=False)
    if not rp.ok:
        raise vlib.InfraError("TLC Names/pairs: model-level failure (violated=%s error=%s)\n%s" % (rp.violated, rp.error, rp.out[-2000:]))
    pairs = [x for x in rp.json if isinstance(x, dict) and "e" in x]
    depth, upd = (3, "small") if ctx.quick else (3, "full")
    rh = vlib.tlc(ctx, "Names", cfg="nh.cfg", files={"nh.cfg": names_cfg("hosts", depth, upd)}, workers=4, timeout=1500, heap="6g",
                  jprops={"tlc2.tool.queue.IStateQueue": "MemStateQueue"}, keep_out=False)
    if not rh.ok:
        raise vlib.InfraError("TLC Names/hosts: model-level failure (violated=%s error=%s)\n%s" % (rh.violated, rh.error, rh.out[-2000:]))
    hists = [x for x in rh.json if isinstance(x, list)]
    if len(pairs) != (164025 if ctx.quick else 531441) or not hists:
        raise vlib.InfraError("Names export incomplete: %d pairs, %d histories" % (len(pairs), len(hists)))
    pp, hp, op = [os.path.join(ctx.scratch, n) for n in ("pairs.ndjson", "hosts.ndjson", "names_out.ndjson")]
    vlib.write_ndjson(pp, pairs)
    with open(hp, "w") as f:
        for h in hists:
            f.write(json.dumps(h, separators=(",", ":")) + "\n")
    p = vlib.run_driver(ctx, binary, ["-mode", "names", "-pairs", pp, "-hosts", hp, "-out", op], timeout=900)
    summ = json.loads(p.stdout.strip().splitlines()[-1])
    findings = vlib.read_ndjson(op)
    cov["tlc"] = {"pairs": rp.summary(), "hosts_depth%d_%s" % (depth, upd): rh.summary()}
    cov["driver"] = summ
    cov["sample_history"] = hists[len(hists) // 2]
    return cov, findings, len(pairs), len(hists), rp.distinct + rh.distinct


def run(ctx):
    binary = wc.build(ctx)
    vectors, tlc, kfs = wc.generate(ctx, wc.C17_WALKERS)
    k, _ = wc.params(ctx)
    summ, results = wc.drive(ctx, binary, vectors, "c17", k, 0)
    cov = ctx.coverage
    cov["tlc"] = tlc
    cov["open_deviations_in_spec"] = kfs
    cov["driver"] = {x: summ[x] for x in ("vectors", "cases", "restarts", "dns_hook", "wall_s", "strict_mismatches")}
    cov["compared_cases"] = summ["compared"]
    cov["skipped"] = summ["skipped"]
    groups = collections.OrderedDict()
    for r in results:
        if r["outcome"] != "ret":
            # "rejected with an error" / "decode as a reference decoder": a call that panics or never returns does
            # neither (the same failure is also reported by C08)
            if r["outcome"] in ("panic", "hang", "killed") and not r.get("mut"):
                x = {"what": r["outcome"], "against": "spec", "want": "a result", "got": "%s at %s %s" % (r["outcome"], r.get("site"), r.get("msg") or ""), "strict": True}
                groups.setdefault(key_of(vectors[r["v"]], r, x), []).append((r, x))
            continue
        for x in r.get("cmp", []):
            groups.setdefault(key_of(vectors[r["v"]], r, x), []).append((r, x))
    unrepro = {}
    for key, rs in groups.items():
        confirmed = None
        for r, x in rs[:3]:
            again = wc.run_one(ctx, binary, vectors[r["v"]], r["c"], k, 0)
            if again.get("outcome") == x["what"] or \
               any(y["what"] == x["what"] and y["against"] == x["against"] and y["strict"] for y in again.get("cmp", [])):
                confirmed = (r, x)
                break
        if confirmed is None:
            unrepro[key] = len(rs)
            continue
        r, x = confirmed
        what = "%s on a %s input (reference class %s): %s differs from %s: want [%s] got [%s]" % (
            r["entry"], r["w"], r["cls"], x["what"], x["against"], x["want"][:150], x["got"][:150])
        for _ in rs:
            if ctx.report(key, what, {"vector": vectors[r["v"]], "c": r["c"], "k": k, "mut": 0, "expect": x["what"], "against": x["against"],
                                      "entry": r["entry"], "input_hex": r.get("hex")}) == "violation":
                break
    if unrepro:
        cov["unreproduced"] = unrepro
    # merge algebra
    ncov, nfind, npairs, nhist, nstates = run_names(ctx, binary)
    cov["names"] = ncov
    mech = 0
    for f in nfind:
        if f["level"] == "infra":
            raise vlib.InfraError("names driver could not set up a host: %s" % f)
        if f["level"] == "property":
            ctx.report("C17:merge:%s:%s" % (f["kind"], f["lemma"]),
                       "NameEntry merge contradicts the statement (%s) on %s" % (f["lemma"], json.dumps(f["case"])[:300]),
                       {"names": f})
        else:
            mech += 1
    cov["drift"] = {"decode": summ["drift"], "merge_mechanism_differences": mech}
    distinct = set(vlib.digest([v["w"], v["seq"], v["aux"]]) for v in vectors if v["seq"])
    cov.update({
        "evaluations": summ["cases"] + npairs + nhist,
        "distinct_nontrivial": len(distinct) + npairs + nhist,
        "tlc_states": sum(t["distinct"] for t in tlc.values()) + nstates,
        "vectors": len(vectors),
        "rule": "decode: TLC enumerates DNS names (labels, pointers back/self/forward/out of range, reserved prefixes, truncation, "
                "length limits), DNS messages (question count, records by section/type/owner compression/RDLENGTH relation/cut, "
                "count corruption) and NBNS node status arrays of spec/Walk.tla with the reference verdict and value; each vector "
                "is K concrete encodings by the harness encoder and, when well-formed, a second encoding by the x/net dnsmessage "
                "Builder with compression; results compared with the reference value and with dnsmessage's parse of the same "
                "bytes. merge: all pairs of entries over {\"\", a, b} with at most one near-equal variant of a per entry (other case, trailing blank, blank only: 164025 pairs; thorough adds tab, CR LF, dot: 531441) and all update/notify histories of length 3 of spec/Names.tla on real "
                "NameEntry/Host objects. distinct_nontrivial = distinct non-empty vectors + pairs + histories",
        "samples": wc.sample_cases(vectors, [r for r in results if r.get("cmp")]),
        "exhaustive": False,
    })
    ctx.assumptions += [
        "Type and Expire of a NameEntry are metadata, not attributes of the merge algebra",
        "stored PTR records are those with an IPv4 in-addr.arpa owner; other PTR owners are to be ignored, not to fail the message",
        "forward compression pointers into valid data and names longer than 255 octets are not decided by the statement (drift only)",
        "an NBNS node status response yields the first unique (non-group) name of the array; a short array yields no name",
        "the scratch buffer handed to DecodeQuestion/DecodeAnswers is reused: the question name is copied before DecodeAnswers, as ProcessDNS does",
    ]
    if not summ["dns_hook"]:
        ctx.assumptions.append("dns_naming.VerifNew is absent from the tree under test: only the payload-level decoders (DecodeQuestion, DecodeAnswers) and the merge algebra were compared")


def replay(ctx, path):
    obj = json.load(open(path))
    rp = obj["replay"]
    binary = wc.build(ctx)
    if "names" in rp:
        f = rp["names"]
        pp, hp, op = [os.path.join(ctx.scratch, n) for n in ("p.ndjson", "h.ndjson", "o.ndjson")]
        args = ["-mode", "names", "-out", op]
        if f["kind"] == "pair":
            vlib.write_ndjson(pp, [f["case"]])
            args += ["-pairs", pp]
        else:
            open(hp, "w").write(json.dumps(f["case"]) + "\n")
            args += ["-hosts", hp]
        vlib.run_driver(ctx, binary, args, timeout=120)
        if any(x["level"] == "property" for x in vlib.read_ndjson(op)):
            print("VIOLATION property=%s replay=%s" % (ctx.pid, path))
            return 1
        print("not reproduced")
        return 0
    again = wc.run_one(ctx, binary, rp["vector"], rp["c"], rp["k"], rp["mut"])
    if again.get("outcome") == rp["expect"]:
        print("VIOLATION property=%s replay=%s" % (ctx.pid, path))
        print("  %s: %s at %s" % (again.get("entry"), again.get("outcome"), again.get("site")))
        return 1
    for y in again.get("cmp", []):
        if y["what"] == rp["expect"] and y["strict"]:
            print("VIOLATION property=%s replay=%s" % (ctx.pid, path))
            print("  %s: %s want [%s] got [%s]" % (again.get("entry"), y["what"], y["want"], y["got"]))
            return 1
    print("not reproduced: %s" % (again,))
    return 0
