"""X08 -- handlers/dhcp4_spoofer: operating modes and the traffic aimed at the LAN's other DHCP server
(spec/DhcpModes.tla, DhcpModesMC.tla)

Statement (written by the verification team from the package documentation and the comments of the code; the component has
no listed property -- C11 / C12 / C18 decide which address a reply carries, this check decides who is answered, who is attacked
and with what):
 (M1) ModePrimaryServer ("the single DHCP on the LAN") never sends anything to another DHCP server: no forged DECLINE / RELEASE,
      no DISCOVER storm;
 (M2) ModeSecondaryServer ("will attack the primary") and ModeSecondaryServerNice ("will attack captured entries only") attack
      exactly where Attack(mode, client) = secondary \/ (nice /\ client captured) holds: an OFFER of another server for the client
      is answered with a forged DECLINE in the client's name (chaddr and client identifier of the client, server identifier and
      transaction of that OFFER, the offered address as requested address, ciaddr zero); a REQUEST that selects another server is
      NAKed (silently discarded otherwise) and frees our lease unless an offer of ours is outstanding; an INIT-REBOOT REQUEST for an
      address we do not hold is NAKed in every mode and, under Attack, a DECLINE for it is forged toward the gateway; StartHunt of
      a client that holds a lease of the home subnet forges a RELEASE for it (secondary and nice; nothing in primary);
 (M3) messages of servers seen on the client port never change the lease table and are never answered; only OFFERs of ANOTHER
      server for a REAL client trigger anything (ACK / NAK, our own replies, answers to our own storm are ignored);
 (M4) every forged message is a well-formed client-to-server message (BOOTP request, port 68 -> 67, from our NIC) that names another
      server, never ours, and is put on the wire so that the server it names receives it;
 (M5) every client is answered in every mode: a DISCOVER gets an OFFER from the subnet of the client's capture state;
 (M6) the DISCOVER storm (256 invented clients ff:ee:dd:cc:bb:xx) is rate limited: once per 20 s whatever the number of handlers;
 (M7) SetMode takes effect with the next message; SetMode / Capture / Release / MinuteTicker / StopHunt / Close write nothing;
      MinuteTicker frees every lease that is past its expiry (an outstanding offer that was never acknowledged has none);
      Close is idempotent.
Where the code gives something else than the documentation the specification records the code and marks the site (Kf*): the
check reports a known finding when the real code behaves as recorded and DRIFT when it behaves as documented.

Pipeline: TLC explores DhcpModesMC (2 clients, 3 initial modes, the router and a second server that is not the gateway) over the
full alphabet and, deeper, over the core alphabet; the documented step predicates are an action property decided on every
generated transition; one behaviour per distinct (action, outputs, successor) is exported and executed by `extradrv3 modes` on
a real Handler + Session over a recording connection (frames decoded by the independent decoder of harness/vh, lease table read
through the existing hook VerifLeases, limiter re-armed through VerifResetStorm); after every step the decoded frames, the lease
table, Mode() and the capture flags are compared with the specification's."""
import json
import os
import random

import extras3_common as xc
import vlib

LEVEL = "model_checking"

SITES = {
    "KF_StormIgnoresMode": ("finding",
                            "handleDiscover starts the DISCOVER storm against the gateway in EVERY mode (discover.go:51-58 'if true { // Always attack'): "
                            "ModePrimaryServer ('the single DHCP on the LAN') and ModeSecondaryServerNice for a client that is not captured "
                            "('will attack captured entries only') send 256 forged DISCOVERs too"),
    "KF_ForgedMissesServer": ("finding",
                              "a DECLINE forged in answer to the OFFER of a DHCP server that is not the default gateway names that server but is "
                              "unicast to the MAC / IP of the gateway (client.go:109-111 sendDeclineReleasePacket): the server that made the offer "
                              "never sees it (declinerelease.go documents DECLINE as a broadcast)"),
    "Obs_NakAsRouter": ("observed", "INIT-REBOOT on a free lease under attack is NAKed with the gateway's address as server identifier (request.go:196)"),
    "Obs_ReleaseKeepsLease": ("observed", "handleRelease logs and returns: a RELEASE sent to us keeps the lease allocated (spec/Dhcp.tla records the same)"),
    "Obs_ClosedStillServes": ("observed", "Close only sets a flag: a closed handler keeps answering and attacking"),
}

CLIENTS = '{"c1", "c2"}'
STEP_PREDICATES = ["P_PrimaryNeverForges", "P_PrimaryNeverStorms", "P_NiceForgesCapturedOnly", "P_NiceStormsCapturedOnly",
                   "P_OfferOfOtherDeclined", "P_ServerTrafficReadOnly", "P_OnlyOffersTrigger", "P_ForgedForm", "P_ForgedReachesServer",
                   "P_ForgeryHasCause", "P_DiscoverAnswered", "P_SelectOther", "P_Replies", "P_StormLimited", "P_ModeStable"]


def mc_cfg(alphabet, depth, every, others=("router", "srv2"), leaf=False, view=True):
    return ("SPECIFICATION MCSpec\nCONSTANTS\n  Clients = %s\n  Others = {%s}\n  MaxDepth = %d\n  ExportEvery = %d\n  Alphabet = \"%s\"\n"
            "INVARIANTS StateOK %s\nPROPERTIES StepOK\n%sCHECK_DEADLOCK FALSE\n" %
            (CLIENTS, ", ".join('"%s"' % o for o in others), depth, every, alphabet, "ExportLeaf" if leaf else "Export",
             "VIEW ViewLast\n" if view else ""))


def behaviours_of(r):
    return [v for v in r.json if isinstance(v, dict) and "steps" in v and v["steps"]]


def execute(ctx, binary, behs, tag, slow=False, shards=3, timeout=170):
    """Run the behaviours on the real handler in `shards` driver processes; returns (merged summary, differences with the
    index of the behaviour in `behs`)."""
    if not behs:
        return {"behaviours": 0, "steps": 0, "differ": 0, "sites": {}, "site_examples": {}}, []
    # at most 8 000 behaviours per driver process (each stays far below three minutes); `shards` of them run side by side
    jobs = shards
    shards = max(1, min(max(shards, -(-len(behs) // 8000)), len(behs)))
    parts = [list(range(k, len(behs), shards)) for k in range(shards)]
    arglists, outs = [], []
    for k, idx in enumerate(parts):
        d = os.path.join(ctx.scratch, "%s-%d" % (tag, k))
        os.makedirs(d, exist_ok=True)
        bp, rp = os.path.join(d, "beh.ndjson"), os.path.join(d, "res.ndjson")
        xc.write_lines(bp, [behs[i] for i in idx])
        args = ["modes", "-in", bp, "-out", rp, "-dir", d, "-cfg", 3 if (k + ctx.seed) % 2 == 0 else 4]
        if slow:
            args.append("-slow")
        arglists.append(args)
        outs.append(rp)
    sums = xc.drive_parallel(ctx, binary, arglists, timeout=timeout, jobs=jobs)
    merged = {"behaviours": 0, "steps": 0, "differ": 0, "skipped": 0, "frames": 0, "storm_frames": 0, "forged_frames": 0,
              "non_dhcp_frames": 0, "sites": {}, "site_examples": {}, "nets": sorted({s["net"] for s in sums})}
    diffs = []
    for k, s in enumerate(sums):
        for f in ("behaviours", "steps", "differ", "skipped", "frames", "storm_frames", "forged_frames", "non_dhcp_frames"):
            merged[f] += s.get(f, 0)
        for site, n in s.get("sites", {}).items():
            merged["sites"][site] = merged["sites"].get(site, 0) + n
        for site, (i, st) in s.get("site_examples", {}).items():
            merged["site_examples"].setdefault(site, [parts[k][i], st])
        merged["drift_forged_to"] = merged.get("drift_forged_to", 0) + s.get("drift_forged_to", 0)
        for m in xc.read_results(outs[k]):
            m["i"] = parts[k][m["i"]]
            if m["aspect"].startswith("drift-"):
                merged.setdefault("drift_examples", []).append({"behaviour": m["i"], "step": m["step"], "what": m["what"], "got": m.get("got")})
                continue
            diffs.append(m)
    return merged, diffs


def documented_alternative(m):
    """A difference at a Kf site in the direction of the documentation is DRIFT (the code was repaired), not a violation."""
    kf = m.get("kf") or []
    if m["aspect"] == "storm" and "KF_StormIgnoresMode" in kf and m.get("exp") is True and m.get("got") is False:
        return "KF_StormIgnoresMode"
    # the statement (P_ForgedReachesServer) allows a forged frame to be broadcast or sent to the server it names; the
    # specification records the gateway as the destination of every forged frame: a frame that differs in nothing else is DRIFT
    if m["aspect"] == "forged" and isinstance(m.get("got"), list) and isinstance(m.get("exp"), list) and len(m["got"]) == len(m["exp"]):
        def norm(f):
            g = dict(f)
            g["to"] = "*"
            return json.dumps(g, sort_keys=True)
        if sorted(norm(f) for f in m["got"]) == sorted(norm(f) for f in m["exp"]) and \
                all(f.get("to") in ("bcast", f.get("sid")) for f in m["got"]):
            return "KF_ForgedMissesServer"
    return None


def key_of(m):
    return "X08:%s:%s" % ((m.get("act") or {}).get("a", "new"), m["aspect"])


def judge(ctx, binary, behs, diffs, stats):
    """Every difference is re-executed (slow mode: 4 ms after every step, so that frames written by goroutines are attributed
    to the step that caused them) up to three times; only what reproduces is a verdict."""
    by_b = {}
    for m in diffs:
        by_b.setdefault(m["i"], []).append(m)
    reported = {}
    for i in sorted(by_b)[:60]:
        b = behs[i]
        again = []
        for attempt in range(3):
            _, again = execute(ctx, binary, [b], "re%d" % attempt, slow=True, shards=1)
            if again:
                break
        if not again:
            stats["unreproduced"].append({"behaviour": i, "first": {k: by_b[i][0].get(k) for k in ("step", "aspect", "what")}})
            vlib.log("  X08: a difference did not reproduce in three slow re-executions (logged, no verdict): %s" % json.dumps(by_b[i][0])[:400])
            continue
        for m in again:
            site = documented_alternative(m)
            if site:
                stats["drift"].append({"site": site, "behaviour": i, "step": m["step"]})
                continue
            key = key_of(m)
            reported[key] = reported.get(key, 0) + 1
            if reported[key] > 2:
                continue
            what = "%s (mode %s, step %d: %s; specification %s, real code %s)" % (
                m["what"], m.get("mode"), m["step"], json.dumps(m.get("act"), sort_keys=True),
                json.dumps(m.get("exp"), sort_keys=True)[:300], json.dumps(m.get("got"), sort_keys=True)[:300])
            ctx.report(key, what, {"kind": "behaviour", "behaviour": b})


def report_sites(ctx, behs, summary):
    for site, n in sorted(summary.get("sites", {}).items()):
        kind, text = SITES.get(site, ("finding", site))
        if kind != "finding" or n == 0:
            continue
        i, st = summary["site_examples"][site]
        b = {"init": behs[i]["init"], "steps": behs[i]["steps"][:st + 1]}
        ctx.report("X08:" + site, text, {"kind": "site", "site": site, "behaviour": b})


def run(ctx):
    quick = ctx.quick
    rng = random.Random(ctx.seed)
    binary = vlib.go_build(ctx, "extradrv3")
    stats = {"unreproduced": [], "drift": []}
    tlcs, behs = {}, []
    plan = ([("full", 4, 5, 400), ("core", 6, 10, 400)] if quick else
            [("full", 6, 5, 1500), ("core", 8, 3, 900)])
    for alphabet, depth, every, to in plan:
        r = xc.tlc_ok(ctx, "DhcpModesMC", mc_cfg(alphabet, depth, every), "%s alphabet, depth %d" % (alphabet, depth), timeout=to, heap="4g")
        tlcs["%s-d%d" % (alphabet, depth)] = r.summary()
        behs += behaviours_of(r)
    # deeper random walks of the same model (TLC -simulate), exported at their last state
    nwalk, dwalk = (300, 12) if quick else (2500, 16)
    r = xc.tlc_sim(ctx, "DhcpModesMC", mc_cfg("full", dwalk, 1, leaf=True, view=False), "walks", nwalk, dwalk + 1, timeout=120 if quick else 300)
    walks = behaviours_of(r)
    if len(walks) > nwalk:
        walks = rng.sample(walks, nwalk)
    tlcs["walks-d%d" % dwalk] = {"walks": len(walks), "generated": r.generated, "wall_s": round(r.wall, 2)}
    if not behs or not walks:
        raise vlib.InfraError("X08: TLC exported no behaviours")
    cap = 8000 if quick else 90000
    if len(behs) > cap:
        behs = rng.sample(behs, cap)
    behs += walks
    summary, diffs = execute(ctx, binary, behs, "run", shards=3 if quick else 4, timeout=175)
    if summary["skipped"]:
        vlib.log("  X08: %d behaviours skipped after %d differing ones" % (summary["skipped"], summary["differ"]))
    judge(ctx, binary, behs, diffs, stats)
    report_sites(ctx, behs, summary)
    states = sum(v.get("distinct", 0) for v in tlcs.values())
    trans = sum(v.get("generated", 0) for v in tlcs.values())
    ctx.coverage.update({
        "tlc": tlcs, "states": states, "transitions": trans,
        "step_predicates_decided_on_every_transition": STEP_PREDICATES,
        "traces_validated_against_impl": summary["behaviours"], "steps_executed": summary["steps"],
        "driver": {k: v for k, v in summary.items() if k not in ("site_examples", "drift_examples")},
        "sites_confirmed_on_real_code": summary.get("sites", {}),
        "site_kinds": {k: v[0] for k, v in SITES.items()},
        "differences": len(diffs), "drift": (stats["drift"] + summary.get("drift_examples", []))[:20],
        "drift_count": len(stats["drift"]) + summary.get("drift_forged_to", 0),
        "unreproduced": stats["unreproduced"][:20], "unreproduced_count": len(stats["unreproduced"]),
        "samples": [behs[len(behs) // 3], walks[0]],
        "exhaustive": False,
    })
    ctx.assumptions += [
        "addresses are abstract in the specification (a lease holds an address or not; a message carries the matching address or another one); "
        "which address is offered is the subject of C11 / C12",
        "frames are decoded by the independent decoder harness/vh/dhcp_decode.go; the lease table is read through the hook VerifLeases; "
        "20 s of quiet are replaced by the hook VerifResetStorm",
        "forged frames are written by goroutines: the driver waits for the expected number of frames and a grace period; a difference is a "
        "verdict only if it reproduces with 4 ms of grace after every step",
        "servers that answer a client echo its client identifier (RFC 6842)",
    ]


def replay(ctx, path):
    obj = xc.load_replay(path)
    binary = vlib.go_build(ctx, "extradrv3")
    b = obj["behaviour"]
    for attempt in range(3):
        summary, again = execute(ctx, binary, [b], "rp%d" % attempt, slow=True, shards=1)
        if obj.get("kind") == "site":
            if summary.get("sites", {}).get(obj["site"], 0) > 0:
                print("VIOLATION property=%s replay=%s" % (ctx.pid, path))
                return 1
        elif [m for m in again if not documented_alternative(m)]:
            print("VIOLATION property=%s replay=%s" % (ctx.pid, path))
            return 1
    print("not reproduced")
    return 0
