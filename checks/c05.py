"""C05 -- see DESIGN.md section 6 and checks/hosts_common.py (spec/Hosts.tla, HostsMC.tla, HostsTrace.tla).

Thorough tier additionally discharges an inductive invariant of the table structure with Apalache
(spec/HostsInd.tla: Init => IndInv and IndInv /\ Next => IndInv'), i.e. the C05 structural invariant
holds in the abstract model after histories of ANY length, not only up to TLC's depth bound."""
import os
import re
import shutil
import subprocess
import time

import hosts_common
import vlib

LEVEL = "model_checking"


def apalache_inductive(ctx):
    d = os.path.join(ctx.scratch, "apalache")
    os.makedirs(d, exist_ok=True)
    shutil.copy(os.path.join(vlib.SPEC, "HostsInd.tla"), d)
    out = {}
    for name, args in (("init_implies_inv", ["--init=Init", "--length=0"]), ("inv_is_inductive", ["--init=IndInit", "--length=1"])):
        t0 = time.time()
        try:
            p = subprocess.run(["apalache-mc", "check", "--cinit=CInit", "--inv=IndInv"] + args + ["HostsInd.tla"],
                               cwd=d, stdout=subprocess.PIPE, stderr=subprocess.STDOUT, text=True, timeout=2400)
        except (subprocess.TimeoutExpired, OSError) as ex:
            out[name] = {"result": "not completed: %s" % type(ex).__name__, "wall_s": round(time.time() - t0, 1)}
            continue
        m = re.search(r"The outcome is: (\w+)", p.stdout)
        res = m.group(1) if m else "unknown"
        out[name] = {"result": res, "wall_s": round(time.time() - t0, 1)}
        if res == "Error":
            raise vlib.InfraError("Apalache: IndInv of spec/HostsInd.tla is not inductive (model-level failure, %s)\n%s" % (name, p.stdout[-2000:]))
    return out


def run(ctx):
    hosts_common.run_family(ctx, ["C05"], ["free", "notify"], shared=True)
    if not ctx.quick:
        ctx.coverage["apalache_inductive_invariant"] = apalache_inductive(ctx)
        ctx.assumptions.append("spec/HostsInd.tla abstracts MAC host lists to sets and ageing to an arbitrary choice of hosts; "
                               "its inductive invariant is about the model, the binding to the code is the trace validation")


def replay(ctx, path):
    return hosts_common.replay(ctx, path, ["C05"])
