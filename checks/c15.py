"""C15 -- Internet checksums are computed correctly.  DESIGN.md section 6 / C15, direction C.

 model side : spec/Cksum.tla is RFC 1071 as an executable TLA+ definition (Words, OnesSum as a fold of the
              end-around-carry addition, Cksum, Stored bytes) next to a transcription of the library's algorithm
              (little-endian accumulation, odd tail, two folds).  spec/CksumVec.tla makes TLC enumerate the vector
              space (every string of length 0..2, pattern families for 3..1522 bytes, the IPv4 headers and ICMP echo
              messages the send functions must produce), check on every vector MechConforms / SplitIndependent /
              VerifyZero, and once CarryFold / TwoFolds, and print [kind, bytes, Stored(bytes)].
 code side  : harness/cmd/cksumdrv.  (1) its Go transcription of the TLA+ definition and vh.Cksum must agree with
              every TLC vector (oracle validation); (2) packet.Checksum, IP4.CalculateChecksum, ICMP.SetChecksum,
              EncodeIP4+SetPayload/AppendPayload and the echo send functions are compared with TLC's bytes;
              (3) the validated transcription judges every string of length 3, word perturbations and random strings
              of every length 0..1522; (4) frames emitted by the NDP send functions must verify to zero, echo requests sent
              directly after another transmission (pair6 vectors: pooled transmit buffers) must carry TLC's bytes, headers
              completed concurrently on separate buffers and echo requests sent concurrently must each verify.
              A failing send is replayed together with the history of earlier sends of the process.
              (5) directed search: the validated transcription solves a free 16-bit word (prefix word of a router
              advertisement with 1..44 prefixes, echo id) so that the total pseudo-header sum takes every critical value of
              Cksum.tla FoldClasses (tiny sums, negative zero, byte swaps) at ICMPv6 lengths 80..1496; full 65536-value
              sweeps of a 5-prefix RA (and, through the hook of hooks/cksumlog_icmp_send.patch when /repo carries it, of
              a 200 byte echo request; crit6 vectors of TLC are sent through the same hook).
"""
import os

import cksumlog_common as cl
import vlib

LEVEL = "exploration"


def wide_acc():
    """The mechanism model follows the recorded state of the code: KF_AccumulatorWrap fixed -> 64 bit accumulator."""
    for k in vlib.load_known():
        if k.get("property") == "C15" and "KF_AccumulatorWrap" in k.get("key", "") and k.get("status") == "fixed":
            return True
    return False


def run(ctx):
    binary = vlib.go_build(ctx, "cksumdrv")
    cfg = "CksumVec_quick.cfg" if ctx.quick else "CksumVec_thorough.cfg"
    vec = os.path.join(ctx.scratch, "cksum.ndjson")
    text = open(os.path.join(vlib.SPEC, cfg)).read()
    if wide_acc():
        text = text.replace("WideAcc = FALSE", "WideAcc = TRUE")
    ctx.coverage["mechanism_wide_accumulator"] = wide_acc()
    r, n = cl.tlc_vectors(ctx, "CksumVec", "vec.cfg", vec, timeout=900 if ctx.quick else 2400, heap="6g", files={"vec.cfg": text})
    if n == 0 or n != r.distinct:
        raise vlib.InfraError("TLC printed %d vectors for %d states" % (n, r.distinct))
    s = cl.drive(ctx, binary, ["-vectors", vec], timeout=900)
    if s.get("oracle_mismatch"):
        raise vlib.InfraError("the harness transcription disagrees with the TLA+ definition (oracle invalid): %s" % s["oracle_mismatch"][:3])
    if s["vectors"] != n:
        raise vlib.InfraError("driver consumed %d of %d vectors" % (s["vectors"], n))
    for dom in ("vectors_by_folds_needed_be", "vectors_by_folds_needed_le"):
        for k in ("0", "1", "2"):
            if s[dom].get(k, 0) < 20:
                raise vlib.InfraError("fold class %s of %s has only %d vectors" % (k, dom, s[dom].get(k, 0)))
    seen = cl.report_failures(ctx, binary, s)
    evaluations = (s["lib_checks"] + s["sweep_len3"] + s["perturbations"] + s["random_strings"] + s["split_checks"] +
                   s["frames_verified"] + s["hdr_field_sweep"] + s["echo_payload_sweep"] + s["concurrent_headers"] +
                   s["concurrent_frames"] + s["directed_sends"] + s["long_inputs"] + s["long_split_checks"] + 2 * s["wide_fold_solved_inputs"])
    cov = ctx.coverage
    cov.update({
        "tlc": {cfg: r.summary()},
        "tlc_vectors": n,
        "tlc_lemmas_per_vector": ["MechConforms", "SplitIndependent", "VerifyZero"],
        "tlc_lemmas_once": ["CarryFold(800)", "TwoFolds (65536 high halves x boundary low halves)"],
        "vectors_by_kind": s["by_kind"],
        "oracle_validated_on_vectors": n,
        "library_checks_against_tlc": s["lib_checks"],
        "library_checks_by_operation": s["lib_by_op"],
        "len3_strings_checked": s["sweep_len3"],
        "len3_exhaustive": s["sweep_len3_exhaustive"],
        "word_perturbations": s["perturbations"],
        "random_strings": s["random_strings"],
        "random_lengths_covered": s["random_lengths"],
        "split_independence_checks": s["split_checks"],
        "ipv4_header_field_sweep": s["hdr_field_sweep"],
        "icmp_echo_payload_sweep": s["echo_payload_sweep"],
        "vectors_by_folds_needed_be": s["vectors_by_folds_needed_be"],
        "vectors_by_folds_needed_le": s["vectors_by_folds_needed_le"],
        "hook_icmp_send_present": s["hook_icmp_send_present"],
        "crit6_vectors_sent_through_hook": s["crit6_sent_through_hook"],
        "directed_sends": s["directed_sends"],
        "directed_critical_totals_reached": s["directed_targets_reached"],
        "directed_by_icmp6_length": s["directed_by_icmp6_length"],
        "full_16bit_sweeps": s["full_16bit_sweeps"],
        "wide_fold_solved_inputs": s["wide_fold_solved_inputs"],
        "long_tlc_vectors": s["long_tlc_vectors"],
        "long_inputs_65534_and_more_bytes": s["long_inputs"],
        "long_inputs_with_accumulator_overflow": s["long_inputs_with_accumulator_overflow"],
        "long_split_checks": s["long_split_checks"],
        "headers_completed_concurrently": s["concurrent_headers"],
        "frames_sent_concurrently": s["concurrent_frames"],
        "emitted_frames_verified": s["frames_verified"],
        "emitted_frames_by_function": s["frames_by_fn"],
        "send_refused": s.get("send_refused", {}),
        "sends_failed_after_injected_write_error": s.get("sends_failed_after_injected_write_error", {}),
        "sends_succeeded_after_injected_write_error": s.get("sends_succeeded_after_injected_write_error", {}),
        "frames_transmitted_after_injected_write_error": s.get("frames_transmitted_after_injected_write_error", 0),
        "evaluations": evaluations,
        "distinct_nontrivial": s["distinct_inputs"],
        "rule": "one evaluation = one execution of library code (Checksum / CalculateChecksum / SetChecksum / SetPayload / "
                "AppendPayload / a send function) compared with the bytes TLC computed from spec/Cksum.tla or with the "
                "transcription validated against all TLC vectors; distinct_nontrivial = distinct byte strings and emitted "
                "frames (64-bit digest) with at least one complete 16-bit word among TLC vectors, perturbation carriers, "
                "random strings and frames (the 2^24 length-3 strings are not counted here)",
        "samples": s.get("samples", [])[:6],
        "drift": s.get("drift") or [],
        "failures_by_key": seen,
        "exhaustive": False,
    })
    ctx.assumptions += [
        "TLC evaluates spec/Cksum.tla faithfully; the Go transcription is trusted only after it reproduced every TLC vector",
        "inputs longer than a datagram are covered by the long family (up to 200 001 bytes in TLC, up to 1 MiB in the driver); "
        "the uint32 accumulator of the library as written is modelled in two 16-bit halves (Cksum.tla Acc32)",
        "frames are observed at the recording connection (vh.RecConn): what the session hands to net.PacketConn.WriteTo",
    ]


def replay(ctx, path):
    return cl.replay(ctx, path, "cksumdrv")
