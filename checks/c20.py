"""C20 -- Log formatting is faithful and stays within its buffer.  DESIGN.md section 6 / C20, directions C + A.

 model side : spec/LogLine.tla part 1 = the renderers as TLA+ functions (RFC 5952, dotted decimal, MAC, decimal,
              fixed width hex, booleans) next to a transcription of appendIP6; spec/LogLineVec.tla enumerates the value
              space (all 256 IPv6 zero layouts x digit classes, all byte values, boundary integers), checks that the
              transcribed appendIP6 deviates from RFC 5952 exactly on zero runs of two groups and that the repaired loop
              bound equals RFC 5952, and prints [type, value, expected text, mechanism text, named deviation].
              spec/LogLine.tla part 2 + spec/LogLineMC.tla = the 2048 byte line as a state machine: every appender at
              the level of its buffer operations, TLC explores Start ; Pad(distance from the end) ; appenders with
              every argument size class and checks C20_InBuffer / C20_Concat (modulo the named deviations) and
              C20_Strict for the repaired constants; every complete behaviour is printed.
 code side  : harness/cmd/logdrv builds real fastlog.Line values through a Logger: (A) every vector on the real
              appender, ToString() and Write(); specification text == standard library text (oracle agreement);
              (B) sweeps against the standard library; (C) every TLC behaviour replayed with the cursor read after every
              step; (D) String()/FastLog of valid views and table entries under recover; (E) lines built concurrently by
              several goroutines compared with their reference text (with failing Write() calls in between);
              (F) spec/LogLinePool.tla: 3-4 lines alive at once built in every interleaving, finished by ToString / Write /
              Write with a failing writer; each must be the concatenation of its own fields.
"""
import os

import cksumlog_common as cl
import vlib

LEVEL = "exploration"

# The mechanism-level constants follow the recorded state of the code: a named deviation whose known-findings entry
# is `open` is modelled as written, one recorded as `fixed` is modelled with the repaired constant.
DEVIATIONS = {
    "KF_IP6RunOfTwo": ("CodeMinRun", "3", "2"),
    "KF_IPArrayGuardTooSmall": ("Guard", "30", "41"),
    "KF_IPArrayReturnsAfterIP4": ("Ret4", "TRUE", "FALSE"),
    "KF_ByteArrayNoRoomForMarker": ("BAFix", "FALSE", "TRUE"),
}


def mechanism_constants():
    status = {}
    for k in vlib.load_known():
        if k.get("property") == "C20":
            for name in DEVIATIONS:
                if name in k.get("key", ""):
                    status[name] = k.get("status")
    return {const: (fixed if status.get(name) == "fixed" else written)
            for name, (const, written, fixed) in DEVIATIONS.items()}


def cfg_text(name, consts, strict=False):
    """A cfg of spec/ with the mechanism constants substituted (and C20_Strict added to its invariants)."""
    import re
    c = open(os.path.join(vlib.SPEC, name)).read()
    for const, val in consts.items():
        c = re.sub(r"(?m)^(\s*%s\s*=\s*)\S+\s*$" % const, lambda m: m.group(1) + val, c)
    if strict:
        c = c.replace("INVARIANTS TypeOK", "INVARIANTS C20_Strict TypeOK")
    return c


def run(ctx):
    binary = vlib.go_build(ctx, "logdrv")
    tier = "quick" if ctx.quick else "thorough"
    cov = ctx.coverage
    cov["tlc"] = {}
    # renderer vectors
    consts = mechanism_constants()
    cov["mechanism_constants"] = consts
    # when every named deviation is recorded as fixed the model as recorded *is* the repaired model: check the strict
    # invariant in the same runs instead of a separate run with the repaired constants
    all_repaired = all(consts[c] == fixed for (c, _, fixed) in DEVIATIONS.values())
    cov["strict_invariant_checked_on_main_model"] = all_repaired
    vec = os.path.join(ctx.scratch, "logvec.ndjson")
    r, nvec = cl.tlc_vectors(ctx, "LogLineVec", "vec.cfg", vec, timeout=900,
                             files={"vec.cfg": cfg_text("LogLineVec_%s.cfg" % tier, consts)})
    cov["tlc"]["LogLineVec_%s" % tier] = r.summary()
    if nvec == 0 or nvec != r.distinct:
        raise vlib.InfraError("TLC printed %d vectors for %d states" % (nvec, r.distinct))
    states, transitions = r.distinct, r.generated
    # behaviours of the line machine (as written), then the repaired constants (strict, model only)
    beh = os.path.join(ctx.scratch, "logbeh.ndjson")
    cfgs = ["LogLineMC_quick.cfg"] if ctx.quick else ["LogLineMC_thorough3.cfg", "LogLineMC_thorough.cfg"]
    nbeh = 0
    with open(beh, "w") as out:
        for cfg in cfgs:
            part = os.path.join(ctx.scratch, cfg + ".ndjson")
            r, n = cl.tlc_vectors(ctx, "LogLineMC", "mc.cfg", part, timeout=2400, seed=ctx.seed, heap="6g",
                                  files={"mc.cfg": cfg_text(cfg, consts, strict=all_repaired)})
            cov["tlc"][cfg[:-4]] = r.summary()
            states += r.distinct
            transitions += r.generated
            if n == 0:
                raise vlib.InfraError("TLC exported no behaviours for %s" % cfg)
            with open(part) as f:
                for line in f:
                    out.write(line)
            nbeh += n
    if not all_repaired:
        fixed = "LogLineMC_fixed.cfg" if ctx.quick else "LogLineMC_fixed4.cfg"
        r = vlib.tlc(ctx, "LogLineMC", cfg=fixed, workers=4, timeout=1800, heap="6g", jprops=cl.MEMQ)
        cov["tlc"][fixed[:-4]] = r.summary()
        if not r.ok:
            raise vlib.InfraError("LogLineMC with the repaired constants violates %s: the proposed fixes are wrong at model level\n%s" %
                                  (r.violated, r.out[-2000:]))
        states += r.distinct
        transitions += r.generated
    # several lines alive at once (spec/LogLinePool.tla): every interleaving of NLines lines and the three ways to finish
    pool = os.path.join(ctx.scratch, "logpool.ndjson")
    r, npool = cl.tlc_vectors(ctx, "LogLinePool", "LogLinePool_%s.cfg" % tier, pool, timeout=1800, seed=ctx.seed, heap="6g")
    cov["tlc"]["LogLinePool_%s" % tier] = r.summary()
    states += r.distinct
    transitions += r.generated
    if npool == 0:
        raise vlib.InfraError("TLC exported no pool behaviours")
    # vacuity guard: with a second Put on a failed Write the property-level invariant must fail in the model
    r = vlib.tlc(ctx, "LogLinePool", cfg="LogLinePool_double.cfg", workers=2, timeout=300, heap="2g", jprops=cl.MEMQ)
    cov["tlc"]["LogLinePool_double (must violate)"] = r.summary()
    if r.violated != "C20_LinesIndependent":
        raise vlib.InfraError("LogLinePool with two Puts on a failed Write does not violate C20_LinesIndependent: the model is blind")
    # the real code
    s = cl.drive(ctx, binary, ["-vectors", vec, "-behaviours", beh, "-pool", pool], timeout=1200)
    if s.get("oracle_mismatch"):
        raise vlib.InfraError("specification and standard library disagree (oracle invalid): %s" % s["oracle_mismatch"][:3])
    if s["vectors"] != nvec or s["behaviours"] != nbeh or s["pool_behaviours"] != npool:
        raise vlib.InfraError("driver consumed %d/%d vectors, %d/%d behaviours, %d/%d interleavings" %
                              (s["vectors"], nvec, s["behaviours"], nbeh, s["pool_behaviours"], npool))
    seen = cl.report_failures(ctx, binary, s)
    sweeps = sum(s["sweep_by_kind"].values())
    cov.update({
        "tlc_states": states, "tlc_transitions": transitions,
        "tlc_vectors": nvec, "tlc_behaviours": nbeh,
        "vectors_by_type": s["vectors_by_type"],
        "oracle_agreement_checked_on_vectors": nvec,
        "appender_calls": s["appender_calls"],
        "sweep_by_kind": s["sweep_by_kind"],
        "behaviours_replayed": s["behaviours"],
        "behaviour_steps": s["behaviour_steps"],
        "behaviours_all_fields_fit": s["behaviours_all_fields_fit"],
        "behaviours_model_predicts_panic": s["behaviours_model_predicts_panic"],
        "behaviours_real_panic": s["behaviours_real_panic"],
        "behaviours_mechanism_conformant": s["behaviours_mechanism_conformant"],
        "interleavings_of_several_lines_replayed": s["pool_behaviours"],
        "interleaving_steps": s["pool_behaviour_steps"],
        "lines_built_concurrently": s["concurrent_lines"],
        "views_rendered": s["views_rendered"],
        "views_by_type": s["views_by_type"],
        "failure_counts": s["failure_counts"],
        "evaluations": nvec + sweeps + s["behaviours"] + s["views_rendered"] + s["concurrent_lines"] + s["pool_behaviours"],
        "distinct_nontrivial": s["distinct_cases"],
        "rule": "one evaluation = one TLC vector rendered by the real appender(s), one swept value compared with the standard "
                "library, one TLC behaviour replayed on a real Line, or one view rendered; distinct_nontrivial = distinct "
                "TLC vectors (type, value), distinct randomly filled IPv6 layouts and distinct behaviours with at least one "
                "appender after Msg (digest of the behaviour); sweeps over all uint16 / byte values are not counted as distinct",
        "samples": s.get("samples", [])[:10],
        "drift": s.get("drift") or [],
        "drift_count": s.get("drift_count", 0),
        "info": (s.get("info") or [])[:10],
        "failures_by_key": seen,
        "exhaustive": False,
    })
    ctx.assumptions += [
        "the cursor and the buffer of fastlog.Line are read through reflection/unsafe (unexported fields index, buffer)",
        "'fits' = cursor + complete rendering <= 2047 (one byte left for the newline of Write()); for IPArray additionally room "
        "for one more address of maximal length, because the appender decides per element (LogLineMC.tla IASlack)",
        "array framing (brackets, separators, the comma the library leaves before ']') is the library's own format and is "
        "accepted with or without that comma; only element text and order are compared with the reference",
        "Duration and Time values are compared with time.Duration.String / Time.AppendFormat (the appenders call them); the "
        "specification does not transcribe those two formats",
    ]


def replay(ctx, path):
    return cl.replay(ctx, path, "logdrv")
