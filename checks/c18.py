"""C18 -- DHCP leases survive restart; a damaged lease file cannot crash the server.

 part A (intact file)  spec/Dhcp.tla action Restart + guards C18_CleanRestart / C18_RenewAcked: TLC checks the bounded
                       model with restarts, the exported histories run on the real handler (restart = new session +
                       Config.New on the same file) and are validated by TLC (checks/dhcp_common.py).
 part B (damaged file) spec/DhcpFile.tla: TLC enumerates every abstract fault case (prefix ending in each part of each
                       line, substitution in each part of each line, deletion / duplication of each line) of every
                       lease file produced by histories, with the outcome the loader model predicts; the driver
                       expands each case into all concrete byte-level faults of the class (every prefix length;
                       substitutions from an alphabet incl. YAML metacharacters -- sampled in quick, every offset in
                       thorough), restarts a real handler on each damaged file in a watchdogged worker and probes it;
                       TLC judges every outcome against C18_NoCrash / C18_OnlyOriginal / C18_CleanLoad / C18_Probe*.
"""
import json
import os
import random
import re

import dhcp_common as dc
import vlib

LEVEL = "fault_enumeration"

ALPHABET = "0159 :-#\n[]{}\"'&*!|>%@,?ax/.\t"

WHAT = {
    "C18_NoCrash": "Config.New panics / hangs on this damaged lease file",
    "C18_OnlyOriginal": "the restarted handler holds a binding that is not in the original file (the file format has no integrity check)",
    "C18_InHomeWithId": "the restarted handler holds a lease outside the home subnet, without client identifier or not in allocated state",
    "C18_CleanLoad": "restart on the intact file does not load exactly the bindings of the file",
    "C18_ProbeRenew": "a binding loaded from the intact file is not acknowledged on renewal",
    "C18_ProbeNoReoffer": "an address bound in the intact file is offered to a new client after restart",
}


def hist(pairs):
    h = []
    for k, req, name in pairs:
        h.append({"a": "discover", "k": k, "m": k, "req": req, "reqs": "lit", "xid": "x1", "prl": "none", "name": name})
        h.append({"a": "request", "k": k, "m": k, "sid": "us", "ropt": req, "ropts": "offer:" + k, "ci": dc.NOA, "cis": "lit",
                  "srck": "zero", "xid": "x1", "prl": "none", "name": name})
    return h


def file_plans(ctx, rng):
    """(cfg, mode, histories) per produce run: crafted tables on the /24 and /28 configurations plus
    histories exported by TLC for the /29 one (those of part A with the most ACKs)."""
    mc = []
    for g in getattr(ctx, "dhcp_groups", []):
        if g.label.startswith("mc-") and g.shape == 0:
            hs = sorted(g.behaviours, key=lambda h: -sum(1 for a in h if a.get("a") == "request" and a.get("sid") == "us"))
            mc += [[a for a in h if a.get("a") != "restart"] for h in hs[:40]]
    rng.shuffle(mc)
    # the last history of the first plan asks for an address outside the LAN (acknowledged while KF_RequestedIPUnchecked is open):
    # the file then holds a binding the loader must drop
    plans = [(3, "secondary", [hist([("c1", 12, ""), ("c2", 104, "host-2"), ("c3", dc.NOA, "a b: c")]), hist([("c4", 200, "x")]), [],
                               hist([("c5", dc.EXT, ""), ("c6", 77, "")])])]
    plans.append((0, "nice", mc[:6 if ctx.quick else 30]))
    # home LAN shorter than /24: x.y.0.255 and x.y.1.0 are ordinary host addresses (offsets 255 / 256)
    plans.append((5, "primary", [hist([("c1", 255, ""), ("c2", 256, "n"), ("c3", dc.NOA, "")])]))
    if not ctx.quick:
        plans.append((2, "primary", [hist([("c1", 3, "n"), ("c2", 12, "")]), hist([("c5", dc.NOA, "")])]))
        plans.append((4, "nice", [hist([("c1", 100, "n1"), ("c2", 101, "n2"), ("c3", 17, "n3"), ("c6", 1, "")])]))
    return plans


def tlc_file(ctx, task, n1, files_path, results_path=None, timeout=900):
    cfg = ("SPECIFICATION Spec\nCONSTANTS\n  Task = \"%s\"\n  FilesFile = \"files.ndjson\"\n  ResultsFile = \"results.ndjson\"\n  N1 = %d\n"
           "INVARIANT %s\nCHECK_DEADLOCK FALSE\n" % (task, n1, {"plan": "Plan", "judge": "Judge", "crash": "JudgeCrash"}[task]))
    files = {"f.cfg": cfg, "files.ndjson": files_path}
    if results_path:
        files["results.ndjson"] = results_path
    r = vlib.tlc(ctx, "DhcpFile", cfg="f.cfg", files=files, workers=1, timeout=timeout, heap="6g", keep_out=True)
    if not r.ok:
        raise vlib.InfraError("DhcpFile %s: TLC failed (%s)\n%s" % (task, r.error or r.violated, r.out[-3000:]))
    return r


def run_files(ctx, binary, cfg, mode, histories, tag, cov, sample):
    """produce -> plan -> exec -> judge for one configuration. Returns (files, results, verdict lines)."""
    d = os.path.join(ctx.scratch, tag)
    os.makedirs(d, exist_ok=True)
    files_path = os.path.join(d, "files.ndjson")
    pp = os.path.join(d, "produce.json")
    json.dump({"phase": "produce", "cfg": cfg, "mode": mode, "histories": histories, "files": files_path}, open(pp, "w"))
    vlib.run_driver(ctx, binary, ["-c18", pp, "-dir", d], timeout=300)
    files = vlib.read_ndjson(files_path)
    # keep one file per distinct structure (sequence of tags) so that the fault space is not repeated
    seen, keep = set(), []
    for f in files:
        sig = (tuple((x["tag"], x["j"]) for x in f["lines"]), len(f["leases"]))
        if sig in seen:
            continue
        seen.add(sig)
        keep.append(f)
    keep = keep[:4 if ctx.quick else 12]
    for i, f in enumerate(keep):
        f["id"] = i + 1
    vlib.write_ndjson(files_path, keep)
    slim = os.path.join(d, "files.tlc.ndjson")
    vlib.write_ndjson(slim, [{"id": f["id"], "lines": [{"tag": x["tag"], "j": x["j"], "n": x["n"]} for x in f["lines"]], "leases": f["leases"]} for f in keep])
    n1 = dc.SHAPES[cfg]["N1"]
    r = tlc_file(ctx, "plan", n1, slim)
    cases = [j for j in r.json if isinstance(j, dict) and "fault" in j]
    if not cases:
        raise vlib.InfraError("DhcpFile plan: TLC printed no cases")
    cov["tlc"]["plan-" + tag] = dict(r.summary(), cases=len(cases))
    plan_path = os.path.join(d, "plan.ndjson")
    vlib.write_ndjson(plan_path, cases)
    res_path = os.path.join(d, "results.ndjson")
    ep = os.path.join(d, "exec.json")
    json.dump({"phase": "exec", "files": files_path, "plan": plan_path, "subst_sample": sample, "alphabet": ALPHABET,
               "full_tags": ["ip", "state", "cid", "net1", "leases"], "workers": 6, "timeout_ms": 6000}, open(ep, "w"))
    p = vlib.run_driver(ctx, binary, ["-c18", ep, "-out", res_path, "-dir", d], timeout=1500)
    st = json.loads(p.stdout.strip().splitlines()[-1])
    results = vlib.read_ndjson(res_path)
    if len(results) != st["tasks"]:
        raise vlib.InfraError("driver wrote %d results for %d tasks" % (len(results), st["tasks"]))
    r = tlc_file(ctx, "judge", n1, slim, res_path, timeout=1500)
    if r.distinct != len(results):
        raise vlib.InfraError("DhcpFile judge evaluated %d of %d outcomes" % (r.distinct, len(results)))
    cov["tlc"]["judge-" + tag] = r.summary()
    verdicts = [j for j in r.json if isinstance(j, dict) and "guards" in j]
    return keep, cases, results, verdicts, st


def one_case(ctx, binary, f, res, n1, tag):
    """re-run one concrete fault; returns the set of failed guards."""
    d = os.path.join(ctx.scratch, tag)
    os.makedirs(d, exist_ok=True)
    f = dict(f, id=1)
    files_path = os.path.join(d, "files.ndjson")
    vlib.write_ndjson(files_path, [f])
    slim = os.path.join(d, "files.tlc.ndjson")
    vlib.write_ndjson(slim, [{"id": 1, "lines": [{"tag": x["tag"], "j": x["j"], "n": x["n"]} for x in f["lines"]], "leases": f["leases"]}])
    plan_path = os.path.join(d, "plan.ndjson")
    vlib.write_ndjson(plan_path, [{"file": 1, "fault": res["fault"], "line": res["line"], "part": res["part"]}])
    ep = os.path.join(d, "exec.json")
    res_path = os.path.join(d, "results.ndjson")
    json.dump({"phase": "exec", "files": files_path, "plan": plan_path, "subst_sample": 0, "alphabet": ALPHABET + chr(res["ch"]) if res["ch"] >= 0 else ALPHABET,
               "workers": 2, "timeout_ms": 6000}, open(ep, "w"))
    vlib.run_driver(ctx, binary, ["-c18", ep, "-out", res_path, "-dir", d], timeout=600)
    rs = [x for x in vlib.read_ndjson(res_path) if x["off"] == res["off"] and x["ch"] == res["ch"]]
    if not rs:
        return set()
    for i, x in enumerate(rs):
        x["id"] = i + 1
    vlib.write_ndjson(res_path, rs[:1])
    r = tlc_file(ctx, "judge", n1, slim, res_path, timeout=300)
    out = set()
    for j in r.json:
        if isinstance(j, dict) and "guards" in j:
            out |= set(j["guards"])
    return out


def crash_histories():
    """histories whose last step is acknowledged and rewrites a lease file that already holds 2-3 leases"""
    h3 = hist([("c1", dc.NOA, ""), ("c2", dc.NOA, "n2"), ("c3", dc.NOA, "")])
    renew = {"a": "request", "k": "c2", "m": "c2", "sid": "none", "ropt": dc.NOA, "ropts": "lit", "ci": dc.NOA, "cis": "ip:c2",
             "srck": "ci", "xid": "x1", "prl": "none"}
    return [h3, h3 + [renew], hist([("c4", dc.NOA, "x"), ("c1", dc.NOA, "")]) + [dict(renew, k="c4", m="c4", cis="ip:c4")]]


def run_crash(ctx, binary, cfg, mode, histories, tag, every, repeat):
    """interrupted rewrite of the lease file (RLIMIT_FSIZE = k for the acknowledged packet), restart on what is left, TLC judges"""
    d = os.path.join(ctx.scratch, tag)
    os.makedirs(d, exist_ok=True)
    pp = os.path.join(d, "crash.json")
    res_path = os.path.join(d, "results.ndjson")
    json.dump({"phase": "crash", "cfg": cfg, "mode": mode, "histories": histories, "every": every, "extra": 40, "repeat": repeat}, open(pp, "w"))
    p = vlib.run_driver(ctx, binary, ["-c18", pp, "-out", res_path, "-dir", d], timeout=1500)
    st = json.loads(p.stdout.strip().splitlines()[-1])
    results = vlib.read_ndjson(res_path)
    empty = os.path.join(d, "nofiles.ndjson")
    open(empty, "w").close()
    r = tlc_file(ctx, "crash", dc.SHAPES[cfg]["N1"], empty, res_path, timeout=900)
    if r.distinct != len(results):
        raise vlib.InfraError("DhcpFile crash task evaluated %d of %d outcomes" % (r.distinct, len(results)))
    verdicts = [j for j in r.json if isinstance(j, dict) and "guards" in j]
    return results, verdicts, st, r


def crash_again(ctx, binary, cfg, mode, history, k, guard, tag):
    """re-run one crash point a few times (the block order of the file follows Go map order)"""
    for attempt in range(6):
        d = os.path.join(ctx.scratch, "%s-%d" % (tag, attempt))
        os.makedirs(d, exist_ok=True)
        pp = os.path.join(d, "crash.json")
        res_path = os.path.join(d, "results.ndjson")
        json.dump({"phase": "crash", "cfg": cfg, "mode": mode, "histories": [history], "every": 1 << 30, "extra": 0, "repeat": 1}, open(pp, "w"))
        # every = huge: only the offsets 0 and the full size are generated; ask for k through a one-point plan instead
        plan = json.load(open(pp))
        plan["points"] = [k]
        json.dump(plan, open(pp, "w"))
        vlib.run_driver(ctx, binary, ["-c18", pp, "-out", res_path, "-dir", d], timeout=300)
        results = [x for x in vlib.read_ndjson(res_path) if x["k"] == k]
        if not results:
            continue
        for i, x in enumerate(results):
            x["n"] = i + 1
        vlib.write_ndjson(res_path, results)
        empty = os.path.join(d, "nofiles.ndjson")
        open(empty, "w").close()
        r = tlc_file(ctx, "crash", dc.SHAPES[cfg]["N1"], empty, res_path, timeout=300)
        for j in r.json:
            if isinstance(j, dict) and guard in j.get("guards", []):
                return True
    return False


def run(ctx):
    rng = random.Random(ctx.seed)
    # ---- part A: intact file, restarts inside histories
    dc.run_family(ctx, ["C18"], plan_fn=dc.plan_c18)
    cov = ctx.coverage
    binary = dc.build_driver(ctx)
    # ---- part B: damaged files
    sample = 3 if ctx.quick else 0
    evaluations = 0
    distinct = set()
    classes = {}
    drift = 0
    samples = []
    reported = set()
    cov["files"] = []
    for cfg, mode, histories in file_plans(ctx, rng):
        if not histories:
            continue
        tag = "c18-cfg%d" % cfg
        files, cases, results, verdicts, st = run_files(ctx, binary, cfg, mode, histories, tag, cov, sample)
        n1 = dc.SHAPES[cfg]["N1"]
        byid = {f["id"]: f for f in files}
        cov["files"].append({"cfg": cfg, "mode": mode, "files": [{"id": f["id"], "size": f["size"], "lines": len(f["lines"]), "leases": f["leases"]} for f in files],
                             "abstract_cases": len(cases), "concrete_faults": len(results), "driver": st})
        evaluations += len(results)
        for x in results:
            distinct.add((cfg, x["file"], x["fault"], x["off"], x["ch"]))
            k = "%s:%s" % (x["fault"], x["part"])
            classes[k] = classes.get(k, 0) + 1
        if not samples and results:
            mid = results[len(results) // 2]
            samples.append({"file": byid[mid["file"]]["leases"], "fault": mid["fault"], "line": mid["line"], "part": mid["part"], "offset": mid["off"],
                            "byte": mid["ch"], "loaded_table": mid["table"], "panic": mid["panic"], "renew_probes": mid["renew"], "discover_probe": mid["disc"]})
        for v in verdicts:
            res = results[v["n"] - 1]
            if v["drift"]:
                drift += 1
                if len(cov.setdefault("drift", [])) < 30:
                    cov["drift"].append({"source": tag, "fault": res["fault"], "part": res["part"], "tag": v["tag"], "offset": res["off"], "byte": res["ch"],
                                         "table": [(t["k"], t["mac"], t["ip"]) for t in res["table"]]})
            for g in v["guards"]:
                key = "C18:%s:%s:%s:%s" % (g, res["fault"], res["part"], v["tag"])
                f = byid[res["file"]]
                replay = {"kind": "file", "cfg": cfg, "n1": n1, "file": f, "result": {k: res[k] for k in ("fault", "line", "part", "off", "ch")}, "guard": g,
                          "table": res["table"], "msg": res.get("msg", "")}
                if key not in reported:
                    again = one_case(ctx, binary, f, res, n1, tag + "-confirm")
                    if g not in again:
                        again = one_case(ctx, binary, f, res, n1, tag + "-confirm2")
                    if g not in again:
                        # uniform verdict policy: recorded, not a verdict, not exit 2
                        vlib.log("  %s did not reproduce on re-execution (%s)" % (key, sorted(again)))
                        cov.setdefault("unreproduced", []).append({"key": key, "fault": {k: res[k] for k in ("fault", "line", "part", "off", "ch")}})
                        continue
                    reported.add(key)
                what = "%s (%s in the %s of a '%s' line%s)" % (WHAT.get(g, g), res["fault"], res["part"], v["tag"],
                                                                (": " + res["msg"][:120]) if res.get("msg") else "")
                ctx.report(key, what, replay)
    # ---- part B2: the rewrite itself is interrupted (no assumption about what an interrupted rewrite leaves behind)
    crash_eval = 0
    cov["crash_runs"] = []
    for cfg, mode in ((0, "secondary"), (2, "nice")):
        hs = crash_histories()
        tag = "c18-crash-cfg%d" % cfg
        results, verdicts, st, r = run_crash(ctx, binary, cfg, mode, hs, tag, every=3 if ctx.quick else 1, repeat=1 if ctx.quick else 4)
        cov["tlc"]["crash-" + tag] = r.summary()
        crash_eval += len(results)
        loaded = sum(1 for x in results if x["table"])
        cov["crash_runs"].append({"cfg": cfg, "mode": mode, "histories": len(hs), "crash_points": len(results), "restarts_with_leases_loaded": loaded, "driver": st})
        for x in results:
            distinct.add(("crash", cfg, x["hist"], x["k"], x["n"]))
        seen = set()
        for v in verdicts:
            res = results[v["n"] - 1]
            if v["drift"]:
                drift += 1
                if len(cov.setdefault("drift", [])) < 30:
                    cov["drift"].append({"source": tag, "k": res["k"], "size_left": res["size"], "previous_size": res["old"]})
            for g in v["guards"]:
                key = "C18:%s:fsize" % g
                if key not in seen:
                    if not crash_again(ctx, binary, cfg, mode, hs[res["hist"] - 1], res["k"], g, tag + "-confirm"):
                        vlib.log("  %s at k=%d did not reproduce" % (key, res["k"]))
                        cov.setdefault("unreproduced", []).append({"key": key, "k": res["k"]})
                        continue
                    seen.add(key)
                ctx.report(key, "after a rewrite of the lease file interrupted at byte %d the restarted handler %s: %s" %
                           (res["k"], "panics / hangs" if g == "C18_NoCrash" else "holds a binding that was never acknowledged",
                            json.dumps([(t["k"], t["mac"], t["ip"]) for t in res["table"]])[:300] + " " + res.get("msg", "")),
                           {"kind": "crash", "cfg": cfg, "mode": mode, "history": hs[res["hist"] - 1], "k": res["k"], "guard": g})
    evaluations += crash_eval
    cov["interrupted_rewrites"] = crash_eval
    cov["fault_classes"] = classes
    cov["drift_count"] = cov.get("drift_count", 0) + drift
    a_eval, a_dist = cov.get("evaluations", 0), cov.get("distinct_nontrivial", 0)
    cov.update({
        "evaluations": evaluations + a_eval, "distinct_nontrivial": len(distinct) + a_dist,
        "restarts_on_damaged_files": evaluations, "distinct_damaged_files": len(distinct), "histories_with_restart": a_eval,
        "rule": "part B: one case = one concrete byte-level fault (prefix length / substituted byte / deleted or duplicated line) of a lease file "
                "written by the real handler, handler restarted on it in a watchdogged worker and probed; abstract fault cases enumerated by TLC "
                "(spec/DhcpFile.tla), cuts expanded to every prefix length, substitutions %s; distinct = distinct (file, fault, offset, byte). "
                "part B2: one case = one rewrite of the lease file interrupted after k bytes (RLIMIT_FSIZE) + restart on what is left; "
                "part A: one case = one history with restarts executed on the real handler and validated by TLC (spec/DhcpTrace.tla)"
                % ("sampled %d per abstract case" % sample if sample else "at every offset with every byte of the alphabet"),
        "exhaustive": False,
    })
    cov["samples"] = (samples + cov.get("samples", []))[:5]
    ctx.assumptions += [
        "a crash during saveConfig leaves a prefix of the new file (ioutil.WriteFile truncates, then writes); torn writes that reorder blocks are not modelled",
        "restart = new session + Config.New on the file; hang detection by a 6 s watchdog per restart in a child process",
        "substitution alphabet: %r" % ALPHABET,
    ]


def replay(ctx, path):
    obj = json.load(open(path))
    rp = obj["replay"]
    if rp.get("kind") == "crash":
        binary = dc.build_driver(ctx)
        if crash_again(ctx, binary, rp["cfg"], rp["mode"], rp["history"], rp["k"], rp["guard"], "replay-crash"):
            print("VIOLATION property=%s replay=%s" % (ctx.pid, path))
            return 1
        print("not reproduced")
        return 0
    if rp.get("kind") != "file":
        return dc.replay(ctx, path, ["C18"])
    binary = dc.build_driver(ctx)
    again = one_case(ctx, binary, rp["file"], rp["result"], rp["n1"], "replay")
    if rp["guard"] in again:
        print("VIOLATION property=%s replay=%s" % (ctx.pid, path))
        return 1
    print("not reproduced: %s" % sorted(again))
    return 0
