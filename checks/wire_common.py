"""Shared pipeline of C03 / C07: spec/Wire.tla, spec/WireMC.tla, harness/cmd/wiredrv.

 model side : TLC explores WireMC -- the build machine of the encoders (part A), the DHCPv4 option
              layout (part B) and one action per exported send function (part C) -- checks the
              model-level invariants (ModelOK: C03_* / C07_* predicates on the mechanism model) and
              exports every terminal state (a finished / refused build, a layout vector, a send vector
              with the expected frame and the mechanism model's frame) as JSON.
 code side  : harness/cmd/wiredrv executes every exported case on the real encoders / send functions
              with seeded concrete values, decodes the result with the independent reference decoder
              (harness/vh/wire_refdecode.go) and with the library's own views and compares.
 verdict    : a `prop` finding of the driver is a contradiction between the real code and a
              property-level predicate; it is re-executed once (same vector, same seed) before it is
              reported.  `mech` findings are DRIFT.
"""
import json
import os

import vlib

CONST_ORDER = ["Caps", "NSmall", "PortClasses", "DhcpCodes", "MaxOpts", "ReqCodes", "MaxReq", "DhcpCaps", "BigCode", "BigLens", "IdClasses", "WriteFailures", "NICs", "Parts"]

BASE = {"Caps": "{42}", "NSmall": "{0}", "PortClasses": '{"plain"}', "DhcpCodes": "{1}", "MaxOpts": "1",
        "ReqCodes": "{1}", "MaxReq": "1", "DhcpCaps": "{300}", "BigCode": "43", "BigLens": "{0}", "IdClasses": '{"rand"}', "WriteFailures": '{"none"}', "NICs": '{"nicA"}', "Parts": "{}"}


def cfg(consts):
    c = dict(BASE)
    c.update(consts)
    return ("SPECIFICATION Spec\nCONSTANTS\n" + "".join("  %s = %s\n" % (k, c[k]) for k in CONST_ORDER) +
            "INVARIANTS Export ModelOK\nCHECK_DEADLOCK FALSE\n")


def tlc_part(ctx, name, consts, timeout=1500, workers=None):
    """Exhaustive TLC run of one part of WireMC. Returns (vectors with ids, TLCResult).  A model-level
    failure is a defect of the specification, never a verdict about the code: exit 2."""
    r = vlib.tlc(ctx, "WireMC", cfg="wire_%s.cfg" % name, files={"wire_%s.cfg" % name: cfg(consts)}, timeout=timeout,
                 workers=workers or min(8, ctx.workers), heap="4g", jprops={"tlc2.tool.queue.IStateQueue": "MemStateQueue"},
                 keep_out=False)
    if not r.ok:
        raise vlib.InfraError("WireMC %s: model-level failure (violated=%s error=%s)\n%s" % (name, r.violated, r.error, r.out[-3000:]))
    vecs = [v for v in r.json if isinstance(v, dict) and "part" in v]
    if not vecs:
        raise vlib.InfraError("WireMC %s exported nothing" % name)
    for i, v in enumerate(vecs):
        v["id"] = i + 1
    return vecs, r


def dns_hook_present():
    p = os.path.join(vlib.REPO, "handlers", "dns_naming", "verif_on.go")
    try:
        return "VerifNew" in open(p).read()
    except OSError:
        return False


def build_driver(ctx):
    tags = "verif,dnshook" if dns_hook_present() else "verif"
    return vlib.go_build(ctx, "wiredrv", tags=tags)


def selftest(ctx, binary):
    """The reference decoder is the trusted oracle: before it judges the library it must accept the frames of the
    independent builders (DHCP replies, forged ARP, NA spoof, echo, NS) and reject each single corruption."""
    p = vlib.run_driver(ctx, binary, ["-selftest"], timeout=120)
    try:
        s = json.loads(p.stdout.strip().splitlines()[-1])
    except Exception as ex:
        raise vlib.InfraError("wiredrv -selftest gave no result: %s" % ex)
    if s.get("failed") or not s.get("cases"):
        raise vlib.InfraError("reference decoder self-test failed: %s" % s.get("failed"))
    return s["cases"]


def drive(ctx, binary, mode, vectors, k, label, timeout=900, extra=()):
    vp = os.path.join(ctx.scratch, "%s.vec.ndjson" % label)
    rp = os.path.join(ctx.scratch, "%s.res.ndjson" % label)
    vlib.write_ndjson(vp, vectors)
    p = vlib.run_driver(ctx, binary, ["-" + mode, vp, "-out", rp, "-k", k, "-tmp", ctx.scratch] + list(extra), timeout=timeout)
    try:
        summary = json.loads(p.stdout.strip().splitlines()[-1])
    except Exception as ex:
        raise vlib.InfraError("driver gave no summary: %s\n%s" % (ex, p.stderr[-2000:]))
    return vlib.read_ndjson(rp), summary


def concurrent_stage(ctx, binary, vectors, par, seconds, label, sequential_keys=()):
    """Encoders are functions of their arguments and the destination buffer only: the same cases on `par`
    goroutines at once.  A finding is reproduced by running the stage a second time (it cannot be reproduced by a
    sequential re-execution: that is the point) and is reported under C03:concurrent:<key>."""
    def once(tag):
        vp = os.path.join(ctx.scratch, "%s.vec.ndjson" % tag)
        rp = os.path.join(ctx.scratch, "%s.res.ndjson" % tag)
        vlib.write_ndjson(vp, vectors)
        p = vlib.run_driver(ctx, binary, ["-concurrent", vp, "-out", rp, "-par", par, "-dur", seconds], timeout=int(seconds) + 300)
        return vlib.read_ndjson(rp), json.loads(p.stdout.strip().splitlines()[-1])
    results, summary = once(label)
    byid = {v["id"]: v for v in vectors}
    prop = {}
    for r in results:
        for f in r.get("findings", []):
            if f["level"] == "prop" and f["key"] not in sequential_keys:     # not already shown (and reported) sequentially
                prop.setdefault("C03:concurrent:" + f["key"].split(":", 1)[-1], []).append((r, f))
    if prop:
        again, _ = once(label + "-confirm")
        seen = {"C03:concurrent:" + f["key"].split(":", 1)[-1] for r in again for f in r.get("findings", []) if f["level"] == "prop"}
        for key, lst in sorted(prop.items()):
            r, f = lst[0]
            if key not in seen:
                unreproduced(ctx, key, f["what"], {"mode": "concurrent", "count": len(lst)})
                continue
            ids = {x["id"] for x, _ in lst[:20]}
            sample = [byid[i] for i in sorted(ids)] + vectors[:200]
            replay = {"mode": "concurrent", "key": key, "par": par, "seconds": max(3, seconds), "vectors": sample, "seed": ctx.seed, "k": 1}
            ctx.report(key, "only when encoders run concurrently in separate buffers: " + f["what"], replay)
    return summary


REPRO_ATTEMPTS = 3


def unreproduced(ctx, key, what, info):
    lst = ctx.coverage.setdefault("unreproduced", [])
    lst.append(dict(info, key=key, what=what[:300]))
    vlib.log("  note: %s was observed but did not reproduce in %d re-executions (recorded in coverage.unreproduced)" % (key, REPRO_ATTEMPTS))


def send_concurrent_stage(ctx, binary, par, seconds):
    """A pooled buffer belongs to one send action between Get and Put, also on error paths: after the refused oversized RA,
    `par` goroutines send through their own sessions (shared process-wide pool); every frame is judged against what its
    goroutine asked for.  Reported when the stage shows the key again in one of REPRO_ATTEMPTS further runs."""
    def once(tag):
        rp = os.path.join(ctx.scratch, "%s.res.ndjson" % tag)
        p = vlib.run_driver(ctx, binary, ["-sendconc", "-out", rp, "-par", par, "-dur", seconds, "-tmp", ctx.scratch], timeout=int(seconds) + 300)
        return vlib.read_ndjson(rp), json.loads(p.stdout.strip().splitlines()[-1])
    results, summary = once("sendconc")
    prop = {}
    for r in results:
        for f in r.get("findings", []):
            if f["level"] == "prop":
                prop.setdefault(f["key"], []).append((r, f))
    if prop:
        seen = set()
        for attempt in range(REPRO_ATTEMPTS):
            again, _ = once("sendconc-confirm%d" % attempt)
            seen |= {f["key"] for r in again for f in r.get("findings", []) if f["level"] == "prop"}
            if all(k in seen for k in prop):
                break
        for key, lst in sorted(prop.items()):
            r, f = lst[0]
            if key not in seen:
                unreproduced(ctx, key, f["what"], {"mode": "sendconc", "count": len(lst)})
                continue
            replay = {"mode": "sendconc", "key": key, "par": par, "seconds": max(3, seconds), "frame": r.get("frame"), "seed": ctx.seed, "k": 1}
            ctx.report(key, f["what"], replay)
    return summary


def abstract_digest(v):
    return vlib.digest({k: x for k, x in v.items() if k != "id"})


def judge(ctx, binary, mode, vectors, results, k, label, remap=None):
    """Turn the driver's findings into verdicts. Returns (drift list, notes counter)."""
    byid = {v["id"]: v for v in vectors}
    prop = {}      # key -> list of (result, finding)
    drift = {}
    notes = {}
    for r in results:
        for f in r.get("findings", []):
            key = f["key"]
            if remap:
                key = remap(r, f) or key
            if f["level"] == "prop":
                prop.setdefault(key, []).append((r, f))
            elif f["level"] == "mech":
                d = drift.setdefault(key, {"key": key, "count": 0, "example": f["what"], "vector": byid.get(r["id"])})
                d["count"] += 1
            else:
                notes[key] = notes.get(key, 0) + 1
    if prop:
        # reproduce: re-execute up to two representatives per key (same vector id, same seed => same instance)
        reps = {}
        for key, lst in prop.items():
            for r, f in lst[:2]:
                reps.setdefault(r["id"], set()).add(key)
        rv = [byid[i] for i in sorted(reps)]
        seen = set()
        for attempt in range(REPRO_ATTEMPTS):     # timing dependent observations get several chances
            again, _ = drive(ctx, binary, mode, rv, k, "%s-confirm%d" % (label, attempt))
            for r in again:
                for f in r.get("findings", []):
                    kk = f["key"]
                    if remap:
                        kk = remap(r, f) or kk
                    if f["level"] == "prop":
                        seen.add((r["id"], kk))
            if all(any((r["id"], key) in seen for r, f in lst[:2]) for key, lst in prop.items()):
                break
        for key, lst in sorted(prop.items()):
            ok = [(r, f) for r, f in lst[:2] if (r["id"], key) in seen]
            if not ok:
                # seen once, not again in REPRO_ATTEMPTS re-executions: an observation, not a verdict (and not an error)
                unreproduced(ctx, key, lst[0][1]["what"], {"mode": mode, "vector": lst[0][0]["id"], "count": len(lst)})
                continue
            r, f = ok[0]
            replay = {"mode": mode, "k": k, "key": key, "vector": byid[r["id"]], "frame": r.get("frame"), "seed": ctx.seed}
            verdict = ctx.report(key, f["what"], replay)
            if verdict == "known":
                for _ in lst[1:]:
                    ctx.report(key, f["what"], replay)
    return sorted(drift.values(), key=lambda d: d["key"]), notes


def replay(ctx, path, remap=None):
    obj = json.load(open(path))
    rp = obj["replay"]
    ctx.seed = rp.get("seed", obj.get("seed", ctx.seed))
    binary = build_driver(ctx)
    if rp["mode"] == "sendconc":
        out = os.path.join(ctx.scratch, "replay.res.ndjson")
        for _ in range(REPRO_ATTEMPTS):
            vlib.run_driver(ctx, binary, ["-sendconc", "-out", out, "-par", rp["par"], "-dur", rp["seconds"], "-tmp", ctx.scratch], timeout=600)
            for r in vlib.read_ndjson(out):
                for f in r.get("findings", []):
                    if f["level"] == "prop" and f["key"] == rp["key"]:
                        print("VIOLATION property=%s replay=%s" % (ctx.pid, path))
                        vlib.log("  reproduced: %s" % f["what"])
                        return 1
        print("not reproduced")
        return 0
    if rp["mode"] == "concurrent":
        vp = os.path.join(ctx.scratch, "replay.vec.ndjson")
        out = os.path.join(ctx.scratch, "replay.res.ndjson")
        vlib.write_ndjson(vp, rp["vectors"])
        vlib.run_driver(ctx, binary, ["-concurrent", vp, "-out", out, "-par", rp["par"], "-dur", rp["seconds"]], timeout=600)
        for r in vlib.read_ndjson(out):
            for f in r.get("findings", []):
                if f["level"] == "prop" and "C03:concurrent:" + f["key"].split(":", 1)[-1] == rp["key"]:
                    print("VIOLATION property=%s replay=%s" % (ctx.pid, path))
                    vlib.log("  reproduced: %s" % f["what"])
                    return 1
        print("not reproduced")
        return 0
    if rp["mode"] == "frames":
        fp = os.path.join(ctx.scratch, "replay.hex")
        open(fp, "w").write(rp["frame"] + "\n")
        out = os.path.join(ctx.scratch, "replay.res")
        vlib.run_driver(ctx, binary, ["-frames", fp, "-out", out, "-mac", rp.get("mac", "02:00:00:00:00:01")])
        results = vlib.read_ndjson(out)
    else:
        results, _ = drive(ctx, binary, rp["mode"], [rp["vector"]], rp["k"], "replay")
    base = rp["key"].split(":", 1)[-1]
    for r in results:
        for f in r.get("findings", []):
            key = (remap(r, f) if remap else None) or f["key"]
            if f["level"] == "prop" and (key == rp["key"] or key.endswith(base)):
                print("VIOLATION property=%s replay=%s" % (ctx.pid, path))
                vlib.log("  reproduced: %s" % f["what"])
                return 1
    print("not reproduced")
    return 0


def sample_vectors(vectors, n=4):
    step = max(1, len(vectors) // n)
    return [vectors[i] for i in range(0, len(vectors), step)][:n]
