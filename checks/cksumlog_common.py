"""Shared plumbing of C15 (spec/Cksum.tla, CksumVec.tla, harness/cmd/cksumdrv) and C20 (spec/LogLine.tla,
LogLineVec.tla, LogLineMC.tla, harness/cmd/logdrv): direction C of DESIGN.md -- TLC enumerates the abstract case
space of a TLA+ transcription and prints one JSON record per state; a Go driver executes every record on the real
code.  Both drivers report failures as {key, what, case}; every failure is re-executed in a fresh process
(`<driver> -case <json>`) before it is reported."""
import json
import os

import vlib

MEMQ = {"tlc2.tool.queue.IStateQueue": "MemStateQueue"}


def tlc_vectors(ctx, module, cfg, out_path, timeout=1800, seed=None, heap="4g", files=None):
    """Run TLC exhaustively on <module> with <cfg> (a file of spec/), require a clean finish, write every record
    printed by PrintT(ToJson(..)) to out_path (ndjson). Returns the TLCResult and the number of records."""
    r = vlib.tlc(ctx, module, cfg=cfg, workers=4, timeout=timeout, heap=heap, jprops=MEMQ, seed=seed, files=files)
    if not r.ok:
        raise vlib.InfraError("TLC %s/%s: model-level failure (violated=%s error=%s): the specification's own lemmas / "
                              "invariants do not hold, which is not a verdict about the code\n%s" %
                              (module, cfg, r.violated, r.error, r.out[-3000:]))
    n = 0
    with open(out_path, "w") as f:
        for o in r.json:
            if isinstance(o, dict):
                f.write(json.dumps(o, separators=(",", ":")) + "\n")
                n += 1
    r.json = []          # free memory
    r.out = r.out[-4000:]
    return r, n


def drive(ctx, binary, args, timeout=900):
    p = vlib.run_driver(ctx, binary, args, timeout=timeout)
    lines = [x for x in p.stdout.strip().splitlines() if x.startswith("{")]
    if not lines:
        raise vlib.InfraError("driver printed no summary\nstderr:\n" + p.stderr[-3000:])
    return json.loads(lines[-1])


def reproduce(ctx, binary, case):
    """Re-execute one case in a fresh process. True if the contradiction shows again."""
    p = vlib.run_driver(ctx, binary, ["-case", json.dumps(case)], timeout=120, ok_codes=(0,))
    lines = [x for x in p.stdout.strip().splitlines() if x.startswith("{")]
    if not lines:
        raise vlib.InfraError("driver -case printed nothing\n" + p.stderr[-2000:])
    return bool(json.loads(lines[-1]).get("reproduced")), json.loads(lines[-1])


def report_failures(ctx, binary, summary):
    """Every failure of the driver summary: reproduce, then report through ctx (VIOLATION or KNOWN-FINDING)."""
    seen = {}
    for f in summary.get("failures") or []:
        key = f["key"]
        seen[key] = seen.get(key, 0) + 1
        if seen[key] > 2:          # two replay files per key are enough
            continue
        ok, info = reproduce(ctx, binary, f["case"])
        if not ok:
            raise vlib.InfraError("failure %s did not reproduce in a fresh process: %s / %s" % (key, f["what"], info))
        ctx.report(key, f["what"], {"driver": os.path.basename(binary), "case": f["case"]})
    return seen


def replay(ctx, path, driver):
    obj = json.load(open(path))
    binary = vlib.go_build(ctx, driver)
    ok, info = reproduce(ctx, binary, obj["replay"]["case"])
    if ok:
        print("VIOLATION property=%s replay=%s" % (ctx.pid, path))
        vlib.log("  " + str(info.get("what")))
        return 1
    print("not reproduced: %s" % (info,))
    return 0
