"""Shared pipeline of C08 and C17: spec/Walk.tla, spec/Names.tla, harness/cmd/walkdrv.

 model side : for every walker TLC explores the build/walk state machine of spec/Walk.tla (reference
              walker with its termination measure as invariant / action property) and exports one vector
              per complete input: reference verdict, value, the mechanism-level prediction (ok / panic /
              hang) and the named deviations (KF_*) that apply to it.  The set of open deviations is a
              CONSTANT taken from known_findings.d/C08.json and C17.json.
 code side  : walkdrv concretises every vector (K encodings + M seeded byte mutations) and executes it
              on the real decoders / handlers in killable worker processes.
 binding    : C08: observed outcome (returned / panicked / hung) against the property "returned";
                   a failure the specification predicts through an open deviation is a known finding,
                   any other failure a violation.  C17: decoded values against the reference value of
                   the specification and against golang.org/x/net/dns/dnsmessage.
"""
import concurrent.futures
import json
import os
import subprocess

import vlib

# (walker, MaxLen, alphabet)
CONFIGS = {
    "quick": {
        "ndp": [(2, "wide"), (4, "deep")], "lldp": [(2, "wide"), (4, "deep")], "hbh": [(3, "wide"), (5, "deep")],
        "dhcp": [(2, "wide"), (4, "deep")], "nbns": [(4, "wide")], "icmp4": [(2, "wide")],
        "ssdp": [(3, "wide"), (5, "deep")], "arp": [(1, "wide")], "llc": [(1, "wide")],
        "name": [(3, "wide"), (4, "deep")], "dnsmsg": [(2, "wide"), (4, "deep")],
        "mcache": [(4, "wide"), (3, "ids")], "ping": [(4, "wide")],
    },
    "thorough": {
        "ndp": [(2, "wide"), (3, "wide"), (5, "deep")], "lldp": [(3, "wide"), (5, "deep")], "hbh": [(4, "wide"), (5, "deep")],
        "dhcp": [(2, "wide"), (3, "wide"), (4, "deep")], "nbns": [(4, "wide")], "icmp4": [(2, "wide")],
        "ssdp": [(4, "wide"), (5, "deep")], "arp": [(1, "wide")], "llc": [(1, "wide")],
        "name": [(4, "wide"), (5, "deep")], "dnsmsg": [(3, "wide"), (5, "deep")],
        "mcache": [(5, "wide"), (3, "ids")], "ping": [(5, "wide")],
    },
}
C17_WALKERS = ["name", "dnsmsg", "nbns", "mcache"]
ALL_WALKERS = ["ndp", "lldp", "hbh", "dhcp", "nbns", "icmp4", "ssdp", "arp", "llc", "name", "dnsmsg", "mcache", "ping"]


def open_kfs():
    """Names of the deviations listed as open findings of C08 / C17 (field `kf`)."""
    if os.environ.get("VERIF_WALK_KF") is not None:      # experiments: override the set of open deviations
        return sorted(x for x in os.environ["VERIF_WALK_KF"].split(",") if x)
    out = set()
    for k in vlib.load_known():
        if k.get("property") in ("C08", "C17") and k.get("status") == "open" and k.get("kf"):
            out.add(k["kf"])
    return sorted(out)


def hook_present():
    p = os.path.join(vlib.REPO, "handlers", "dns_naming", "verif_on.go")
    try:
        return "func VerifNew(" in open(p).read()
    except OSError:
        return False


def age_hook_present():
    p = os.path.join(vlib.REPO, "handlers", "dns_naming", "verif_on.go")
    try:
        return "VerifAgeMDNSCache(" in open(p).read()
    except OSError:
        return False


def _grep(rel, needle):
    try:
        return needle in open(os.path.join(vlib.REPO, rel)).read()
    except OSError:
        return False


def build(ctx, race=False):
    tags = "verif"
    if hook_present():
        tags += ",dnshook"
        if age_hook_present():
            tags += ",dnsage"          # the stateful mDNS cache family needs VerifAgeMDNSCache
    if _grep("verif_stp_on.go", "VerifResetSTPLog("):
        tags += ",stphook"             # re-arm the STP log limiter before every case
    if _grep("handlers/dhcp4_spoofer/verif_on.go", "VerifResetStorm("):
        tags += ",dhcphook"            # re-arm the DISCOVER storm limiter before every dhcp case
    return vlib.go_build(ctx, "walkdrv", race=race, tags=tags)


def walk_cfg(walker, maxlen, alpha, kfs):
    return ("SPECIFICATION Spec\nCONSTANTS\n  Walker = \"%s\"\n  MaxLen = %d\n  Alpha = \"%s\"\n  KF = {%s}\n"
            "INVARIANTS TypeOK MeasurePositive Export\nPROPERTY Progress\nCHECK_DEADLOCK FALSE\n"
            % (walker, maxlen, alpha, ", ".join('"%s"' % k for k in kfs)))


def run_tlc_walk(ctx, walker, maxlen, alpha, kfs):
    name = "walk_%s_%d_%s.cfg" % (walker, maxlen, alpha)
    r = vlib.tlc(ctx, "Walk", cfg=name, files={name: walk_cfg(walker, maxlen, alpha, kfs)}, workers=2,
                 timeout=1500, heap="4g", jprops={"tlc2.tool.queue.IStateQueue": "MemStateQueue"}, keep_out=False)
    if not r.ok:
        raise vlib.InfraError("TLC Walk %s/%d/%s: model-level failure (violated=%s error=%s)\n%s"
                              % (walker, maxlen, alpha, r.violated, r.error, r.out[-3000:]))
    vs = [v for v in r.json if isinstance(v, dict) and v.get("w") == walker]
    if not vs:
        raise vlib.InfraError("TLC Walk %s/%d/%s exported no vectors" % (walker, maxlen, alpha))
    return r, vs


def generate(ctx, walkers):
    """All TLC runs of the tier (in parallel, two workers each). Returns (vectors, tlc summary)."""
    kfs = open_kfs()
    jobs = [(w, n, a) for w in walkers for (n, a) in CONFIGS[ctx.tier][w]]
    vectors, summary = [], {}
    seen = set()
    with concurrent.futures.ThreadPoolExecutor(max_workers=3) as ex:
        futs = {ex.submit(run_tlc_walk, ctx, w, n, a, kfs): (w, n, a) for (w, n, a) in jobs}
        res = {}
        for f in concurrent.futures.as_completed(futs):
            res[futs[f]] = f.result()
    # vectors that need a process whose rate limiters have not fired yet come first (walkdrv -solo)
    jobs_sorted = sorted(jobs, key=lambda j: 0 if j[0] == "llc" else 1)
    for job in jobs_sorted:               # deterministic order
        r, vs = res[job]
        summary["%s_%d_%s" % job] = dict(r.summary(), vectors=len(vs))
        if job[0] == "llc":
            vs.sort(key=lambda v: 0 if is_solo(v) else 1)
        for v in vs:
            d = vlib.digest([v["w"], v["seq"], v["aux"]])
            if d in seen:                 # the deep and the wide alphabet overlap
                continue
            seen.add(d)
            v["id"] = len(vectors)        # position in the vector file: part of the seed of the concretisation
            v["seed"] = ctx.seed
            vectors.append(v)
    return vectors, summary, kfs


def is_solo(v):
    """Large STP frames: the log line that renders the whole payload is written for the first STP frame of a
    process and then once in five minutes; each of them runs as the first frame of its own worker process."""
    return v["w"] == "llc" and v["seq"] and v["seq"][0]["sap"] == "stp" and v["seq"][0]["len"] >= 600


def drive(ctx, binary, vectors, label, k, mut, procs=4):
    vp = os.path.join(ctx.scratch, "vectors_%s.ndjson" % label)
    rp = os.path.join(ctx.scratch, "results_%s.ndjson" % label)
    with open(vp, "w") as f:
        for v in vectors:
            f.write(json.dumps(v, separators=(",", ":")) + "\n")
    solo = 0
    while solo < len(vectors) and is_solo(vectors[solo]):
        solo += 1
    p = vlib.run_driver(ctx, binary, ["-mode", "run", "-vectors", vp, "-out", rp, "-k", k, "-mut", mut, "-procs", procs, "-solo", solo],
                        timeout=3000)
    summ = json.loads(p.stdout.strip().splitlines()[-1])
    return summ, vlib.read_ndjson(rp)


def run_one(ctx, binary, vector, c, k, mut, watchdog="2s"):
    """Re-execute one case alone with a generous deadline. Returns the Result dict."""
    cp = os.path.join(ctx.scratch, "one.json")
    json.dump({"vector": vector, "c": c, "seed": vector.get("seed", ctx.seed), "k": k, "mut": mut}, open(cp, "w"))
    e = dict(os.environ)
    e.update({"VERIF_SEED": str(ctx.seed)})
    try:
        p = subprocess.run([binary, "-mode", "one", "-case", cp, "-watchdog", watchdog], env=e, timeout=60,
                           stdout=subprocess.PIPE, stderr=subprocess.PIPE, text=True, errors="replace")
    except subprocess.TimeoutExpired:
        return {"outcome": "killed"}
    lines = [l for l in p.stdout.strip().splitlines() if l.startswith("{")]
    if not lines:
        if "fatal error" in p.stderr or "goroutine stack exceeds" in p.stderr:
            # not recoverable inside the process (stack overflow, concurrent map access): the process died
            return {"outcome": "killed", "msg": [l for l in p.stderr.splitlines() if "fatal error" in l or "exceeds" in l][:1]}
        raise vlib.InfraError("walkdrv -mode one gave no result (rc %d): %s" % (p.returncode, p.stderr[-2000:]))
    return json.loads(lines[-1])


def conc_cfg(unlocked):
    return ("SPECIFICATION Spec\nCONSTANTS\n  Readers = {r1, r2, r3}\n  Rounds = 2\n  DecodeUnlocked = %s\n"
            "INVARIANTS TypeOK LockDiscipline C08_NoConcurrentMapAccess\nCHECK_DEADLOCK FALSE\n" % ("TRUE" if unlocked else "FALSE"))


def conc_stage(ctx, binary):
    """Concurrent stage of C08 (spec/WalkConc.tla): packet loop goroutine + readers of the goroutine-safe DNS table API
    in a child process; an unrecoverable runtime error of the child is the finding. Returns a coverage dict."""
    cov = {}
    r = vlib.tlc(ctx, "WalkConc", cfg="wc.cfg", files={"wc.cfg": conc_cfg(False)}, workers=1, timeout=300)
    if not r.ok:
        raise vlib.InfraError("TLC WalkConc: the lock protocol of the model does not keep readers out of a write (violated=%s)\n%s"
                              % (r.violated, r.out[-1500:]))
    r2 = vlib.tlc(ctx, "WalkConc", cfg="wc2.cfg", files={"wc2.cfg": conc_cfg(True)}, workers=1, timeout=300)
    if r2.violated != "C08_NoConcurrentMapAccess":
        raise vlib.InfraError("TLC WalkConc: the unlocked variant must violate C08_NoConcurrentMapAccess (vacuity guard)")
    cov["tlc"] = {"code_shape": r.summary(), "decode_unlocked_variant": r2.summary()}
    if not hook_present():
        cov["skipped"] = "dns_naming.VerifNew absent"
        return cov

    def once(b, dur):
        e = dict(os.environ)
        e.update({"VERIF_SEED": str(ctx.seed)})
        try:
            return subprocess.run([b, "-mode", "conc", "-dur", dur, "-readers", "3"], env=e, timeout=120,
                                  stdout=subprocess.PIPE, stderr=subprocess.PIPE, text=True, errors="replace")
        except subprocess.TimeoutExpired:
            raise vlib.InfraError("walkdrv -mode conc timed out")

    def fatal(p):
        for line in p.stderr.splitlines():
            if line.startswith("fatal error:"):
                return line[len("fatal error:"):].strip()
        return None

    dur = "3s" if ctx.quick else "10s"
    p = once(binary, dur)
    f = fatal(p)
    if f:
        p2 = once(binary, dur)
        if fatal(p2) or fatal(once(binary, dur)):
            ctx.report("C08:conc:dns:fatal:%s" % f.replace(" ", "-"),
                       "the process died (%s) while the packet loop fed DNS/mDNS responses to ProcessDNS/ProcessMDNS and three goroutines "
                       "used DNSFind / DNSExist / PrintDNSTable of the same handler" % f, {"conc": {"dur": dur, "readers": 3}})
        else:
            cov["unreproduced"] = f
    elif p.returncode != 0:
        raise vlib.InfraError("walkdrv -mode conc exited %d: %s" % (p.returncode, p.stderr[-1500:]))
    else:
        cov["run"] = json.loads(p.stdout.strip().splitlines()[-1])
    if not ctx.quick:
        rb = build(ctx, race=True)
        p = once(rb, "6s")
        if "WARNING: DATA RACE" in p.stderr:
            import re
            fns = re.findall(r"^  (github\.com/irai/packet[^\s(]*(?:\([^)]*\))?[^\s(]*)\(", p.stderr, re.M)[:2]
            ctx.report("C08:race:dns:%s" % "~".join(x.split("/")[-1] for x in fns), "data race reported by the race detector in the concurrent DNS stage",
                       {"conc": {"dur": "6s", "readers": 3, "race": True}})
        elif p.returncode != 0 and not fatal(p):
            raise vlib.InfraError("walkdrv(race) -mode conc exited %d: %s" % (p.returncode, p.stderr[-1500:]))
        else:
            cov["race_run"] = json.loads(p.stdout.strip().splitlines()[-1]) if p.returncode == 0 else "died"
    return cov


def dev_of(vector, group, what):
    for d in vector.get("dev", []):
        if d["g"] == group and d["what"] == what:
            return d["kf"]
    return None


def params(ctx):
    return (2, 3) if ctx.quick else (4, 8)


def sample_cases(vectors, results, n=4):
    out = []
    for r in results[:2000]:
        if len(out) >= n:
            break
        if not r.get("mut") and r["outcome"] != "ret":
            out.append({"vector": vectors[r["v"]], "entry": r["entry"], "outcome": r["outcome"], "input_hex": r.get("hex", "")[:160]})
    step = max(1, len(vectors) // 3)
    for v in vectors[::step][:3]:
        out.append({"vector": v})
    return out


# ---------------------------------------------------------------------------------------------
# C10 (retained state never aliases the caller's packet buffer), naming half

C10_CONFIGS = {"quick": [("dnsmsg", 2, "wide"), ("nbns", 3, "wide")],
               "thorough": [("dnsmsg", 2, "wide"), ("dnsmsg", 5, "deep"), ("nbns", 4, "wide")]}


def _transcripts(ctx, binary, vectors, tag, seed=None):
    """Run the naming histories of `vectors` with fresh buffers and with one shared, scribbled buffer."""
    vp = os.path.join(ctx.scratch, "c10dns_%s.ndjson" % tag)
    with open(vp, "w") as f:
        for v in vectors:
            f.write(json.dumps(v, separators=(",", ":")) + "\n")
    outs = []
    for mode in ("fresh", "shared"):
        tp = os.path.join(ctx.scratch, "c10dns_%s.%s.ndjson" % (tag, mode))
        p = vlib.run_driver(ctx, binary, ["-mode", mode, "-vectors", vp, "-out", tp], timeout=900,
                            env={"VERIF_SEED": str(seed if seed is not None else ctx.seed)})
        if "skipped" in p.stdout:
            raise vlib.InfraError("walkdrv -mode %s: %s" % (mode, p.stdout.strip()[-200:]))
        outs.append(vlib.read_ndjson(tp))
    if len(outs[0]) != len(outs[1]):
        raise vlib.InfraError("C10 dns: transcripts have different length (%d / %d)" % (len(outs[0]), len(outs[1])))
    return outs


def _diff_fields(a, b):
    out = []
    for k in sorted(set(a) | set(b)):
        if a.get(k) == b.get(k):
            continue
        if isinstance(a.get(k), dict) and isinstance(b.get(k), dict):
            out += ["%s.%s" % (k, f) for f in sorted(set(a[k]) | set(b[k])) if a[k].get(f) != b[k].get(f)]
        else:
            out.append(k)
    return out


def _retains(rec):
    if rec.get("names") or rec.get("name"):
        return True
    for k in ("returned", "table"):
        e = rec.get(k) or {}
        if any(e.get(f) for f in ("a", "aaaa", "cname", "ptr")):
            return True
    h = rec.get("host") or {}
    return bool(h.get("mdns") or h.get("nbns"))


def _c10_differs(ctx, binary, vectors, field, tag, seed=None):
    fresh, shared = _transcripts(ctx, binary, vectors, tag, seed)
    return any(field in _diff_fields(a, b) for a, b in zip(fresh, shared))


def c10_part(ctx):
    """For checks/c10.py: the DNS / mDNS / NBNS naming histories (well-formed vectors of spec/Walk.tla on which every
    handler returns) delivered as frames to one DNSHandler and session, once in private buffers and once through ONE
    receive buffer that is scribbled over after every step. Everything retained is written after the scribble: the
    entry returned by ProcessDNS, DNSFind of the question name, the names / addresses / MACs returned by ProcessMDNS,
    the NBNS name, the host's and MAC entry's learned names, and at the end the whole DNS table. Each field that
    differs is confirmed by a second execution and reported as C10:dns:<field>.
    Returns (evaluations, distinct_nontrivial) = (steps compared x 2, distinct vectors that retained something)."""
    if not hook_present():
        raise vlib.InfraError("dns_naming.VerifNew is absent from the tree under test")
    binary = build(ctx)
    kfs = open_kfs()
    vectors, seen = [], set()
    jobs = C10_CONFIGS[ctx.tier]
    with concurrent.futures.ThreadPoolExecutor(max_workers=3) as ex:
        futs = [ex.submit(run_tlc_walk, ctx, w, n, a, kfs) for (w, n, a) in jobs]
        for f in futs:
            _, vs = f.result()
            for v in vs:
                # the driver only replays accepted inputs on which no handler is predicted to fail
                if v["verdict"] != "accept" or any(m != "ok" for m in v["mech"].values()):
                    continue
                d = vlib.digest([v["w"], v["seq"], v["aux"]])
                if d in seen:
                    continue
                seen.add(d)
                v["id"] = len(vectors)
                v["seed"] = ctx.seed
                vectors.append(v)
    if not vectors:
        raise vlib.InfraError("C10 dns: TLC exported no replayable vectors")
    fresh, shared = _transcripts(ctx, binary, vectors, "all")
    steps = sum(1 for r in fresh if "step" in r)
    if steps == 0:
        raise vlib.InfraError("C10 dns: empty transcript")
    retained = set(r["v"] for r in fresh if "step" in r and _retains(r))
    reported = set()
    for a, b in zip(fresh, shared):
        if a == b:
            continue
        for field in _diff_fields(a, b):
            key = "C10:dns:%s%s" % ((a.get("kind") + ".") if a.get("kind") else "", field)
            if key in reported:
                continue
            reported.add(key)
            # confirm on the smallest history that shows it: the vector alone, its recent past, the whole prefix
            vid = a.get("v")
            cands = []
            if vid is not None:
                cands = [[vectors[vid]], vectors[max(0, vid - 20):vid + 1], vectors[:vid + 1]]
            else:
                cands = [vectors]                       # difference in the final table dump
            hist = None
            for c in cands:
                if _c10_differs(ctx, binary, c, field, "confirm"):
                    hist = c
                    break
            if hist is None:
                raise vlib.InfraError("shared-buffer difference %s did not reproduce" % key)
            ctx.report(key, "dns_naming state differs between private buffers and one reused receive buffer in field %s "
                            "(fresh %s / shared %s)" % (field, json.dumps(a)[:200], json.dumps(b)[:200]),
                       {"family": "dns", "kind": "dns", "vectors": hist, "field": field, "seed": ctx.seed})
    ctx.coverage.setdefault("samples", []).append({"family": "dns", "vector": vectors[len(vectors) // 2],
                                                    "step": next((r for r in fresh if r.get("v") == len(vectors) // 2), None)})
    return steps * 2, len(retained)


def c10_replay(ctx, rp):
    """True if the fresh / shared transcripts of the recorded history still differ in the recorded field."""
    if not hook_present():
        raise vlib.InfraError("dns_naming.VerifNew is absent from the tree under test")
    binary = build(ctx)
    return _c10_differs(ctx, binary, rp["vectors"], rp["field"], "replay", rp.get("seed"))
