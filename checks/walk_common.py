"""Shared pipeline of C08 and C17: spec/Walk.tla, spec/Names.tla, harness/cmd/walkdrv.

 model side : for every walker TLC explores the build/walk state machine of spec/Walk.tla (reference
              walker with its termination measure as invariant / action property) and exports one vector
              per complete input: reference verdict, value, the mechanism-level prediction (ok / panic /
              hang) and the named deviations (KF_*) that apply to it.  The set of open deviations is a
              CONSTANT taken from known_findings.d/C08.json and C17.json.
 code side  : walkdrv concretises every vector (K encodings + M seeded byte mutations) and executes it
              on the real decoders / handlers in killable worker processes.
 binding    : C08: observed outcome (returned / panicked / hung) against the property "returned";
                   a failure the specification predicts through an open deviation is a known finding,
                   any other failure a violation.  C17: decoded values against the reference value of
                   the specification and against golang.org/x/net/dns/dnsmessage.
"""
import concurrent.futures
import json
import os
import subprocess

import vlib

# (walker, MaxLen, alphabet)
CONFIGS = {
    "quick": {
        "ndp": [(2, "wide"), (4, "deep")], "lldp": [(2, "wide"), (4, "deep")], "hbh": [(3, "wide"), (5, "deep")],
        "dhcp": [(2, "wide"), (4, "deep")], "nbns": [(4, "wide")], "icmp4": [(2, "wide")],
        "ssdp": [(3, "wide"), (5, "deep")], "arp": [(1, "wide")], "llc": [(1, "wide")],
        "name": [(3, "wide"), (4, "deep")], "dnsmsg": [(2, "wide"), (4, "deep")],
    },
    "thorough": {
        "ndp": [(3, "wide"), (5, "deep")], "lldp": [(3, "wide"), (5, "deep")], "hbh": [(4, "wide"), (5, "deep")],
        "dhcp": [(3, "wide"), (4, "deep")], "nbns": [(4, "wide")], "icmp4": [(2, "wide")],
        "ssdp": [(4, "wide"), (5, "deep")], "arp": [(1, "wide")], "llc": [(1, "wide")],
        "name": [(4, "wide"), (5, "deep")], "dnsmsg": [(3, "wide"), (5, "deep")],
    },
}
C17_WALKERS = ["name", "dnsmsg", "nbns"]
ALL_WALKERS = ["ndp", "lldp", "hbh", "dhcp", "nbns", "icmp4", "ssdp", "arp", "llc", "name", "dnsmsg"]


def open_kfs():
    """Names of the deviations listed as open findings of C08 / C17 (field `kf`)."""
    if os.environ.get("VERIF_WALK_KF") is not None:      # experiments: override the set of open deviations
        return sorted(x for x in os.environ["VERIF_WALK_KF"].split(",") if x)
    out = set()
    for k in vlib.load_known():
        if k.get("property") in ("C08", "C17") and k.get("status") == "open" and k.get("kf"):
            out.add(k["kf"])
    return sorted(out)


def hook_present():
    p = os.path.join(vlib.REPO, "handlers", "dns_naming", "verif_on.go")
    try:
        return "func VerifNew(" in open(p).read()
    except OSError:
        return False


def build(ctx):
    tags = "verif,dnshook" if hook_present() else "verif"
    return vlib.go_build(ctx, "walkdrv", tags=tags)


def walk_cfg(walker, maxlen, alpha, kfs):
    return ("SPECIFICATION Spec\nCONSTANTS\n  Walker = \"%s\"\n  MaxLen = %d\n  Alpha = \"%s\"\n  KF = {%s}\n"
            "INVARIANTS TypeOK MeasurePositive Export\nPROPERTY Progress\nCHECK_DEADLOCK FALSE\n"
            % (walker, maxlen, alpha, ", ".join('"%s"' % k for k in kfs)))


def run_tlc_walk(ctx, walker, maxlen, alpha, kfs):
    name = "walk_%s_%d_%s.cfg" % (walker, maxlen, alpha)
    r = vlib.tlc(ctx, "Walk", cfg=name, files={name: walk_cfg(walker, maxlen, alpha, kfs)}, workers=2,
                 timeout=1500, heap="4g", jprops={"tlc2.tool.queue.IStateQueue": "MemStateQueue"}, keep_out=False)
    if not r.ok:
        raise vlib.InfraError("TLC Walk %s/%d/%s: model-level failure (violated=%s error=%s)\n%s"
                              % (walker, maxlen, alpha, r.violated, r.error, r.out[-3000:]))
    vs = [v for v in r.json if isinstance(v, dict) and v.get("w") == walker]
    if not vs:
        raise vlib.InfraError("TLC Walk %s/%d/%s exported no vectors" % (walker, maxlen, alpha))
    return r, vs


def generate(ctx, walkers):
    """All TLC runs of the tier (in parallel, two workers each). Returns (vectors, tlc summary)."""
    kfs = open_kfs()
    jobs = [(w, n, a) for w in walkers for (n, a) in CONFIGS[ctx.tier][w]]
    vectors, summary = [], {}
    seen = set()
    with concurrent.futures.ThreadPoolExecutor(max_workers=3) as ex:
        futs = {ex.submit(run_tlc_walk, ctx, w, n, a, kfs): (w, n, a) for (w, n, a) in jobs}
        res = {}
        for f in concurrent.futures.as_completed(futs):
            res[futs[f]] = f.result()
    for job in jobs:                      # deterministic order
        r, vs = res[job]
        summary["%s_%d_%s" % job] = dict(r.summary(), vectors=len(vs))
        for v in vs:
            d = vlib.digest([v["w"], v["seq"], v["aux"]])
            if d in seen:                 # the deep and the wide alphabet overlap
                continue
            seen.add(d)
            v["id"] = len(vectors)        # position in the vector file: part of the seed of the concretisation
            v["seed"] = ctx.seed
            vectors.append(v)
    return vectors, summary, kfs


def drive(ctx, binary, vectors, label, k, mut, procs=4):
    vp = os.path.join(ctx.scratch, "vectors_%s.ndjson" % label)
    rp = os.path.join(ctx.scratch, "results_%s.ndjson" % label)
    with open(vp, "w") as f:
        for v in vectors:
            f.write(json.dumps(v, separators=(",", ":")) + "\n")
    p = vlib.run_driver(ctx, binary, ["-mode", "run", "-vectors", vp, "-out", rp, "-k", k, "-mut", mut, "-procs", procs],
                        timeout=3000)
    summ = json.loads(p.stdout.strip().splitlines()[-1])
    return summ, vlib.read_ndjson(rp)


def run_one(ctx, binary, vector, c, k, mut, watchdog="2s"):
    """Re-execute one case alone with a generous deadline. Returns the Result dict."""
    cp = os.path.join(ctx.scratch, "one.json")
    json.dump({"vector": vector, "c": c, "seed": vector.get("seed", ctx.seed), "k": k, "mut": mut}, open(cp, "w"))
    e = dict(os.environ)
    e.update({"VERIF_SEED": str(ctx.seed)})
    try:
        p = subprocess.run([binary, "-mode", "one", "-case", cp, "-watchdog", watchdog], env=e, timeout=60,
                           stdout=subprocess.PIPE, stderr=subprocess.PIPE, text=True, errors="replace")
    except subprocess.TimeoutExpired:
        return {"outcome": "killed"}
    lines = [l for l in p.stdout.strip().splitlines() if l.startswith("{")]
    if not lines:
        if "fatal error" in p.stderr or "goroutine stack exceeds" in p.stderr:
            # not recoverable inside the process (stack overflow, concurrent map access): the process died
            return {"outcome": "killed", "msg": [l for l in p.stderr.splitlines() if "fatal error" in l or "exceeds" in l][:1]}
        raise vlib.InfraError("walkdrv -mode one gave no result (rc %d): %s" % (p.returncode, p.stderr[-2000:]))
    return json.loads(lines[-1])


def dev_of(vector, group, what):
    for d in vector.get("dev", []):
        if d["g"] == group and d["what"] == what:
            return d["kf"]
    return None


def params(ctx):
    return (2, 3) if ctx.quick else (4, 8)


def sample_cases(vectors, results, n=4):
    out = []
    for r in results[:2000]:
        if len(out) >= n:
            break
        if not r.get("mut") and r["outcome"] != "ret":
            out.append({"vector": vectors[r["v"]], "entry": r["entry"], "outcome": r["outcome"], "input_hex": r.get("hex", "")[:160]})
    step = max(1, len(vectors) // 3)
    for v in vectors[::step][:3]:
        out.append({"vector": v})
    return out
