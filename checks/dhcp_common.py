"""Shared pipeline of C11 / C12 (and the intact-file half of C18): spec/Dhcp.tla.

 model side : TLC checks DhcpMC (mechanism model of handlers/dhcp4_spoofer + the session calls it
              makes) against the property level: every guard failure reachable inside the bound
              must be one of the listed deviations (invariant OnlyTolerated); every distinct state
              at the depth bound (sampled) and every failing state is exported as an action history
              with symbolic address arguments (direction A); `-simulate` adds deeper walks; a seeded
              generator adds long histories over larger universes / prefix configurations.
 code side  : harness/cmd/dhcpdrv executes every history on a real Handler + Session.
 binding    : TLC validates the recorded trace against spec/DhcpTrace.tla in mechanism mode; a
              rejected behaviour is re-validated in property mode to tell VIOLATION from DRIFT.
              Property guards are evaluated by TLC on every observed reply in both modes.
"""
import concurrent.futures
import json
import os
import random
import re

import vlib

# shape of the concrete configurations of harness/vh/dhcp_net.go (checked against the driver's reset line)
SHAPES = {
    0: dict(N1=8, Net2Lo=4, Net2Hi=7, HostA=5, RouterA=1),
    1: dict(N1=8, Net2Lo=4, Net2Hi=7, HostA=5, RouterA=1),
    2: dict(N1=16, Net2Lo=0, Net2Hi=7, HostA=2, RouterA=9),
    3: dict(N1=256, Net2Lo=128, Net2Hi=255, HostA=129, RouterA=1),
    4: dict(N1=256, Net2Lo=64, Net2Hi=127, HostA=70, RouterA=254),
    5: dict(N1=512, Net2Lo=384, Net2Hi=511, HostA=385, RouterA=1),     # home /23: offsets 255 / 256 are ordinary host addresses
}
MODES = ["secondary", "primary", "nice"]
FIXED = []        # set by run_family / replay from the known-findings files
NOA, BCAST, EXT = 9000, 9999, 1000

KF_WHAT = {
    "KF_RequestedIPUnchecked": "allocIPOffer accepts the requested address without range / reservation check and without looking at outstanding offers (lease.go:125-136)",
    "KF_OfferNotReserved": "findByIP ignores outstanding offers: an address under OFFER to one client is handed to another (lease.go:66-73,138-167)",
    "KF_SelectOnFreeLease": "a REQUEST selecting us on a free / unknown lease is acknowledged with the stale or empty lease address (request.go:151-156)",
    "KF_ReservedBySessionOnly": "our own / the router's address is excluded from allocation only while the session tracks it (lease.go:143, session purge)",
    "KF_SessionNotRechecked": "re-offer / acknowledgement of a client's address does not consult Session.FindIP again (discover.go:62-79, request.go)",
    "KF_PRLRouterFirst": "AppendOptions follows the client's parameter request list, so the router option can precede the subnet mask (layer_dhcp4.go:298-321)",
}


def tolerated(ctx):
    """open known findings of this property as TLA+ keys  <guard>:<cause>  (known key: Cxx:<cause>:<guard>)."""
    out = []
    for k in ctx.known:
        if k.get("status") != "open":
            continue
        p = k["key"].split(":")
        if len(p) == 3 and p[1].startswith("KF_"):
            out.append("%s:%s" % (p[2], p[1]))
    return sorted(set(out))


def fixed(ctx):
    """names of the proposed fixes that are recorded as committed (status fixed) for every key they cover:
    the model is then checked / validated in its fixed form (constant Fixed of spec/Dhcp.tla)."""
    st = {}
    for k in vlib.load_known():
        if k.get("fix") and k.get("property") in ("C11", "C12"):
            st.setdefault(k["fix"], []).append(k.get("status"))
    return sorted(f for f, v in st.items() if all(x == "fixed" for x in v))


def report_key(pid, tla_key):
    g, c = tla_key.split(":")
    return "%s:%s:%s" % (pid, c, g)


def tla_set(xs, quote=True):
    return "{" + ", ".join(('"%s"' % x) if quote else str(x) for x in xs) + "}"


def shape_consts(shape, mode):
    s = SHAPES[shape] if isinstance(shape, int) else shape
    return ("  N1 = %(N1)d\n  Net2Lo = %(Net2Lo)d\n  Net2Hi = %(Net2Hi)d\n  HostA = %(HostA)d\n  RouterA = %(RouterA)d\n" % s +
            "  ExtA = {1000, 1001}\n  NoA = 9000\n  BcastA = 9999\n  Mode = \"%s\"\n  Fixed = %s\n" % (mode, tla_set(FIXED)))


# ---------------------------------------------------------------------------------------------
# model checking

def mc_cfg(shape, mode, depth, check, tol, ncid=2, special=(7, 3), foreign=(3,), prls=("none",), clients="ClientsDiag",
           maxtog=2, maxtick=1, maxenv=1, restart=False, export_every=0, export_fail_every=0, symmetry=True, view=True,
           strict=False):
    cids = ["c%d" % i for i in range(1, ncid + 1)]
    inv = ["MCTypeOK", "Strict" if strict else "OnlyTolerated"]
    if export_every or export_fail_every:
        inv.insert(0, "Export")
    return ("SPECIFICATION Spec\nCONSTANTS\n" + shape_consts(shape, mode) +
            "  CIDs = %s\n  MACs = %s\n" % (tla_set(cids, False), tla_set(cids, False)) +
            "  Own = own\n  Router = router\n  Stranger = stranger\n  NoMac = nomac\n  XIDs = {x1, x2}\n  NoX = nox\n" +
            "  MaxDepth = %d\n  Clients <- %s\n  SpecialA = %s\n  ForeignA = %s\n  PRLs = %s\n  XidAux = x1\n" %
            (depth, clients, tla_set(special, False), tla_set(foreign, False), tla_set(prls)) +
            "  MaxTog = %d\n  MaxTick = %d\n  MaxEnv = %d\n  WithRestart = %s\n" % (maxtog, maxtick, maxenv, "TRUE" if restart else "FALSE") +
            "  Tolerated = %s\n  CheckFam = %s\n  ExportEvery = %d\n  ExportFailEvery = %d\n" %
            (tla_set(tol), tla_set(check), export_every, export_fail_every) +
            "INVARIANTS %s\n%s%sCHECK_DEADLOCK FALSE\n" % (" ".join(inv), "VIEW View\n" if view else "", "SYMMETRY Sym2\n" if symmetry else ""))


def run_mc(ctx, label, cfg, timeout=1500, heap="8g", workers=None):
    workers = workers or min(ctx.workers, int(os.environ.get("VERIF_TLC_WORKERS", "8")))
    r = vlib.tlc(ctx, "DhcpMC", cfg="mc.cfg", files={"mc.cfg": cfg}, timeout=timeout, heap=heap, workers=workers,
                 jprops={"tlc2.tool.queue.IStateQueue": "MemStateQueue"}, keep_out=False)
    r.label = label
    return r


def behaviours_of(r):
    """exported histories: list of (history, set of model-level failure keys)."""
    out, cex = [], None
    for j in r.json:
        if isinstance(j, dict) and "h" in j:
            out.append((j["h"], j.get("v", [])))
        elif isinstance(j, dict) and "cex" in j:
            cex = (j["cex"], j.get("keys", []))
    return out, cex


def run_sim(ctx, shape, mode, depth, num, check, tol, timeout=600, **kw):
    cfg = mc_cfg(shape, mode, depth, check, tol, export_every=1, symmetry=False, view=False, **kw)
    r = vlib.tlc(ctx, "DhcpMC", cfg="sim.cfg", files={"sim.cfg": cfg}, timeout=timeout, workers=4,
                 simulate="num=%d" % max(1, num // 4), depth=depth + 1, seed=ctx.seed, heap="4g", keep_out=False)
    return r


# ---------------------------------------------------------------------------------------------
# seeded random histories over larger universes (6 clients) and all prefix configurations

def random_script(rng, shape, length):
    s = SHAPES[shape]
    n1, lo2, hi2, host, router = s["N1"], s["Net2Lo"], s["Net2Hi"], s["HostA"], s["RouterA"]
    ncl = rng.randint(2, 6)
    clients = ["c%d" % i for i in rng.sample(range(1, 7), ncl)]
    cross = rng.random() < 0.15             # a client id shows up from a second MAC
    special = [n1 - 1, 0, lo2, hi2, host, router, EXT, EXT + 1, min(n1 - 2, lo2 + 2), rng.randrange(1, n1 - 1), rng.randrange(1, n1 - 1)]
    if n1 > 256:
        special += [255, 256, n1 - 1, 0, n1 - 2]          # x.y.0.255 / x.y.1.0 inside the LAN, true broadcast / network
    xids = ["x1", "x2", "x3", "x4"]
    out = []

    def addr(k, none_p=0.2):
        x = rng.random()
        if x < none_p:
            return NOA, "lit"
        if x < none_p + 0.35:
            return rng.choice(special), rng.choice(["offer:" + k, "ip:" + k])
        if x < none_p + 0.55:
            j = rng.choice(clients)
            return rng.choice(special), rng.choice(["offer:" + j, "ip:" + j])
        return rng.choice(special), "lit"

    for _ in range(length):
        k = rng.choice(clients)
        m = rng.choice(clients) if cross and rng.random() < 0.3 else k
        prl = rng.choice(["none", "none", "mr", "rm", "m", "r", "n"])
        x = rng.random()
        if x < 0.30:
            a, sy = addr(k, 0.5)
            out.append({"a": "discover", "k": k, "m": m, "req": a, "reqs": sy, "xid": rng.choice(xids), "prl": prl})
            if rng.random() < 0.1:
                out[-1]["gi"] = rng.choice([lo2 + 2, 2 if lo2 > 3 else min(n1 - 2, hi2 + 2), EXT])
            if rng.random() < 0.1:
                out[-1]["bf"] = True
        elif x < 0.52:
            a, sy = addr(k, 0.05)
            if rng.random() < 0.8:
                sy = "offer:" + k
            out.append({"a": "request", "k": k, "m": m, "sid": rng.choice(["us", "us", "us", "other"]), "ropt": a, "ropts": sy,
                        "ci": NOA, "cis": "lit", "srck": "zero", "xid": rng.choice(xids[:2]), "prl": prl})
        elif x < 0.66:
            a, sy = addr(k, 0.05)
            if rng.random() < 0.7:
                sy = "ip:" + k
            out.append({"a": "request", "k": k, "m": m, "sid": "none", "ropt": NOA, "ropts": "lit", "ci": a, "cis": sy,
                        "srck": rng.choice(["ci", "ci", "zero", "bcast"]), "xid": rng.choice(xids), "prl": prl})
        elif x < 0.72:
            a, sy = addr(k, 0.05)
            if rng.random() < 0.7:
                sy = "ip:" + k
            ci, cs = (NOA, "lit") if rng.random() < 0.5 else (rng.choice(special), rng.choice(["ip:" + k, "ip:" + k, "ip:" + rng.choice(clients), "lit"]))
            out.append({"a": "request", "k": k, "m": m, "sid": "none", "ropt": a, "ropts": sy, "ci": ci, "cis": cs,
                        "srck": rng.choice(["zero", "zero", "ci"]) if ci != NOA else "zero", "xid": rng.choice(xids), "prl": prl})
        elif x < 0.78:
            a, sy = addr(k, 0.1)
            out.append({"a": "decline", "k": k, "m": m, "ropt": a, "ropts": rng.choice(["ip:" + k, "offer:" + k, sy]),
                        "sid": rng.choice(["us", "us", "other"])})
        elif x < 0.81:
            a, sy = addr(k, 0.0)
            out.append({"a": "release", "k": k, "m": m, "ci": a, "cis": "ip:" + k, "sid": "us"})
        elif x < 0.88:
            out.append({"a": rng.choice(["capture", "capture", "uncapture"]), "m": rng.choice(clients)})
        elif x < 0.93:
            out.append({"a": "tick", "far": rng.random() < 0.3})
        elif x < 0.97:
            a, sy = addr(k, 0.0)
            if a >= n1:
                a = rng.randrange(1, n1 - 1)
            out.append({"a": "foreign", "m": rng.choice(clients + ["stranger"]), "ip": a, "ips": sy})
        elif x < 0.975:
            out.append({"a": "purge"})
        elif x < 0.985:
            out.append({"a": "age"})
        else:
            out.append({"a": rng.choice(["restart", "restart", "reload", "reload", "reconf"])})
    return out


def lifecycle_script(rng, shape, length):
    """Mostly well-behaved clients: DISCOVER/REQUEST handshakes, renewals, re-discoveries, INIT-REBOOT, declines,
    capture toggles followed by a new handshake, minute ticks, restarts of the server, a few anomalies
    (a second MAC presenting a known client id, a REQUEST with a stale xid, traffic from a leased address)."""
    s = SHAPES[shape]
    n1 = s["N1"]
    pool = ["c%d" % i for i in rng.sample(range(1, 7), rng.randint(3, 5))]
    active = []
    out = []
    xid = {}

    lo2, hi2 = s["Net2Lo"], s["Net2Hi"]
    other = [a for a in (lo2 + 2, hi2 - 1, max(2, lo2 - 2), 255, 256, n1 - 1, 0) if 0 <= a < n1]

    def toggle(k):
        # a capture / release of the client's MAC may fall between any two of its messages
        if rng.random() < 0.12:
            out.append({"a": rng.choice(["capture", "uncapture"]), "m": k})

    if n1 > 256:
        other += [7, 263, 40, 296]          # pairs equal in the last octet (x.y.0.7 / x.y.1.7)
    gis = [lo2 + 2, max(2, lo2 - 2) if lo2 > 3 else hi2 + 2 if hi2 + 2 < n1 else 2, EXT]     # relay agent in net2 / in the home-only part / off-LAN

    def relay(rec):
        # BOOTP header fields the server must not let override the capture state: giaddr (+hops, secs), broadcast flag
        if rng.random() < 0.12:
            rec["gi"] = rng.choice(gis)
        if rng.random() < 0.1:
            rec["bf"] = True
        return rec

    def dora(k, m=None, prl="none", stale_xid=False):
        m = m or k
        x = rng.choice(["x1", "x2", "x3", "x4"])
        xid[k] = x
        u = rng.random()
        req = (NOA, "lit") if u < 0.5 else (NOA, "ip:" + k) if u < 0.8 else (rng.choice(other), "lit")
        out.append(relay({"a": "discover", "k": k, "m": m, "req": req[0], "reqs": req[1], "xid": x, "prl": prl}))
        toggle(m)
        if rng.random() < 0.15:
            out.append({"a": "age"})                                      # the offer is not taken up in time
        if rng.random() < 0.2:                                            # retransmitted DISCOVER
            out.append({"a": "discover", "k": k, "m": m, "req": req[0], "reqs": req[1], "xid": x, "prl": prl})
            toggle(m)
        x2 = rng.choice([y for y in ["x1", "x2", "x3", "x4"] if y != x]) if stale_xid else x
        out.append(relay({"a": "request", "k": k, "m": m, "sid": "us", "ropt": NOA, "ropts": "offer:" + k, "ci": NOA, "cis": "lit",
                          "srck": "zero", "xid": x2, "prl": prl}))

    def expiry_takeover(a, b):
        # a's lease expires, the session forgets a, b asks for a's address and gets it; a comes back with two DISCOVERs
        # of different xids and selects
        out.append({"a": "tick", "far": True})
        out.append({"a": "purge"})
        out.append({"a": "discover", "k": b, "m": b, "req": NOA, "reqs": "ip:" + a, "xid": "x1", "prl": "none"})
        out.append({"a": "request", "k": b, "m": b, "sid": "us", "ropt": NOA, "ropts": "offer:" + b, "ci": NOA, "cis": "lit", "srck": "zero", "xid": "x1", "prl": "none"})
        if rng.random() < 0.5:
            out.append({"a": "purge"})
        out.append({"a": "discover", "k": a, "m": a, "req": NOA, "reqs": "lit", "xid": "x2", "prl": "none"})
        out.append({"a": "discover", "k": a, "m": a, "req": NOA, "reqs": "lit", "xid": "x3", "prl": "none"})
        out.append({"a": "request", "k": a, "m": a, "sid": "us", "ropt": NOA, "ropts": "offer:" + a, "ci": NOA, "cis": "lit", "srck": "zero", "xid": "x3", "prl": "none"})

    def cross_subnet(a, b):
        # a (captured or not) holds an address, the session forgets it, a client of the OTHER capture state asks for exactly that address
        out.append({"a": "purge"})
        if rng.random() < 0.5:
            out.append({"a": "capture", "m": b})
        else:
            out.append({"a": "uncapture", "m": b})
        out.append({"a": "discover", "k": b, "m": b, "req": NOA, "reqs": "ip:" + a, "xid": "x4", "prl": "none"})
        out.append({"a": "request", "k": b, "m": b, "sid": "us", "ropt": NOA, "ropts": "offer:" + b, "ci": NOA, "cis": "lit", "srck": "zero", "xid": "x4", "prl": "none"})

    def holder_rediscovers(a, b):
        # the holder of a valid lease sends a fresh DISCOVER (its lease waits in discover state), the session forgets the
        # address (purge of the silent holder, or a new handler / process), a competitor asks for exactly that address and
        # selects what it is offered, then the holder selects its re-offer
        out.append({"a": "discover", "k": a, "m": a, "req": NOA, "reqs": "ip:" + a, "xid": "x2", "prl": "none"})
        out.append({"a": rng.choice(["purge", "purge", "reload"])})
        out.append({"a": "discover", "k": b, "m": b, "req": NOA, "reqs": "ip:" + a, "xid": "x3", "prl": "none"})
        out.append({"a": "request", "k": b, "m": b, "sid": "us", "ropt": NOA, "ropts": "offer:" + b, "ci": NOA, "cis": "lit", "srck": "zero", "xid": "x3", "prl": "none"})
        out.append({"a": "request", "k": a, "m": a, "sid": "us", "ropt": NOA, "ropts": "offer:" + a, "ci": NOA, "cis": "lit", "srck": "zero", "xid": "x2", "prl": "none"})

    for k in pool[:rng.randint(2, 3)]:
        if rng.random() < 0.25:
            out.append({"a": "capture", "m": k})
        dora(k, prl=rng.choice(["none", "none", "mr", "rm", "m", "r", "n"]))
        active.append(k)
    while len(out) < length:
        x = rng.random()
        k = rng.choice(active)
        if x < 0.16:
            out.append({"a": "request", "k": k, "m": k, "sid": "none", "ropt": NOA, "ropts": "lit", "ci": NOA, "cis": "ip:" + k,
                        "srck": rng.choice(["ci", "ci", "zero", "bcast"]), "xid": rng.choice(["x1", "x2"]), "prl": "none"})
        elif x < 0.30:
            new = [c for c in pool if c not in active]
            if new:
                if rng.random() < 0.2:
                    out.append({"a": "capture", "m": new[0]})
                dora(new[0])
                active.append(new[0])
            else:
                dora(k)
        elif x < 0.36:
            dora(k, stale_xid=rng.random() < 0.25)                       # re-discovery (INIT)
        elif x < 0.40:
            # interleaved handshakes: k re-discovers, another client completes its handshake, then k selects
            j = rng.choice([c for c in pool if c != k])
            xk = rng.choice(["x1", "x2", "x3"])
            out.append({"a": "discover", "k": k, "m": k, "req": NOA, "reqs": "ip:" + k, "xid": xk, "prl": "none"})
            dora(j)
            if j not in active:
                active.append(j)
            out.append({"a": "request", "k": k, "m": k, "sid": "us", "ropt": NOA, "ropts": "offer:" + k, "ci": NOA, "cis": "lit",
                        "srck": "zero", "xid": xk, "prl": "none"})
            if rng.random() < 0.5:
                out.append({"a": rng.choice(["restart", "reload"])})
        elif x < 0.48:
            if rng.random() < 0.6:
                out.append({"a": "request", "k": k, "m": k, "sid": "none", "ropt": NOA, "ropts": "ip:" + k, "ci": NOA, "cis": "lit",
                            "srck": "zero", "xid": rng.choice(["x1", "x2"]), "prl": rng.choice(["none", "m", "r", "n"])})   # INIT-REBOOT for the old address
            else:
                # non-RFC but accepted: option 50 names one address, ciaddr another (option 50 decides)
                j = rng.choice(active)
                out.append({"a": "request", "k": k, "m": k, "sid": "none", "ropt": rng.choice(other), "ropts": rng.choice(["ip:" + j, "ip:" + k, "lit"]),
                            "ci": NOA, "cis": "ip:" + k, "srck": rng.choice(["zero", "ci"]), "xid": rng.choice(["x1", "x2"]), "prl": "none"})
        elif x < 0.54:
            out.append({"a": "decline", "k": k, "m": k, "ropt": NOA, "ropts": "ip:" + k, "sid": "us"})
        elif x < 0.62:
            out.append({"a": rng.choice(["capture", "uncapture"]), "m": k})
            if rng.random() < 0.7:
                dora(k)
        elif x < 0.72:
            out.append({"a": "tick", "far": rng.random() < 0.45})
        elif x < 0.79:
            out.append({"a": rng.choice(["restart", "restart", "restart", "reload", "reload", "reload", "reconf"])})
        elif x < 0.82:
            # hot swap: replacement built first, it acknowledges something, then the old handler is closed, then a restart
            out.append({"a": "spawn"})
            new = [c for c in pool if c not in active]
            if new and rng.random() < 0.6:
                dora(new[0])
                active.append(new[0])
            else:
                dora(k)
            out.append({"a": "closeold"})
            if rng.random() < 0.6:
                out.append({"a": rng.choice(["restart", "reload"])})
        elif x < 0.845:
            j = rng.choice(pool)
            if j != k:
                dora(k, m=j)                                             # known client id from another MAC
        elif x < 0.87:
            j = rng.choice(pool)
            if j != k:
                if rng.random() < 0.5:
                    out.append({"a": rng.choice(["capture", "uncapture"]), "m": k})
                dora(j, m=k)                                             # known MAC under another client id (option 61 appears / changes)
        elif x < 0.88:
            j = rng.choice([c for c in pool if c != k])
            if j not in active:
                active.append(j)
            expiry_takeover(k, j)
        elif x < 0.895:
            j = rng.choice([c for c in pool if c != k])
            if j not in active:
                active.append(j)
            holder_rediscovers(k, j)
        elif x < 0.91:
            j = rng.choice([c for c in pool if c != k])
            if j not in active:
                active.append(j)
            cross_subnet(k, j)
        elif x < 0.925:
            out.append({"a": "foreign", "m": rng.choice(pool + ["stranger"]), "ip": rng.randrange(1, n1 - 1), "ips": "ip:" + k})
        elif x < 0.94:
            out.append({"a": "purge"})
        elif x < 0.97:
            out.append({"a": "request", "k": k, "m": k, "sid": "other", "ropt": NOA, "ropts": "offer:" + k, "ci": NOA, "cis": "lit",
                        "srck": "zero", "xid": xid.get(k, "x1"), "prl": "none"})
        else:
            out.append({"a": "release", "k": k, "m": k, "ci": NOA, "cis": "ip:" + k, "sid": "us"})
    return out[:length + 1]


# ---------------------------------------------------------------------------------------------
# driving and validating

ARGS = ("a", "k", "m", "req", "reqs", "xid", "prl", "sid", "ropt", "ropts", "ci", "cis", "srck", "far", "ip", "ips",
        "cfg", "mode", "id", "name", "gi", "bf")


def build_driver(ctx):
    try:
        return vlib.go_build(ctx, "dhcpdrv")
    except vlib.InfraError as ex:
        if "VerifLeases" in str(ex) or "VerifCursors" in str(ex) or "VerifResetStorm" in str(ex):
            raise vlib.InfraError("verification hook missing in %s/handlers/dhcp4_spoofer: apply hooks/dhcp4_verif.patch "
                                  "(adds verif_on.go with VerifLeases / VerifCursors / VerifResetStorm)" % vlib.REPO) from ex
        raise


def drive(ctx, binary, script_lines, tag, shared=False, frames=None, scribble=None):
    """Run the driver on a list of script lines (dicts). Returns (trace lines as dicts, summary)."""
    sp = os.path.join(ctx.scratch, tag + ".script")
    tp = os.path.join(ctx.scratch, tag + ".trace")
    dd = os.path.join(ctx.scratch, tag + ".d")
    os.makedirs(dd, exist_ok=True)
    vlib.write_ndjson(sp, script_lines)
    args = ["-script", sp, "-out", tp, "-dir", dd]
    if shared:
        args.append("-shared")
    if scribble is not None:
        args += ["-scribble", scribble]
    if frames:
        args += ["-frames", frames]
    p = vlib.run_driver(ctx, binary, args, timeout=900)
    return tp, json.loads(p.stdout.strip().splitlines()[-1])


def hot_swap(rng, h):
    """Split half of the 'reload' steps of a history into 'spawn' (replacement handler built while the old one is still
    open) and a later 'closeold' (the old handler is closed after 0..n further steps): Close must not touch the file."""
    if not any(a.get("a") == "reload" for a in h) or rng.random() < 0.5:
        return h
    out, pending = [], None
    for i, a in enumerate(h):
        if a.get("a") == "reload" and pending is None:
            out.append({"a": "spawn"})
            pending = rng.randint(0, 3)
            continue
        out.append(a)
        if pending is not None:
            if pending == 0:
                out.append({"a": "closeold"})
                pending = None
            else:
                pending -= 1
    if pending is not None:
        out.append({"a": "closeold"})
    return out


def script_of(behaviours, cfgs, mode, start_id=0):
    lines = []
    for i, h in enumerate(behaviours):
        lines.append({"a": "reset", "cfg": cfgs[i % len(cfgs)], "mode": mode, "id": start_id + i, "storm": 1 if i % 97 == 0 else 0})
        lines += h
    return lines


def trace_cfg(shape, mode, tmode, check, tol):
    return ("SPECIFICATION TraceSpec\nCONSTANTS\n  TMode = \"%s\"\n  TraceFile = \"trace.ndjson\"\n  Check = %s\n  Tolerate = %s\n" %
            (tmode, tla_set(check), tla_set(tol)) + shape_consts(shape, mode) +
            "  CIDs = {\"c1\", \"c2\", \"c3\", \"c4\", \"c5\", \"c6\"}\n  MACs = {\"c1\", \"c2\", \"c3\", \"c4\", \"c5\", \"c6\"}\n"
            "  Own = \"own\"\n  Router = \"router\"\n  Stranger = \"stranger\"\n  NoMac = \"nomac\"\n"
            "  XIDs = {\"x1\", \"x2\", \"x3\", \"x4\"}\n  NoX = \"nox\"\n"
            "CONSTRAINT Mark\nCONSTRAINT Props\nPOSTCONDITION TraceAccepted\nCHECK_DEADLOCK FALSE\n")


def validate(ctx, trace_path, shape, mode, tmode, check, tol, timeout=1800):
    """TLC trace validation. Returns (verdict, known, tlcresult):
       verdict = ('accepted', n) | ('rejected', line) | ('property', line, [keys]); known = [(line, key)]"""
    r = vlib.tlc(ctx, "DhcpTrace", cfg="t.cfg", files={"t.cfg": trace_cfg(shape, mode, tmode, check, tol), "trace.ndjson": trace_path},
                 workers=1, timeout=timeout, heap="6g", keep_out=True)
    known = []
    m = re.search(r'<<"KNOWN", "(.*)">>', r.out)
    if m:
        try:
            known = [(int(a), b) for a, b in json.loads(m.group(1).replace('\\"', '"'))]
        except Exception:
            known = []
    m = re.search(r'<<"PROPERTY", "line", (\d+), "(.*)">>', r.out)
    if m:
        return ("property", int(m.group(1)), json.loads(m.group(2).replace('\\"', '"'))), known, r
    m = re.search(r'<<"REJECTED", "line", (\d+)>>', r.out)
    if m:
        return ("rejected", int(m.group(1))), known, r
    m = re.search(r'<<"ACCEPTED", (\d+)>>', r.out)
    if m and r.ok:
        return ("accepted", int(m.group(1))), known, r
    raise vlib.InfraError("trace validation gave no verdict:\n" + r.out[-3000:])


def split_behaviours(trace_path):
    """list of behaviours, each a list of raw lines (first is the reset line)."""
    out = []
    with open(trace_path) as f:
        for x in f:
            if not x.strip():
                continue
            if '"a":"reset"' in x and json.loads(x).get("a") == "reset":
                out.append([])
            out[-1].append(x)
    return out


def args_of(lines):
    """replayable script (arguments as executed: symbolic arguments are already resolved)."""
    out = []
    for x in lines:
        e = json.loads(x)
        d = {k: e[k] for k in ARGS if k in e}
        for sym in ("reqs", "ropts", "cis", "ips"):
            if sym in d:
                d[sym] = "lit"
        if e.get("a") == "request":
            d["srck"] = "zero" if e.get("src") == NOA else "bcast" if e.get("src") == BCAST else "ci"
        out.append(d)
    return out


def confirm(ctx, binary, script, shape, mode, check, want_keys, tag="confirm", tol=(), shared=False):
    """Re-execute one behaviour on the real code and validate it in property mode, tolerating every
    key except the wanted ones. True if one of want_keys shows again."""
    tp, st = drive(ctx, binary, script, tag, shared=shared, scribble=0.0 if shared else None)
    if st.get("panics"):
        return True, "panic"
    want = set(want_keys)
    allow = set(tol) - want
    seen = set()
    for _ in range(8):
        v, known, _ = validate(ctx, tp, shape, mode, "P", check, sorted(allow), timeout=300)
        seen |= set(k for _, k in known)
        if v[0] != "property":
            break
        seen |= set(v[2])
        if want & set(v[2]):
            break
        allow |= set(v[2])
    return bool(want & seen), sorted(seen)


class Group:
    """behaviours that share shape and mode (one TLC constant set)."""

    def __init__(self, label, shape, cfgs, mode, behaviours, shared=False):
        self.label, self.shape, self.cfgs, self.mode, self.behaviours = label, shape, cfgs, mode, behaviours
        self.shared = shared        # one reused receive buffer, overwritten by the next frame and scribbled over after half of the steps


def check_group(ctx, binary, g, check, tol, stats):
    """drive + validate one group; reports through ctx. Returns per-group result dict."""
    pid = ctx.pid
    res = {"label": g.label, "shape": g.shape, "mode": g.mode, "behaviours": len(g.behaviours), "lines": 0,
           "validated_lines": 0, "mechanism_conformant": 0, "drift": [], "known": {}, "tlc_states": 0}
    tp, st = drive(ctx, binary, script_of(g.behaviours, g.cfgs, g.mode), g.label, shared=g.shared, scribble=0.5 if g.shared else None)
    res.update(st)
    res["shared_buffer"] = g.shared
    chunks = split_behaviours(tp)
    if len(chunks) != len(g.behaviours):
        raise vlib.InfraError("driver produced %d behaviours for %d scripted" % (len(chunks), len(g.behaviours)))
    res["lines"] = sum(len(c) for c in chunks)
    # a panic inside the library during a history
    for c in chunks:
        for x in c:
            if '"panic"' in x:
                e = json.loads(x)
                ctx.report("%s:panic:%s" % (pid, e.get("a")), "handler panicked during a history: %s" % e.get("panic"),
                           {"script": args_of(c), "cfg": json.loads(c[0])["cfg"], "mode": g.mode, "shape": g.shape, "panic": e.get("panic")})
                break
    live = list(range(len(chunks)))
    known_hits, known_count = {}, {}
    for _ in range(8):
        cur = os.path.join(ctx.scratch, g.label + ".cur")
        with open(cur, "w") as f:
            for i in live:
                f.writelines(chunks[i])
        offs, n = [], 0
        for i in live:
            offs.append((n + 1, n + len(chunks[i]), i))
            n += len(chunks[i])
        v, known, r = validate(ctx, cur, g.shape, g.mode, "M", check, tol)
        res["tlc_states"] += r.distinct

        def owner(line):
            for a, b, i in offs:
                if a <= line <= b:
                    return i
            return None
        for line, key in known:
            known_hits.setdefault(key, owner(line))
            known_count[key] = known_count.get(key, 0) + 1
        if v[0] == "accepted":
            res["validated_lines"] += v[1]
            res["mechanism_conformant"] += len(live)
            break
        bad = owner(v[1])
        if bad is None:
            raise vlib.InfraError("verdict %s outside the trace" % (v,))
        done_before = [i for a, b, i in offs if b < v[1] and i != bad]
        res["mechanism_conformant"] += len(done_before)
        res["validated_lines"] += sum(len(chunks[i]) for i in done_before)
        script = args_of(chunks[bad])
        cfgi = json.loads(chunks[bad][0])["cfg"]
        if v[0] == "rejected":
            # mechanism-level mismatch: decide this behaviour at property level
            one = os.path.join(ctx.scratch, g.label + ".one")
            with open(one, "w") as f:
                f.writelines(chunks[bad])
            v1, known1, _ = validate(ctx, one, g.shape, g.mode, "P", check, tol, timeout=300)
            for line, key in known1:
                known_hits.setdefault(key, bad)
            if v1[0] == "accepted":
                stats["drift"].append({"source": g.label, "behaviour": bad, "line": v[1] - [a for a, b, i in offs if i == bad][0] + 1,
                                       "step": script[min(len(script) - 1, v[1] - [a for a, b, i in offs if i == bad][0])]})
                res["drift"].append(bad)
                res["validated_lines"] += len(chunks[bad])
            elif v1[0] == "property":
                v = ("property", v1[1], v1[2])
            else:
                raise vlib.InfraError("property-mode validation rejected line %d of behaviour %d (%s)" % (v1[1], bad, g.label))
        if v[0] == "property":
            keys = v[2]
            for attempt in range(6):      # findByIP depends on Go map order when two leases hold one address: allow a few attempts
                ok, info = confirm(ctx, binary, [dict(a="reset", cfg=cfgi, mode=g.mode, id=0, storm=0)] + script[1:], g.shape, g.mode, check, keys, tag=g.label + ".confirm", tol=tol, shared=g.shared)
                if ok:
                    break
            if not ok:
                # uniform verdict policy: an observation that does not reproduce is recorded and logged, never a verdict, never exit 2
                vlib.log("  [%s] property failure %s of behaviour %d did not reproduce in 6 attempts (%s)" % (g.label, keys, bad, info))
                stats.setdefault("unreproduced", []).append({"source": g.label, "behaviour": bad, "keys": keys, "script": script[:40]})
                keys = []
            for key in keys:
                ctx.report(report_key(pid, key), "real handler contradicts %s (%s) in history %s" % (key.split(":")[0], key.split(":")[1], json.dumps(script[1:])[:400]),
                           {"script": script, "cfg": cfgi, "mode": g.mode, "shape": g.shape, "keys": keys, "shared": g.shared})
        live = [i for i in live if i != bad and i not in set(done_before)]
        if not live:
            break
    else:
        stats["incomplete"].append(g.label)
    # known findings seen: reproduce each key once per run, then report (listed -> KNOWN-FINDING)
    for key, owner_i in known_hits.items():
        res["known"][key] = known_count.get(key, 0)
        if key in stats["known_reported"] or owner_i is None:
            continue
        script = args_of(chunks[owner_i])
        cfgi = json.loads(chunks[owner_i][0])["cfg"]
        for attempt in range(6):
            ok, info = confirm(ctx, binary, [dict(a="reset", cfg=cfgi, mode=g.mode, id=0, storm=0)] + script[1:], g.shape, g.mode, check, [key], tag=g.label + ".confirm-kf", tol=tol, shared=g.shared)
            if ok:
                break
        if not ok:
            vlib.log("  [%s] known finding %s did not reproduce in 6 attempts (%s)" % (g.label, key, info))
            stats.setdefault("unreproduced", []).append({"source": g.label, "behaviour": owner_i, "keys": [key], "script": script[:40]})
            continue
        stats["known_reported"].add(key)
        c = key.split(":")[1]
        ctx.report(report_key(pid, key), KF_WHAT.get(c, c), {"script": script, "cfg": cfgi, "mode": g.mode, "shape": g.shape, "keys": [key]})
    return res


def c10_part(ctx):
    """C10 (retained state never aliases the caller's packet buffer), DHCP half: the same histories are executed twice,
    every frame in a fresh buffer vs. all frames in ONE receive buffer that is scribbled over after each step; the two
    transcripts (replies, lease table, cursors, session projection, lease file, and every DHCP frame the handler wrote
    in canonical form, forged decline/release frames per behaviour) must be identical.
    Differences are reported through ctx.report with keys C10:dhcp:<differing fields>.
    Returns (evaluations, distinct_nontrivial) = (steps compared, distinct histories of length >= 2)."""
    binary = build_driver(ctx)
    rng = random.Random(ctx.seed + 1010)
    n = 60 if ctx.quick else 600
    lines, i, distinct, hs_all = [], 0, set(), []
    for shape in (0, 2, 3):
        for mode in MODES:
            hs = [lifecycle_script(rng, shape, 30) for _ in range(n // 9)] + [random_script(rng, shape if shape else 2, 20) for _ in range(n // 18)] if shape else \
                 [lifecycle_script(rng, shape, 30) for _ in range(n // 9)]
            for h in hs:
                # environment event of the C10 histories: the device refuses the next write with a temporary error
                h2 = []
                for st in h:
                    if st.get("a") in ("discover", "request") and rng.random() < 0.08:
                        h2.append({"a": "tempfail"})
                    h2.append(st)
                h[:] = h2
                lines.append({"a": "reset", "cfg": shape, "mode": mode, "id": i, "storm": 1 if i % 40 == 0 else 0})
                lines += h
                hs_all.append((shape, mode, h))
                distinct.add(vlib.digest(h))
                i += 1
    sp = os.path.join(ctx.scratch, "c10dhcp.script")
    vlib.write_ndjson(sp, lines)
    outs = []
    for tag, extra in (("fresh", []), ("shared", ["-shared"])):
        tp = os.path.join(ctx.scratch, "c10dhcp.%s.trace" % tag)
        dd = os.path.join(ctx.scratch, "c10dhcp.%s.d" % tag)
        os.makedirs(dd, exist_ok=True)
        vlib.run_driver(ctx, binary, ["-script", sp, "-out", tp, "-dir", dd, "-txlog"] + extra, timeout=900)
        outs.append(open(tp).read().splitlines())
    a, b = outs
    if len(a) != len(b):
        raise vlib.InfraError("C10 dhcp: transcripts have different length (%d / %d)" % (len(a), len(b)))
    # behaviours whose transcripts differ
    beh, steps, differing = -1, 0, {}
    for x, y in zip(a, b):
        if x.startswith('{"a":"reset"') or '"a":"reset"' in x[:60]:
            if json.loads(x).get("a") == "reset":
                beh += 1
        steps += 1
        if x != y and beh not in differing:
            differing[beh] = (x, y)
    # histories whose outcome depends on Go map order are no evidence about the receive buffer: two leases holding one
    # address (a freed lease keeps its last address: KF_StaleLeaseShadows) make findByIP order dependent
    shadow_fixed = "shadow" in fixed(ctx)      # since 746292d findByIP ignores freed leases: only live duplicates are order dependent
    maporder, bi = set(), -1
    for lines in (a, b):
        bi = -1
        for x in lines:
            e = json.loads(x)
            if e.get("a") == "reset":
                bi += 1
            ips = [l["ip"] for l in e.get("leases", []) if l["ip"] != NOA and (l["st"] != "free" or not shadow_fixed)]
            if len(ips) != len(set(ips)):
                maporder.add(bi)
    nondet = [{"behaviour": i, "verdict": "two leases hold one address (map order)"} for i in sorted(maporder & set(differing))]
    for bi, (x, y) in sorted(differing.items()):
        if bi in maporder:
            continue
        shape, mode, h = hs_all[bi]
        script = [{"a": "reset", "cfg": shape, "mode": mode, "id": 0}] + h
        verdict, fields = c10_attribute(ctx, binary, script, "c10dhcp.b%d" % bi)
        if verdict != "aliasing":
            # the handler itself is not deterministic on this history (Go map order in findByIP, KF_StaleLeaseShadows;
            # a panic): runs in the SAME buffer mode differ, so the difference says nothing about the receive buffer
            nondet.append({"behaviour": bi, "verdict": verdict, "shape": shape, "mode": mode})
            continue
        dx = json.loads(x)
        key = "C10:dhcp:" + ",".join(fields)
        ctx.report(key, "dhcp4_spoofer transcript differs between fresh buffers and one reused receive buffer in %s (3 fresh runs agree, 3 shared runs agree, "
                        "fresh != shared); first difference after step %s" % (fields, json.dumps({k: dx[k] for k in ARGS if k in dx})[:300]),
                   {"kind": "dhcp", "script": script, "fields": fields})
    ctx.coverage.setdefault("nondeterministic_histories", []).extend(nondet[:20])
    ctx.coverage["nondeterministic_history_count"] = ctx.coverage.get("nondeterministic_history_count", 0) + len(nondet)
    ctx.coverage["map_order_dependent_histories_skipped"] = ctx.coverage.get("map_order_dependent_histories_skipped", 0) + len(maporder)
    return steps, len(distinct)


def c10_run(ctx, binary, script, tag, shared):
    sp = os.path.join(ctx.scratch, tag + ".script")
    tp = os.path.join(ctx.scratch, tag + ".trace")
    dd = os.path.join(ctx.scratch, tag + ".d")
    os.makedirs(dd, exist_ok=True)
    vlib.write_ndjson(sp, script)
    vlib.run_driver(ctx, binary, ["-script", sp, "-out", tp, "-dir", dd, "-txlog"] + (["-shared"] if shared else []), timeout=300)
    return open(tp).read()


def c10_attribute(ctx, binary, script, tag, n=4):
    """Is a fresh/shared difference of this history due to the receive buffer? The history is executed n times with
    fresh buffers and n times with the shared buffer: 'aliasing' only if all fresh runs agree, all shared runs agree and
    fresh != shared. Returns (verdict, differing fields)."""
    fresh = [c10_run(ctx, binary, script, "%s.f%d" % (tag, i), False) for i in range(n)]
    shared = [c10_run(ctx, binary, script, "%s.s%d" % (tag, i), True) for i in range(n)]
    if '"panic"' in fresh[0] or '"panic"' in shared[0]:
        return "panic", []
    for t in fresh + shared:
        for x in t.splitlines():
            ips = [l["ip"] for l in json.loads(x).get("leases", []) if l["ip"] != NOA and (l["st"] != "free" or "shadow" not in fixed(ctx))]
            if len(ips) != len(set(ips)):
                return "map-order", []
    if len(set(fresh)) != 1 or len(set(shared)) != 1:
        return "nondeterministic", []
    if fresh[0] == shared[0]:
        return "same", []
    fields = set()
    for x, y in zip(fresh[0].splitlines(), shared[0].splitlines()):
        if x != y:
            dx, dy = json.loads(x), json.loads(y)
            fields |= set(k for k in set(dx) | set(dy) if dx.get(k) != dy.get(k))
            break
    return "aliasing", sorted(fields)


def c10_replay(ctx, rp):
    """re-run one recorded C10 dhcp difference: True only if it is again attributable to the receive buffer."""
    binary = build_driver(ctx)
    verdict, _ = c10_attribute(ctx, binary, rp["script"], "c10dhcp.replay")
    return verdict == "aliasing"


def replay(ctx, path, check):
    obj = json.load(open(path))
    rp = obj["replay"]
    FIXED[:] = fixed(ctx)
    binary = build_driver(ctx)
    script = rp["script"]
    if rp.get("panic"):
        tp, st = drive(ctx, binary, script, "replay")
        if st.get("panics"):
            print("VIOLATION property=%s replay=%s" % (ctx.pid, path))
            return 1
        print("not reproduced: no panic")
        return 0
    ok, info = confirm(ctx, binary, script, rp["shape"], rp["mode"], check, rp["keys"], tag="replay", tol=tolerated(ctx), shared=rp.get("shared", False))
    if ok:
        print("VIOLATION property=%s replay=%s" % (ctx.pid, path))
        return 1
    print("not reproduced: %s" % (info,))
    return 0


# ---------------------------------------------------------------------------------------------

def plan(ctx, check):
    """MC / simulation / random plan per tier. Returns list of dicts."""
    q = ctx.quick
    wide = dict(special=(7, 3), foreign=(3,), prls=("none",), maxtog=2, maxtick=1, maxenv=1)
    full = dict(special=(7, 0, 3, 4, 1000, 5, 1), foreign=(3, 1), prls=("none", "rm", "m", "r"), maxtog=2, maxtick=2, maxenv=2, restart=True)
    core = dict(special=(), foreign=(), prls=("none",), maxtog=2, maxtick=1, maxenv=0)
    xmac = dict(special=(3,), foreign=(), prls=("none",), maxtog=1, maxtick=1, maxenv=0, clients="ClientsAll")   # any client id from any MAC
    low = dict(special=(15, 9), foreign=(), prls=("none",), maxtog=2, maxtick=0, maxenv=0)                         # netfilter = lower half of the LAN
    # one client, deep: retransmissions with both xids, a capture toggle between any two messages (solo_a),
    # restart / reload (same session) / changed configuration between any two messages (solo_b, solo)
    solo_a = dict(ncid=1, special=(6, 3), foreign=(), prls=("none",), maxtog=1, maxtick=0, maxenv=0)
    solo_b = dict(ncid=1, special=(6, 3), foreign=(), prls=("none",), maxtog=1, maxtick=1, maxenv=1, restart=True)
    solo = dict(ncid=1, special=(6, 3), foreign=(), prls=("none",), maxtog=3, maxtick=1, maxenv=2, restart=True)
    p = []
    if q:
        p.append(dict(kind="mc", label="mc-wide-secondary-d4", shape=0, mode="secondary", depth=4, kw=wide, every=24, fail_every=12))
        p.append(dict(kind="mc", label="mc-wide-primary-d4", shape=0, mode="primary", depth=4, kw=wide, every=24, fail_every=12))
        p.append(dict(kind="mc", label="mc-core-nice-d5", shape=0, mode="nice", depth=5, kw=core, every=24, fail_every=12))
        p.append(dict(kind="mc", label="mc-xmac-secondary-d3", shape=0, mode="secondary", depth=3, kw=dict(xmac, special=(3, 7), maxtog=1), every=2, fail_every=1))   # incl. one MAC under two client ids with a capture change in between
        p.append(dict(kind="mc", label="mc-lower-nice-d4", shape=2, mode="nice", depth=4, kw=low, every=12, fail_every=6))
        p.append(dict(kind="mc", label="mc-solo-a-nice-d6", shape=0, mode="nice", depth=6, kw=solo_a, every=12, fail_every=6))
        p.append(dict(kind="mc", label="mc-solo-b-primary-d5", shape=0, mode="primary", depth=5, kw=solo_b, every=12, fail_every=6))
        p.append(dict(kind="sim", label="sim-full-primary-d10", shape=0, mode="primary", depth=10, num=300, kw=dict(full, ncid=3)))
        p.append(dict(kind="rand", n=90, length=30))
        p.append(dict(kind="life", n=240, length=30))
    else:
        p.append(dict(kind="mc", label="mc-wide-secondary-d5", shape=0, mode="secondary", depth=5, kw=wide, every=60, fail_every=30))
        p.append(dict(kind="mc", label="mc-wide-primary-d4", shape=0, mode="primary", depth=4, kw=wide, every=8, fail_every=4))
        p.append(dict(kind="mc", label="mc-wide-nice-d4", shape=0, mode="nice", depth=4, kw=wide, every=8, fail_every=4))
        p.append(dict(kind="mc", label="mc-core-nice-d6", shape=0, mode="nice", depth=6, kw=core, every=60, fail_every=30))
        p.append(dict(kind="mc", label="mc-core-secondary-d6", shape=0, mode="secondary", depth=6, kw=core, every=60, fail_every=30))
        p.append(dict(kind="mc", label="mc-full-nice-d3", shape=0, mode="nice", depth=3, kw=full, every=4, fail_every=2))
        p.append(dict(kind="mc", label="mc-3cl-primary-d4", shape=0, mode="primary", depth=4, kw=dict(wide, ncid=3), every=20, fail_every=10))
        p.append(dict(kind="mc", label="mc-xmac-secondary-d5", shape=0, mode="secondary", depth=5, kw=xmac, every=40, fail_every=20))
        p.append(dict(kind="mc", label="mc-lower-nice-d5", shape=2, mode="nice", depth=5, kw=low, every=40, fail_every=20))
        p.append(dict(kind="mc", label="mc-solo-nice-d7", shape=0, mode="nice", depth=7, kw=solo, every=120, fail_every=60))
        p.append(dict(kind="mc", label="mc-solo-b-primary-d6", shape=0, mode="primary", depth=6, kw=solo_b, every=30, fail_every=15))
        p.append(dict(kind="mc", label="mc-solo-a-secondary-d7", shape=0, mode="secondary", depth=7, kw=solo_a, every=30, fail_every=15))
        for mode in MODES:
            p.append(dict(kind="sim", label="sim-full-%s-d14" % mode, shape=0, mode=mode, depth=14, num=800, kw=dict(full, ncid=3)))
        p.append(dict(kind="rand", n=1200, length=40))
        p.append(dict(kind="life", n=2400, length=40))
    return p


def plan_c18(ctx, check):
    """intact-restart half of C18: histories with process restarts (new session, new handler on the same file)."""
    wide = dict(special=(7, 3), foreign=(3,), prls=("none",), maxtog=1, maxtick=1, maxenv=2, restart=True)
    core = dict(special=(), foreign=(), prls=("none",), maxtog=1, maxtick=1, maxenv=2, restart=True)
    if ctx.quick:
        return [dict(kind="mc", label="mc-restart-secondary-d4", shape=0, mode="secondary", depth=4, kw=wide, every=40, fail_every=4),
                dict(kind="sim", label="sim-restart-nice-d10", shape=0, mode="nice", depth=10, num=200, kw=wide),
                dict(kind="rand", n=60, length=30), dict(kind="life", n=240, length=30)]
    return [dict(kind="mc", label="mc-restart-secondary-d5", shape=0, mode="secondary", depth=5, kw=wide, every=120, fail_every=10),
            dict(kind="mc", label="mc-restart-core-nice-d6", shape=0, mode="nice", depth=6, kw=core, every=120, fail_every=10),
            dict(kind="sim", label="sim-restart-primary-d14", shape=0, mode="primary", depth=14, num=1500, kw=wide),
            dict(kind="rand", n=600, length=40), dict(kind="life", n=3000, length=40)]


def run_family(ctx, check, plan_fn=None):
    pid = ctx.pid
    binary = build_driver(ctx)
    rng = random.Random(ctx.seed)
    tol = tolerated(ctx)
    FIXED[:] = fixed(ctx)
    ctx.coverage["model_fixes_assumed"] = list(FIXED)
    cov = ctx.coverage
    cov["tlc"] = {}
    cov["tolerated_keys"] = tol
    stats = {"drift": [], "incomplete": [], "known_reported": set()}
    groups = []
    states = trans = 0
    for it in (plan_fn or plan)(ctx, check):
        if it["kind"] == "mc":
            cfg = mc_cfg(it["shape"], it["mode"], it["depth"], check, tol, export_every=it["every"], export_fail_every=it["fail_every"], **it["kw"])
            r = run_mc(ctx, it["label"], cfg)
            bs, cex = behaviours_of(r)
            cov["tlc"][it["label"]] = r.summary()
            if cex is not None:
                # the mechanism model contradicts a guard in a way that is not a listed deviation:
                # a design-level counterexample; it counts only if the real code does the same
                vlib.log("  [%s] model-level counterexample %s" % (it["label"], cex[1]))
                groups.append(Group(it["label"] + "-cex", it["shape"], [0, 1] if it["shape"] == 0 else [it["shape"]], it["mode"], [cex[0]]))
                cov["tlc"][it["label"]]["model_counterexample"] = cex[1]
            elif not r.ok:
                raise vlib.InfraError("DhcpMC %s: model-level failure (violated=%s, error=%s)\n%s" % (it["label"], r.violated, r.error, r.out[-3000:]))
            states += r.distinct
            trans += r.generated
            hs = [hot_swap(rng, h) for h, _ in bs if h]
            if not hs and cex is None:
                raise vlib.InfraError("TLC exported no behaviours (%s)" % it["label"])
            groups.append(Group(it["label"], it["shape"], [0, 1] if it["shape"] == 0 else [it["shape"]], it["mode"], hs))
        elif it["kind"] == "sim":
            r = run_sim(ctx, it["shape"], it["mode"], it["depth"], it["num"], check, tol, **it["kw"])
            if r.violated and r.violated != "OnlyTolerated":
                raise vlib.InfraError("DhcpMC simulate: model-level failure (violated=%s error=%s)\n%s" % (r.violated, r.error, r.out[-2000:]))
            bs, cex = behaviours_of(r)
            cov["tlc"][it["label"]] = r.summary()
            hs = [hot_swap(rng, h) for h, _ in bs if len(h) >= it["depth"]]
            rng.shuffle(hs)
            hs = hs[:it["num"]]
            if cex is not None:
                hs.append(cex[0])
            groups.append(Group(it["label"], it["shape"], [0, 1], it["mode"], hs))
        elif it["kind"] == "rand":
            shapes = (3, 5) if ctx.quick else (2, 3, 4, 5)
            per = max(1, it["n"] // (3 * len(shapes)))
            for shape in shapes:
                for mode in MODES:
                    groups.append(Group("rand-s%d-%s" % (shape, mode), shape, [shape], mode,
                                        [random_script(rng, shape, it["length"]) for _ in range(per)]))
        else:
            # client life cycles on every prefix configuration and mode; a third of them with one reused receive buffer
            shapes = (0, 2, 5) if ctx.quick else (0, 2, 3, 4, 5)
            per = max(1, it["n"] // (3 * len(shapes)))
            for shape in shapes:
                for mode in MODES:
                    hs = [lifecycle_script(rng, shape, it["length"]) for _ in range(per)]
                    cut = len(hs) // 3
                    groups.append(Group("life-s%d-%s" % (shape, mode), shape, [0, 1] if shape == 0 else [shape], mode, hs[cut:]))
                    if cut:
                        groups.append(Group("life-shared-s%d-%s" % (shape, mode), shape, [0, 1] if shape == 0 else [shape], mode, hs[:cut], shared=True))
    total = 0
    distinct = set()
    samples = []
    with concurrent.futures.ThreadPoolExecutor(max_workers=4) as ex:
        futs = [(g, ex.submit(check_group, ctx, binary, g, check, tol, stats)) for g in groups if g.behaviours]
        for g, f in futs:
            res = f.result()
            cov.setdefault("runs", []).append(res)
            total += len(g.behaviours)
            for h in g.behaviours:
                if len(h) > 1:
                    distinct.add(vlib.digest(h))
            samples.append({"source": g.label, "mode": g.mode, "shape": SHAPES[g.shape], "history": g.behaviours[len(g.behaviours) // 2]})
    runs = cov.get("runs", [])
    ctx.dhcp_groups = groups
    cov.update({
        "states": states, "transitions": trans,
        "traces_validated_against_impl": total,
        "events_recorded": sum(r["lines"] for r in runs), "events_validated": sum(r["validated_lines"] for r in runs),
        "mechanism_conformant_behaviours": sum(r["mechanism_conformant"] for r in runs),
        "evaluations": total, "distinct_nontrivial": len(distinct),
        "rule": "one case = one action history executed on a real Handler+Session and validated line by line by TLC against "
                "spec/DhcpTrace.tla (replies checked against the property guards of %s); distinct = distinct action sequences of length >= 2" % "/".join(check),
        "samples": samples[:5], "drift": stats["drift"][:50], "drift_count": len(stats["drift"]),
        "exhaustive": False,
    })
    if stats["incomplete"]:
        cov["incomplete_groups"] = stats["incomplete"]
    cov["unreproduced"] = stats.get("unreproduced", [])[:20]
    cov["unreproduced_count"] = len(stats.get("unreproduced", []))
    ctx.assumptions += [
        "lease expiry is driven through MinuteTicker(now) with now before / after every expiry (the handler stamps leases with the real clock)",
        "single packet-loop goroutine; forged decline/release frames and the DISCOVER storm are separated by BOOTP op / chaddr and not judged here",
        "TLC explores the bounded universe of DhcpMC (2-3 clients, home /29 + netfilter /30); longer histories over 6 clients and /28, /24 prefixes are sampled",
        "the session (FindIP, IsCaptured, DHCPv4Update) is modelled next to the handler; its own conformance is C04-C06",
    ]
