"""C03 -- encoders and decoders are mutually inverse at every layer.
spec/Wire.tla parts A (build machine) and B (DHCPv4 option layout), spec/WireMC.tla, harness/cmd/wiredrv -build.
See DESIGN.md section 6 / C03 and checks/wire_common.py."""
import random

import wire_common as wc

import vlib

LEVEL = "exploration"


def run(ctx):
    quick = ctx.quick
    binary = wc.build_driver(ctx)
    cov = ctx.coverage
    cov["refdecoder_selftest_cases"] = wc.selftest(ctx, binary)
    cov["tlc"] = {}
    if quick:
        build_c = {"Caps": "{41, 42, 62, 342, 1522}", "NSmall": "{0, 1, 17, 18}", "PortClasses": '{"dhcp", "mdns", "plain"}',
                   "DhcpCodes": "{1, 3, 6, 51}", "MaxOpts": "4", "Parts": '{"build", "alias"}'}
        dhcp_c = {"DhcpCodes": "{1, 3, 6, 12, 33, 43, 51, 121}", "MaxOpts": "4", "ReqCodes": "{1, 3, 6, 43, 53}", "MaxReq": "2",
                  "BigCode": "43", "BigLens": "{0, 1, 64, 254, 255}",
                  "DhcpCaps": "{299, 300, 301, 1472}", "Parts": '{"dhcp"}'}
        k = 3
    else:
        build_c = {"Caps": "{41, 42, 60, 62, 342, 343, 1514, 1522}", "NSmall": "{0, 1, 2, 17, 18, 45, 46}",
                   "PortClasses": '{"dhcp", "mdns", "nbns", "ssdp", "llmnr", "plain"}',
                   "DhcpCodes": "{1, 3, 6, 12, 51, 121}", "MaxOpts": "6", "Parts": '{"build", "alias"}'}
        dhcp_c = {"DhcpCodes": "{1, 3, 6, 12, 15, 33, 51, 54, 121}", "MaxOpts": "4", "ReqCodes": "{1, 3, 6, 12, 53, 121}", "MaxReq": "3",
                  "DhcpCaps": "{299, 300, 301, 1472}", "Parts": '{"dhcp"}'}
        # second thorough run: the value length of option 43 ranges over the boundary classes
        big_c = {"DhcpCodes": "{1, 3, 6, 12, 33, 43, 51, 121}", "MaxOpts": "5", "ReqCodes": "{1, 3, 43, 53}", "MaxReq": "2",
                 "BigCode": "43", "BigLens": "{0, 1, 2, 64, 127, 128, 253, 254, 255}",
                 "DhcpCaps": "{300, 301, 600, 1472}", "Parts": '{"dhcp"}'}
        k = 8
    total_eval = 0
    distinct = set()
    samples = []
    drift_all = []
    notes_all = {}
    states = trans = 0
    all_vecs = []
    seq_keys = set()
    parts = [("build", build_c), ("dhcp", dhcp_c)]
    if not quick:
        parts.append(("dhcpbig", big_c))
    for name, consts in parts:
        vecs, r = wc.tlc_part(ctx, name, consts, timeout=2400)
        cov["tlc"][name] = r.summary()
        cov["tlc"][name]["exported"] = len(vecs)
        states += r.distinct
        trans += r.generated
        all_vecs += vecs
        results, summary = wc.drive(ctx, binary, "build", vecs, k, name, timeout=1800)
        if summary.get("instances") != len(vecs) * k:
            raise vlib.InfraError("driver executed %s of %d instances" % (summary.get("instances"), len(vecs) * k))
        total_eval += summary["instances"]
        seq_keys |= {f["key"] for r_ in results for f in r_.get("findings", []) if f["level"] == "prop"}
        drift, notes = wc.judge(ctx, binary, "build", vecs, results, k, name)
        drift_all += drift
        for kk, n in notes.items():
            notes_all[kk] = notes_all.get(kk, 0) + n
        for v in vecs:
            # non-trivial: at least one encoder action after the Ethernet header / a layout that is really encoded
            if v["part"] == "dhcp":
                if v["exp"]["res"] == "ok":
                    distinct.add(wc.abstract_digest(v))
            elif v["part"] == "alias":
                distinct.add(wc.abstract_digest(v))
            elif len(v["hist"]) >= 3:
                distinct.add(wc.abstract_digest(v))
        samples += wc.sample_vectors(vecs, 2)
        cov.setdefault("runs", []).append({"part": name, "vectors": len(vecs), "instances": summary["instances"],
                                            "driver_findings": summary.get("findings", {})})
    # concurrent stage: the same cases on several goroutines at once (no shared state between encoder calls)
    rng = random.Random(ctx.seed)
    pool = [v for v in all_vecs if v["part"] != "build" or v["final"] in ("done", "rewritten")]
    rng.shuffle(pool)
    pool = pool[:6000]
    for i, v in enumerate(pool):
        v = dict(v)
        v["id"] = i + 1
        pool[i] = v
    cs = wc.concurrent_stage(ctx, binary, pool, 6, 3 if quick else 40, "conc", sequential_keys=seq_keys)
    cov["concurrent_stage"] = cs
    total_eval += cs.get("executions", 0)
    cov.update({
        "evaluations": total_eval,
        "distinct_nontrivial": len(distinct),
        "states": states, "transitions": trans,
        "rule": "one case = one terminal state of the TLC exploration of WireMC (a complete or refused build sequence of the "
                "encoders over a capacity / payload-length class, or one (option set, requested order, capacity) DHCP layout "
                "vector), executed k times with seeded field values on the real encoders and decoded by the independent reference "
                "decoder and the library's views; distinct = distinct abstract cases by digest; non-trivial = build sequences with "
                "at least two encoder actions, layout vectors whose encoding is produced",
        "samples": samples[:4], "drift": drift_all, "notes": notes_all, "instances_per_case": k,
        "exhaustive": False,
    })
    ctx.assumptions += [
        "field values (MAC/IP/port/ttl/id/seq/xid/option bytes) are sampled from VERIF_SEED; lengths, capacities, option sets and orders are enumerated by TLC",
        "the reference decoder harness/vh/wire_refdecode.go is trusted (it shares no code with the library)",
        "concurrent stage: 6 goroutines, private buffers / generators / sessions, 3 s (quick) or 40 s (thorough); a finding there must show up in two consecutive runs of the stage",
        "ICMP checksums are filled in by the harness before reference decoding (the encoders leave them to the send path: C07)",
        "documented preconditions are respected: EncodeIP4/EncodeIP6 get at least a header of capacity, option maps fit the buffer; SetPayload/AppendPayload are exercised on header-only slices and, in the rewrite sequences, on views that already carry a payload",
        "aliased arguments: the reply-in-place patterns marked `required` in AliasCases are property level; patterns the encoders' write order cannot support are only noted",
    ]


def replay(ctx, path):
    return wc.replay(ctx, path)
