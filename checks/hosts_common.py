"""Shared pipeline of C04 / C05 / C06 (and the shared-buffer half of C10): spec/Hosts.tla.

 model side   : TLC checks HostsMC (mechanism against the property level) exhaustively to a depth
                bound and exports one action history per distinct reached state (direction A);
                `-simulate` adds deeper walks; a seeded generator adds long histories over a
                larger universe (direction B).
 code side    : harness/cmd/hostsdrv executes every history on a real packet.Session.
 binding      : TLC validates the recorded trace against spec/HostsTrace.tla in mechanism mode;
                a rejected trace is re-validated in property mode to tell VIOLATION from DRIFT.
"""
import json
import os
import random
import re

import vlib

UNIVERSE_MC = """  Own = own
  Router = router
  Clients = {m1, m2}
  HostIP = hostip
  RouterIP = routerip
  LanIPs = {a1, a2}
  ExtIPs = {%(ext)s}
  LLAs = {l1}
  GUAs = {g1}
  Slots = {dhcp, mdns}
  Dhcp = dhcp
  Llmnr = llmnr
  Names = {n1}
  NoIP = noip
  NoName = noname
  ProbeD = %(probe)d
  OfflineD = %(offline)d
  PurgeD = %(purge)d
  Never = 100000
"""

STD = (1, 2, 4)        # probe / offline / purge deadlines in time units
ALT = (1, 4, 2)        # a legal configuration with PurgeDeadline < OfflineDeadline


def mc_cfg(mode, depth, export_every, invariants, ext="", symmetry=True, steps="{1, 2, 3, 5}", dl=STD):
    spec = "SpecFree" if mode == "free" else "SpecNotify"
    inv = list(invariants)
    if export_every:
        inv = ["Export"] + inv
    return ("SPECIFICATION %s\nCONSTANTS\n" % spec + UNIVERSE_MC % {"ext": ext, "probe": dl[0], "offline": dl[1], "purge": dl[2]} +
            "  MaxDepth = %d\n  Steps = %s\n  ExportEvery = %d\n" % (depth, steps, export_every or 1) +
            "INVARIANTS %s\nVIEW View\n%sCHECK_DEADLOCK FALSE\n" % (" ".join(inv), "SYMMETRY Sym\n" if symmetry else ""))


MC_INV = {"free": ["TypeOK", "C04_Equal", "C05_All"],
          "notify": ["TypeOK", "C04_Equal", "C05_All", "C06_Exact", "C06_OneOnlineIP4PerMac"]}


def run_mc(ctx, mode, depth, export_every=1, timeout=1500, ext="", allow_timeout=False, dl=STD):
    """Exhaustive TLC run; a model-level invariant failure here means specification and reference
    disagree (design finding or spec bug), which is not a verdict about the code: exit 2.
    export_every=0: model checking only (no behaviour export)."""
    cfg = mc_cfg(mode, depth, export_every, MC_INV[mode], ext=ext, dl=dl)
    r = vlib.tlc(ctx, "HostsMC", cfg="mc.cfg", files={"mc.cfg": cfg}, timeout=timeout, heap="12g",
                 jprops={"tlc2.tool.queue.IStateQueue": "MemStateQueue"})
    if allow_timeout and getattr(r, "timed_out", False) and not r.violated:
        return r
    if not r.ok:
        raise vlib.InfraError("HostsMC %s depth %d: model-level failure (violated=%s, error=%s)\n%s" %
                              (mode, depth, r.violated, r.error, r.out[-3000:]))
    return r


def run_sim(ctx, mode, depth, num, timeout=45):
    """Random walks of the bounded model (TLC -simulate), every walk exported at full depth."""
    cfg = mc_cfg(mode, depth, 1, MC_INV[mode], symmetry=False).replace("VIEW View\n", "")
    r = vlib.tlc(ctx, "HostsMC", cfg="sim.cfg", files={"sim.cfg": cfg}, timeout=timeout, workers=4,
                 simulate="num=%d" % max(1, num // 4), depth=depth + 1, seed=ctx.seed, heap="4g")
    if r.violated or (r.error and "timeout" not in str(r.error)):
        raise vlib.InfraError("HostsMC simulate: model-level failure (violated=%s error=%s)\n%s" % (r.violated, r.error, r.out[-2000:]))
    return r


# ---------------------------------------------------------------------------------------------
# seeded random histories over the larger universe of HostsTrace_*.cfg

CLIENTS = ["m%d" % i for i in range(1, 7)]
LAN = ["a%d" % i for i in range(1, 7)]
EXT = ["x1", "x2", "x3"]
LLA = ["l%d" % i for i in range(1, 5)]
GUA = ["g%d" % i for i in range(1, 5)] + ["u1", "u2"]      # u<K>: unique local addresses
ODDMACS = ["m201", "m202"]                  # EUI-64 (8 bytes), empty: API arguments only, never a frame source
NAMES = ["n1", "n2", "n3", "n1u", "n2u"]     # n<K>u = the same name in upper case
SLOTS = ["dhcp", "mdns", "ssdp", "llmnr", "nbns"]


def random_script(rng, mode, length):
    """One history. Keeps to a few MACs/addresses per history so that re-binding, IP change and
    ageing interact; honours the (documented) usage preconditions of the free-mode actions."""
    macs = rng.sample(CLIENTS, rng.randint(1, 3)) + ["router"]
    if rng.random() < 0.25:     # a second device whose MAC shares the low four bytes with one in play (other vendor prefix)
        macs += ["m%d" % (100 + int(x[1:])) for x in macs if x[0] == "m" and int(x[1:]) <= 3][:1]
    lan = rng.sample(LAN, rng.randint(1, 3)) + rng.sample(["hostip", "routerip"], rng.randint(0, 1))
    v6 = rng.sample(LLA, rng.randint(0, 2)) + rng.sample(GUA, rng.randint(0, 2))
    if rng.random() < 0.3:      # the IPv4-mapped IPv6 form of one of the LAN addresses in play
        v6 += ["q" + x[1:] for x in lan if x[0] == "a" and int(x[1:]) <= 6][:1]
    ext = rng.sample(EXT, 1)
    out = []
    host_frame = False      # a frame with a host is pending (free mode): no dhcpupd before notify
    # hardware addresses that are not 6 bytes long (EUI-64, empty) can reach the session through its API only
    odd = rng.sample(ODDMACS, rng.randint(1, 2)) if rng.random() < 0.2 else []
    for _ in range(length):
        x = rng.random()
        m = rng.choice(macs)
        if odd and rng.random() < 0.12:
            o, y = rng.choice(odd), rng.random()
            if y < 0.5:
                out.append({"a": rng.choice(["capture", "capture", "release"]), "mac": o})
            elif y < 0.8 or mode == "notify" or host_frame:
                out.append({"a": "offer", "mac": o, "ip": rng.choice(lan), "name": rng.choice(NAMES + ["noname"])})
            else:
                out.append({"a": "dhcpupd", "mac": o, "ip": rng.choice(lan[:3]), "name": rng.choice(NAMES + ["noname"])})
            continue
        if mode == "notify":
            if x < 0.45:
                ip = rng.choice(lan + v6 + ext)
                nm, slot = "noname", "dhcp"
                if rng.random() < 0.25:
                    nm, slot = rng.choice(NAMES), rng.choice(SLOTS[1:])
                out.append({"a": "fip", "src": m, "key": m, "ip": ip, "slot": slot, "name": nm})
            elif x < 0.55:
                k = rng.choice(macs + ["own"])
                if k == m:
                    continue
                out.append({"a": "farp", "src": m, "key": k, "ip": rng.choice(lan), "slot": "dhcp", "name": "noname"})
            elif x < 0.65:
                c = rng.choice([q for q in macs if q != "router"])
                ipd, nmd = rng.choice(lan[:3] + ext), rng.choice(NAMES + ["noname"])
                if rng.random() < 0.4 and ipd in LAN:      # DISCOVER first: the server records its offer (and the name)
                    out.append({"a": "offer", "mac": c, "ip": ipd, "name": rng.choice([nmd, nmd, "noname", rng.choice(NAMES)])})
                out.append({"a": "dhcpack", "mac": c, "ip": ipd, "name": nmd})
            elif x < 0.70:
                out.append({"a": rng.choice(["capture", "release"]), "mac": m})
            elif x < 0.86:
                out.append({"a": "adv", "d": rng.choice([1, 1, 2, 3, 5])})
            else:
                out.append({"a": "purge"})
            continue
        if x < 0.35:
            out.append({"a": "ip", "src": m, "key": m, "ip": rng.choice(lan + v6 + ext)})
            host_frame = True
        elif x < 0.43:
            k = rng.choice(macs + ["own"])
            if k == m:
                continue
            out.append({"a": "arp", "src": m, "key": k, "ip": rng.choice(lan)})
            host_frame = True
        elif x < 0.47:
            c = rng.choice([q for q in macs if q != "router"])
            out.append({"a": "dhcpframe", "mac": c})
            host_frame = False
        elif x < 0.60:
            out.append({"a": "notify"})
            host_frame = False
        elif x < 0.67:
            if host_frame:
                continue
            c = rng.choice([q for q in macs if q != "router"])
            out.append({"a": "dhcpupd", "mac": c, "ip": rng.choice(lan[:3] + ext), "name": rng.choice(NAMES + ["noname"])})
        elif x < 0.70:
            c = rng.choice([q for q in macs if q != "router"])
            out.append({"a": "offer", "mac": c, "ip": rng.choice(lan), "name": rng.choice(NAMES + ["noname"])})
        elif x < 0.74:
            out.append({"a": rng.choice(["capture", "release"]), "mac": m})
        elif x < 0.80:
            out.append({"a": "name", "ip": rng.choice(lan + v6), "slot": rng.choice(SLOTS), "name": rng.choice(NAMES)})
        elif x < 0.92:
            out.append({"a": "adv", "d": rng.choice([1, 1, 2, 3, 5])})
            host_frame = False
        else:
            out.append({"a": "purge"})
            host_frame = False
    # name sources attach an expiry to what they announce (hours; the same name re-announced with a later expiry is
    # not a name change); frames that keep repeating a name make such re-announcements likely
    if rng.random() < 0.5:
        for a in out:
            if a.get("name", "noname") != "noname" and rng.random() < 0.7:
                a["exp"] = rng.choice([1, 2, 3, 24])
    return out


def crowd_script(rng, mode):
    """A LAN with more hosts than any fixed-size scratch structure in purge (16): 18-20 addresses over a few
    MACs come up, age out together, are purged together; some return in between. NIC configuration 0 or 2 only
    (the /28 LAN is too small); the pseudo action {"a": "cfg"} is consumed by write_script."""
    macs = rng.sample(CLIENTS, rng.randint(3, 6))
    ips = ["a%d" % i for i in rng.sample(range(1, 21), rng.randint(17, 20))] + rng.sample(LLA, 2)
    fr = "fip" if mode == "notify" else "ip"
    def frame(m, ip):
        a = {"a": fr, "src": m, "key": m, "ip": ip}
        if mode == "notify":
            a.update({"slot": "dhcp", "name": "noname"})
        return a
    out = [{"a": "cfg", "cfg": rng.choice([0, 2])}]
    owner = {}
    for ip in ips:
        owner[ip] = rng.choice(macs)
        out.append(frame(owner[ip], ip))
    out += [{"a": "adv", "d": 3}]
    keep = rng.sample(ips, rng.randint(0, 3))
    out += [frame(owner[ip], ip) for ip in keep]
    out += [{"a": "purge"}, {"a": "adv", "d": 5}]
    back = rng.sample(ips, rng.randint(0, 4))
    out += [frame(rng.choice(macs), ip) for ip in back]
    out += [{"a": "purge"}, {"a": "adv", "d": 5}, {"a": "purge"}]
    out += [frame(rng.choice(macs), ip) for ip in rng.sample(ips, 5)]
    return out


def maccrowd_script(rng, mode):
    """More MAC entries than any small fixed structure (17+): 18-20 clients, one address each; the most recently
    created MAC entry ages out, is purged (last element of the MAC table) and comes back."""
    n = rng.randint(17, 20)
    macs = ["m%d" % i for i in range(1, n + 1)]
    rng.shuffle(macs)
    ips = ["a%d" % i for i in rng.sample(range(1, 21), n)]
    fr = "fip" if mode == "notify" else "ip"
    def frame(m, ip):
        a = {"a": fr, "src": m, "key": m, "ip": ip}
        if mode == "notify":
            a.update({"slot": "dhcp", "name": "noname"})
        return a
    pairs = list(zip(macs, ips))
    out = [{"a": "cfg", "cfg": rng.choice([0, 2])}] + [frame(m, ip) for m, ip in pairs]
    leavers = pairs[-rng.randint(1, 2):]
    stay = [p for p in pairs if p not in leavers]
    out += [{"a": "adv", "d": 3}] + [frame(m, ip) for m, ip in stay] + [{"a": "purge"}]
    out += [{"a": "adv", "d": 5}] + [frame(m, ip) for m, ip in stay] + [{"a": "purge"}]
    out += [frame(m, ip) for m, ip in leavers]
    if rng.random() < 0.5:
        out += [{"a": "capture", "mac": leavers[0][0]}, {"a": "release", "mac": leavers[0][0]}]
    out += [frame(m, rng.choice(ips)) for m, _ in rng.sample(pairs, 3)]
    return out


def bigmac_script(rng, mode):
    """One MAC seen on more addresses than any per-MAC limit a cache or flood guard might have (36 addresses:
    20 IPv4, 4 link-local, 12 global / unique-local / IPv4-mapped), some through ARP, then aged and purged."""
    m = rng.choice(CLIENTS)
    ips = ["a%d" % i for i in range(1, 21)] + LLA + GUA + ["q%d" % i for i in range(1, 7)]
    rng.shuffle(ips)
    fr = "fip" if mode == "notify" else "ip"
    out = [{"a": "cfg", "cfg": rng.choice([0, 2])}]
    for ip in ips:
        if ip[0] == "a" and rng.random() < 0.3:
            a = {"a": "farp" if mode == "notify" else "arp", "src": rng.choice(["router", m]), "key": m, "ip": ip}
            if a["src"] == m:
                a = {"a": fr, "src": m, "key": m, "ip": ip}
        else:
            a = {"a": fr, "src": m, "key": m, "ip": ip}
        if mode == "notify":
            a.update({"slot": "dhcp", "name": "noname"})
        out.append(a)
    out += [{"a": "adv", "d": 3}, {"a": "purge"}, {"a": "adv", "d": 5}, {"a": "purge"}]
    out += [dict({"a": fr, "src": m, "key": m, "ip": ip}, **({"slot": "dhcp", "name": "noname"} if mode == "notify" else {})) for ip in rng.sample(ips, 4)]
    return out


def saturation_script(rng, mode):
    """A caller that never reads Session.C: more than 128 notifications pile up (the channel is full and further ones
    are dropped), then hosts must still age out and be removed."""
    macs = rng.sample(CLIENTS, 4)
    ips = ["a%d" % i for i in rng.sample(range(1, 21), 18)]
    fr = "fip" if mode == "notify" else "ip"
    def frame(m, ip):
        a = {"a": fr, "src": m, "key": m, "ip": ip}
        if mode == "notify":
            a.update({"slot": "dhcp", "name": "noname"})
        return a
    owner = {ip: rng.choice(macs) for ip in ips}
    out = [{"a": "cfg", "cfg": rng.choice([0, 2]), "nodrain": 1}]
    for _ in range(5 if mode == "notify" else 9):       # each cycle: 18 online (+18 offline) notifications
        out += [frame(owner[ip], ip) for ip in ips] + [{"a": "adv", "d": 3}, {"a": "purge"}]
    out += [frame(owner[ips[0]], ips[0]), {"a": "adv", "d": 3}, {"a": "purge"}, {"a": "adv", "d": 5}, {"a": "purge"},
            frame(owner[ips[1]], ips[1])]
    return out


def write_script(path, behaviours, ncfg=3, dl=STD):
    n = 0
    with open(path, "w") as f:
        for i, h in enumerate(behaviours):
            rs = {"a": "reset", "cfg": i % ncfg, "id": i, "probe": dl[0], "offline": dl[1], "purge": dl[2]}
            if h and h[0].get("a") == "cfg":
                rs.update({k: v for k, v in h[0].items() if k != "a"})
                h = h[1:]
            f.write(json.dumps(rs) + "\n")
            for a in h:
                f.write(json.dumps(a) + "\n")
                n += 1
    return n


ARGS = ("a", "src", "key", "ip", "mac", "name", "slot", "d", "kind", "notify", "cfg", "id", "nodrain", "probe", "offline", "purge", "v", "exp")


def behaviour_at(trace_path, line):
    """The logged behaviour that contains 1-based `line`, as a replayable script (arguments only)."""
    lines = []
    with open(trace_path) as f:
        for i, x in enumerate(f):
            if i >= line:
                break
            lines.append(x)
    j = len(lines) - 1
    while j > 0 and json.loads(lines[j]).get("a") != "reset":
        j -= 1
    out = []
    for x in lines[j:]:
        e = json.loads(x)
        out.append({k: e[k] for k in ARGS if k in e})
    return out


def behaviours_upto(trace_path, line, count):
    """The last `count` logged behaviours ending with the one that contains 1-based `line` (arguments only)."""
    out, starts = [], []
    with open(trace_path) as f:
        for i, x in enumerate(f):
            if i >= line:
                break
            e = json.loads(x)
            if e.get("a") == "reset":
                starts.append(len(out))
            out.append({k: e[k] for k in ARGS if k in e})
    return out[starts[-count] if len(starts) >= count else 0:]


def trace_cfg(mode, check, dl=STD):
    c = open(os.path.join(vlib.SPEC, "HostsTrace_M.cfg")).read()
    c = c.replace('Mode = "M"', 'Mode = "%s"' % mode)
    c = c.replace("ProbeD = 1", "ProbeD = %d" % dl[0]).replace("OfflineD = 2", "OfflineD = %d" % dl[1]).replace("PurgeD = 4", "PurgeD = %d" % dl[2])
    c = re.sub(r'Check = \{[^}]*\}', 'Check = {%s}' % ", ".join('"%s"' % x for x in check), c)
    return c


def validate(ctx, trace_path, mode, check, timeout=1800, dl=STD):
    """TLC trace validation. Returns ('accepted', n) | ('rejected', line) | ('property', line, which)."""
    r = vlib.tlc(ctx, "HostsTrace", cfg="t.cfg", files={"t.cfg": trace_cfg(mode, check, dl), "trace.ndjson": trace_path},
                 workers=1, timeout=timeout, heap="8g")
    m = re.search(r'<<"PROPERTY", "(C\d+)", "line", (\d+)>>', r.out)
    if m:
        return ("property", int(m.group(2)), m.group(1)), r
    m = re.search(r'<<"REJECTED", "line", (\d+)>>', r.out)
    if m:
        return ("rejected", int(m.group(1))), r
    m = re.search(r'<<"ACCEPTED", (\d+)>>', r.out)
    if m and r.ok:
        return ("accepted", int(m.group(1))), r
    raise vlib.InfraError("trace validation gave no verdict:\n" + r.out[-3000:])


def drive(ctx, binary, script_path, trace_path, shared=False, stutter=0.2, frames=None):
    args = ["-script", script_path, "-out", trace_path, "-stutter", stutter]
    if shared:
        args.append("-shared")
    if frames:
        args += ["-frames", frames]
    p = vlib.run_driver(ctx, binary, args, timeout=900)
    return json.loads(p.stdout.strip().splitlines()[-1])


def confirm(ctx, binary, script, check, shared=False, dl=STD):
    """Re-execute one behaviour on the real code (no stutter: the script already contains the
    untracked frames) and validate it in property mode. True if the violation reproduces."""
    sp = os.path.join(ctx.scratch, "confirm.script")
    tp = os.path.join(ctx.scratch, "confirm.trace")
    with open(sp, "w") as f:
        for a in script:
            f.write(json.dumps(a) + "\n")
    st = drive(ctx, binary, sp, tp, stutter=0, shared=shared)
    if st.get("panics"):
        return True, "panic"
    v, _ = validate(ctx, tp, "P", check, timeout=300, dl=dl)
    return v[0] == "property", v


def check_traces(ctx, binary, trace_path, check, label, shared=False, dl=STD):
    """Validate one trace file for the properties in `check`. Reports violations through ctx.
    Returns dict with counts."""
    res = {"label": label, "lines": 0, "mechanism_conformant": True, "drift_line": None}
    panics = []
    with open(trace_path) as f:
        for i, x in enumerate(f):
            res["lines"] += 1
            if '"panic"' in x:
                panics.append(i + 1)
    # a panic inside the library during a valid history: PrintTable's self-check (C05) or worse
    for ln in panics[:5]:
        script = behaviour_at(trace_path, ln)
        e = json.loads(open(trace_path).read().splitlines()[ln - 1])
        if "C05" in check or "host table differ" not in e.get("panic", ""):
            ctx.report("%s:panic:%s" % (ctx.pid, e.get("a")), "library panicked during a valid history: %s" % e.get("panic"),
                       {"script": script, "panic": e.get("panic")})
    v, r = validate(ctx, trace_path, "M", check, dl=dl)
    res["tlc_states"] = r.distinct
    if v[0] == "accepted":
        res["validated_lines"] = v[1]
        return res
    if v[0] == "rejected":
        # mechanism-level mismatch: decide at property level
        res["mechanism_conformant"] = False
        res["drift_line"] = v[1]
        vlib.log("  [%s] mechanism-level rejection at line %d, re-validating in property mode" % (label, v[1]))
        v, r = validate(ctx, trace_path, "P", check, dl=dl)
        if v[0] == "accepted":
            res["validated_lines"] = v[1]
            res["drift"] = True
            return res
    if v[0] == "property":
        line, which = v[1], v[2]
        script = behaviour_at(trace_path, line)
        ok, info = confirm(ctx, binary, script, check, shared=shared, dl=dl)
        if not ok:
            # the behaviour alone does not show it: process-wide state (pools, log level, limiters) may carry over
            # from the behaviours executed before it; retry with its predecessors in the same process
            script = behaviours_upto(trace_path, line, 40)
            ok, info = confirm(ctx, binary, script, check, shared=shared, dl=dl)
        if not ok:
            # verdict rule: an observation that the real code does not reproduce is recorded, it decides nothing
            vlib.log("  [%s] property-level failure %s at line %d did not reproduce (%s): recorded, no verdict" % (label, which, line, info))
            ctx.coverage.setdefault("unreproduced", []).append({"source": label, "failed": which, "line": line,
                                                                "behaviour": behaviour_at(trace_path, line)[-12:]})
            res["validated_lines"] = line - 1
            return res
        last = script[-1]
        ctx.report("%s:%s" % (which, last.get("a")), "real session contradicts %s after step %s" % (which, json.dumps(last)),
                   {"script": script, "failed": which, "shared": shared, "dl": list(dl)})
        res["validated_lines"] = line - 1
        return res
    raise vlib.InfraError("unexpected validation verdict %s" % (v,))


def replay(ctx, path, check):
    obj = json.load(open(path))
    script = obj["replay"]["script"]
    binary = vlib.go_build(ctx, "hostsdrv")
    ok, info = confirm(ctx, binary, script, check, shared=obj["replay"].get("shared", False),
                       dl=tuple(obj["replay"].get("dl", STD)))
    if ok:
        print("VIOLATION property=%s replay=%s" % (ctx.pid, path))
        return 1
    print("not reproduced: %s" % (info,))
    return 0


def run_family(ctx, check, modes, shared=False):
    """The whole pipeline for the properties in `check` (subset of C04 C05 C06).
    shared=True delivers every packet through one receive buffer that is overwritten after each
    completed step (legitimate use of the zero-copy API; C10 shows both modes give the same transcript)."""
    quick = ctx.quick
    binary = vlib.go_build(ctx, "hostsdrv")
    rng = random.Random(ctx.seed)
    cov = ctx.coverage
    cov["tlc"] = {}
    states = trans = 0
    behaviours = []       # (label, list of histories)
    for mode in modes:
        depth = 3 if quick else 4
        r = run_mc(ctx, mode, depth, export_every=2 if quick else 12)
        cov["tlc"]["mc_%s_depth%d" % (mode, depth)] = r.summary()
        states += r.distinct
        trans += r.generated
        hs = [h for h in r.json if isinstance(h, list)]
        if not hs:
            raise vlib.InfraError("TLC exported no behaviours")
        behaviours.append(("mc-%s" % mode, hs))
        # one level deeper, model checking only (mechanism against the property level, no replay);
        # in the quick tier only for the last mode of the list (C04/C05: notify also covers C06's ledger)
        if mode == modes[-1]:
            r = run_mc(ctx, mode, depth + 1, export_every=0, timeout=240 if quick else 900, allow_timeout=True)
            cov["tlc"]["mc_%s_depth%d_noexport" % (mode, depth + 1)] = dict(r.summary(), timed_out=bool(getattr(r, "timed_out", False)))
            states += r.distinct
            trans += r.generated
        sim_depth, sim_num = (10, 400) if quick else (14, 1500)
        r = run_sim(ctx, mode, sim_depth, sim_num)
        cov["tlc"]["sim_%s_depth%d" % (mode, sim_depth)] = r.summary()
        hs = [h for h in r.json if isinstance(h, list)]
        rng.shuffle(hs)
        behaviours.append(("sim-%s" % mode, hs[:sim_num]))
        n, ln = (300, 40) if quick else (1200, 60)
        k = 6 if quick else 30
        behaviours.append(("rand-%s" % mode, [random_script(rng, mode, ln) for _ in range(n)] +
                           [crowd_script(rng, mode) for _ in range(k)] + [maccrowd_script(rng, mode) for _ in range(k)] +
                           [saturation_script(rng, mode) for _ in range(2 if quick else 10)] +
                           [bigmac_script(rng, mode) for _ in range(3 if quick else 20)]))
        # a legal configuration with PurgeDeadline < OfflineDeadline (separate TLC constants)
        r = run_mc(ctx, mode, 3, export_every=4 if quick else 2, dl=ALT)
        cov["tlc"]["mc_%s_depth3_altdeadlines" % mode] = r.summary()
        states += r.distinct
        trans += r.generated
        behaviours.append(("alt-%s" % mode, [h for h in r.json if isinstance(h, list)] +
                           [random_script(rng, mode, ln) for _ in range(n // 4)]))
    total_lines = validated = nbeh = 0
    distinct = set()
    samples = []
    drift = []
    for label, hs in behaviours:
        sp = os.path.join(ctx.scratch, label + ".script")
        tp = os.path.join(ctx.scratch, label + ".trace")
        dl = ALT if label.startswith("alt-") else STD
        write_script(sp, hs, dl=dl)
        st = drive(ctx, binary, sp, tp, shared=shared)
        res = check_traces(ctx, binary, tp, check, label, shared=shared, dl=dl)
        res.update(st)
        cov.setdefault("runs", []).append(res)
        total_lines += res["lines"]
        validated += res.get("validated_lines", 0)
        nbeh += len(hs)
        for h in hs:
            if len(h) > 1:
                distinct.add(vlib.digest(h))
        if hs:
            samples.append({"source": label, "history": hs[len(hs) // 2]})
        if res.get("drift"):
            drift.append({"source": label, "line": res["drift_line"]})
    cov.update({
        "states": states, "transitions": trans,
        "traces_validated_against_impl": nbeh,
        "events_validated": validated, "events_recorded": total_lines,
        "evaluations": nbeh, "distinct_nontrivial": len(distinct),
        "rule": "one case = one action history executed on a real Session and validated line by line by TLC "
                "against spec/HostsTrace.tla; distinct = distinct action sequences of length >= 2",
        "samples": samples[:4], "drift": drift, "shared_receive_buffer": shared,
        "exhaustive": False,
    })
    ctx.assumptions += [
        "virtual time: LastSeen stamps are rewritten to a harness clock after every step; purge is called through the verif hook Session.VerifPurge",
        "single packet-loop goroutine (concurrency is C09)",
        "TLC explores the bounded universe of HostsMC (2 client MACs, 2 LAN addresses, 1 LLA, 1 GUA); longer histories over 6 MACs / 17 addresses are sampled",
    ]


def liveness(ctx):
    """Model-level liveness of the ageing rules (spec/HostsLive.tla): finitely many frames, fair clock and purge:
    tables and reference drain, the notification ledger settles. A vacuity guard (the same properties without fairness)
    must fail. Decides nothing about the code by itself: the safety checks bind the model; a failure here is a
    model-level failure (exit 2)."""
    budget = 2 if ctx.quick else 3
    cfg = open(os.path.join(vlib.SPEC, "HostsLive.cfg")).read().replace("Budget = 3", "Budget = %d" % budget)
    r = vlib.tlc(ctx, "HostsLive", cfg="HostsLive_run.cfg", files={"HostsLive_run.cfg": cfg}, workers=min(8, ctx.workers),
                 timeout=2400, heap="8g", jprops={"tlc2.tool.queue.IStateQueue": "MemStateQueue"})
    if not r.ok:
        raise vlib.InfraError("HostsLive: model-level failure (violated=%s error=%s)\n%s" % (r.violated, r.error, r.out[-2000:]))
    g = vlib.tlc(ctx, "HostsLive", cfg="HostsLive_unfair.cfg", workers=1, timeout=600, heap="2g")
    if "Temporal property AgesOutM was violated" not in g.out:
        raise vlib.InfraError("HostsLive vacuity guard: AgesOutM holds without fairness\n" + g.out[-1500:])
    return {"budget": budget, "summary": r.summary(), "properties": ["AgesOutM", "AgesOutR", "LedgerSettles", "EachAgesOut"],
            "vacuity_guard": "violated without fairness, as required"}
