"""C02 -- Parse and the views decode frames exactly as an RFC reference decoder.
DESIGN.md section 6 / C02; spec/Frame.tla (ParseOutcome, PortRows, FieldTable, view shapes), spec/FrameVec.tla,
harness/cmd/framedrv, checks/frame_common.py.

Property-level predicates: for every concrete case, error-ness, PayloadID, source / destination MAC, IP
and port, presence and start offset of the IPv4 / IPv6 / UDP / TCP views and of the payload equal
ParseOutcome(shape); every getter of every valid view returns the value FieldTable (or the derived
range of the shape) gives for the bytes of the view; every field bit pattern enumerated by TLC yields
the value TLC computed.  Mechanism-level details (end of the views, host tracking, validity of views on
their own) are recorded as drift only.
"""
import frame_common
import vlib

LEVEL = "exploration"


def run(ctx):
    run = frame_common.Run(ctx)
    counts = run.report("C02")
    nontrivial = run.executed(2)
    cov = ctx.coverage
    c = run.counts
    strict_only = sum(1 for x in run.recs if x["fam"] == "parse" and x["strictErr"] and not x["o"]["err"])
    cov.update({
        "tlc": run.tlc.summary(),
        "vectors_enumerated_by_tlc": run.tlc.distinct,
        "evaluations": c.get("cases", 0),
        "distinct_nontrivial": len(nontrivial),
        "rule": "one abstract case = one TLC state of FrameVec; each is expanded to K=%d byte strings per NIC configuration; distinct = "
                "digest of the abstract case; non-trivial = at least one value of the real code was compared with a value of the "
                "specification (outcome of Parse, a field-table getter, a derived range, a bit pattern)" % run.k,
        "outcomes_compared": c.get("outcomes_compared", 0), "field_values_compared": c.get("field_compared", 0),
        "derived_ranges_compared": c.get("range_compared", 0), "bit_patterns_compared": c.get("fieldvec_compared", 0),
        "bit_patterns_skipped_invalid_base": c.get("field_invalid_base", 0),
        "mechanism_conformant_cases": c.get("mech_conformant", 0),
        "environment_vectors": {k[12:]: v for k, v in sorted(c.items()) if k.startswith("vectors_env_")},
        "port_pairs": run.meta["portPairs"], "precedence_overlaps": run.meta["precedenceOverlaps"],
        "shapes_where_strict_reading_would_demand_an_error": strict_only,
        "contradictions_by_key": counts, "drift": run.drift(), "reflection": run.reflection_coverage(),
        "samples": run.samples(["parse", "view", "field"]), "exhaustive": False,
    })
    if c.get("outcomes_compared", 0) == 0 or c.get("field_compared", 0) == 0 or c.get("fieldvec_compared", 0) == 0:
        raise vlib.InfraError("vacuous: nothing was compared")
    ctx.assumptions += frame_common.ASSUMPTIONS


def replay(ctx, path):
    return frame_common.replay(ctx, path)
