"""C19 -- Ping completes exactly on a matching echo reply (DESIGN.md section 6 / C19).

 model side : spec/Ping.tla (waiter table, ping processes, Parse/echoNotify, timers, send failure) is
              checked exhaustively by TLC through spec/PingMC.tla for 2 (thorough: 3) concurrent pings x
              every identifier/kind of injected ICMP message at every point x timer races x send failure:
              C19_NilIffOwnReply, C19_DistinctIds, C19_OnlyOwn, C19_NoLeak (modulo the named deviation
              KF_SendFailsLeak), NoPanic.  C19_NoLeak itself is run expecting TLC's counterexample (send
              failure leaves the waiter registered); its schedule is the first one forced on the real code.
              The same model with the repair (LeakOnSendError = FALSE) must satisfy C19_NoLeak.
 code side  : harness/cmd/pingdrv runs real Session.Ping / Ping6 goroutines on a recording connection,
              learns each identifier from the echo request on the wire, injects the scheduled ICMP messages
              through Session.Parse and logs start / sent / inject / parsed / ret / end lines.
 binding    : A. one driver-level history per distinct terminal state of the TLC run is executed;
              B. seeded random scenarios with up to 4 concurrent pings are executed;
              every recorded line is validated by TLC against spec/PingTrace.tla (mode M: the unlogged
              steps Register/Deliver/TimerFires/Wake/Cleanup/Return are inferred by TLC; mode P: property
              level only).  VIOLATION only for a reproduced property-level failure.
"""
import json
import os
import random
import re
import subprocess

import vlib

LEVEL = "model_checking"

MEMQ = {"tlc2.tool.queue.IStateQueue": "MemStateQueue"}
INV = ["MCTypeOK", "C19_NilIffOwnReply", "C19_DistinctIds", "C19_NoLeakModuloKF", "NoPanic", "C19_OnlyOwn"]


def mc_cfg(nprocs, maxrep, leak=True, inv=INV, export_every=0, idspace=65536, sendfail=True, replyids=None, view="View", first=1, sessions=1):
    procs = ", ".join("p%d" % i for i in range(1, nprocs + 1))
    rids = replyids or ", ".join(str(i) for i in range(1, nprocs + 2))
    inv = list(inv)
    if export_every:
        inv = ["Export"] + inv
    return ("SPECIFICATION MCSpec\nCONSTANTS\n  Procs = {%s}\n  NoProc = noproc\n  IdSpace = %d\n  FirstId = %d\n  LeakOnSendError = %s\n"
            "  MaxReplies = %d\n  ReplyIds = {%s}\n  ExportEvery = %d\n  AllowSendFail = %s\n  Sessions = {%s}\n"
            "INVARIANTS %s\nVIEW %s\nSYMMETRY Sym\nCHECK_DEADLOCK FALSE\n" %
            (procs, idspace, first, "TRUE" if leak else "FALSE", maxrep, rids, export_every or 1,
             "TRUE" if sendfail else "FALSE", ", ".join('"s%d"' % i for i in range(1, sessions + 1)), " ".join(inv), view))


def tlc_mc(ctx, name, cfg, timeout=900, workers=4):
    return vlib.tlc(ctx, "PingMC", cfg=name + ".cfg", files={name + ".cfg": cfg}, timeout=timeout, workers=workers,
                    heap="4g", jprops=MEMQ, seed=ctx.seed)


def model_runs(ctx):
    """All model-level TLC runs. Returns (histories to replay, counterexample histories, summary)."""
    cov = {}
    quick = ctx.quick
    # (a) the code as it is (since fc5270f the send-error path unregisters the waiter: LeakOnSendError = FALSE):
    #     all invariants including C19_NoLeak, export of one history per distinct terminal state
    n, mr = (2, 3) if quick else (3, 4)
    inv = INV + ["C19_NoLeak"]
    r = tlc_mc(ctx, "mc_code", mc_cfg(n, mr, leak=False, inv=inv, export_every=2 if quick else 8, sessions=2 if quick else 1), timeout=1500)
    if not r.ok:
        raise vlib.InfraError("PingMC (code) model-level failure: violated=%s error=%s\n%s" % (r.violated, r.error, r.out[-3000:]))
    cov["mc_code_%dprocs_%dmsgs" % (n, mr)] = r.summary()
    hists = [h for h in r.json if isinstance(h, list) and h]
    if not quick:
        r2 = tlc_mc(ctx, "mc_code2", mc_cfg(2, 4, leak=False, inv=inv, export_every=4, sessions=2), timeout=1500)
        if not r2.ok:
            raise vlib.InfraError("PingMC (code, 2 procs 4 msgs) model-level failure: %s %s" % (r2.violated, r2.error))
        cov["mc_code_2procs_4msgs"] = r2.summary()
        hists += [h for h in r2.json if isinstance(h, list) and h]
        r.distinct += r2.distinct
        r.generated += r2.generated
    # (b) the mechanism before the repair (KF_SendFailsLeakM: `return err` with the waiter still registered) is refuted
    #     by TLC; its counterexample is the schedule forced first on the real code (it must not leak any more)
    rl = tlc_mc(ctx, "mc_leak", mc_cfg(2, 1, leak=True, inv=["C19_NoLeakX"]), timeout=300, workers=1)
    cex = [x["hist"] for x in rl.json if isinstance(x, dict) and x.get("cex") == "C19_NoLeak"]
    cov["mc_unrepaired_noleak_cex"] = dict(rl.summary(), counterexample=cex[0] if cex else None)
    if rl.violated != "C19_NoLeakX" or not cex:
        raise vlib.InfraError("PingMC: expected the C19_NoLeak counterexample of KF_SendFailsLeak, got violated=%s" % rl.violated)
    # (c) the unrepaired mechanism satisfies everything else (the deviation is exactly the leak)
    rf = tlc_mc(ctx, "mc_unrepaired", mc_cfg(2, 2, leak=True, inv=INV), timeout=600)
    cov["mc_unrepaired_modulo_kf"] = rf.summary()
    if not rf.ok:
        raise vlib.InfraError("PingMC (unrepaired) model-level failure: violated=%s error=%s" % (rf.violated, rf.error))
    # (d) assumption check: with a wrapping identifier space smaller than the number of registrations
    # during one ping, distinctness is lost (uint16 in the code: 65536 registrations within <= 10 s)
    rw = tlc_mc(ctx, "mc_wrap", mc_cfg(3, 0, inv=["C19_DistinctIdsX"], idspace=2, sendfail=False, replyids="0, 1"), timeout=300, workers=1)
    cov["mc_wrap_assumption"] = dict(rw.summary(), note="IdSpace=2 < 3 registrations: C19_DistinctIds is expected to fail; "
                                     "the real identifier space is 65536")
    if rw.violated != "C19_DistinctIdsX":
        raise vlib.InfraError("PingMC wrap config: expected C19_DistinctIds counterexample, got %s" % rw.violated)
    # (e) the counter wraps through 0 (identifiers 3, 0, 1 modulo 4): every invariant holds whatever the identifier
    rz = tlc_mc(ctx, "mc_wrap_through_zero", mc_cfg(3, 2 if quick else 3, leak=False, inv=INV + ["C19_NoLeak"], idspace=4, first=3,
                                                    replyids="0, 1, 2, 3"), timeout=900)
    cov["mc_wrap_through_zero"] = rz.summary()
    if not rz.ok:
        raise vlib.InfraError("PingMC (identifiers wrapping through 0) model-level failure: violated=%s error=%s" % (rz.violated, rz.error))
    r.distinct += rz.distinct
    r.generated += rz.generated
    states = r.distinct + rl.distinct + rf.distinct + rw.distinct
    trans = r.generated + rl.generated + rf.generated + rw.generated
    return hists, cex, cov, states, trans


# ---------------------------------------------------------------------------------------------
def to_script(hist, rng):
    """TLC history (PingMC.hist) -> driver script."""
    fails = {e["p"] for e in hist if e["a"] == "sendfail"}
    # a send failure that TLC placed later than the start of that ping (other pings registered, messages parsed
    # in between) is forced with a send that hangs inside the connection and fails when released
    blocked = set()
    for p in fails:
        i = max(k for k, e in enumerate(hist) if e["a"] == "start" and e["p"] == p)
        j = max(k for k, e in enumerate(hist) if e["a"] == "sendfail" and e["p"] == p)
        if j > i + 1:
            blocked.add(p)
    burst = 1 if rng.random() < 0.5 else 0
    timed = {e["p"] for e in hist if e["a"] == "timeout"}
    answered = {e["p"] for e in hist if e["a"] == "ret" and e.get("res") == "nil"} - timed - fails
    out = []
    inline = {}
    skip = set()
    for i in range(len(hist) - 1):
        a, b = hist[i], hist[i + 1]
        # a reply for p right after its request went out: handed to Parse from inside the send function
        if a["a"] == "sent" and b["a"] == "reply" and b.get("tgt") == a["p"] and b["kind"] in ("echoReply4", "echoReply6") \
                and rng.random() < 0.7:
            inline[a["p"]] = b["kind"]
            skip.add(i + 1)
    for i, e in enumerate(hist):
        if i in skip:
            continue
        a = e["a"]
        if a == "start":
            out.append({"a": "start", "p": e["p"], "fam": e["fam"], "burst": burst,
                        "fail": "blockfail" if e["p"] in blocked else rng.choice(["addr", "write"]) if e["p"] in fails else "",
                        "inline": inline.get(e["p"], "") if e["p"] not in fails else "", "sess": e.get("sess", "s1"),
                        # the timeout argument is a dimension of its own: a ping that is answered may as well be called with one
                        # of the arguments that mean "default" (0, negative, above 10 s)
                        "toarg": rng.choice(["zero", "neg", "big"]) if (e["p"] in answered and rng.random() < 0.3) else ""})
        elif a == "reply":
            out.append({"a": "reply", "tgt": e["tgt"], "off": e["off"], "kind": e["kind"]})
        elif a == "close":
            out.append({"a": "close", "sess": e["sess"]})
        elif a == "sendfail" and e["p"] in blocked:
            out.append({"a": "release", "p": e["p"]})
        elif a == "timeout":
            out.append({"a": "timeout", "p": e["p"]})
        elif a == "ret":
            out.append({"a": "ret", "p": e["p"]})
    for x in out:           # a burst start cannot contain a hanging send
        if x["a"] == "start" and blocked:
            x["burst"] = 0
    return out


KINDS = ["echoReply4", "echoReply6", "echoRequest", "malformed"]


def own_kind(f):
    return "echoReply4" if f == "v4" else "echoReply6"


def blockfail_script(rng):
    """A's send hangs, B registers and is sent, A's send fails, C starts while B is pending; all answered."""
    fa, fb, fc = (rng.choice(["v4", "v6"]) for _ in range(3))
    out = [{"a": "start", "p": "p1", "fam": fa, "fail": "blockfail", "burst": 0, "inline": ""},
           {"a": "start", "p": "p2", "fam": fb, "fail": "", "burst": 0, "inline": ""}]
    if rng.random() < 0.5:
        out.append({"a": "reply", "tgt": "noproc", "off": rng.randint(0, 3), "kind": rng.choice(KINDS)})
    out.append({"a": "release", "p": "p1"})
    out.append({"a": "start", "p": "p3", "fam": fc, "fail": "", "burst": 0, "inline": ""})
    order = ["p2", "p3"]
    rng.shuffle(order)
    for p in order:
        f = fb if p == "p2" else fc
        if rng.random() < 0.8:
            out += [{"a": "reply", "tgt": p, "off": 0, "kind": own_kind(f)}, {"a": "ret", "p": p}]
        else:
            out.append({"a": "timeout", "p": p})
    return out


def session_script(rng):
    """Two sessions of one process share the waiter table: Session.Close of one of them (the other one, or the pinging one)
    while pings are pending, then the matching replies."""
    n = rng.randint(2, 4)
    ps = ["p%d" % i for i in range(1, n + 1)]
    fam = {p: rng.choice(["v4", "v6"]) for p in ps}
    sess = {p: rng.choice(["s1", "s2"]) for p in ps}
    out = [{"a": "start", "p": p, "fam": fam[p], "fail": "", "burst": 0, "inline": "", "sess": sess[p]} for p in ps]
    victim = rng.choice(["s1", "s2"])
    pos = rng.randint(0, n - 1)
    order = list(ps)
    rng.shuffle(order)
    for i, p in enumerate(order):
        if i == pos:
            out.append({"a": "close", "sess": victim})
            if rng.random() < 0.3:
                out.append({"a": "reply", "tgt": "noproc", "off": rng.randint(0, 3), "kind": rng.choice(KINDS)})
        if rng.random() < 0.85:
            out += [{"a": "reply", "tgt": p, "off": 0, "kind": own_kind(fam[p])}, {"a": "ret", "p": p}]
        else:
            out.append({"a": "timeout", "p": p})
    return out


def timeout_arg_script(rng):
    """The timeout argument as a dimension: 0, negative and > 10 s mean the default of 2 s.  Such a ping is pending while other
    pings register, are answered, time out; then its own reply arrives (well inside its 2 s)."""
    n = rng.randint(2, 4)
    ps = ["p%d" % i for i in range(1, n + 1)]
    fam = {p: rng.choice(["v4", "v6"]) for p in ps}
    odd = {ps[0]: rng.choice(["zero", "neg", "big"])}
    if n > 2 and rng.random() < 0.5:
        odd[ps[2]] = rng.choice(["zero", "neg", "big"])
    out = []
    for p in ps:
        out.append({"a": "start", "p": p, "fam": fam[p], "fail": "", "burst": 0, "inline": "", "toarg": odd.get(p, "")})
        if rng.random() < 0.3:
            out.append({"a": "reply", "tgt": "noproc", "off": rng.randint(0, 3), "kind": rng.choice(KINDS)})
    rest = [p for p in ps if p not in odd]
    rng.shuffle(rest)
    for p in rest:          # the ordinary pings first: answered or timed out while the odd ones wait
        if rng.random() < 0.7:
            out += [{"a": "reply", "tgt": p, "off": 0, "kind": own_kind(fam[p])}, {"a": "ret", "p": p}]
        else:
            out.append({"a": "timeout", "p": p})
    for p in odd:
        out += [{"a": "reply", "tgt": p, "off": 0, "kind": own_kind(fam[p])}, {"a": "ret", "p": p}]
    return out


def slow_script(rng):
    """A ping whose send takes longer than its timeout and whose reply is parsed before the send returns, followed by
    answered pings; one scheduler thread, so that whatever per-P cache the implementation uses is shared by all of them."""
    fam = [rng.choice(["v4", "v6"]) for _ in range(4)]
    out = [{"a": "procs", "v": 1},
           {"a": "start", "p": "p1", "fam": fam[0], "fail": "", "burst": 0, "inline": own_kind(fam[0]), "slow": 1},
           {"a": "ret", "p": "p1"}]
    for i in (1, 2, 3):
        p = "p%d" % (i + 1)
        out.append({"a": "start", "p": p, "fam": fam[i], "fail": "", "burst": 0, "inline": own_kind(fam[i]) if rng.random() < 0.3 else ""})
        if not out[-1]["inline"]:
            out.append({"a": "reply", "tgt": p, "off": 0, "kind": own_kind(fam[i])})
        out.append({"a": "ret", "p": p})
    return out


def wrap_script(rng, first):
    """Four pings whose identifiers straddle the uint16 wrap-around (65534, 65535, 0, 1), each answered or not."""
    out = [{"a": "next", "v": first}]
    ps = ["p1", "p2", "p3", "p4"]
    fam = {p: rng.choice(["v4", "v6"]) for p in ps}
    conc = rng.random() < 0.5
    if conc:
        for p in ps:
            out.append({"a": "start", "p": p, "fam": fam[p], "fail": "", "burst": 0, "inline": ""})
    for p in ps:
        if not conc:
            out.append({"a": "start", "p": p, "fam": fam[p], "fail": "", "burst": 0, "inline": own_kind(fam[p]) if rng.random() < 0.25 else ""})
            if out[-1]["inline"]:
                out.append({"a": "ret", "p": p})
                continue
        if rng.random() < 0.85:
            out += [{"a": "reply", "tgt": p, "off": 0, "kind": own_kind(fam[p])}, {"a": "ret", "p": p}]
        else:
            out.append({"a": "timeout", "p": p})
    return out


def random_script(rng):
    """A seeded scenario with up to 4 concurrent pings (direction B)."""
    n = rng.randint(1, 4)
    ps = ["p%d" % i for i in range(1, n + 1)]
    rng.shuffle(ps)
    fam = {p: rng.choice(["v4", "v6"]) for p in ps}
    fail = {p: rng.choice(["addr", "write"]) if rng.random() < 0.15 else "" for p in ps}
    fate = {p: rng.choice(["reply", "reply", "timeout", "xreply"]) for p in ps}
    burst = 1 if rng.random() < 0.5 else 0
    out = []

    def noise(live):
        x = rng.random()
        if x < 0.45 and live:
            out.append({"a": "reply", "tgt": rng.choice(live), "off": 0, "kind": rng.choice(["echoRequest", "malformed"])})
        elif x < 0.8:
            out.append({"a": "reply", "tgt": "noproc", "off": rng.randint(0, 5), "kind": rng.choice(KINDS)})
    late = rng.sample(ps, rng.randint(0, max(0, n - 1))) if n > 1 else []
    first = [p for p in ps if p not in late]
    live = []
    inl = {p: ("echoReply4" if fam[p] == "v4" else "echoReply6") if (not fail[p] and rng.random() < 0.15) else "" for p in ps}
    for p in first:
        if rng.random() < 0.3:
            noise(live)
        out.append({"a": "start", "p": p, "fam": fam[p], "fail": fail[p], "burst": burst, "inline": inl[p]})
        live.append(p)
    pending = [p for p in first]
    todo = list(pending)
    rng.shuffle(todo)
    returned = []
    for p in todo + late:
        if p in late:
            out.append({"a": "start", "p": p, "fam": fam[p], "fail": fail[p], "burst": 0, "inline": inl[p]})
            live.append(p)
        for _ in range(rng.randint(0, 3)):
            noise([q for q in live if q not in returned])
        if fail[p]:
            returned.append(p)
            if rng.random() < 0.5:      # an echo reply for the identifier a failed ping left behind
                out.append({"a": "reply", "tgt": p, "off": 0, "kind": "echoReply4"})
            continue
        own = "echoReply4" if fam[p] == "v4" else "echoReply6"
        other = "echoReply6" if fam[p] == "v4" else "echoReply4"
        if inl[p]:
            out.append({"a": "ret", "p": p})          # completed from inside its own send
            returned.append(p)
            continue
        if fate[p] == "timeout":
            out.append({"a": "timeout", "p": p})
            returned.append(p)
            if rng.random() < 0.5:      # late reply
                out.append({"a": "reply", "tgt": p, "off": 0, "kind": own})
        else:
            out.append({"a": "reply", "tgt": p, "off": 0, "kind": own if fate[p] == "reply" else other})
            if rng.random() < 0.4:      # duplicate straight away
                out.append({"a": "reply", "tgt": p, "off": 0, "kind": own})
            if rng.random() < 0.6:
                out.append({"a": "ret", "p": p})
            returned.append(p)
            if rng.random() < 0.3:      # duplicate after the return
                out.append({"a": "reply", "tgt": p, "off": 0, "kind": own})
    return out


def write_script(path, scripts, first_bid=0):
    with open(path, "w") as f:
        for i, sc in enumerate(scripts):
            f.write(json.dumps({"a": "reset", "bid": first_bid + i}) + "\n")
            for e in sc:
                f.write(json.dumps(e) + "\n")


def drive_parallel(ctx, binary, scripts, nworkers, label, slot=120, nexts=None):
    """Run the scripts on `nworkers` driver processes in parallel; returns the concatenated trace path.
    nexts: {script index: value of icmpTable.id to start that behaviour with}; by default every worker
    starts at a seeded value, one of them just below the uint16 wrap-around."""
    rng = random.Random(ctx.seed * 7919 + len(scripts))
    nworkers = max(1, min(nworkers, len(scripts)))
    chunks = [[] for _ in range(nworkers)]
    for i, sc in enumerate(scripts):
        chunks[i % nworkers].append((i, sc))
    procs = []
    env = dict(os.environ)
    env.update({"VERIF_SEED": str(ctx.seed), "VERIF_TIER": ctx.tier})
    for w, ch in enumerate(chunks):
        sp = os.path.join(ctx.scratch, "%s.%d.script" % (label, w))
        tp = os.path.join(ctx.scratch, "%s.%d.trace" % (label, w))
        with open(sp, "w") as f:
            for j, (i, sc) in enumerate(ch):
                # the random choices of the driver for this behaviour (header variants, malformed shapes) depend on the
                # scenario only, so that a re-run of the scenario alone makes the same choices
                rec = {"a": "reset", "bid": i, "rseed": int(vlib.digest(sc), 16) % 1000000007}
                had_next = False
                while sc and sc[0].get("a") in ("next", "procs"):      # leading pseudo events: counter position, GOMAXPROCS
                    rec[sc[0]["a"]] = sc[0]["v"]
                    had_next = had_next or sc[0]["a"] == "next"
                    sc = sc[1:]
                if had_next:
                    pass
                elif nexts is not None:
                    if i in nexts:
                        rec["next"] = nexts[i]
                elif j == 0:
                    rec["next"] = 65536 - 2 - len(ch) // 2 if w == 0 else rng.randrange(1, 65536)
                f.write(json.dumps(rec) + "\n")
                for e in sc:
                    f.write(json.dumps(e) + "\n")
        p = subprocess.Popen([binary, "-script", sp, "-out", tp, "-slot", str(slot)], env=env,
                             stdout=subprocess.PIPE, stderr=subprocess.PIPE, text=True)
        procs.append((p, tp, len(ch)))
    out = os.path.join(ctx.scratch, label + ".trace")
    stats = {"behaviours": 0, "lines": 0, "panics": 0, "hangs": 0}
    with open(out, "w") as fo:
        for p, tp, n in procs:
            try:
                so, se = p.communicate(timeout=120 + n * 3)
            except subprocess.TimeoutExpired:
                p.kill()
                raise vlib.InfraError("pingdrv worker timed out")
            if p.returncode != 0:
                raise vlib.InfraError("pingdrv exited %d\n%s" % (p.returncode, se[-3000:]))
            st = json.loads(so.strip().splitlines()[-1])
            for k in stats:
                stats[k] += st.get(k, 0)
            fo.write(open(tp).read())
    return out, stats


def trace_cfg(mode):
    return open(os.path.join(vlib.SPEC, "PingTrace.cfg")).read().replace('Mode = "M"', 'Mode = "%s"' % mode)


CHUNK = 9000     # TLC handles behaviours of at most 65535 states: lines + inferred steps per chunk stay far below


def validate1(ctx, trace_path, mode, timeout=1500):
    r = vlib.tlc(ctx, "PingTrace", cfg="t.cfg", files={"t.cfg": trace_cfg(mode), "trace.ndjson": trace_path},
                 workers=1, timeout=timeout, heap="3g")
    m = re.search(r'<<"PROPERTY", "(\w+)", "line", (\d+)>>', r.out)
    if m:
        return ("property", int(m.group(2)), m.group(1)), r
    m = re.search(r'<<"REJECTED", "line", (\d+)>>', r.out)
    if m:
        return ("rejected", int(m.group(1))), r
    m = re.search(r'<<"ACCEPTED", (\d+)>>', r.out)
    if m and r.ok:
        return ("accepted", int(m.group(1))), r
    raise vlib.InfraError("PingTrace validation gave no verdict:\n" + r.out[-3000:])


class _Sum:
    def __init__(self):
        self.distinct = self.generated = 0


def validate(ctx, trace_path, mode, timeout=1500):
    """Validate a trace file in chunks cut at behaviour boundaries (several TLC processes at a time).
    The verdict is that of the first chunk that is not accepted, with its line number in the whole file."""
    from concurrent.futures import ThreadPoolExecutor
    raw = open(trace_path).read().splitlines(True)
    chunks, cur, start = [], [], 0
    for i, x in enumerate(raw):
        if len(cur) >= CHUNK and x.startswith('{"a":"reset"'):
            chunks.append((start, cur))
            cur, start = [], i
        cur.append(x)
    if cur:
        chunks.append((start, cur))
    paths = []
    for k, (off, ch) in enumerate(chunks):
        cp = "%s.%s%d" % (trace_path, mode, k)
        open(cp, "w").write("".join(ch))
        paths.append(cp)
    with ThreadPoolExecutor(max_workers=4) as ex:
        results = list(ex.map(lambda cp: validate1(ctx, cp, mode, timeout), paths))
    tot = _Sum()
    verdict = None
    done = 0
    for (off, ch), (v, r) in zip(chunks, results):
        tot.distinct += r.distinct
        tot.generated += r.generated
        if verdict is None:
            if v[0] == "accepted":
                done = off + v[1]
            else:
                verdict = (v[0], off + v[1]) + tuple(v[2:])
    return (verdict or ("accepted", done)), tot


def bid_at(lines, ln):
    """bid of the behaviour containing 1-based line ln."""
    j = ln - 1
    while j > 0 and lines[j].get("a") != "reset":
        j -= 1
    return lines[j].get("bid")


def behaviour_lines(lines, ln):
    j = ln - 1
    while j > 0 and lines[j].get("a") != "reset":
        j -= 1
    k = ln
    while k < len(lines) and lines[k].get("a") != "reset":
        k += 1
    return lines[j:k]


def run_one(ctx, binary, script, tag, nxt=None):
    tp, st = drive_parallel(ctx, binary, [script], 1, tag, nexts={} if nxt is None else {0: nxt})
    return vlib.read_ndjson(tp), tp, st


def next_at(lines, ln):
    j = ln - 1
    while j > 0 and lines[j].get("a") != "reset":
        j -= 1
    return lines[j].get("next")


def confirm(ctx, binary, script, which, nxt=None):
    """Re-execute one scenario on the real code (with the identifier counter where it was); True if
    the same kind of failure shows again."""
    lines = []
    for attempt in range(5):        # which arm of a select wins, which P runs a goroutine: a few attempts
        lines, tp, st = run_one(ctx, binary, script, "confirm", nxt)
        if which in ("panic", "hang"):
            hit = any(("panic" in x) or x.get("a") == "hang" for x in lines)
        elif which == "KF_SendFailsLeak":
            hit = any(x.get("a") == "end" and x.get("waiters") for x in lines)
        else:
            v, _ = validate(ctx, tp, "P", timeout=300)
            hit = v[0] == "property"
        if hit:
            return True, lines
    return False, lines


def run(ctx):
    cov = ctx.coverage
    rng = random.Random(ctx.seed)
    hists, cex, tlccov, states, trans = model_runs(ctx)
    cov["tlc"] = tlccov
    binary = vlib.go_build(ctx, "pingdrv")
    # direction A: counterexample schedules first, then one history per distinct terminal state
    rng.shuffle(hists)
    nA = 260 if ctx.quick else 5000
    nB = 200 if ctx.quick else 5000
    scripts = [to_script(h, rng) for h in cex] + [to_script(h, rng) for h in hists[:nA]]
    n_tlc = len(scripts)
    scripts += [random_script(rng) for _ in range(nB)]
    scripts += [blockfail_script(rng) for _ in range(12 if ctx.quick else 120)]
    scripts += [wrap_script(rng, 65534 - rng.randint(0, 2)) for _ in range(6 if ctx.quick else 40)]
    scripts += [slow_script(rng) for _ in range(8 if ctx.quick else 40)]
    scripts += [session_script(rng) for _ in range(16 if ctx.quick else 150)]
    scripts += [timeout_arg_script(rng) for _ in range(16 if ctx.quick else 150)]
    scripts = [s for s in scripts if s]
    tp, st = drive_parallel(ctx, binary, scripts, 8 if ctx.quick else 12, "ping")
    lines = vlib.read_ndjson(tp)
    cov["driver"] = st
    # panics / hangs are property-level on their own
    bad = [i + 1 for i, x in enumerate(lines) if "panic" in x or x.get("a") == "hang"]
    for ln in bad[:3]:
        bid = bid_at(lines, ln)
        which = "hang" if lines[ln - 1].get("a") == "hang" else "panic"
        ok, again = confirm(ctx, binary, scripts[bid], which, next_at(lines, ln))
        if not ok:      # seen once, not again: recorded, no verdict
            cov.setdefault("unreproduced", []).append({"what": which, "line": lines[ln - 1], "script": scripts[bid]})
            continue
        ctx.report("C19:%s" % which, "Ping/Parse %s: %s" % (which, json.dumps(lines[ln - 1])[:400]),
                   {"script": scripts[bid], "failed": which, "next": next_at(lines, ln), "trace": again})
    # trace validation
    drift = []
    v, r = validate(ctx, tp, "M")
    tstates, ttrans = r.distinct, r.generated
    mech_ok = True
    if v[0] == "rejected":
        mech_ok = False
        drift.append({"line": v[1], "event": lines[v[1] - 1] if v[1] <= len(lines) else None})
        vlib.log("  mechanism-level rejection at line %d, re-validating in property mode" % v[1])
        v, r = validate(ctx, tp, "P")
        tstates += r.distinct
        ttrans += r.generated
    validated = 0
    if v[0] == "accepted":
        validated = v[1]
    elif v[0] == "property":
        ln, which = v[1], v[2]
        validated = ln - 1
        bid = bid_at(lines, ln)
        ok, again = confirm(ctx, binary, scripts[bid], which, next_at(lines, ln))
        if not ok:      # seen once, not again: recorded, no verdict
            cov.setdefault("unreproduced", []).append({"what": which, "line": lines[ln - 1], "script": scripts[bid],
                                                       "trace": behaviour_lines(lines, ln)})
        else:
            ctx.report("C19:%s" % which, "real Ping contradicts %s: %s" % (which, json.dumps(lines[ln - 1])[:400]),
                   {"script": scripts[bid], "failed": which, "next": next_at(lines, ln), "trace": behaviour_lines(lines, ln)})
    else:
        raise vlib.InfraError("unexpected verdict %s" % (v,))
    # the named deviation: a waiter left behind by a ping whose send failed (attribution checked by TLC: T_NoLeak)
    leaks = [i + 1 for i, x in enumerate(lines[:validated]) if x.get("a") == "end" and x.get("waiters")]
    if leaks:
        bid = bid_at(lines, leaks[0])
        ok, again = confirm(ctx, binary, scripts[bid], "KF_SendFailsLeak", next_at(lines, leaks[0]))
        if not ok:
            cov.setdefault("unreproduced", []).append({"what": "KF_SendFailsLeak", "line": lines[leaks[0] - 1], "script": scripts[bid]})
        for ln in (leaks if ok else []):
            ctx.report("C19:KF_SendFailsLeak", "a ping whose send failed left its waiter registered: %s" % json.dumps(lines[ln - 1]),
                       {"script": scripts[bid_at(lines, ln)], "failed": "KF_SendFailsLeak", "trace": behaviour_lines(lines, ln)})
    nbeh = sum(1 for x in lines[:validated] if x.get("a") == "end")
    digests = set()
    nontrivial = 0
    for s in scripts:
        if any(e["a"] == "reply" for e in s) and any(e["a"] == "start" for e in s):
            d = vlib.digest(s)
            if d not in digests:
                digests.add(d)
                nontrivial += 1
    res_count = {}
    for x in lines:
        if x.get("a") == "ret":
            res_count[x.get("res")] = res_count.get(x.get("res"), 0) + 1
    kinds = {}
    for x in lines:
        if x.get("a") == "inject":
            k = x.get("kind") + ("/" + x["sub"] if x.get("sub") else "")
            kinds[k] = kinds.get(k, 0) + 1
    cov.update({
        "states": states + tstates, "transitions": trans + ttrans,
        "model_states": states, "trace_validation_states": tstates,
        "traces_validated_against_impl": nbeh,
        "behaviours_from_tlc": n_tlc, "behaviours_seeded": len(scripts) - n_tlc,
        "events_recorded": len(lines), "events_validated": validated,
        "mechanism_conformant": mech_ok, "drift": drift,
        "ping_results": res_count, "injected_messages": kinds,
        "evaluations": len(scripts), "distinct_nontrivial": nontrivial,
        "rule": "one case = one scenario (starts, injected ICMP messages, timer expiries) executed with real Ping/Ping6 "
                "goroutines and validated line by line by TLC against spec/PingTrace.tla; non-trivial = at least one "
                "ping and one injected message; distinct by digest of the scenario",
        "samples": [{"scenario": scripts[0], "trace": behaviour_lines(lines, 2)},
                    {"scenario": scripts[len(scripts) // 2]}, {"scenario": scripts[-1]}],
        "exhaustive": False,
    })
    ctx.assumptions += [
        "TLC explores 2 (thorough 3) one-shot pings and 3-4 injected messages exhaustively; real executions cover up to 4 concurrent pings",
        "the window between a timer expiry and the cleanup of that ping cannot be forced from outside; TLC covers it on the model only",
        "a message is counted as parsed before the timeout only if Parse returned before start+timeout-25ms on the monotonic clock",
        "identifier space 65536: fewer than 65536 registrations during the lifetime of one ping (PingMC wrap config shows what happens otherwise)",
        "weakest reading: an echo reply of the other address family carrying the identifier may or may not complete a ping; "
        "a bad ICMP checksum is not counted as malformed (Parse never verifies checksums)",
    ]


def replay(ctx, path):
    obj = json.load(open(path))
    script, which = obj["replay"]["script"], obj["replay"].get("failed", "")
    binary = vlib.go_build(ctx, "pingdrv")
    ok, lines = confirm(ctx, binary, script, which, obj["replay"].get("next"))
    if ok:
        print("VIOLATION property=%s replay=%s" % (ctx.pid, path))
        return 1
    print("not reproduced")
    return 0
