"""Shared plumbing of the X-checks of family `extras2` (continuing checks/extras_common.py, which is not edited):

 X05  spec/RouterCheck.tla  layer_icmp.go             Session.ValidateDefaultRouter and the echo waiter table
      spec/ArpQuery.tla     handlers/arp_spoofer      Handler.WhoIs, Handler.Scan
 X06  spec/Radvs.tla        handlers/icmp_spoofer     Handler6.StartRADVS / RADVS.SendRA / RADVS.Stop

Driver: harness/cmd/extradrv2 (one binary, one sub-command per specification).  The drivers only report what the real
code did; the comparison with the specification's expectation is made here, in the checks.
TLC runs use at most two workers (the machine is shared) and the in-memory state queue."""
import json
import os

import vlib

MEMQ = {"tlc2.tool.queue.IStateQueue": "MemStateQueue"}
WORKERS = 2


def tlc_ok(ctx, module, cfg_text, what, timeout=600, heap="3g", workers=WORKERS, **kw):
    """Exhaustive TLC run that must finish cleanly: a model-level failure is not a verdict about the code (exit 2)."""
    kw.setdefault("seed", ctx.seed)
    r = vlib.tlc(ctx, module, cfg="x.cfg", files={"x.cfg": cfg_text}, workers=workers, timeout=timeout, heap=heap, jprops=MEMQ, **kw)
    if not r.ok:
        raise vlib.InfraError("TLC %s (%s): model-level failure (violated=%s error=%s): the specification's own invariants do not "
                              "hold or the run did not finish, which is not a verdict about the code\n%s" %
                              (module, what, r.violated, r.error, r.out[-3000:]))
    return r


def exported(r, field):
    """The documents printed by the Export invariant (one per terminal state), numbered."""
    out = [h for h in r.json if isinstance(h, dict) and field in h]
    for i, h in enumerate(out):
        h["i"] = i
    return out


def write_lines(path, items):
    with open(path, "w") as f:
        for x in items:
            f.write(json.dumps(x, separators=(",", ":")) + "\n")
    return len(items)


def drive(ctx, binary, sub, items, tag, extra=(), timeout=300):
    """Run one sub-command of the driver over `items` (each with its index "i"); returns (summary, {i: result})."""
    ip = os.path.join(ctx.scratch, tag + ".in")
    op = os.path.join(ctx.scratch, tag + ".out")
    write_lines(ip, items)
    p = vlib.run_driver(ctx, binary, [sub, "-in", ip, "-out", op] + list(extra), timeout=timeout)
    lines = [x for x in p.stdout.strip().splitlines() if x.startswith("{")]
    if not lines:
        raise vlib.InfraError("driver printed no summary\nstderr:\n" + p.stderr[-3000:])
    res = {r["i"]: r for r in (vlib.read_ndjson(op) if os.path.exists(op) else [])}
    missing = [x["i"] for x in items if x["i"] not in res]
    if missing:
        raise vlib.InfraError("driver %s returned no result for %d item(s), first %s\nstderr:\n%s" % (sub, len(missing), missing[0], p.stderr[-2000:]))
    return json.loads(lines[-1]), res


class Judge:
    """Collects contradictions, re-executes each (up to three attempts) before it becomes a verdict.
    A property-level observation that does not reproduce is recorded in coverage.unreproduced and logged, never a verdict."""

    def __init__(self, ctx, per_key=2):
        self.ctx = ctx
        self.per_key = per_key
        self.seen = {}
        self.drift = {}
        self.unreproduced = []
        self.inconclusive = 0

    def note_drift(self, key, what):
        d = self.drift.setdefault(key, {"count": 0, "what": what})
        d["count"] += 1

    def claim(self, key, what, replay_obj, again):
        """again() re-executes the case and returns the key it yields now (or None)."""
        n = self.seen.get(key, 0)
        self.seen[key] = n + 1
        if n >= self.per_key:
            return
        for attempt in range(3):
            if again() == key:
                self.ctx.report(key, what, replay_obj)
                return
        vlib.log("  unreproduced (3 attempts): %s: %s" % (key, what))
        self.unreproduced.append({"key": key, "what": what})

    def finish(self):
        cov = self.ctx.coverage
        cov["drift"] = self.drift
        cov["unreproduced"] = self.unreproduced
        cov["inconclusive"] = self.inconclusive
        for k, v in self.drift.items():
            vlib.log("  DRIFT %s x%d: %s" % (k, v["count"], v["what"]))


def finding_fixed(key):
    """The mechanism level of a specification follows the status of its known-finding entries: `fixed` selects the repaired
    mechanism (so the unchanged tree shows no drift, and a tree without the repair contradicts the statement again)."""
    return any(k.get("key") == key and k.get("status") == "fixed" for k in vlib.load_known())


def load_replay(path):
    return json.load(open(path))["replay"]
