"""Shared pipeline of C13 (spec/ArpHunt.tla) and C14 (spec/Ndp6Hunt.tla, spec/RaVec.tla).

 model side : TLC checks the mechanism level of the module against the property level on the complete
              bounded graph (every transition evaluates the property predicates), once for the
              mechanism as the code has it today and once for the repaired mechanism; it exports
              counterexample histories, random walks (-simulate) and, for C14, RA option vectors.
 code side  : harness/cmd/huntdrv executes every history on the real handler with harness-driven loop
              cycles (verification hooks of hooks/arp_spoofer_verif.patch, hooks/icmp_spoofer_verif.patch).
 binding    : TLC validates the recorded traces against <Family>Trace.tla in mechanism mode; property
              failures are reproduced and reported, mechanism-only rejections are DRIFT.
"""
import json
import os
import random
import re
import subprocess

import vlib

HOOK_FILES = ["handlers/arp_spoofer/verif_on.go", "handlers/icmp_spoofer/verif_on.go", "verif_addrlist_on.go"]
MEMQ = {"tlc2.tool.queue.IStateQueue": "MemStateQueue"}


def require_hooks():
    missing = [f for f in HOOK_FILES if not os.path.exists(os.path.join(vlib.REPO, f))]
    if missing:
        raise vlib.InfraError("verification hooks missing in %s: %s (apply hooks/arp_spoofer_verif.patch and "
                              "hooks/icmp_spoofer_verif.patch)" % (vlib.REPO, ", ".join(missing)))
    for f, needle in (("handlers/arp_spoofer/spoof.go", 'verifGate("act", lid)'),
                      ("handlers/icmp_spoofer/icmp6spoof.go", 'verifGate("act", lid)'),
                      ("handlers/icmp_spoofer/icmp6.go", 'verifEmit("ndp.learn"')):
        if needle not in open(os.path.join(vlib.REPO, f)).read():
            raise vlib.InfraError("verification hook call %s missing in %s" % (needle, f))


def build(ctx):
    require_hooks()
    return vlib.go_build(ctx, "huntdrv", tags="verif,hunthooks")


def workers(ctx):
    return min(8, ctx.workers)


# ---------------------------------------------------------------------------------------------
# generic helpers

def write_script(path, behaviours, ncfg=3):
    n = 0
    with open(path, "w") as f:
        for i, h in enumerate(behaviours):
            f.write(json.dumps({"a": "reset", "cfg": i % ncfg, "id": i}) + "\n")
            for a in h:
                f.write(json.dumps(a) + "\n")
                n += 1
    return n


def drive(ctx, binary, sub, script_path, trace_path, frames=None, extra=(), timeout=900):
    args = [sub, "-script", script_path, "-out", trace_path] + list(extra)
    if frames:
        args += ["-frames", frames]
    p = vlib.run_driver(ctx, binary, args, timeout=timeout)
    return json.loads(p.stdout.strip().splitlines()[-1])


def read_lines(path):
    with open(path) as f:
        return [x for x in f.read().splitlines() if x.strip()]


def behaviour_at(lines, line):
    """The logged behaviour that contains 1-based `line`: (index of its reset line, list of decoded records up to `line`)."""
    j = min(line, len(lines)) - 1
    while j > 0 and json.loads(lines[j]).get("a") != "reset":
        j -= 1
    return j, [json.loads(x) for x in lines[j:line]]


def validate(ctx, module, cfg_text, trace_path, timeout=1800):
    """TLC trace validation. Returns (accepted: bool, rejected_line or None, [(line, verdict)], result)."""
    r = vlib.tlc(ctx, module, cfg="t.cfg", files={"t.cfg": cfg_text, "trace.ndjson": trace_path},
                 workers=1, timeout=timeout, heap="6g")
    fails = sorted({(int(n), v) for v, n in re.findall(r'<<"PROPERTY", "([A-Za-z0-9_]+)", "line", (\d+)>>', r.out)})
    m = re.search(r'<<"REJECTED", "line", (\d+)>>', r.out)
    if m:
        return False, int(m.group(1)), fails, r
    m = re.search(r'<<"ACCEPTED", (\d+), "failures", (\d+)>>', r.out)
    if m and r.ok:
        return True, None, fails, r
    raise vlib.InfraError("trace validation of %s gave no verdict:\n%s" % (module, r.out[-3000:]))


def trace_cfg(module, mode, **consts):
    c = open(os.path.join(vlib.SPEC, module + ".cfg")).read()
    c = c.replace('Mode = "M"', 'Mode = "%s"' % mode)
    for k, v in consts.items():
        c, n = re.subn(r"(?m)^(\s*%s\s*=\s*).*$" % re.escape(k), lambda mm: mm.group(1) + v, c)
        if n != 1:
            raise vlib.InfraError("constant %s not found in %s.cfg" % (k, module))
    return c


def tlc_hist(r):
    """Histories printed by Export / ExportBad."""
    hs, bad = [], []
    for x in r.json:
        if isinstance(x, list):
            hs.append(x)
        elif isinstance(x, dict) and "hist" in x:
            bad.append(x)
    return hs, bad


def cfg_with(base, **consts):
    c = base
    for k, v in consts.items():
        c, n = re.subn(r"(?m)^(\s*%s\s*=\s*).*$" % re.escape(k), lambda mm: mm.group(1) + str(v), c)
        if n != 1:
            raise vlib.InfraError("constant %s not found in cfg" % k)
    return c


def set_invariants(cfg, invs, constraint=None):
    c = re.sub(r"(?m)^INVARIANTS.*$", "INVARIANTS " + " ".join(invs), cfg)
    c = re.sub(r"(?m)^CONSTRAINT.*\n", "", c)
    if constraint:
        c += "CONSTRAINT %s\n" % constraint
    return c


ATTEMPTS = 3      # re-executions before an observation counts as not reproducible


def unreproduced(ctx, where, what, obj):
    """A property-level observation that does not show again when the behaviour is re-executed is evidence, not a
    verdict and not an infrastructure failure: it is recorded (coverage.unreproduced), logged, and the exit code stays."""
    vlib.log("  UNREPRODUCED [%s] %s" % (where, what))
    lst = ctx.coverage.setdefault("unreproduced", [])
    if len(lst) < 20:
        lst.append({"where": where, "what": what, "behaviour": obj})


class Family:
    """What differs between the ARP and the NDP pipeline."""
    pid = ""            # property id
    sub = ""            # driver subcommand
    mc = ""             # <Family>MC
    trace = ""          # <Family>Trace
    fixed_const = ""    # boolean constant selecting the repaired mechanism
    prop_invs = ()      # invariants of the MC module that transcribe the property
    other_invs = ()

    def key_of(self, verdict, beh):
        return "%s:%s" % (self.pid, verdict)

    def panic_key(self, rec, beh):
        return "%s:panic:%s" % (self.pid, rec.get("a"))


def model_check(ctx, fam, cfg_base, label, fixed, invs, timeout, **consts):
    cfg = cfg_with(cfg_base, **dict({fam.fixed_const: "TRUE" if fixed else "FALSE", "Bounded": "FALSE"}, **consts))
    cfg = set_invariants(cfg, invs)
    r = vlib.tlc(ctx, fam.mc, cfg="mc.cfg", files={"mc.cfg": cfg}, timeout=timeout, heap="8g", workers=workers(ctx), jprops=MEMQ)
    ctx.coverage.setdefault("tlc", {})[label] = r.summary()
    vlib.log("  [%s] %s: %d distinct / %d generated, %.0fs, violated=%s" % (fam.pid, label, r.distinct, r.generated, r.wall, r.violated))
    return r


def counterexamples(ctx, fam, cfg_base, label, depth, timeout=600, **consts):
    """Bounded BFS of the mechanism as the code has it; every history that first contradicts a
    property-level predicate is exported (ExportBad), exploration stops there (NotBad)."""
    cfg = cfg_with(cfg_base, **dict({fam.fixed_const: "FALSE", "Bounded": "TRUE", "MaxDepth": depth}, **consts))
    cfg = set_invariants(cfg, ["TypeOK", "ExportBad"], constraint="NotBad")
    r = vlib.tlc(ctx, fam.mc, cfg="kf.cfg", files={"kf.cfg": cfg}, timeout=timeout, heap="6g", workers=4, jprops=MEMQ)
    if not r.ok:
        raise vlib.InfraError("%s %s: model-level failure (violated=%s error=%s)\n%s" % (fam.mc, label, r.violated, r.error, r.out[-2000:]))
    _, bad = tlc_hist(r)
    ctx.coverage.setdefault("tlc", {})[label] = dict(r.summary(), counterexamples=len(bad))
    return r, bad


def simulate(ctx, fam, cfg_base, label, depth, num, timeout=600, **consts):
    cfg = cfg_with(cfg_base, **dict({fam.fixed_const: "TRUE", "Bounded": "TRUE", "MaxDepth": depth}, **consts))
    cfg = set_invariants(cfg, ["TypeOK", "Export"]).replace("VIEW View\n", "")
    r = vlib.tlc(ctx, fam.mc, cfg="sim.cfg", files={"sim.cfg": cfg}, timeout=timeout, workers=4,
                 simulate="num=%d" % max(1, num // 4), depth=depth + 1, seed=ctx.seed, heap="4g")
    if r.violated or (r.error and "timeout" not in str(r.error)):
        raise vlib.InfraError("%s simulate: model-level failure (violated=%s error=%s)\n%s" % (fam.mc, r.violated, r.error, r.out[-2000:]))
    hs, _ = tlc_hist(r)
    ctx.coverage.setdefault("tlc", {})[label] = dict(r.summary(), walks=len(hs))
    return hs


def confirm(ctx, fam, binary, script, want=None):
    """Re-execute one behaviour on the real code and validate it in property mode.
    Returns the list of property verdicts (or ['panic'])."""
    sp = os.path.join(ctx.scratch, "confirm.script")
    tp = os.path.join(ctx.scratch, "confirm.trace")
    # a history with overlapping API calls depends on the scheduler: give it 25 chances to show the same failure
    repeat = 25 if any(a.get("a") == "cstart" for a in script) else 1
    with open(sp, "w") as f:
        for _ in range(repeat):
            for a in script:
                f.write(json.dumps(a) + "\n")
    drive(ctx, binary, fam.sub, sp, tp, timeout=300, extra=("-procs", "1") if any(a.get("a") == "overlap" for a in script) else ())
    lines = read_lines(tp)
    out = []
    for x in lines:
        if '"panic"' in x:
            out.append("panic")
    _, _, fails, _ = validate(ctx, fam.trace, trace_cfg(fam.trace, "P"), tp, timeout=300)
    return out + [v for _, v in fails]


ARGS = ("a", "cfg", "id", "mac", "ip", "l", "k", "op", "es", "sm", "si", "ti", "tm", "src", "rmac", "opts", "kind", "n")


def script_of(recs):
    """The replayable script of a recorded behaviour; two lines written by an `overlap` action become that action again."""
    out, skip = [], False
    for e in recs:
        if skip:
            skip = False
            continue
        a = {k: e[k] for k in ARGS if k in e}
        if "ovb" in e:
            out.append({"a": "overlap", "first": a, "second": {k: e["ovb"][k] for k in ARGS if k in e["ovb"]}})
            skip = True
        else:
            out.append(a)
    return out


def check_trace(ctx, fam, binary, trace_path, label, stats):
    """Validate one recorded trace file; report reproduced property failures."""
    lines = read_lines(trace_path)
    res = {"label": label, "lines": len(lines), "mechanism_conformant": True}
    # panics of the library during a valid history
    seen_panic = 0
    for i, x in enumerate(lines):
        if '"panic"' in x and seen_panic < 3:
            if fam.pid == "C14" and json.loads(x).get("a") == "ra":
                continue            # decided by Ndp6HuntTrace (P_NoPanic)
            seen_panic += 1
            _, recs = behaviour_at(lines, i + 1)
            script = script_of(recs)
            if not any("panic" in confirm(ctx, fam, binary, script) for _ in range(ATTEMPTS)):
                unreproduced(ctx, label, "panic at line %d: %s" % (i + 1, recs[-1].get("panic")), script)
                continue
            ctx.report(fam.panic_key(recs[-1], recs), "handler panicked during a valid history: %s" % recs[-1].get("panic"),
                       {"family": fam.sub, "script": script, "failed": "panic"})
    res["panics"] = sum(1 for x in lines if '"panic"' in x)
    ok, rej, fails, r = validate(ctx, fam.trace, trace_cfg(fam.trace, "M"), trace_path)
    res["tlc_states"] = r.distinct
    stats["tlc_trace_states"] = stats.get("tlc_trace_states", 0) + r.distinct
    if not ok:
        # mechanism-level mismatch: is the code the mechanism with the (fixed) deviation?
        ok2, rej2, fails2, r2 = validate(ctx, fam.trace, trace_cfg(fam.trace, "M", **{fam.fixed_const: "FALSE"}), trace_path)
        if ok2:
            res["matches_deviation_mechanism"] = True
            fails = fails2
        else:
            res["mechanism_conformant"] = False
            res["drift_line"] = rej
            _, recs = behaviour_at(lines, rej)
            res["drift_at"] = recs[-1]
            vlib.log("  [%s] mechanism-level rejection at line %d (%s), re-validating in property mode" % (label, rej, json.dumps(recs[-1])[:300]))
            ok3, rej3, fails, r3 = validate(ctx, fam.trace, trace_cfg(fam.trace, "P"), trace_path)
            if not ok3:
                raise vlib.InfraError("property-mode validation rejected line %d of %s: %s" % (rej3, label, lines[rej3 - 1][:400]))
            res["drift"] = True
    res["property_failures"] = len(fails)
    per_key = {}
    for line, verdict in fails:
        _, recs = behaviour_at(lines, line)
        key = fam.key_of(verdict, recs)
        per_key.setdefault(key, []).append((line, verdict, recs))
    for key, items in sorted(per_key.items()):
        for line, verdict, recs in items[:2]:
            script = script_of(recs)
            if not any(any(fam.key_of(v, recs) == key for v in confirm(ctx, fam, binary, script) if v != "panic") for _ in range(ATTEMPTS)):
                unreproduced(ctx, label, "%s at line %d" % (verdict, line), script)
                continue
            ctx.report(key, "real handler contradicts %s after step %s" % (verdict, json.dumps(script[-1])),
                       {"family": fam.sub, "script": script, "failed": verdict})
        stats.setdefault("failures_by_key", {})[key] = stats.get("failures_by_key", {}).get(key, 0) + len(items)
    return res


def arp_kinds(trace_path, counts):
    """Vacuity guard: which kinds of frame / decision did the executed histories actually reach?"""
    for x in read_lines(trace_path):
        e = json.loads(x)
        for f in e.get("frames", []):
            if f.get("op") == 2 and f.get("ti") == "bcast4":
                k = "reject"
            elif f.get("si") == "routerip" and f.get("sm") == "own":
                k = "spoof_reply" if f.get("op") == 2 else "forged_announcement"
            elif f.get("si") == "routerip" and f.get("sm") == "router":
                k = "restore"
            else:
                k = "other"
            counts[k] = counts.get(k, 0) + 1
        if e.get("a") == "start":
            counts["start_rejected" if e.get("err") else ("start_new" if e.get("spawned") else "start_again")] = \
                counts.get("start_rejected" if e.get("err") else ("start_new" if e.get("spawned") else "start_again"), 0) + 1
        if e.get("a") == "act" and e.get("done") and not e.get("frames"):
            counts["loop_ended_by_close"] = counts.get("loop_ended_by_close", 0) + 1


def ndp_kinds(trace_path, counts):
    for x in read_lines(trace_path):
        e = json.loads(x)
        for f in e.get("frames", []):
            k = "forged_na" if f.get("type") == 136 else "other_icmp6"
            counts[k] = counts.get(k, 0) + 1
        a = e.get("a")
        if a == "start":
            k = "start_rejected" if e.get("err") else ("start_new" if e.get("spawned") else "start_ignored_or_again")
            counts[k] = counts.get(k, 0) + 1
        if a == "check":
            k = "check_done" if e.get("done") else ("check_send" if e.get("router") else "check_no_router")
            counts[k] = counts.get(k, 0) + 1
        if a == "ra":
            counts["ra_error" if e.get("err") else "ra"] = counts.get("ra_error" if e.get("err") else "ra", 0) + 1
        if a == "act" and len(e.get("frames", [])) > 1:
            counts["round_two_routers"] = counts.get("round_two_routers", 0) + 1


def require_reached(counts, names, what):
    missing = [n for n in names if not counts.get(n)]
    if missing:
        raise vlib.InfraError("vacuity guard: the executed %s histories never reached %s" % (what, missing))


def replay(ctx, fam, path):
    obj = json.load(open(path))
    rp = obj["replay"]
    binary = build(ctx)
    if rp.get("family") == "ra":
        return replay_ra(ctx, binary, obj, path)
    if str(rp.get("family", "")).endswith("-rt"):
        out = run_realtime(ctx, binary, fam.sub, [int(rp.get("variant", 0))])
        fails, _ = rt_failures(ctx, fam, out[0][1], "replay")
        if any(k == obj.get("key") for k, _, _ in fails):
            print("VIOLATION property=%s replay=%s" % (ctx.pid, path))
            return 1
        print("not reproduced")
        return 0
    again = confirm(ctx, fam, binary, rp["script"])
    if again:
        print("VIOLATION property=%s replay=%s" % (ctx.pid, path))
        return 1
    print("not reproduced")
    return 0


def start_realtime(ctx, binary, sub, variants):
    """Start real-time scenarios in parallel processes (they only sleep: start them early, collect them late)."""
    procs = []
    for v in variants:
        tp = os.path.join(ctx.scratch, "rt-%s-%d-%d.trace" % (sub, v, len(os.listdir(ctx.scratch))))
        e = dict(os.environ)
        e.update({"VERIF_SEED": str(ctx.seed), "VERIF_TIER": ctx.tier})
        procs.append((v, tp, subprocess.Popen([binary, sub, "-realtime", str(v), "-out", tp], env=e,
                                              stdout=subprocess.PIPE, stderr=subprocess.PIPE, text=True)))
    return procs


def collect_realtime(procs, sub, timeout=180):
    out = []
    for v, tp, p in procs:
        try:
            so, se = p.communicate(timeout=timeout)
        except subprocess.TimeoutExpired:
            p.kill()
            raise vlib.InfraError("real-time run %s/%d timed out" % (sub, v))
        if p.returncode != 0:
            raise vlib.InfraError("real-time run %s/%d exited %d: %s" % (sub, v, p.returncode, se[-2000:]))
        st = json.loads(so.strip().splitlines()[-1])
        if st.get("infra"):
            raise vlib.InfraError("real-time run %s/%d: %s" % (sub, v, st["infra"]))
        out.append((v, tp, st))
    return out


def run_realtime(ctx, binary, sub, variants, timeout=180):
    """Several real-time scenarios in parallel processes; returns the trace paths."""
    return collect_realtime(start_realtime(ctx, binary, sub, variants), sub, timeout)


# ---------------------------------------------------------------------------------------------
# C13: ARP

class ArpFamily(Family):
    pid, sub, mc, trace, fixed_const = "C13", "arp", "ArpHuntMC", "ArpHuntTrace", "ByMac"
    prop_invs = ("C13_ForgedOnlyToHunted", "C13_RejectOnlyIf", "C13_CloseStops", "C13_UndoWithinOneCycle", "C13_Idempotent")
    other_invs = ("TypeOK", "C07_WellFormedOut", "LoopServesOwnMac")

    def key_of(self, verdict, recs):
        name = verdict.replace("C13_", "")
        if name.startswith("UndoWithinOneCycle"):
            # did a loop find another MAC's entry through the shared address (findHuntByIP)?
            macs = []
            for e in recs:
                if e.get("a") in ("start", "rt.start"):
                    macs += [e.get("mac")] * int(e.get("spawned", 0))
                if e.get("a") in ("check", "rt.check") and e.get("hunting") and 1 <= e.get("l", 0) <= len(macs) \
                        and e.get("tgt") != macs[e["l"] - 1]:
                    return "C13:UndoWithinOneCycle:KF_SharedIPLookup"
            return "C13:" + name
        return "C13:" + name


ARP_MACS = ["m%d" % i for i in range(1, 7)]
ARP_IPS = ["a1", "a2", "a3", "a4"]


def arp_random_script(rng, length):
    macs = rng.sample(ARP_MACS, rng.randint(2, 4))
    pool = rng.sample(ARP_IPS, rng.randint(1, 3))
    ipof = {m: rng.choice(pool) for m in macs}
    out = []
    for _ in range(length):
        x = rng.random()
        m = rng.choice(macs)
        if x < 0.22:
            y = rng.random()
            if y < 0.10:
                out.append({"a": "cstart", "mac": m, "ip": ipof[m], "n": rng.choice([2, 4, 8])})
            elif y < 0.80:
                out.append({"a": "start", "mac": m, "ip": ipof[m]})
            elif y < 0.88:
                out.append({"a": "start", "mac": m, "ip": rng.choice(pool)})
            elif y < 0.92:
                out.append({"a": "start", "mac": "nilmac", "ip": ipof[m]})
            else:
                out.append({"a": "start", "mac": m, "ip": rng.choice(["l1", "noip"])})
        elif x < 0.34:
            out.append({"a": "stop", "mac": rng.choice(macs + [rng.choice(ARP_MACS)])})
        elif x < 0.72:
            out.append({"a": "step", "k": rng.randint(0, 5)})
        elif x < 0.90:
            op = rng.choice([1, 1, 1, 2])
            si = rng.choice([ipof[m], ipof[m], "zero", "zero", "ll1", rng.choice(ARP_IPS)])
            ti = rng.choice(["routerip", "routerip", rng.choice(ARP_IPS), rng.choice(ARP_IPS), "x1", "ll1", "hostip", "zero"])
            sm = rng.choice(macs + [rng.choice(ARP_MACS)])
            es = sm if rng.random() < 0.65 else rng.choice(macs + [rng.choice(ARP_MACS)])     # a relay forwards another station's packet
            out.append({"a": "recv", "op": op, "es": es, "sm": sm, "si": si, "ti": ti})
        elif x < 0.94:
            out.append({"a": "offer", "mac": m, "ip": rng.choice(ARP_IPS + ["noip", "l1"])})
        elif x < 0.985:
            # the application's capture flag is independent of the hunt list (also for MACs never hunted)
            out.append({"a": rng.choice(["capture", "capture", "release"]), "mac": rng.choice(macs + [rng.choice(ARP_MACS)])})
        else:
            out.append({"a": "close"})
    return out


def stress_script(rng, macs, ips, behaviours, rounds, n):
    """Overlapping StartHunt calls for one not-yet-hunted address, many rounds (scheduler dependent)."""
    out = []
    for _ in range(behaviours):
        h = []
        for r in range(rounds):
            m = rng.choice(macs)
            h.append({"a": "cstart", "mac": m, "ip": rng.choice(ips), "n": n})
            h.append({"a": "step", "k": r})
            h.append({"a": "stop", "mac": m, "ip": "noip"})       # (the ARP driver ignores ip; for ICMPv6 an address-less stop is effective)
            h.append({"a": "step", "k": r})
            h.append({"a": "step", "k": r})
        out.append(h)
    return out


def gap_scripts():
    """Directed histories: an API call lands in the gap between a loop's membership check and its action."""
    out = []
    for call in ({"a": "stop", "mac": "m1"}, {"a": "close"}, {"a": "start", "mac": "m1", "ip": "a2"}):
        for n in (1, 2, 3):
            h = [{"a": "start", "mac": "m%d" % k, "ip": "a%d" % k} for k in range(1, n + 1)]
            h += [{"a": "check", "l": k} for k in range(1, n + 1)]
            h += [call] + ([{"a": "stop", "mac": "m2"}] if n > 1 and call["a"] == "stop" else [])
            h += [{"a": "act", "l": k} for k in range(1, n + 1)]
            h += [{"a": "step", "k": k % n} for k in range(3 * n)] * 2       # tick, check, act of every loop, twice
            out.append(h)
    # Stop / Start / Stop around a check: two loops of one MAC, the older one past its check
    out.append([{"a": "start", "mac": "m1", "ip": "a1"}, {"a": "check", "l": 1}, {"a": "stop", "mac": "m1"}, {"a": "start", "mac": "m1", "ip": "a1"},
                {"a": "check", "l": 2}, {"a": "stop", "mac": "m1"}, {"a": "act", "l": 2}, {"a": "act", "l": 1}] + [{"a": "step", "k": k % 2} for k in range(12)])
    return out


def overlap_script():
    """Send-overlap stage: for every ordered pair of send paths of the ARP handler (loop announcement, restoring
    request, immediate spoof reply, probe reject) the first one's write is held inside the connection while the second
    one runs; the frame that finally leaves must still be the frame the first action built."""
    paths = ["ann", "restore", "reply", "reject"]
    out = []
    for pa in paths:
        for pb in paths:
            h = [{"a": "start", "mac": "m1", "ip": "a1"}, {"a": "start", "mac": "m2", "ip": "a2"}, {"a": "start", "mac": "m3", "ip": "a3"},
                 {"a": "offer", "mac": "m4", "ip": "a4"}]
            acts = []
            for which, kind in ((1, pa), (2, pb)):
                if kind == "ann":
                    h.append({"a": "check", "l": which})
                    acts.append({"a": "act", "l": which})
                elif kind == "restore":
                    h += [{"a": "stop", "mac": "m%d" % which}, {"a": "check", "l": which}]
                    acts.append({"a": "act", "l": which})
                elif kind == "reply":
                    acts.append({"a": "recv", "op": 1, "es": "m3", "sm": "m3", "si": "a3", "ti": "routerip"})
                else:
                    acts.append({"a": "recv", "op": 1, "es": "m4", "sm": "m4", "si": "zero", "ti": "a%d" % which})
            h.append({"a": "overlap", "first": acts[0], "second": acts[1]})
            h += [{"a": "step", "k": 0}, {"a": "step", "k": 1}, {"a": "step", "k": 2}]
            out.append(h)
    return out


def run_c13(ctx):
    fam = ArpFamily()
    quick = ctx.quick
    binary = build(ctx)
    # genuine 6 s ticker, both tiers: 2-4 hosts hunted, all stopped, every loop ends within one cycle of its own
    # (10 s of sleeping in background processes while TLC works)
    rt_early = start_realtime(ctx, binary, "arp", [100 + ctx.seed % 3] if quick else [100, 101, 102])
    rng = random.Random(ctx.seed)
    cov = ctx.coverage
    base = open(os.path.join(vlib.SPEC, "ArpHuntMC.cfg")).read()
    probe = open(os.path.join(vlib.SPEC, "ArpHuntMC_probe.cfg")).read()
    states = trans = 0
    all_invs = list(fam.other_invs) + list(fam.prop_invs)

    # 1. the mechanism of the code (membership by MAC) satisfies every property-level predicate on the whole graph
    r = model_check(ctx, fam, base, "full_byMac_loops2", True, all_invs, 1500, MaxLoops=2)
    if not r.ok:
        raise vlib.InfraError("ArpHuntMC (ByMac): model-level failure violated=%s error=%s\n%s" % (r.violated, r.error, r.out[-2500:]))
    states, trans = states + r.distinct, trans + r.generated
    r = model_check(ctx, fam, probe, "probe_byMac", True, all_invs, 600)
    if not r.ok:
        raise vlib.InfraError("ArpHuntMC probe config: model-level failure violated=%s\n%s" % (r.violated, r.out[-2500:]))
    states, trans = states + r.distinct, trans + r.generated
    if not quick:
        # three loop instances (Start/Stop/Start leaves two loops for one MAC, plus a third target); received packets are
        # covered by the 2-loop graphs (with them this graph has 18 M states and takes 20 min)
        r = model_check(ctx, fam, base, "full_byMac_loops3", True, all_invs, 2400, MaxLoops=3, RecvOps="{}", NarrowES="TRUE")
        if not r.ok:
            raise vlib.InfraError("ArpHuntMC (ByMac, 3 loops): model-level failure violated=%s error=%s\n%s" % (r.violated, r.error, r.out[-2500:]))
        states, trans = states + r.distinct, trans + r.generated
    # 2. the mechanism with the deviation fixed in 0f0beaf (membership by IP): everything but the undo holds ...
    invs_no_undo = [i for i in all_invs if i not in ("C13_UndoWithinOneCycle", "LoopServesOwnMac")]
    r = model_check(ctx, fam, base, "full_byIP_loops2", False, invs_no_undo, 1500, MaxLoops=2)
    if not r.ok:
        raise vlib.InfraError("ArpHuntMC (ByIP): model-level failure violated=%s error=%s\n%s" % (r.violated, r.error, r.out[-2500:]))
    states, trans = states + r.distinct, trans + r.generated
    # ... and the undo does not: TLC's counterexamples are the regression tests replayed on the real code first
    r, bad = counterexamples(ctx, fam, base, "counterexamples_byIP", 7 if quick else 9, MaxLoops=2, RecvOps="{}")
    states, trans = states + r.distinct, trans + r.generated
    names = sorted({b["bad"] for b in bad})
    cov["model_counterexample_verdicts"] = names
    if any(not n.startswith("C13_UndoWithinOneCycle") for n in names):
        raise vlib.InfraError("unexpected model-level counterexample classes: %s" % names)
    rng.shuffle(bad)
    bad.sort(key=lambda b: len(b["hist"]))
    kf_hist = [b["hist"] for b in bad[:40 if quick else 200]]
    # a StartHunt whose membership test and insert are separate critical sections (deviation variant RacyStart):
    # TLC shows that two overlapping calls give one hunt two loops; the stress stage below looks for it on the real code
    r, bad2 = counterexamples(ctx, fam, base, "counterexamples_racyStart", 6, MaxLoops=2, RecvOps="{}", ByMac="TRUE", RacyStart="TRUE")
    states, trans = states + r.distinct, trans + r.generated
    if not bad2 or any(b["bad"] != "C13_Idempotent" for b in bad2):
        raise vlib.InfraError("RacyStart variant: expected C13_Idempotent counterexamples, got %s" % sorted({b["bad"] for b in bad2}))

    behaviours = [("tlc-counterexamples", kf_hist)]
    sim_depth, sim_num = (14, 600) if quick else (22, 3000)
    hs = simulate(ctx, fam, base, "sim_depth%d" % sim_depth, sim_depth, sim_num, MaxLoops=3, RecvOps="{1}", RecvSI="{a1}", RecvTI="{routerip, a2}",
                  CaptureMACs="{m1, m3}")
    rng.shuffle(hs)
    behaviours.append(("tlc-walks", hs[:sim_num]))
    hs = simulate(ctx, fam, probe, "sim_probe", 10, 100 if quick else 600, MaxLoops=2)
    rng.shuffle(hs)
    behaviours.append(("tlc-walks-probe", hs[:100 if quick else 600]))
    n, ln = (300, 50) if quick else (1500, 70)
    behaviours.append(("random", [arp_random_script(rng, ln) for _ in range(n)]))
    # one concurrent-API stage: 16 overlapping StartHunt calls per round
    behaviours.append(("stress", stress_script(rng, ARP_MACS[:3], ["a1", "a2"], 10 if quick else 40, 30, 16)))

    behaviours.append(("gap", gap_scripts()))
    # one send-overlap stage on a single P (sync.Pool then hands a returned buffer straight to the next sender)
    behaviours.append(("overlap", overlap_script() * (1 if quick else 4)))
    stats, runs, nbeh, total, samples, drift = {}, [], 0, 0, [], []
    distinct = set()
    kinds = {}
    frames_path = os.environ.get("VERIF_FRAMES_OUT")
    for label, hs in behaviours:
        if not hs:
            continue
        sp = os.path.join(ctx.scratch, label + ".script")
        tp = os.path.join(ctx.scratch, label + ".trace")
        write_script(sp, hs)
        st = drive(ctx, binary, "arp", sp, tp, frames=(frames_path + "." + label) if frames_path else None,
                   extra=("-procs", "1") if label == "overlap" else ())
        arp_kinds(tp, kinds)
        res = check_trace(ctx, fam, binary, tp, label, stats)
        res.update(st)
        runs.append(res)
        nbeh += len(hs)
        total += res["lines"]
        for h in hs:
            if len(h) > 1:
                distinct.add(vlib.digest(h))
        samples.append({"source": label, "history": hs[len(hs) // 2]})
        if res.get("drift"):
            drift.append({"source": label, "line": res.get("drift_line"), "at": res.get("drift_at")})

    for v, tp, st in collect_realtime(rt_early, "arp"):
        res = check_trace_rt(ctx, fam, binary, v, tp, "realtime-stopall-%d" % v, stats)
        res.update(st)
        runs.append(res)
        nbeh += 1
        total += res["lines"]
    require_reached(kinds, ["forged_announcement", "spoof_reply", "restore", "reject", "start_new", "start_again", "start_rejected",
                            "loop_ended_by_close"], "ARP")
    cov["reached"] = kinds
    if not quick:
        # 3. genuine 6 s ticker (direction B, real time) and the fairness configuration
        rts = run_realtime(ctx, binary, "arp", [0, 1, 2, 3])
        for v, tp, st in rts:
            res = check_trace_rt(ctx, fam, binary, v, tp, "realtime-%d" % v, stats)
            res.update(st)
            runs.append(res)
            nbeh += 1
            total += res["lines"]
        live = liveness(ctx, fam, base)
        cov["tlc"].update(live)

    cov.update({
        "states": states, "transitions": trans,
        "traces_validated_against_impl": nbeh,
        "events_recorded": total, "trace_validation_states": stats.get("tlc_trace_states", 0),
        "evaluations": nbeh, "distinct_nontrivial": len(distinct),
        "failures_by_key": stats.get("failures_by_key", {}),
        "rule": "one case = one action history executed on a real arp_spoofer.Handler with harness-driven loop cycles and "
                "validated line by line by TLC against spec/ArpHuntTrace.tla",
        "runs": runs, "samples": samples[:4], "drift": drift, "exhaustive": False,
    })
    ctx.assumptions += [
        "loop cycles are driven through the verification hooks (injected ticker channel, gates before the membership check and after the mutex is released); the thorough tier adds runs with the genuine 6 s ticker",
        "frames are observed at Session.Conn.WriteTo; received packets enter through Session.Parse + Handler.ProcessPacket on one goroutine",
        "TLC explores the complete graph for 3 targets (two sharing an address) and at most 2 (quick) / 3 (thorough) loop instances; longer histories over 6 MACs / 4 addresses are sampled",
        "reading: one forged announcement per membership check that saw the receiver hunted is allowed after StopHunt; Close cancels the obligation to restore",
    ]


RT_LATE_MS = {"arp": 7500, "ndp": 4000}      # one cycle (6 s ticker / 2.8 s sleep) plus scheduling slack


def rt_failures(ctx, fam, trace_path, label, stats=None, res=None):
    """Property-level failures of one real-time trace: [(key, what, recs)]."""
    lines = read_lines(trace_path)
    out = []
    for x in lines:
        e = json.loads(x)
        if e.get("a") == "rt.stuck":
            out.append(("%s:CloseStops:realtime" % fam.pid, "loop %s still alive 2 s after Close" % e.get("l"), [e]))
        if e.get("a") == "rt.done" and e.get("delay_ms", 0) > RT_LATE_MS[fam.sub]:
            out.append(("%s:StopEndsLoop:realtime" % fam.pid, "loop %s ended %d ms after StopHunt" % (e.get("l"), e["delay_ms"]), [e]))
    clean = os.path.join(ctx.scratch, os.path.basename(trace_path) + ".clean")
    with open(clean, "w") as f:
        f.write("\n".join(x for x in lines if '"rt.stuck"' not in x) + "\n")
    lines = read_lines(clean)
    ok, rej, fails, r = validate(ctx, fam.trace, trace_cfg(fam.trace, "M"), clean)
    if stats is not None:
        stats["tlc_trace_states"] = stats.get("tlc_trace_states", 0) + r.distinct
    if not ok:
        ok2, rej2, fails2, _ = validate(ctx, fam.trace, trace_cfg(fam.trace, "M", **{fam.fixed_const: "FALSE"}), clean)
        if ok2:
            fails = fails2
            if res is not None:
                res["matches_deviation_mechanism"] = True
        else:
            if res is not None:
                res.update({"mechanism_conformant": False, "drift_line": rej, "drift": True})
            ok3, rej3, fails, _ = validate(ctx, fam.trace, trace_cfg(fam.trace, "P"), clean)
            if not ok3:
                raise vlib.InfraError("property-mode validation rejected line %d of %s: %s" % (rej3, label, lines[rej3 - 1][:400]))
    for line, verdict in fails:
        _, recs = behaviour_at(lines, line)
        out.append((fam.key_of(verdict, recs), "real-time run contradicts %s at event %s" % (verdict, json.dumps(recs[-1])[:300]), recs))
    return out, len(lines)


def check_trace_rt(ctx, fam, binary, variant, trace_path, label, stats):
    """Real-time traces cannot be re-executed step by step: a failure is reported when a second real-time
    run of the same scenario fails with the same key."""
    res = {"label": label, "mechanism_conformant": True}
    fails, n = rt_failures(ctx, fam, trace_path, label, stats, res)
    res["lines"] = n
    res["property_failures"] = len(fails)
    if fails:
        keys2 = set()
        for _ in range(ATTEMPTS):
            again_tp = run_realtime(ctx, binary, fam.sub, [variant])[0][1]
            again, _ = rt_failures(ctx, fam, again_tp, label + "-again")
            keys2 |= {k for k, _, _ in again}
            if all(key in keys2 for key, _, _ in fails):
                break
        for key, what, recs in fails:
            if key not in keys2:
                unreproduced(ctx, label, "%s: %s" % (key, what), recs[-3:])
                continue
            ctx.report(key, what, {"family": fam.sub + "-rt", "variant": variant, "trace": recs})
            stats.setdefault("failures_by_key", {})[key] = stats.get("failures_by_key", {}).get(key, 0) + 1
    return res


def liveness(ctx, fam, cfg_base):
    """<>[] done after StopHunt / Close under weak fairness of the loop steps (small unconstrained config)."""
    out = {}
    for fixed in (True, False):
        cfg = cfg_with(cfg_base, **{fam.fixed_const: "TRUE" if fixed else "FALSE", "MaxLoops": 2, "Bounded": "FALSE"})
        cfg = cfg.replace("SPECIFICATION MCSpec", "SPECIFICATION LiveSpec")
        cfg = re.sub(r"(?m)^INVARIANTS.*$", "PROPERTIES StopLeadsToDone CloseLeadsToDone", cfg).replace("VIEW View\n", "")
        r = vlib.tlc(ctx, fam.mc, cfg="live.cfg", files={"live.cfg": cfg}, timeout=900, heap="6g", workers=4)
        label = "liveness_" + ("code_mechanism" if fixed else "deviation_variant")
        out[label] = r.summary()
        if fixed and not r.ok:
            raise vlib.InfraError("%s LiveSpec (repaired mechanism) fails: %s\n%s" % (fam.mc, r.violated, r.out[-2000:]))
        if not fixed:
            out[label]["temporal_property_violated"] = (not r.ok) and "emporal" in r.out
    return out


# ---------------------------------------------------------------------------------------------
# C14 part C: router learning exactness (spec/Ndp6RaVec.tla)

import ipaddress


def _ip(s):
    try:
        return str(ipaddress.ip_address(s))
    except ValueError:
        return "bad:" + str(s)


def ra_diff(rec, ref, ethsrc, fresh):
    """The fields in which the router record of the real handler differs from the reference record computed
    by the TLA+ reference decoder (empty if it is the record an independent decoder reads)."""
    out = []
    for k in ("managed", "other", "hop", "life", "reach", "retrans"):
        if rec[k] != ref[k]:
            out.append(k)
    if rec["prf"] not in ref["prf"]:
        out.append("prf")
    want = [dict(p, prefix=_ip(p["prefix"])) for p in ref["prefixes"]]
    for name in ("prefixes", "oprefixes"):
        got = [dict(p, prefix=_ip(p["prefix"])) for p in rec[name]]
        if got != want:
            out.append(name)
    if rec["mtu"] != ref["mtu"]:
        out.append("mtu")
    got = rec["rdnss"] if rec["rdnss"]["servers"] else None       # an RDNSS record without servers is no RDNSS
    want = None if "none" in ref["rdnss"] else ref["rdnss"]
    if (got is None) != (want is None) or (got and (got["life"] != want["life"] or [_ip(x) for x in got["servers"]] != [_ip(x) for x in want["servers"]])):
        out.append("rdnss")
    got = rec["dnssl"] if rec["dnssl"]["domains"] else None
    want = None if "none" in ref["dnssl"] else ref["dnssl"]
    if (got is None) != (want is None) or (got and (got["life"] != want["life"] or list(got["domains"]) != list(want["domains"]))):
        out.append("dnssl")
    if rec["slla"] != ref["slla"]:
        out.append("slla")
    if fresh and rec["addrmac"] != (ref["slla"] or ethsrc):
        out.append("addrmac")
    return out


def ra_judge(vec, res):
    """[] if the outcome is one an independent decoder allows, else a list of (field, detail)."""
    if res.get("panic"):
        return [("panic", res["panic"])]
    if vec.get("many"):
        out = []
        if res["lan"] != vec["many"]:
            out.append(("table", "LANRouters holds %d routers after %d distinct routers advertised" % (res["lan"], vec["many"])))
        for k, r in enumerate(res["recs"]):
            if not r["learned"]:
                out.append(("table", "router %d of %d is not (or no longer) in the table" % (k + 1, vec["many"])))
                break
            d = ra_diff(r["rec"], vec["ref"], r["ethsrc"], True)
            if d:
                out += [(f, "record of router %d of %d differs from the reference decoder" % (k + 1, vec["many"])) for f in d]
                break
        return out
    if res.get("lost") or res.get("lan", 0) != res.get("lan_expected", res.get("lan", 0)):
        return [("table", "a router learned earlier is no longer reported as it was (lost/changed %s, table size %s, expected %s)" %
                 (res.get("lost"), res.get("lan"), res.get("lan_expected")))]
    first_kept = False
    if "none" not in vec["first"]:
        fr = vec["firstRef"]
        if res["first_learned"]:
            d = ra_diff(res["first_rec"], fr["ref"], res["ethsrc"], True)
            if d:
                return [("first." + f, "first advertisement") for f in d]
            first_kept = True
        elif not fr["mayDrop"]:
            return [("first.dropped", "well-formed first advertisement not learned")]
    if res["lan_has"] != res["learned"]:
        return [("lan", "LANRouters and FindRouter disagree")]
    if not res["learned"]:
        if vec["mayDrop"] and not first_kept:
            return []
        return [("dropped", "well-formed advertisement not learned")]
    d = ra_diff(res["rec"], vec["ref"], res.get("ethsrc2", res["ethsrc"]), not first_kept)
    if not d:
        return []
    if vec["mayDrop"] and first_kept and not ra_diff(res["rec"], vec["firstRef"]["ref"], res["ethsrc"], True):
        return []                           # the malformed update was dropped: the first record stands
    return [(f, "record differs from the reference decoder") for f in d]


def ra_key(vec, field):
    ids = [o["id"] for o in vec["opts"]]
    if "none" not in vec["first"]:
        ids += [o["id"] for o in vec["first"]["opts"]]
    f = field.replace("first.", "")
    if f == "table":
        return "C14:RA:table:evicted-or-changed"
    if f == "mtu" and "mtu" in ids:
        return "C14:RA:mtu:KF_MTUOffset"
    if f == "rdnss" and "rdnssEven" in [o["id"] for o in vec["opts"]]:
        return "C14:RA:rdnss:KF_EvenLength"
    if f == "mtu" and "mtu33" in ids:
        return "C14:RA:mtu:KF_LengthWraps"
    if f == "dnssl" and any(i in ("dnssl15", "dnssl16", "dnssl30") for i in ids):
        return "C14:RA:dnssl:KF_LongOptionLength"
    bad = any(i in RA_MALFORMED for i in ids)
    return "C14:RA:%s:%s" % (f, "malformed-option-present" if bad else "wellformed")


RA_MALFORMED = {"pfxShort", "mtuLong", "rdnssEven", "rdnssShort", "dnsslShort", "routeBad", "sllaLong", "mtu33", "slla33", "pfx36"}


def ra_vectors(ctx, part, maxlen, maxsecond):
    cfg = open(os.path.join(vlib.SPEC, "Ndp6RaVec.cfg")).read()
    cfg = cfg_with(cfg, MaxLen=maxlen, MaxSecond=maxsecond, Part='"%s"' % part)
    r = vlib.tlc(ctx, "Ndp6RaVec", cfg="vec.cfg", files={"vec.cfg": cfg}, timeout=900, heap="6g", workers=4, jprops=MEMQ)
    if not r.ok:
        raise vlib.InfraError("Ndp6RaVec %s: model-level failure (violated=%s error=%s)\n%s" % (part, r.violated, r.error, r.out[-2000:]))
    vecs = [v for v in r.json if isinstance(v, dict) and "ref" in v]
    if len(vecs) != r.distinct:
        raise vlib.InfraError("Ndp6RaVec %s: %d vectors printed for %d states" % (part, len(vecs), r.distinct))
    ctx.coverage.setdefault("tlc", {})["ravec_%s" % part] = dict(r.summary(), vectors=len(vecs))
    return r, vecs


def ra_run(ctx, binary, vecs, tag, shared=False):
    vp = os.path.join(ctx.scratch, "ra-%s.vec" % tag)
    rp = os.path.join(ctx.scratch, "ra-%s.%s" % (tag, ("shared-" + str(shared)) if shared else "fresh"))
    with open(vp, "w") as f:
        for v in vecs:
            f.write(json.dumps(v) + "\n")
    args = ["ra", "-vectors", vp, "-out", rp] + (["-shared"] if shared else []) + (["-overwrite"] if shared == "overwrite" else [])
    fr = os.environ.get("VERIF_FRAMES_OUT")
    if fr and not shared:
        args += ["-frames", fr + ".ra-" + tag]
    vlib.run_driver(ctx, binary, args, timeout=600)
    res = [json.loads(x) for x in read_lines(rp)]
    if len(res) != len(vecs):
        raise vlib.InfraError("ra driver returned %d results for %d vectors" % (len(res), len(vecs)))
    for v, r in zip(vecs, res):
        if v.get("perm") and not r.get("perm_ok"):
            raise vlib.InfraError("permutation vector %s: the two advertisements do not have equal length and checksum" % [o["id"] for o in v["opts"]])
    return res


def ra_failures(vecs, res, suffix=""):
    per_key = {}
    for i, (v, r) in enumerate(zip(vecs, res)):
        for field, detail in ra_judge(v, r):
            per_key.setdefault(ra_key(v, field) + suffix, []).append((v, r, field, detail, i))
    return per_key


def ra_check(ctx, binary, vecs, tag, stats):
    """Fresh mode (every packet in its own buffer) and shared mode (one receive buffer, overwritten after each
    packet -- the way a packet loop uses the library): in both the record must be the reference record."""
    res = ra_run(ctx, binary, vecs, tag)
    shared = ra_run(ctx, binary, vecs, tag, shared=True)
    over = ra_run(ctx, binary, vecs, tag, shared="overwrite")      # no scribbling: the next frame overwrites the previous one
    per_key = ra_failures(vecs, res)
    modes = {}
    for suffix, mode, rr in ((":shared-buffer", True, shared), (":shared-overwrite", "overwrite", over)):
        for key, items in ra_failures(vecs, rr, suffix).items():
            if key[:-len(suffix)] not in per_key:
                per_key[key] = items
                modes[key] = (suffix, mode)
    for key, items in sorted(per_key.items()):
        suffix, sh = modes.get(key, ("", False))
        base = key[:-len(suffix)] if suffix else key
        for v, r, field, detail, idx in items[:2]:
            if field == "table" and not v.get("many"):
                # depends on the routers the same handler learned before: re-run the whole batch
                again = ra_run(ctx, binary, vecs, "confirm-all", shared=sh)[idx]
            else:
                again = ra_run(ctx, binary, [v], "confirm", shared=sh)[0]
            ok_again = any(ra_key(v, f) == base for f, _ in ra_judge(v, again))
            for _ in range(ATTEMPTS - 1):
                if ok_again:
                    break
                again = (ra_run(ctx, binary, vecs, "confirm-all", shared=sh)[idx] if field == "table" and not v.get("many")
                         else ra_run(ctx, binary, [v], "confirm", shared=sh)[0])
                ok_again = any(ra_key(v, f) == base for f, _ in ra_judge(v, again))
            if not ok_again:
                unreproduced(ctx, "ra-" + tag, key, {"vector": {"h": v["h"]["id"], "opts": [o["id"] for o in v["opts"]]}, "field": field})
                continue
            ids = [o["id"] for o in v["opts"]]
            ctx.report(key, "router record field %s after RA %s %s%s: %s (handler has %s, reference %s)" %
                       (field, v["h"]["id"], ids, " with a reused receive buffer" if sh else "", detail,
                        json.dumps((r.get("rec") or {}).get(field.replace("first.", ""), None)),
                        json.dumps((v["firstRef"]["ref"] if field.startswith("first.") else v["ref"]).get(field.replace("first.", ""), None), default=list)),
                       {"family": "ra", "vector": v, "field": field, "shared": sh})
        stats.setdefault("failures_by_key", {})[key] = stats.get("failures_by_key", {}).get(key, 0) + len(items)
    diff_over = sum(1 for a, b in zip(res, over) if a != b)
    diff = sum(1 for a, b in zip(res, shared) if a != b)
    return {"vectors": len(vecs), "failing_vectors": sum(len(x) for x in per_key.values()), "shared_buffer_differences": diff,
            "shared_overwrite_differences": diff_over}


def c10_part(ctx):
    """For checks/c10.py: the RA-learning histories in fresh and in shared-buffer mode. Every field of the
    FindRouter / LANRouters transcript (Router.Addr.MAC, flags, lifetimes, prefixes, MTU, RDNSS servers, DNSSL
    domains, SLLA) that differs between the two modes is reported through ctx.report with key C10:ndp:<field>.
    Returns (evaluations, distinct_nontrivial, differences)."""
    binary = build(ctx)
    _, vecs = ra_vectors(ctx, "single", 2 if ctx.quick else 3, 1)
    _, vecs2 = ra_vectors(ctx, "update", 1, 1 if ctx.quick else 2)
    _, vecs3 = ra_vectors(ctx, "many", 1, 1)
    ndiff = 0
    seen = set()
    for tag, vs, mode in [(t, v, m) for t, v in (("c10-single", vecs), ("c10-update", vecs2), ("c10-many", vecs3)) for m in (True, "overwrite")]:
        # mode True: the buffer is scribbled over after each packet; "overwrite": the next packet overwrites it (a real receive loop)
        fresh = ra_run(ctx, binary, vs, tag)
        shared = ra_run(ctx, binary, vs, tag, shared=mode)
        for idx, (v, a, b) in enumerate(zip(vs, fresh, shared)):
            if a == b:
                continue
            ndiff += 1
            fields = sorted(k for k in set(a) | set(b) if a.get(k) != b.get(k))
            sub = []
            for k in fields:
                if k == "recs":          # many-routers vectors: a list of {learned, rec}
                    for x, y in zip(a[k], b[k]):
                        if x != y:
                            rx, ry = x.get("rec") or {}, y.get("rec") or {}
                            sub += sorted(f for f in set(rx) | set(ry) if rx.get(f) != ry.get(f)) or ["learned"]
                            break
                elif isinstance(a.get(k), dict) and isinstance(b.get(k), dict):
                    sub += ["%s" % f for f in sorted(set(a[k]) | set(b[k])) if a[k].get(f) != b[k].get(f)]
                else:
                    sub.append(k)
            for f in sub:
                key = "C10:ndp:%s" % f
                if key in seen:
                    continue
                seen.add(key)
                a2 = ra_run(ctx, binary, [v], "c10-confirm")[0]
                b2 = ra_run(ctx, binary, [v], "c10-confirm", shared=mode)[0]
                if a2 == b2 and not v.get("many"):
                    # may depend on the routers the same handler learned before: re-run the whole batch
                    a2 = ra_run(ctx, binary, vs, "c10-confirm-all")[idx]
                    b2 = ra_run(ctx, binary, vs, "c10-confirm-all", shared=mode)[idx]
                if a2 == b2:
                    unreproduced(ctx, tag, key, {"vector": {"h": v["h"]["id"], "opts": [o["id"] for o in v["opts"]]}})
                    continue
                ctx.report(key, "router record after RA %s %s depends on the receive buffer being left alone: field %s" %
                           (v["h"]["id"], [o["id"] for o in v["opts"]], f), {"family": "ra", "vector": v, "field": f, "shared": mode})
    nv = len(vecs) + len(vecs2) + len(vecs3)
    return nv, nv, ndiff


def replay_ra(ctx, binary, obj, path):
    v = obj["replay"]["vector"]
    sh = obj["replay"].get("shared") or False
    r = ra_run(ctx, binary, [v], "replay", shared=sh)[0]
    if obj["key"].startswith("C10:"):
        fresh = ra_run(ctx, binary, [v], "replay")[0]
        if fresh != r:
            print("VIOLATION property=%s replay=%s" % (ctx.pid, path))
            return 1
        print("not reproduced")
        return 0
    want = obj["key"]
    for suffix in (":shared-buffer", ":shared-overwrite"):
        if want.endswith(suffix):
            want = want[:-len(suffix)]
    if any(ra_key(v, f) == want for f, _ in ra_judge(v, r)):
        print("VIOLATION property=%s replay=%s" % (ctx.pid, path))
        return 1
    print("not reproduced")
    return 0


# ---------------------------------------------------------------------------------------------
# C14: ICMPv6

class NdpFamily(Family):
    pid, sub, mc, trace, fixed_const = "C14", "ndp", "Ndp6HuntMC", "Ndp6HuntTrace", "SafeWake"
    prop_invs = ("C14_ForgedOnlyToHunted", "C14_OnlyAfterRouter", "C14_NAFields", "C14_StartFilters", "C14_Idempotent",
                 "C14_QuietAfterStop", "NoPanic")
    other_invs = ("TypeOK", "SleepersWakeOnClose")

    def key_of(self, verdict, recs):
        name = verdict.replace("C14_", "")
        if name == "NoPanic":
            last = recs[-1]
            closed = any(e.get("a") in ("close", "rt.close") for e in recs)
            if closed and last.get("a") == "ra" and last.get("hunt") and "closed channel" in str(last.get("panic", "")):
                return "C14:NoPanic:KF_RAAfterClose"
        return "C14:" + name

    def panic_key(self, rec, recs):
        if rec.get("a") == "ra":
            return self.key_of("C14_NoPanic", recs)
        return "C14:panic:%s" % rec.get("a")


NDP_MACS = ["m%d" % i for i in range(1, 7)]
NDP_EXTRA_LLA = ["lz1", "lx1", "lx2"]       # link-local unicast all the same: zoned, and with non-zero bits after the /10 prefix
NDP_OTHER_V6 = ["ula1", "unspec6", "loop6", "mc5", "map4", "allnodes"]      # IPv6, but not link-local unicast: ignored targets


def ndp_random_script(rng, length):
    macs = rng.sample(NDP_MACS, rng.randint(2, 4))
    ipof = {m: rng.choice(["l1", "l2", "l3", "l4", "noip", "noip", "g1", "a1"] + NDP_EXTRA_LLA + NDP_OTHER_V6) for m in macs}
    routers = rng.sample([("r1", "rm1"), ("r2", "rm2"), ("r3", "rm3")], rng.randint(1, 3))
    out = []
    closed = False
    for _ in range(length):
        x = rng.random()
        m = rng.choice(macs)
        if x < 0.18:
            ip = ipof[m] if rng.random() < 0.7 else rng.choice(["l1", "l3", "noip", "g2", "a2"] + NDP_EXTRA_LLA + NDP_OTHER_V6)
            if rng.random() < 0.1:
                out.append({"a": "cstart", "mac": m, "ip": ip, "n": rng.choice([2, 4, 8])})
            else:
                out.append({"a": "start", "mac": m, "ip": ip})
        elif x < 0.28:
            ip = ipof[m] if rng.random() < 0.6 else rng.choice(["noip", "g1", "a1", "l2"] + NDP_EXTRA_LLA + NDP_OTHER_V6)
            out.append({"a": "stop", "mac": rng.choice(macs + [rng.choice(NDP_MACS)]), "ip": ip})
        elif x < 0.62:
            out.append({"a": "step", "k": rng.randint(0, 5)})
        elif x < 0.90:
            if closed and rng.random() < 0.9:
                continue            # an RA after Close with a non-empty list ends the behaviour (known finding): keep some
            src, rmac = rng.choice(routers)
            kind = rng.choice(["ok"] * 8 + ["badopts", "nohost"])
            out.append({"a": "ra", "src": src, "rmac": rmac, "kind": kind})
        elif x < 0.94:
            out.append({"a": "other", "kind": rng.choice(["ns-lla", "ns-gua", "na", "rs", "echo"])})
        elif x < 0.97:
            out.append({"a": rng.choice(["capture", "capture", "release"]), "mac": rng.choice(macs + [rng.choice(NDP_MACS)])})
        elif rng.random() < 0.5:
            out.append({"a": "close"})
            closed = True
    return out


def run_c14(ctx):
    fam = NdpFamily()
    quick = ctx.quick
    binary = build(ctx)
    rng = random.Random(ctx.seed)
    cov = ctx.coverage
    base = open(os.path.join(vlib.SPEC, "Ndp6HuntMC.cfg")).read()
    all_invs = list(fam.other_invs) + list(fam.prop_invs)
    states = trans = 0

    # 1. the repaired mechanism satisfies every property-level predicate on the whole graph
    r = model_check(ctx, fam, base, "full_safeWake_loops2", True, all_invs, 1500, MaxLoops=2)
    if not r.ok:
        raise vlib.InfraError("Ndp6HuntMC (SafeWake): model-level failure violated=%s error=%s\n%s" % (r.violated, r.error, r.out[-2500:]))
    states, trans = states + r.distinct, trans + r.generated
    # 2. the mechanism with the deviation fixed in 1cb0389 (RA wake-up ignores `closed`): everything but NoPanic holds ...
    r = model_check(ctx, fam, base, "full_asCoded_loops2", False, [i for i in all_invs if i != "NoPanic"], 1500, MaxLoops=2)
    if not r.ok:
        raise vlib.InfraError("Ndp6HuntMC (as coded): model-level failure violated=%s error=%s\n%s" % (r.violated, r.error, r.out[-2500:]))
    states, trans = states + r.distinct, trans + r.generated
    if not quick:
        cfg = set_invariants(cfg_with(base, SafeWake="TRUE", Bounded="TRUE", MaxDepth=9, MaxLoops=3), all_invs)
        r = vlib.tlc(ctx, fam.mc, cfg="mc3.cfg", files={"mc3.cfg": cfg}, timeout=1500, heap="8g", workers=workers(ctx), jprops=MEMQ)
        cov["tlc"]["depth9_safeWake_loops3"] = r.summary()
        if not r.ok:
            raise vlib.InfraError("Ndp6HuntMC depth 9: model-level failure violated=%s error=%s\n%s" % (r.violated, r.error, r.out[-2500:]))
        states, trans = states + r.distinct, trans + r.generated
    # ... and NoPanic does not: TLC's counterexamples are replayed on the real code first
    r, bad = counterexamples(ctx, fam, base, "counterexamples_asCoded", 5 if quick else 7, MaxLoops=2)
    states, trans = states + r.distinct, trans + r.generated
    names = sorted({b["bad"] for b in bad})
    cov["model_counterexample_verdicts"] = names
    if any(n != "C14_NoPanic" for n in names):
        raise vlib.InfraError("unexpected model-level counterexample classes: %s" % names)
    rng.shuffle(bad)
    bad.sort(key=lambda b: len(b["hist"]))
    behaviours = [("tlc-counterexamples", [b["hist"] for b in bad[:40 if quick else 200]])]
    sim_depth, sim_num = (16, 600) if quick else (24, 3000)
    hs = simulate(ctx, fam, base, "sim_depth%d" % sim_depth, sim_depth, sim_num, MaxLoops=3, CaptureMACs="{m1, m2}", ExtraLLAs="{lz1, lx1, lx2}")
    rng.shuffle(hs)
    behaviours.append(("tlc-walks", hs[:sim_num]))
    n, ln = (300, 60) if quick else (1500, 80)
    behaviours.append(("random", [ndp_random_script(rng, ln) for _ in range(n)]))
    # one concurrent-API stage: 16 overlapping StartHunt calls per round (link-local and address-less targets)
    behaviours.append(("stress", stress_script(rng, NDP_MACS[:3], ["l1", "l2"], 5 if quick else 20, 30, 16) +
                       stress_script(rng, NDP_MACS[:3], ["noip"], 5 if quick else 20, 30, 16)))

    stats, runs, nbeh, total, samples, drift = {}, [], 0, 0, [], []
    distinct = set()
    kinds = {}
    frames_path = os.environ.get("VERIF_FRAMES_OUT")
    for label, hs in behaviours:
        if not hs:
            continue
        sp = os.path.join(ctx.scratch, label + ".script")
        tp = os.path.join(ctx.scratch, label + ".trace")
        write_script(sp, hs)
        st = drive(ctx, binary, "ndp", sp, tp, frames=(frames_path + "." + label) if frames_path else None)
        ndp_kinds(tp, kinds)
        res = check_trace(ctx, fam, binary, tp, label, stats)
        res.update(st)
        runs.append(res)
        nbeh += len(hs)
        total += res["lines"]
        for h in hs:
            if len(h) > 1:
                distinct.add(vlib.digest(h))
        samples.append({"source": label, "history": hs[len(hs) // 2]})
        if res.get("drift"):
            drift.append({"source": label, "line": res.get("drift_line"), "at": res.get("drift_at")})

    require_reached(kinds, ["forged_na", "start_new", "start_rejected", "start_ignored_or_again", "check_done", "check_send",
                            "check_no_router", "ra", "ra_error", "round_two_routers"], "ICMPv6")
    cov["reached"] = kinds
    # 3. router learning exactness: TLC enumerates the option lists and computes the reference record
    ra = {}
    r, vecs = ra_vectors(ctx, "single", 2 if quick else 3, 1)
    states, trans = states + r.distinct, trans + r.generated
    ra["single"] = ra_check(ctx, binary, vecs, "single", stats)
    samples.append({"source": "ra-vector", "vector": {"h": vecs[len(vecs) // 2]["h"]["id"], "opts": [o["id"] for o in vecs[len(vecs) // 2]["opts"]],
                                                      "ref": vecs[len(vecs) // 2]["ref"]}})
    r, vecs2 = ra_vectors(ctx, "update", 1, 1 if quick else 2)
    states, trans = states + r.distinct, trans + r.generated
    ra["update"] = ra_check(ctx, binary, vecs2, "update", stats)
    r, vecs3 = ra_vectors(ctx, "many", 1, 1)
    states, trans = states + r.distinct, trans + r.generated
    ra["many_routers"] = ra_check(ctx, binary, vecs3, "many", stats)
    cov["ra_learning"] = ra

    if not quick:
        rts = run_realtime(ctx, binary, "ndp", [0, 1, 2, 3])
        for v, tp, st in rts:
            res = check_trace_rt(ctx, fam, binary, v, tp, "realtime-%d" % v, stats)
            res.update(st)
            runs.append(res)
            nbeh += 1
            total += res["lines"]
        cov["tlc"].update(liveness(ctx, fam, base))

    nvec = len(vecs) + len(vecs2) + len(vecs3)
    cov.update({
        "states": states, "transitions": trans,
        "traces_validated_against_impl": nbeh,
        "events_recorded": total, "trace_validation_states": stats.get("tlc_trace_states", 0),
        "evaluations": nbeh + nvec, "distinct_nontrivial": len(distinct) + nvec,
        "failures_by_key": stats.get("failures_by_key", {}),
        "rule": "one case = one action history executed on a real icmp_spoofer.Handler6 with harness-driven loop cycles and validated "
                "line by line by TLC against spec/Ndp6HuntTrace.tla, or one RA option vector of spec/Ndp6RaVec.tla fed to a real handler "
                "and compared with the reference Router record",
        "runs": runs, "samples": samples[:5], "drift": drift, "exhaustive": False,
    })
    ctx.assumptions += [
        "loop cycles are driven through the verification hooks (gates before the membership check and before the send round, an injected end of the sleep); the thorough tier adds runs with the genuine 2.0-2.8 s timer",
        "the process-global RA counter is not read: TLC infers its value from the trace (every 4th RA per process is processed)",
        "StopHunt with a target that StartHunt would not accept (IPv4 / non-link-local) is taken to be ignored like StartHunt ignores it (DESIGN 6/C14)",
        "reading for malformed RA options: dropping the whole advertisement or skipping the malformed option are both accepted; reading values out of a malformed option is not; "
        "an RDNSS/DNSSL record without servers/domains counts as absent; a reserved router preference (10) may be kept raw or read as medium",
        "TLC explores the complete graph for 3 targets (5 address forms), 2 routers and at most 2 loop instances; longer histories over 6 MACs / 3 routers are sampled",
    ]
