"""X02 -- addr.go: AddrList (Add / Del / Index / Len) and the value type Addr   (spec/AddrList.tla, AddrListMC.tla, AddrVec.tla)

Statement (written by the verification team; the component has no listed property):
 the list is a SET keyed by MAC that remembers insertion order:
 (a) no two entries have the same MAC (the nil and the empty MAC are one key);
 (b) Add(a): afterwards a.MAC is present; a new MAC is appended at the end with a.IP; a known MAC changes nothing (its first IP stays);
 (c) Del(a) removes exactly the entry of a.MAC whatever a.IP / a.Port are, the other entries keep their order; an unknown MAC changes nothing;
 (d) Index(mac) is the 0-based position in that order, -1 iff absent; Len is the number of entries;
 (e) Add and Del always return nil and never panic;
 (f) Addr.String / FastLog / Network are total (zero value included): "packet: mac=<colon hex | nil> ip=<text | nil>[ port=<n>]", "raw".

Pipeline: TLC explores the finite state space of AddrListMC COMPLETELY (the mechanism transcription of the slice code against the
ordered-set reference: NoDuplicateMAC, MatchesRef, IndexConsistent, StepShape) and exports one behaviour per (action, successor
state); extradrv executes every behaviour on a real packet.AddrList and compares list (VerifList hook), Len and Index of every
MAC after every step.  AddrVec enumerates MAC kinds x IP kinds x ports for (f).
Thorough tier: the type's comment calls it "goroutine safe" but it has no lock: a -race build of the driver shows the data race
(known finding X02:NotGoroutineSafe; the only user, icmp_spoofer.Handler6, serialises all calls under its own mutex)."""
import json
import os
import subprocess

import extras_common as xc
import vlib

LEVEL = "model_checking"


def mc_cfg(macs, ips, every):
    return ("SPECIFICATION MCSpec\nCONSTANTS\n  MACs = {%s}\n  IPs = {%s}\n  MaxDepth = 99\n  ExportEvery = %d\n"
            "INVARIANTS DepthOK NoDuplicateMAC MatchesRef IndexConsistent Export\nPROPERTIES StepShape\nVIEW ViewLast\nCHECK_DEADLOCK FALSE\n" %
            (", ".join('"%s"' % m for m in macs), ", ".join('"%s"' % i for i in ips), every))


VEC_CFG = """SPECIFICATION VSpec
CONSTANTS
  MacKinds = {"nil", "empty", "len1", "len5", "len6", "len6zero", "len6bcast", "len7", "len8", "len20"}
  IpKinds = {"invalid", "v4", "v4zero", "v4bcast", "v6", "v6zero", "v6zone", "v4in6"}
  Ports = {0, 1, 80, 65535}
INVARIANTS VExport ZeroCovered
CHECK_DEADLOCK FALSE
"""


def execute(ctx, binary, behaviours, vectors, tag):
    bp = os.path.join(ctx.scratch, tag + ".beh")
    vp = os.path.join(ctx.scratch, tag + ".vec")
    rp = os.path.join(ctx.scratch, tag + ".res")
    args = ["addrlist", "-out", rp]
    if behaviours is not None:
        xc.write_lines(bp, behaviours)
        args += ["-in", bp]
    if vectors is not None:
        xc.write_lines(vp, vectors)
        args += ["-vec", vp]
    return xc.drive(ctx, binary, args, timeout=600), xc.read_results(rp)


def key_of(res, behaviours):
    if res["kind"] == "vector":
        return "X02:Addr:%s" % res["aspect"]
    return "X02:%s:%s" % (behaviours[res["i"]][res["step"]]["a"], res["aspect"])


def run(ctx):
    quick = ctx.quick
    binary = vlib.go_build(ctx, "extradrv")
    cov = ctx.coverage
    cov["tlc"] = {}
    macs, ips, every = (["m1", "m3", "m0", "m4"], ["i1", "i2", "i3"], 3) if quick else (["m1", "m2", "m3", "m0", "m4"], ["i1", "i3"], 1)
    r = xc.tlc_ok(ctx, "AddrListMC", mc_cfg(macs, ips, every), "complete", timeout=1500)
    cov["tlc"]["complete"] = r.summary()
    states, trans = r.distinct, r.generated
    behs = [h for h in r.json if isinstance(h, list)]
    if not behs:
        raise vlib.InfraError("TLC exported no behaviours")
    if not quick:       # the 3 x 3 universe of the quick tier as well, every pair
        r2 = xc.tlc_ok(ctx, "AddrListMC", mc_cfg(["m1", "m2", "m3", "m0"], ["i1", "i2", "i3"], 1), "complete 4x3", timeout=1500)
        cov["tlc"]["complete_4x3"] = r2.summary()
        states += r2.distinct
        trans += r2.generated
        behs += [h for h in r2.json if isinstance(h, list)]
    rv = xc.tlc_ok(ctx, "AddrVec", VEC_CFG, "vectors", timeout=300, workers=1)
    cov["tlc"]["vectors"] = rv.summary()
    vecs = [v for v in rv.json if isinstance(v, dict)]
    if len(vecs) != rv.distinct:
        raise vlib.InfraError("AddrVec: %d states but %d vectors" % (rv.distinct, len(vecs)))
    states += rv.distinct
    trans += rv.generated

    st, results = execute(ctx, binary, behs, vecs, "all")
    cov["driver"] = st
    seen = {}
    for res in results:
        key = key_of(res, behs)
        seen[key] = seen.get(key, 0) + 1
        if seen[key] > 2:
            continue
        if res["kind"] == "vector":
            v = vecs[res["i"]]
            _, again = execute(ctx, binary, None, [v], "re")
            if not again:
                raise vlib.InfraError("X02: vector failure did not reproduce: %s" % json.dumps(res))
            ctx.report(key, "Addr{mac=%s ip=%s port=%s}: %s must give %r, the real type gave %r" %
                       (v["mac"], v["ip"], v["port"], res["aspect"], res["want"], res["got"]), {"kind": "vector", "vector": v})
        else:
            b = behs[res["i"]]
            _, again = execute(ctx, binary, [b], None, "re")
            if not again or again[0]["step"] != res["step"]:
                raise vlib.InfraError("X02: behaviour failure did not reproduce: %s" % json.dumps(res))
            s = b[res["step"]]
            ctx.report(key, "AddrList contradicts the ordered-set statement: after %s the %s must be %s, the real list shows %s" %
                       (json.dumps([{k: x[k] for k in ("a", "mac", "ip")} for x in b[:res["step"] + 1]]), res["aspect"],
                        json.dumps(s["exp"], sort_keys=True), json.dumps(res["actual"], sort_keys=True)),
                       {"kind": "behaviour", "behaviour": b, "step": res["step"]})
    if not quick:
        rb = vlib.go_build(ctx, "extradrv", race=True)
        p = subprocess.run([rb, "addrlist", "-race"], stdout=subprocess.PIPE, stderr=subprocess.PIPE, text=True, timeout=300,
                           env=dict(os.environ, GORACE="halt_on_error=0 exitcode=66"))
        racy = "WARNING: DATA RACE" in p.stderr
        cov["race_build"] = {"exit": p.returncode, "data_race_reported": racy}
        if racy:
            ctx.report("X02:NotGoroutineSafe", "AddrList is documented as goroutine safe (addr.go:41) but has no synchronisation: "
                       "the race detector reports unsynchronised access to AddrList.list under concurrent Add / Del / Index",
                       {"kind": "race"})
    distinct = {vlib.digest([{k: x[k] for k in ("a", "mac", "ip")} for x in b]) for b in behs if len(b) > 1}
    cov.update({
        "states": states, "transitions": trans,
        "traces_validated_against_impl": len(behs), "vectors": len(vecs),
        "evaluations": len(behs) + len(vecs), "distinct_nontrivial": len(distinct),
        "rule": "one case = one Add/Del history executed on a real packet.AddrList with list, Len and Index of every MAC compared after "
                "every step with spec/AddrList.tla (distinct = distinct histories of length >= 2), or one Addr value rendered by String / FastLog / Network",
        "samples": [{"behaviour": behs[len(behs) // 2]}, {"vector": vecs[len(vecs) // 3]}],
        "exhaustive": every == 1,
        "observed": {"retains_caller_mac_slice": st.get("retains_caller_mac_slice")},
    })
    ctx.assumptions += [
        "the list content is read through the verification hook AddrList.VerifList (verif_addrlist_on.go)",
        "every call passes a fresh copy of the MAC (Add keeps the caller's slice; the statement does not promise a copy)",
        "sequential use (the only user holds its own mutex around every call); concurrency is shown by the race build in the thorough tier only",
    ]


def replay(ctx, path):
    obj = xc.load_replay(path)
    binary = vlib.go_build(ctx, "extradrv")
    if obj.get("kind") == "vector":
        _, again = execute(ctx, binary, None, [obj["vector"]], "re")
    elif obj.get("kind") == "behaviour":
        _, again = execute(ctx, binary, [obj["behaviour"]], None, "re")
    else:
        print("race demonstration: run the thorough tier")
        return 0
    if again:
        print("VIOLATION property=%s replay=%s" % (ctx.pid, path))
        return 1
    print("not reproduced")
    return 0
