"""X05 -- small request/reply protocols that run over the session and that no listed property covers
(spec/RouterCheck.tla, spec/ArpQuery.tla; driver harness/cmd/extradrv2 vdr | whois | scan)

Statements (written by the verification team; the components have no listed property):

 (a) Session.ValidateDefaultRouter(addr), layer_icmp.go.  With ans[j] = "an ICMP echo reply carrying the identifier of request j
     was handed to Session.Parse while request j was outstanding":
       nil <=> ans[1] and (ans[2] or ans[3]);  ErrTimeout <=> not ans[1];  ErrNotRedirected <=> ans[1] and not ans[2] and not ans[3];
     the call writes one echo request from the NIC's own address, then at most two with the ROUTER's address as source (a spoofed
     one only after an answered probe, the second only after an unanswered first), every frame a well-formed echo request to the
     client with pairwise distinct identifiers; none of its identifiers has a registered waiter after it returned.
 (b) arp_spoofer.Handler.WhoIs(ip): (addr, nil) => addr is the binding of ip in the session's host table (latest learned MAC);
     ErrNotFound => three broadcast requests for ip were written and nothing that binds ip was parsed before WhoIs returned
     (contradicted before /repo 27a6daa, finding X05:WhoIsLastAnswerIgnored, now fixed: the constant LastLook of the specification
     follows the status of that entry, and a tree without the repair is reported with that key again);
     every frame is the broadcast request "who has ip, tell <NIC>"; none when ip is already known.
     arp_spoofer.Handler.Scan(): without Close and write errors every address of the home LAN except network, broadcast, router
     and own receives exactly one request, in ascending order; nothing is written after Close returned; nil unless a non-temporary
     write error, which is returned.  (There is no CheckAddr / ScanNetwork in this version: Scan's comment uses the old name.)

Pipeline: TLC explores RouterCheck (every environment choice: per ping up to MaxEv messages of six kinds, inline or after the
send, write failures, timeouts as nondeterministic steps) and ArpQuery (WhoIs: five target kinds x three initial table states x
per round up to MaxEv messages of six kinds; Scan: prefix lengths 24, 28..32 x host / router positions x fault scripts), deciding
the property-level rules on the mechanism model, and exports one document per terminal state.  extradrv2 executes them on the real
functions with a hookable connection that hands the replies to Session.Parse at the modelled moment; this module compares.
Real time: ValidateDefaultRouter's timeout is fixed by the code (2 s per ping); behaviours with timeouts run concurrently (one
client address each), a "no reply" behaviour simply waits for the code's own timer, and no verdict depends on a tight timing:
a behaviour whose injection was completed late is reported as inconclusive."""
import json
import random

import extras2_common as xc
import vlib

LEVEL = "model_checking"

RC_INV = "TypeOK TabOnlyCurrent TableEmptyAfterwards ResultRule FramesRule ThirdOnlyAfterUnansweredSecond Export"


def rc_cfg(maxev):
    return "SPECIFICATION Spec\nCONSTANTS MaxEv = %d\nINVARIANTS %s\nCHECK_DEADLOCK FALSE\n" % (maxev, RC_INV)


def last_look():
    """ArpQuery's constant LastLook follows known finding X05:WhoIsLastAnswerIgnored (fixed by /repo 27a6daa)."""
    return xc.finding_fixed("X05:WhoIsLastAnswerIgnored")


def aq_cfg(part, maxev=1, bits="{28}", faults=0):
    inv = "W1 W2a W2bIfLastLook W3 W2bOnlyLastRound WExport" if part == "whois" else "S1 S1b S3 SExport"
    return ("SPECIFICATION Spec\nCONSTANTS\n LastLook = %s\n Part = \"%s\"\n MaxEv = %d\n Bits = %s\n MaxFaults = %d\nINVARIANTS %s\nCHECK_DEADLOCK FALSE\n" %
            ("TRUE" if last_look() else "FALSE", part, maxev, bits, faults, inv))


# ---------------------------------------------------------------------------------------------------------------- (a)
def vdr_calls(b):
    return "; ".join("ping %d: %s%s -> %s" % (p["k"], "write refused " if p["fail"] else "",
                                              ",".join(e["kind"] + "@" + e["when"] for e in p["evs"]) or "no message", p["end"])
                     for p in b["plan"])


def vdr_judge(b, r, drift):
    """Returns (key, what) of the first property-level contradiction, ("inconclusive", why), or (None, None)."""
    if r.get("inconclusive"):
        return "inconclusive", r["inconclusive"]
    ctxt = "ValidateDefaultRouter with the environment [%s]" % vdr_calls(b)
    if r["res"] == "panic":
        return "X05:vdr:panic", "%s panicked: %s" % (ctxt, r.get("panic"))
    if r["res"] != b["res"]:
        return "X05:vdr:res", "%s returned %s; the rule on the answered requests %s gives %s" % (ctxt, r["res"], b["ans"], b["res"])
    exp = [f["src"] for f in b["frames"]]
    act = [f["src"] for f in r["frames"]]
    if exp != act or r.get("extra"):
        return "X05:vdr:frames", "%s wrote requests with source addresses %s (+%d beyond the third), expected %s" % (ctxt, act, r.get("extra", 0), exp)
    for n, f in enumerate(r["frames"]):
        if f["wf"] or f["kind"] != "echoreq" or not f["dst_ok"]:
            return "X05:vdr:wellformed", "%s: frame %d is not a well-formed echo request to the client: %s" % (ctxt, n + 1, json.dumps(f))
    if not r["distinct"]:
        return "X05:vdr:ids", "%s: the identifiers of the requests are not pairwise distinct: %s" % (ctxt, [f["id"] for f in r["frames"]])
    if r["left"]:
        return "X05:vdr:waiters", "%s: waiters for identifiers %s are still registered after the call returned" % (ctxt, r["left"])
    # mechanism level only
    for f in r["frames"]:
        if f["seq"] != 1 or f["ttl"] != 50 or f["data"] != "HELLO-NETFILTER":
            drift("X05:vdr:fields", "echo request with seq/ttl/data %s/%s/%r (the code writes 1/50/HELLO-NETFILTER)" % (f["seq"], f["ttl"], f["data"]))
    if r["mode"] == "seq" and (r["rel_ids"] or []) != [f["id"] for f in b["frames"]] or (r["mode"] == "seq" and r["spent"] != len(b["plan"])):
        drift("X05:vdr:idsequence", "identifiers %s (%d spent), the table counter gives %s" % (r["rel_ids"], r["spent"], [f["id"] for f in b["frames"]]))
    t = sum(1 for p in b["plan"] if p["end"] == "timeout")
    if r["elapsed_ms"] < t * 2000 - 20:
        drift("X05:vdr:early", "%d unanswered ping(s) took %d ms (the code waits 2 s each)" % (t, r["elapsed_ms"]))
    return None, None


def part_vdr(ctx, binary, judge, cov):
    quick = ctx.quick
    rng = random.Random(ctx.seed)
    r = xc.tlc_ok(ctx, "RouterCheck", rc_cfg(1), "MaxEv 1", timeout=300)
    cov["tlc"]["RouterCheck_ev1"] = r.summary()
    states, trans = r.distinct, r.generated
    behs = xc.exported(r, "plan")
    if not quick:
        r2 = xc.tlc_ok(ctx, "RouterCheck", rc_cfg(2), "MaxEv 2", timeout=900)
        cov["tlc"]["RouterCheck_ev2"] = r2.summary()
        states += r2.distinct
        trans += r2.generated
        more = xc.exported(r2, "plan")
        cov["tlc"]["RouterCheck_ev2"]["behaviours"] = len(more)
        more = [b for b in more if any(len(p["evs"]) == 2 for p in b["plan"])]
        rng.shuffle(more)
        behs += more[:2800]
        for i, b in enumerate(behs):
            b["i"] = i
    if len(behs) < 700:
        raise vlib.InfraError("RouterCheck exported %d behaviours" % len(behs))

    def execute(items, tag):
        return xc.drive(ctx, binary, "vdr", items, tag, extra=["-par", "720"], timeout=240)

    summ, res = execute(behs, "vdr")
    cov["vdr_driver"] = summ
    if summ["waiters_at_end"]:
        judge.claim("X05:vdr:waiters", "%d waiter(s) registered in the process-wide table after every call returned" % summ["waiters_at_end"],
                    {"kind": "vdr", "behaviour": behs[0]}, lambda: "X05:vdr:waiters" if execute([behs[0]], "re")[0]["waiters_at_end"] else None)
    compared = 0
    for b in behs:
        key, what = vdr_judge(b, res[b["i"]], judge.note_drift)
        if key == "inconclusive":
            judge.inconclusive += 1
            continue
        compared += 1
        if key:
            def again(b=b):
                _, rr = execute([b], "re")
                return vdr_judge(b, rr[b["i"]], lambda *a: None)[0]
            judge.claim(key, what, {"kind": "vdr", "behaviour": b}, again)
    obs = {"ObsAnySource": 0, "ObsV6WakesV4": 0, "ObsSendErrorAsTimeout": 0}
    for b in behs:
        kinds = {e["kind"] for p in b["plan"] if p["end"] == "wake" for e in p["evs"][-1:]}
        obs["ObsAnySource"] += "othersrc" in kinds
        obs["ObsV6WakesV4"] += "v6" in kinds
        obs["ObsSendErrorAsTimeout"] += any(p["fail"] for p in b["plan"])
    cov["vdr"] = {"behaviours": len(behs), "compared": compared, "observed_sites": obs}
    return states, trans, behs


# ---------------------------------------------------------------------------------------------------------------- (b)
def wi_calls(b):
    return "target %s (%s), rounds [%s]" % (b["init"]["target"], b["init"]["state"],
                                            "; ".join(("write refused" if p["fail"] else ",".join(e["kind"] + "@" + e["when"] for e in p["evs"]) or "no message")
                                                      for p in b["plan"]))


def wi_last_binding(b):
    mac = None
    for p in b["plan"]:
        for e in p["evs"]:
            if e["kind"] in ("reply", "request", "ip"):
                mac = "m1"
            elif e["kind"] == "reply2":
                mac = "m2"
    return mac


def wi_judge(b, r, drift):
    if r.get("pre"):
        return "pre", r["pre"]
    if r.get("inconclusive"):
        return "inconclusive", r["inconclusive"]
    ctxt = "WhoIs, %s" % wi_calls(b)
    if r["res"] == "panic":
        return "X05:whois:panic", "%s panicked: %s" % (ctxt, r.get("panic"))
    at_last_look = b["res"]["r"] == "nil" and len(b["plan"]) == 3       # repaired mechanism: found by the look after the third wait
    if at_last_look and r["res"] == "notfound" and r["table_after"] != "absent":
        return "X05:WhoIsLastAnswerIgnored", ("%s returned ErrNotFound although the host table binds the address to %s since before it returned "
                                              "(no look at the table after the third request: the repair of /repo 27a6daa is missing)" % (ctxt, r["table_after"]))
    if b["kf"]:
        # (W2): the answer that arrived after the third request binds ip before WhoIs returns
        if r["res"] == "notfound" and r["table_after"] != "absent":
            return "X05:WhoIsLastAnswerIgnored", ("%s returned ErrNotFound although the host table binds the address to %s since before it returned "
                                                  "(arp.go:218-235: no look at the table after the third request)" % (ctxt, r["table_after"]))
        if r["res"] == "nil" and r["mac"] == wi_last_binding(b) and r["ip_ok"]:
            drift("X05:whois:lastanswer", "the answer to the third request is honoured (the specification records that the code ignores it)")
        else:
            return "X05:whois:res", "%s returned %s / %s" % (ctxt, r["res"], r["mac"])
    else:
        if r["res"] != b["res"]["r"]:
            return "X05:whois:res", "%s returned %s, expected %s" % (ctxt, r["res"], b["res"]["r"])
        if r["mac"] != b["res"]["mac"] or not r["ip_ok"]:
            return "X05:whois:mac", "%s returned MAC %s (address field ok: %s), the table binds the address to %s" % (ctxt, r["mac"], r["ip_ok"], b["res"]["mac"])
    if r["sent"] != b["sent"]:
        return "X05:whois:requests", "%s wrote %d request(s), expected %d" % (ctxt, r["sent"], b["sent"])
    if r["wf"]:
        return "X05:whois:wellformed", "%s: %s" % (ctxt, r["wf"])
    for n, g in enumerate(r["gaps"]):
        if g < 50 * (n + 1) - 1:
            drift("X05:whois:pacing", "requests %d and %d are %d ms apart (the code sleeps %d ms)" % (n + 1, n + 2, g, 50 * (n + 1)))
    return None, None


def part_whois(ctx, binary, judge, cov):
    quick = ctx.quick
    rng = random.Random(ctx.seed)
    maxev = 1 if quick else 2
    r = xc.tlc_ok(ctx, "ArpQuery", aq_cfg("whois", maxev), "whois MaxEv %d" % maxev, timeout=900)
    cov["tlc"]["ArpQuery_whois_ev%d" % maxev] = r.summary()
    allb = xc.exported(r, "plan")
    cov["tlc"]["ArpQuery_whois_ev%d" % maxev]["behaviours"] = len(allb)
    cap = 3000 if quick else 9000
    if len(allb) > cap:
        short = [b for b in allb if len(b["plan"]) < 3]
        rest = [b for b in allb if len(b["plan"]) >= 3]
        rng.shuffle(rest)
        behs = short + rest[:max(0, cap - len(short))]
    else:
        behs = allb
    for i, b in enumerate(behs):
        b["i"] = i

    def execute(items, tag):
        return xc.drive(ctx, binary, "whois", items, tag, timeout=240)

    summ, res = execute(behs, "whois")
    compared = pre = kf = 0
    for b in behs:
        key, what = wi_judge(b, res[b["i"]], judge.note_drift)
        if key == "pre":
            pre += 1
            continue
        if key == "inconclusive":
            judge.inconclusive += 1
            continue
        compared += 1
        kf += bool(b["kf"])
        if key:
            def again(b=b):
                _, rr = execute([b], "re")
                return wi_judge(b, rr[b["i"]], lambda *a: None)[0]
            judge.claim(key, what, {"kind": "whois", "behaviour": b}, again)
    if pre > len(behs) // 20:
        raise vlib.InfraError("WhoIs: the initial table state could not be established for %d of %d behaviours" % (pre, len(behs)))
    cov["whois"] = {"behaviours": len(behs), "compared": compared, "precondition_failed": pre, "sessions": summ["sessions"],
                    "behaviours_at_site_KfLastAnswerIgnored": kf, "last_look_modelled": last_look(),
                    "behaviours_answered_by_the_last_look": sum(1 for b in behs if b["res"]["r"] == "nil" and len(b["plan"]) == 3),
                    "observed_sites": {"ObsOfflineEntryAnswers": sum(1 for b in behs if b.get("obs"))}}
    return r.distinct, r.generated, behs


def sc_judge(v, r, drift):
    ctxt = "Scan of a /%d LAN (NIC at host number %d, router at %s) with faults %s" % (
        v["cfg"]["bits"], v["cfg"]["host"], v["cfg"]["router"] or "an address outside", json.dumps(v["faults"]))
    if r.get("setup"):
        return "setup", r["setup"]
    if r["res"] == "panic":
        return "X05:scan:panic", "%s panicked: %s" % (ctxt, r.get("panic"))
    if r["res"] != v["res"]:
        return "X05:scan:res", "%s returned %s, expected %s" % (ctxt, r["res"], v["res"])
    if r["sent"] != v["sent"]:
        a, e = r["sent"], v["sent"]
        d = next((i for i in range(min(len(a), len(e))) if a[i] != e[i]), min(len(a), len(e)))
        return "X05:scan:requests", ("%s wrote %d requests, expected %d; first difference at request %d (host number %s, expected %s)" %
                                     (ctxt, len(a), len(e), d + 1, a[d] if d < len(a) else "none", e[d] if d < len(e) else "none"))
    if r["after_close"]:
        return "X05:scan:afterclose", "%s: %d request(s) written after Close returned" % (ctxt, r["after_close"])
    if r["wf"]:
        return "X05:scan:wellformed", "%s: %s" % (ctxt, r["wf"])
    if 0 <= r["min_gap_ms"] < 7 and not any(f["kind"] == "temp" for f in v["faults"]):
        drift("X05:scan:pacing", "two requests %d ms apart (the code sleeps 8 ms)" % r["min_gap_ms"])
    return None, None


def part_scan(ctx, binary, judge, cov):
    quick = ctx.quick
    rng = random.Random(ctx.seed)
    r = xc.tlc_ok(ctx, "ArpQuery", aq_cfg("scan", bits="{28, 29, 30, 31, 32}", faults=2), "scan /28../32", timeout=600)
    cov["tlc"]["ArpQuery_scan_small"] = r.summary()
    vecs = xc.exported(r, "cfg")
    r24 = xc.tlc_ok(ctx, "ArpQuery", aq_cfg("scan", bits="{24}", faults=1 if quick else 2), "scan /24", timeout=900)
    cov["tlc"]["ArpQuery_scan_24"] = r24.summary()
    big = xc.exported(r24, "cfg")
    cov["tlc"]["ArpQuery_scan_24"]["vectors"] = len(big)
    rng.shuffle(big)
    nofault = [v for v in big if not v["faults"]]
    vecs += nofault[:3 if quick else 16] + [v for v in big if v["faults"]][:45 if quick else 400]     # 2 s of real time each, 48 in flight
    for i, v in enumerate(vecs):
        v["i"] = i

    def execute(items, tag):
        return xc.drive(ctx, binary, "scan", items, tag, timeout=400)

    _, res = execute(vecs, "scan")
    compared = setup = 0
    for v in vecs:
        key, what = sc_judge(v, res[v["i"]], judge.note_drift)
        if key == "setup":
            setup += 1
            vlib.log("  scan vector not executable: %s: %s" % (json.dumps(v["cfg"]), what))
            continue
        compared += 1
        if key:
            def again(v=v):
                _, rr = execute([v], "re")
                return sc_judge(v, rr[v["i"]], lambda *a: None)[0]
            judge.claim(key, what, {"kind": "scan", "vector": v}, again)
    if setup > len(vecs) // 10:
        raise vlib.InfraError("Scan: %d of %d configurations could not be set up" % (setup, len(vecs)))
    cov["scan"] = {"vectors": len(vecs), "compared": compared, "not_executable": setup,
                   "requests_expected": sum(len(v["sent"]) for v in vecs),
                   "observed_sites": {"ObsTempErrorSkipsAddress": sum(1 for v in vecs if any(f["kind"] == "temp" for f in v["faults"]))}}
    return r.distinct + r24.distinct, r.generated + r24.generated, vecs


# -------------------------------------------------------------------------------------------------------------------
def run(ctx):
    binary = vlib.go_build(ctx, "extradrv2")
    cov = ctx.coverage
    cov["tlc"] = {}
    judge = xc.Judge(ctx)
    s1, t1, behs = part_vdr(ctx, binary, judge, cov)
    s2, t2, wib = part_whois(ctx, binary, judge, cov)
    s3, t3, vecs = part_scan(ctx, binary, judge, cov)
    judge.finish()
    n = len(behs) + len(wib) + len(vecs)
    distinct = ({vlib.digest(b["plan"]) for b in behs} | {vlib.digest([b["init"], b["plan"]]) for b in wib} |
                {vlib.digest([v["cfg"], v["faults"]]) for v in vecs})
    mid = behs[len(behs) // 2]
    cov.update({
        "states": s1 + s2 + s3, "transitions": t1 + t2 + t3,
        "traces_validated_against_impl": n, "evaluations": n, "distinct_nontrivial": len(distinct),
        "rule": "one case = one call of ValidateDefaultRouter / WhoIs / Scan on a real session with the environment of one terminal state of "
                "the specification (messages handed to Session.Parse inside or right after the write, write failures, Close); result, frames "
                "written, identifiers, waiter table and host table compared with the specification",
        "samples": [{"vdr": {"plan": mid["plan"], "res": mid["res"], "frames": mid["frames"]}},
                    {"whois": {k: wib[len(wib) // 2][k] for k in ("init", "plan", "res", "sent", "kf")}},
                    {"scan": {k: (vecs[0][k] if k != "sent" else vecs[0][k][:8]) for k in ("cfg", "faults", "sent", "res")}}],
        "exhaustive": ctx.quick,
    })
    ctx.assumptions += [
        "ValidateDefaultRouter's timeouts are fixed by the code (2 s): a ping the specification lets time out waits for the code's own timer; "
        "messages are handed to Session.Parse from inside the connection's WriteTo or at once by another goroutine, and a behaviour whose "
        "injection was completed later than 1 s (WhoIs: 25 ms of the 50 ms sleep) after the write is inconclusive, not compared",
        "behaviours with timeouts share a session and the process-wide waiter table, one client address each (identifiers then only checked "
        "for distinctness); behaviours without timeouts run alone and their identifiers are compared with the table counter",
        "one message at a time goes through Session.Parse (the library has one reader goroutine)",
        "NICInfo.HomeLAN4 is masked (GetNICInfo masks it); Scan of a /16 (65 534 requests, 9 minutes) is not executed",
        "the thorough tier replays a seeded sample of the MaxEv = 2 behaviours (all of them are model-checked)",
    ]


def replay(ctx, path):
    obj = xc.load_replay(path)
    binary = vlib.go_build(ctx, "extradrv2")
    kind = obj.get("kind")
    item = dict(obj.get("behaviour") or obj.get("vector"))
    item["i"] = 0
    sub, judge = {"vdr": ("vdr", vdr_judge), "whois": ("whois", wi_judge), "scan": ("scan", sc_judge)}[kind]
    for _ in range(3):
        _, res = xc.drive(ctx, binary, sub, [item], "replay")
        key, what = judge(item, res[0], lambda *a: None)
        if key and key.startswith("X05:"):
            print("VIOLATION property=%s replay=%s" % (ctx.pid, path))
            vlib.log("  " + what)
            return 1
    print("not reproduced")
    return 0
