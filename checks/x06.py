"""X06 -- the router-advertisement server of handlers/icmp_spoofer (icmp6radv.go: Handler6.StartRADVS, RADVS.SendRA, RADVS.Stop and
the advertisement written by Session.ICMP6SendRouterAdvertisement)          (spec/Radvs.tla; driver harness/cmd/extradrv2 radvs)

Statement (written by the verification team; the component has no listed property):
 (R1) every advertisement the server writes is a well-formed ICMPv6 router advertisement from the NIC's link-local address to the
      all-nodes group (hop limit 255, 33:33:00:00:00:01), and every configurable field is traced to its input: M / O flags = the
      managed / other arguments of StartRADVS; one prefix information option per configured prefix, in order, with the prefix, its
      length, its OnLink / Autonomous flags and its valid / preferred lifetimes; the RDNSS option (lifetime, servers) iff one is
      configured; the MTU option = the interface MTU; the source link-layer address = the NIC's MAC;
 (R2) a configuration that cannot be encoded (RDNSS without a server, a prefix with bits beyond its length) makes SendRA fail and
      nothing is written;
 (L1) after Stop returned, the instance's loop goroutine ends and writes nothing more;   (L2) Stop never blocks;
 (L3) an instance advertises its own configuration;   (L4) Handler6.Close ends the servers;   no call panics.
The code contradicts (R1) for the M / O flags and the prefix attributes, (L3) after a second Start and (L4): these are the open known
findings X06:FlagsIgnored, X06:PrefixAttributesIgnored, X06:SharedRouterRecord, X06:CloseLeavesServers.  (L2) was contradicted at the
third Stop of an instance until /repo 5a0211c (X06:StopBlocks, fixed: the constant StopNonBlocking of the specification follows the
status of that entry, and a tree without the repair is reported with that key again) (the package comment calls the server "INCOMPLETE and not working yet").  The specification records what the
code does at each site (mechanism level) next to the property-level value; the check reports a known finding when the real code
behaves as recorded and DRIFT when it behaves as the statement asks.  Constants of the send function without a configuration input
(CurHopLimit 64, router lifetime 30 min, DNSSL "lan" / 20 min, reachable / retransmit 0) are mechanism level: a difference is DRIFT.
Without a prefix nothing is advertised at all, and a router solicitation is not answered (observed behaviour).

Pipeline: TLC enumerates the configuration vectors (2 x 2 flags, prefix lists up to MaxPrefixes over four prefixes, four RDNSS
shapes, three MTUs) with the reference record Ra / Want and per-vector lemmas, and explores the life cycle (Start x 3 configurations,
SendRA, Stop, router solicitation, Handler6.Close, in the thorough tier the two minute ticker) under a (state, last call) view.
extradrv2 builds each configuration on a real handler, captures the frames on a recording connection and decodes them with the
harness' reference decoder plus independent option decoders; behaviours are replayed call by call with the advertisements written
and the number of live loop goroutines (stack dump) after every call."""
import concurrent.futures
import json

import extras2_common as xc
import vlib

LEVEL = "model_checking"

SITE_FIELDS = {"KfFlagsIgnored": {"hdr.managed", "hdr.other"},
               "KfPrefixAttributesIgnored": {"prefix.onlink", "prefix.auto", "prefix.valid", "prefix.pref"}}
SITE_KEY = {"KfFlagsIgnored": "X06:FlagsIgnored", "KfPrefixAttributesIgnored": "X06:PrefixAttributesIgnored",
            "KfStopBlocks": "X06:StopBlocks", "KfSharedRouterRecord": "X06:SharedRouterRecord", "KfCloseLeavesServers": "X06:CloseLeavesServers"}
SITE_WHAT = {
    "KfFlagsIgnored": "StartRADVS(managed, other, ..) stores the flags in the Router record, ICMP6SendRouterAdvertisement never reads them: the advertisement carries M = O = 0",
    "KfPrefixAttributesIgnored": "OnLink / Autonomous / ValidLifetime / PreferredLifetime of a configured PrefixInformation are replaced by 1 / 1 / 2 h / 30 min (layer_icmp6_ndp.go:236-245)",
    "KfStopBlocks": "RADVS.Stop is a blocking send on a channel of capacity 1 that only the running loop reads: the third Stop of an instance blocks for ever (icmp6radv.go:100-102)",
    "KfSharedRouterRecord": "all RADVS instances of a handler share one Router record (findOrCreateRouter by the NIC's link-local address): after a second StartRADVS the first instance advertises the second configuration",
    "KfCloseLeavesServers": "Handler6.Close does not end the RADVS loops (they listen to their own stop channel only): goroutines and periodic advertisements outlive the handler",
}
MECH_HDR = {"curhop", "lifetime", "reach", "retrans", "prf"}


def stop_nonblocking():
    """Radvs' constant StopNonBlocking follows known finding X06:StopBlocks (fixed by /repo 5a0211c)."""
    return xc.finding_fixed("X06:StopBlocks")


def cfg_text(part, maxp=2, depth=0, inst=0, tick=False):
    inv = "VecLemmas VecExport" if part == "vec" else "DepthOK BufOnlyWhenEnded LatestWins StopEndsLoop StopNeverBlocks LifeExport LifeCfgExport"
    return ("SPECIFICATION Spec\nCONSTANTS\n StopNonBlocking = " + ("TRUE" if stop_nonblocking() else "FALSE") + "\n Part = \"%s\"\n MaxPrefixes = %d\n MaxDepth = %d\n MaxInst = %d\n WithTick = %s\nINVARIANTS %s\n%sCHECK_DEADLOCK FALSE\n" %
            (part, maxp, depth, inst, "TRUE" if tick else "FALSE", inv, "VIEW ViewLast\n" if part == "life" else ""))


def ra_diff(act, want):
    """Fields in which a decoded advertisement differs from a reference record: names like hdr.managed, prefix.valid, options."""
    d = []
    for k, v in want["hdr"].items():
        if act["hdr"].get(k) != v:
            d.append("hdr." + k)
    if "otherflags" in act["hdr"]:
        d.append("hdr.otherflags")
    if [o["t"] for o in act["opts"]] != [o["t"] for o in want["opts"]]:
        return d + ["options"]
    for a, w in zip(act["opts"], want["opts"]):
        for k, v in w.items():
            if a.get(k) != v:
                d.append("%s.%s" % (w["t"], k))
    return d


def vec_judge(v, r, drift, sites_seen):
    c = v["cfg"]
    ctxt = "StartRADVS(managed=%s, other=%s, prefixes=%s, rdnss=%s) with MTU %d" % (
        c["managed"], c["other"], [p["prefix"] + "/" + str(p["plen"]) for p in c["prefixes"]], c["rdnss"]["id"], c["mtu"])
    if r.get("start") != "ok":
        return "X06:start:res", "%s: StartRADVS gave %s" % (ctxt, r.get("start"))
    exp_send = "error" if v["outcome"] == "error" else "ok"
    if r.get("sendra") != exp_send:
        return "X06:sendra:res", "%s: SendRA gave %s, expected %s (%s)" % (ctxt, r.get("sendra"), exp_send, v["outcome"])
    ras = r.get("ras") or []
    want_n = 2 if v["outcome"] == "sent" else 0       # the loop's first advertisement and the one of SendRA
    if len(ras) != want_n:
        return "X06:ra:count", "%s: %d advertisement(s) written, expected %d (%s)" % (ctxt, len(ras), want_n, v["outcome"])
    if r.get("leak"):
        return "X06:stop:goroutines", "%s: %d loop goroutine(s) alive after Stop returned" % (ctxt, r["leak"])
    for ra in ras:
        if ra["wf"]:
            return "X06:ra:wellformed", "%s: %s" % (ctxt, ra["wf"])
        d = ra_diff(ra, v["want"])
        mech = [f for f in d if f.startswith("hdr.") and f[4:] in MECH_HDR or f.startswith("dnssl.")]
        for f in mech:
            drift("X06:ra:" + f, "constant of the send function differs from the recorded value (%s)" % f)
        d = [f for f in d if f not in mech]
        if not d:
            if v["kf"]:
                drift("X06:ra:traced", "the advertisement carries the configured flags / prefix attributes (the specification records that the code ignores them)")
            continue
        allowed = set().union(*[SITE_FIELDS[s] for s in v["kf"]]) if v["kf"] else set()
        as_code = not [f for f in ra_diff(ra, v["ra"]) if f in d]
        if set(d) <= allowed and as_code:
            for s in v["kf"]:
                if set(d) & SITE_FIELDS[s]:
                    sites_seen[s] = sites_seen.get(s, 0) + 1
            continue
        bad = [f for f in d if f not in allowed] or d
        return "X06:ra:" + bad[0], "%s: field(s) %s of the advertisement differ from the configuration: %s" % (ctxt, d, json.dumps(ra))
    return None, None


def ra_cfg_id(ra, cfgs):
    pl = [(o["prefix"], o["plen"]) for o in ra["opts"] if o["t"] == "prefix"]
    for c in cfgs.values():
        if [(p["prefix"], p["plen"]) for p in c["prefixes"]] == pl and pl:
            return c["id"]
    return "?" + json.dumps(pl)


def emits(c):
    return bool(c["prefixes"]) and all(p["masked"] for p in c["prefixes"]) and (c["rdnss"]["id"] == "none" or c["rdnss"]["servers"])


def beh_judge(b, r, drift, sites_seen, cfgs):
    calls = [s["a"] + (":" + s["x"] if s["x"] else "") + ("#%d" % s["i"] if s["i"] else "") for s in b["steps"]]
    still = set(r.get("still_blocked") or [])
    for n, (s, a) in enumerate(zip(b["steps"], r["steps"])):
        ctxt = "calls %s" % calls[:n + 1]
        e = s["exp"]
        sites = set(s["kf"])
        if a["res"].startswith("panic"):
            return "X06:%s:panic" % s["a"], "%s: the last call panicked: %s" % (ctxt, a["res"])
        blocked = a["res"] == "blocked" and n in still
        if e["res"] == "blocked":
            if blocked:
                sites_seen["KfStopBlocks"] = sites_seen.get("KfStopBlocks", 0) + 1
            else:
                drift("X06:stop:returns", "the third Stop of an instance returns (the specification records that it blocks)")
            continue
        if blocked:
            n_stops = sum(1 for t in b["steps"][:n + 1] if t["a"] == "stop" and t["i"] == s["i"])
            if n_stops >= 3:      # (L2) at the site of the former finding: the repair of /repo 5a0211c is missing
                return "X06:StopBlocks", "%s: the third Stop of an instance has not returned by the end of the behaviour (blocking send on the stop channel)" % ctxt
            return "X06:stop:blocked", "%s: Stop has not returned by the end of the behaviour" % ctxt
        if a["res"] not in ("ok", "blocked"):
            return "X06:%s:res" % s["a"], "%s: the last call gave %s" % (ctxt, a["res"])
        for ra in a["ras"]:
            if ra["wf"]:
                return "X06:ra:wellformed", "%s: %s" % (ctxt, ra["wf"])
        act = [ra_cfg_id(ra, cfgs) for ra in a["ras"]]
        if "KfSharedRouterRecord" in sites:
            own = [s["x"]] if emits(cfgs[s["x"]]) else []
            if act == e["ras"]:
                sites_seen["KfSharedRouterRecord"] = sites_seen.get("KfSharedRouterRecord", 0) + 1
            elif act == own:
                drift("X06:sendra:own", "an instance advertises its own configuration after a later Start (the specification records the shared record)")
            else:
                return "X06:sendra:ras", "%s: advertisements for %s written, the instance's configuration gives %s" % (ctxt, act, own)
        elif act != e["ras"]:
            return "X06:%s:ras" % s["a"], "%s: advertisements for %s written, expected %s" % (ctxt, act, e["ras"])
        if "KfCloseLeavesServers" in sites:
            if a["live"] == s["live"]:
                sites_seen["KfCloseLeavesServers"] = sites_seen.get("KfCloseLeavesServers", 0) + 1
            elif a["live"] == 0:
                drift("X06:hclose:ends", "Handler6.Close ends the loops (the specification records that it leaves them running)")
            else:
                return "X06:hclose:goroutines", "%s: %d loop goroutine(s) alive" % (ctxt, a["live"])
        elif a["live"] != s["live"]:
            return "X06:%s:goroutines" % s["a"], "%s: %d loop goroutine(s) alive, expected %d" % (ctxt, a["live"], s["live"])
        if "ObsNoSolicitedRA" in sites:
            sites_seen["ObsNoSolicitedRA"] = sites_seen.get("ObsNoSolicitedRA", 0) + 1
    if r.get("leak"):
        return "X06:stop:goroutines", "calls %s: %d loop goroutine(s) alive after every instance was stopped" % (calls, r["leak"])
    return None, None


def run(ctx):
    quick = ctx.quick
    binary = vlib.go_build(ctx, "extradrv2")
    cov = ctx.coverage
    cov["tlc"] = {}
    judge = xc.Judge(ctx)
    sites_seen = {}

    # ---- configuration vectors
    maxp = 2 if quick else 3
    rv = xc.tlc_ok(ctx, "Radvs", cfg_text("vec", maxp=maxp), "vectors", timeout=600, workers=1)
    cov["tlc"]["Radvs_vec"] = rv.summary()
    vecs = xc.exported(rv, "cfg")
    if len(vecs) < 1000:
        raise vlib.InfraError("Radvs exported %d vectors" % len(vecs))

    def exec_cases(items, tag, timeout=170):
        return xc.drive(ctx, binary, "radvs", items, tag, timeout=timeout)

    _, res = exec_cases(vecs, "vec")
    for v in vecs:
        key, what = vec_judge(v, res[v["i"]], judge.note_drift, sites_seen)
        if key:
            def again(v=v):
                _, rr = exec_cases([v], "re")
                return vec_judge(v, rr[v["i"]], lambda *a: None, {})[0]
            judge.claim(key, what, {"kind": "vec", "vector": v}, again)

    # ---- life cycle
    depth, inst = (5, 3) if quick else (6, 3)
    rl = xc.tlc_ok(ctx, "Radvs", cfg_text("life", depth=depth, inst=inst), "life cycle depth %d" % depth, timeout=900, workers=1)
    cov["tlc"]["Radvs_life"] = rl.summary()
    cfgl = [h["lifecfgs"] for h in rl.json if isinstance(h, dict) and "lifecfgs" in h]
    if not cfgl:
        raise vlib.InfraError("Radvs did not export its life-cycle configurations")
    cfgs = {c["id"]: c for c in cfgl[0]}
    behs = [{"i": i, "steps": h, "cfgs": cfgs} for i, h in enumerate(x for x in rl.json if isinstance(x, list))]
    if len(behs) < 300:
        raise vlib.InfraError("Radvs exported %d life-cycle behaviours" % len(behs))
    results = {}
    chunk = 2500
    for c in range(0, len(behs), chunk):
        _, rr = exec_cases(behs[c:c + chunk], "life%d" % c)
        results.update(rr)
    for b in behs:
        key, what = beh_judge(b, results[b["i"]], judge.note_drift, sites_seen, cfgs)
        if key:
            def again(b=b):
                _, rr = exec_cases([b], "re")
                return beh_judge(b, rr[b["i"]], lambda *a: None, {}, cfgs)[0]
            judge.claim(key, what, {"kind": "life", "behaviour": b}, again)
    states = rv.distinct + rl.distinct
    trans = rv.generated + rl.generated

    # ---- the two minute ticker (real time): thorough tier only, three behaviours in parallel processes
    ticks = []
    if not quick:
        rt = xc.tlc_ok(ctx, "Radvs", cfg_text("life", depth=4, inst=2, tick=True), "life cycle with ticker", timeout=600, workers=1)
        cov["tlc"]["Radvs_life_tick"] = rt.summary()
        states += rt.distinct
        trans += rt.generated
        want = [["start:cB", "tick:"], ["start:cA", "start:cB", "tick:"], ["start:cA", "start:cB", "stop:cA", "tick:"], ["start:cE", "tick:"]]
        for h in (x for x in rt.json if isinstance(x, list)):
            sig = [s["a"] + ":" + s["x"] for s in h]
            if sig in want and sig not in [t["sig"] for t in ticks]:
                ticks.append({"i": len(behs) + len(ticks), "steps": h, "cfgs": cfgs, "sig": sig})
        if len(ticks) != len(want):
            raise vlib.InfraError("Radvs (ticker): %d of %d wanted behaviours exported" % (len(ticks), len(want)))
        with concurrent.futures.ThreadPoolExecutor(max_workers=4) as ex:
            futs = {ex.submit(exec_cases, [t], "tick%d" % t["i"], 400): t for t in ticks}
            for f, t in futs.items():
                _, rr = f.result()
                key, what = beh_judge(t, rr[t["i"]], judge.note_drift, sites_seen, cfgs)
                if key:      # two minutes per attempt: re-executed once
                    _, r2 = exec_cases([t], "retick%d" % t["i"], 400)
                    if beh_judge(t, r2[t["i"]], lambda *a: None, {}, cfgs)[0] == key:
                        ctx.report(key, what + " (behaviour with the two minute ticker)", {"kind": "life", "behaviour": t})
                    else:
                        judge.unreproduced.append({"key": key, "what": what})

    # ---- sites: the code behaves as the specification records where the statement asks for more
    for s, n in sorted(sites_seen.items()):
        if s in SITE_KEY:
            for _ in range(min(n, 2)):
                ctx.report(SITE_KEY[s], SITE_WHAT[s], {"kind": "known-finding-site", "site": s})
    judge.finish()
    n = len(vecs) + len(behs) + len(ticks)
    distinct = {vlib.digest(v["cfg"]) for v in vecs} | {vlib.digest([[s["a"], s["x"], s["i"]] for s in b["steps"]]) for b in behs + ticks}
    cov.update({
        "states": states, "transitions": trans, "traces_validated_against_impl": n, "evaluations": n, "distinct_nontrivial": len(distinct),
        "stop_nonblocking_modelled": stop_nonblocking(), "vectors": len(vecs), "behaviours": len(behs), "ticker_behaviours": len(ticks), "sites": sites_seen,
        "vector_outcomes": {o: sum(1 for v in vecs if v["outcome"] == o) for o in ("sent", "silent", "error")},
        "rule": "one case = one configuration built on a real Handler6 (StartRADVS, SendRA, Stop; every frame decoded independently and compared "
                "field by field with the reference record) or one sequence of Start / SendRA / Stop / router solicitation / Handler6.Close calls "
                "(advertisements written and live loop goroutines after every call)",
        "samples": [{"vector": {k: vecs[len(vecs) // 2][k] for k in ("cfg", "outcome", "kf")}},
                    {"behaviour": [{k: s[k] for k in ("a", "x", "i", "exp", "live", "kf")} for s in behs[len(behs) // 2]["steps"]]}],
        "exhaustive": False,
    })
    ctx.assumptions += [
        "NICInfo.IFI is set (StartRADVS and the send function dereference it; a session built from Config{Conn, NICInfo} without IFI panics there)",
        "the first advertisement of a loop is written by its goroutine: the driver waits for the expected number of frames (10 s) and for the "
        "expected number of loop goroutines, counted in a stack dump by their creator",
        "a Stop the specification lets block is watched for 50 ms and again at the end of the behaviour; one that must return may take any time up to then",
        "the two minute ticker is not injectable (no hook): it is exercised in the thorough tier only, by four behaviours in real time",
        "sequential calls; startRADVS touches Handler6.LANRouters without the handler mutex (a data race with ProcessPacket, subject of C09-style checks, not modelled here)",
    ]


def replay(ctx, path):
    obj = xc.load_replay(path)
    binary = vlib.go_build(ctx, "extradrv2")
    kind = obj.get("kind")
    if kind == "known-finding-site":
        print("known-finding site: see findings/X06.md")
        return 0
    item = dict(obj.get("vector") or obj.get("behaviour"))
    item["i"] = 0
    for _ in range(3):
        _, res = xc.drive(ctx, binary, "radvs", [item], "replay", timeout=400)
        if kind == "vec":
            key, what = vec_judge(item, res[0], lambda *a: None, {})
        else:
            key, what = beh_judge(item, res[0], lambda *a: None, {}, item["cfgs"])
        if key:
            print("VIOLATION property=%s replay=%s" % (ctx.pid, path))
            vlib.log("  " + what)
            return 1
    print("not reproduced")
    return 0
