"""C01 -- Parsing is total and memory-safe on arbitrary bytes.
DESIGN.md section 6 / C01; spec/Frame.tla, spec/FrameVec.tla, harness/cmd/framedrv, checks/frame_common.py.

Property-level predicates (direct transcription of the statement), observed on the real code for every
concrete case of every abstract case TLC enumerates:
  - Session.Parse returns (no panic: recover; no hang: worker watchdog, SIGKILL backstop; no crash),
  - the complete observation (error, PayloadID, addresses, every Frame accessor, every getter of every
    valid view) is identical in three buffers that differ only in spare capacity and its content,
  - after a nil error every Frame accessor returns without panic and every returned slice lies inside
    [&b[0], &b[len]); for every view type IsValid()==nil implies every zero-argument getter returns
    without panic / hang and every returned slice lies inside the view; spare capacity is never written.
"""
import frame_common
import vlib

LEVEL = "exploration"


def run(ctx):
    run = frame_common.Run(ctx)
    counts = run.report("C01")
    nontrivial = run.executed(1)
    cov = ctx.coverage
    cov.update({
        "tlc": run.tlc.summary(),
        "vectors_enumerated_by_tlc": run.tlc.distinct,
        "evaluations": run.counts.get("cases", 0),
        "distinct_nontrivial": len(nontrivial),
        "rule": "one abstract case = one TLC state of FrameVec (Parse shape / view shape / field pattern); each is expanded to K=%d "
                "byte strings x three buffers per NIC configuration; distinct = digest of the abstract case; non-trivial = the real "
                "code was executed on it (Session.Parse ran, or IsValid()==nil and the getters were called)" % run.k,
        "parse_calls": run.counts.get("parses", 0), "getter_calls": run.counts.get("getter_calls", 0),
        "valid_views_observed": run.counts.get("valid_views", 0),
        "valid_views_by_type": {k[6:]: v for k, v in sorted(run.counts.items()) if k.startswith("valid_") and k != "valid_views"},
        "hangs_detected": run.hangs, "contradictions_by_key": counts,
        "session_configuration_vectors": run.counts.get("vectors_cfgparse", 0),
        "environment_vectors": {k[12:]: v for k, v in sorted(run.counts.items()) if k.startswith("vectors_env_")},
        "session_configurations_excluded": {k[13:]: v for k, v in run.counts.items() if k.startswith("cfg_excluded_")},
        "mechanism_conformant_cases": run.counts.get("mech_conformant", 0),
        "drift": run.drift(), "reflection": run.reflection_coverage(),
        "samples": run.samples(["parse", "view"]), "exhaustive": False,
    })
    vac = [v for v in run.meta["views"] if run.counts.get("valid_" + v, 0) == 0]
    if vac:
        raise vlib.InfraError("vacuous: no valid instance was observed for view type(s) %s" % vac)
    ctx.assumptions += frame_common.ASSUMPTIONS


def replay(ctx, path):
    return frame_common.replay(ctx, path)
